package main

// c01w — C01.l: the display width Vaxis assumes for an auto-measured cell is the measured width.
//
// render(), advance() and Window.Print* take the width of a cell whose Width is 0 from characterWidth(grapheme)
// and lay the row out with it: a grapheme of width w is written and the terminal is assumed to have advanced w
// columns (a width of 0 is drawn as a blank). If characterWidth answers anything but what the terminal will do
// with the grapheme — the measured width, RenderedWidth — every following cell of the run lands in another column
// than Vaxis believes. The rule evaluates characterWidth concretely on a set of probe strings (all 256 one-byte
// strings and a handful of multi-byte graphemes), forking at conditions that do not depend on the string (cache hit
// or miss, capability flags), and requires of every return it reaches that the value is
//
//	(a) the result of vx.RenderedWidth(<the string itself>) on the same instance, or
//	(b) loaded from a memo under the key <the string itself>, every store into which is (a) under its own key, or
//	(c) a number that equals the reference width of the probe (the reference table below: what all three width
//	    methods of gwidth answer for the probe; confirmed once by a probe test in a scratch copy of the repository:
//	    gwidth(p, m) for every probe p and m in {wcwidth, noZWJ, unicodeStd}) — so a fast path
//	    `len(s)==1 && 0x20<=s[0] && s[0]<0x7f -> 1` is accepted and `len(s)==1 && s[0]>=0x20 -> 1` is reported
//	    with the witness "\x7f".
//
// Anything else (a value the evaluator cannot trace, a branch on an unevaluable condition over the string that
// leads to a constant) is undecided. The evaluator (wMachine) is shared with C07.i (c07w.go).

import (
	"fmt"
	"go/ast"
	"go/constant"
	"go/printer"
	"go/token"
	"go/types"
	"os"
	"sort"
	"strings"
	"unicode/utf8"
)

func init() { registerExtra("C01", c01MeasuredWidth) }

// ---------------------------------------------------------------------------------------------------------------
// reference widths

type wProbe struct {
	s   string
	ref int // -1: the width methods disagree (or it is not recorded): no judgement on numbers
}

// wProbes: every one-byte string (C0 controls and DEL measure 0, everything else 1 — also the bytes >= 0x80, which
// all methods read as U+FFFD), the empty string, and multi-byte graphemes on which wcwidth, noZWJ and unicodeStd
// agree; three on which they do not (ref -1) exercise the key of a memo.
func wProbes() []wProbe {
	var out []wProbe
	for b := 0; b < 256; b++ {
		ref := 1
		if b < 0x20 || b == 0x7f {
			ref = 0
		}
		out = append(out, wProbe{string([]byte{byte(b)}), ref})
	}
	out = append(out,
		wProbe{"", 0}, wProbe{"é", 1}, wProbe{"中", 2}, wProbe{"ab", 2}, wProbe{"́", 0}, wProbe{"é", 1},
		wProbe{"\U0001F44D", 2}, wProbe{"‍", 0}, wProbe{"한", 2},
		wProbe{"\U0001F469‍\U0001F4BB", -1}, wProbe{"\U0001F44D\U0001F3FD", -1}, wProbe{"❤️", -1})
	return out
}

// ---------------------------------------------------------------------------------------------------------------
// values

type wKind int

const (
	wUnk wKind = iota
	wInt
	wBool
	wStr
	wCont  // a map / sync.Map used as a memo
	wTuple // results of a call
	wComp  // composite value (struct / array literal) with known or unknown parts
	wFunc  // function value: a declared function / bound method (fn, parts[0] = receiver) or a closure (lit, clo)
)

type wVal struct {
	k wKind
	i int64
	b bool
	s string
	// provenance
	depS     bool // computed from the probed string
	recv     bool // computed from state of the instance
	method   bool // a width method (graphemeWidthMethod) computed from the instance, or an expression of that type
	measured bool // RenderedWidth(<the string itself>) on the instance
	memo     *wAccess
	why      string // unknown: what it is
	// wCont
	cont   types.Object
	shared bool // package-level storage
	inst   bool // storage of the instance
	fn     *types.Func
	lit    *ast.FuncLit
	clo    *wFrame
	pre    []wVal // indices on the way to the container (one memo per method: caches[method][s])
	// wTuple / wComp
	parts []wVal
}

func (v wVal) known() bool { return v.k == wInt || v.k == wBool || v.k == wStr }

func (v wVal) String() string {
	switch v.k {
	case wInt:
		return fmt.Sprint(v.i)
	case wBool:
		return fmt.Sprint(v.b)
	case wStr:
		return fmt.Sprintf("%q", v.s)
	case wCont:
		if v.cont != nil {
			return "<memo " + v.cont.Name() + ">"
		}
		return "<map>"
	case wComp:
		return "<composite>"
	case wTuple:
		return "<tuple>"
	}
	switch {
	case v.measured:
		return "<measured width>"
	case v.memo != nil:
		return "<memo value>"
	case v.why != "":
		return "<" + v.why + ">"
	}
	return "<unknown>"
}

type wAccess struct {
	cont   types.Object
	shared bool
	inst   bool
	key    wVal
	val    wVal
	pos    token.Pos
	fn     string
	expr   string
}

type wAbort struct {
	why   string
	panic bool // the analysed program itself fails on this input (index out of range): not a matter of widths
}

type wCtl int

const (
	wNone wCtl = iota
	wReturn
	wBreak
	wContinue
)

type wFrame struct {
	fi    *FuncInfo
	info  *types.Info
	env   map[types.Object]wVal
	ret   []wVal
	rs    *ast.ReturnStmt
	lbl   string  // label of a pending break/continue
	outer *wFrame // closures: the frame the literal was created in
}

func (fr *wFrame) lookup(o types.Object) (wVal, bool) {
	for f := fr; f != nil; f = f.outer {
		if v, ok := f.env[o]; ok {
			return v, true
		}
	}
	return wVal{}, false
}

func (fr *wFrame) set(o types.Object, v wVal) {
	for f := fr.outer; f != nil; f = f.outer {
		if _, ok := f.env[o]; ok {
			f.env[o] = v
			return
		}
	}
	fr.env[o] = v
}

type wMachine struct {
	prog      *Program
	probe     string
	methodT   types.Type // graphemeWidthMethod
	choices   []bool
	nchoice   int
	imprecise string // non-empty: a branch was taken on a condition over the string that could not be evaluated
	steps     int
	depth     int
	reads     []*wAccess
	stores    []*wAccess
	visited   map[*FuncInfo]bool
	rootFn    *types.Func
}

func (m *wMachine) abort(format string, a ...any) { panic(wAbort{why: fmt.Sprintf(format, a...)}) }
func (m *wMachine) fail(what string)              { panic(wAbort{why: what, panic: true}) }

func (m *wMachine) tick(n ast.Node) {
	m.steps++
	if m.steps > 200000 {
		m.abort("evaluation does not terminate within the step budget")
	}
}

// decide: the branch taken on an unknown condition — both are explored over successive runs.
func (m *wMachine) decide(v wVal, what string) bool {
	if v.depS && m.imprecise == "" {
		m.imprecise = what
	}
	if m.nchoice < len(m.choices) {
		b := m.choices[m.nchoice]
		m.nchoice++
		return b
	}
	if len(m.choices) >= 24 {
		m.abort("too many undetermined branches")
	}
	m.choices = append(m.choices, false)
	m.nchoice++
	return false
}

// wOutcome: one complete run of the root function.
type wOutcome struct {
	rs        *ast.ReturnStmt
	val       wVal
	imprecise string
	reads     []*wAccess
	stores    []*wAccess
	aborted   string
	panics    bool
}

// wRunAll evaluates fi on probe along every combination of undetermined branches.
func wRunAll(prog *Program, fi *FuncInfo, probe string, methodT types.Type, visited map[*FuncInfo]bool) []wOutcome {
	var outs []wOutcome
	var choices []bool
	for runs := 0; runs < 256; runs++ {
		m := &wMachine{prog: prog, probe: probe, methodT: methodT, choices: choices, visited: visited}
		out := m.runRoot(fi)
		outs = append(outs, out)
		// next combination
		choices = m.choices
		if m.nchoice < len(choices) {
			choices = choices[:m.nchoice]
		}
		k := len(choices) - 1
		for k >= 0 && choices[k] {
			k--
		}
		if k < 0 {
			break
		}
		choices = append(append([]bool{}, choices[:k]...), true)
	}
	return outs
}

func (m *wMachine) runRoot(fi *FuncInfo) (out wOutcome) {
	defer func() {
		if r := recover(); r != nil {
			if a, ok := r.(wAbort); ok {
				out = wOutcome{aborted: a.why, panics: a.panic, reads: m.reads, stores: m.stores, imprecise: m.imprecise}
				return
			}
			panic(r)
		}
	}()
	info := fi.Pkg.TypesInfo
	m.rootFn = fi.Obj
	fr := &wFrame{fi: fi, info: info, env: map[types.Object]wVal{}}
	if fi.Decl.Recv != nil {
		for _, f := range fi.Decl.Recv.List {
			for _, nm := range f.Names {
				fr.env[info.Defs[nm]] = wVal{k: wUnk, recv: true, inst: true, why: "the instance"}
			}
		}
	}
	nstr := 0
	if fi.Decl.Type.Params != nil {
		for _, f := range fi.Decl.Type.Params.List {
			for _, nm := range f.Names {
				o := info.Defs[nm]
				if o == nil {
					continue
				}
				if bt, ok := o.Type().Underlying().(*types.Basic); ok && bt.Info()&types.IsString != 0 && nstr == 0 {
					fr.env[o] = wVal{k: wStr, s: m.probe, depS: true}
					nstr++
				} else if m.methodT != nil && types.Identical(o.Type(), m.methodT) {
					fr.env[o] = wVal{k: wUnk, method: true, why: "width method"}
				} else {
					fr.env[o] = wVal{k: wUnk, why: "parameter " + nm.Name}
				}
			}
		}
	}
	if nstr == 0 {
		m.abort("%s has no string parameter", fi.Name)
	}
	ctl := m.block(fr, fi.Decl.Body.List)
	if ctl != wReturn || fr.rs == nil || len(fr.ret) != 1 {
		m.abort("%s ends without returning one value", fi.Name)
	}
	return wOutcome{rs: fr.rs, val: fr.ret[0], imprecise: m.imprecise, reads: m.reads, stores: m.stores}
}

// ---------------------------------------------------------------------------------------------------------------
// statements

func (m *wMachine) block(fr *wFrame, list []ast.Stmt) wCtl {
	for _, s := range list {
		if c := m.stmt(fr, s); c != wNone {
			return c
		}
	}
	return wNone
}

func (m *wMachine) stmt(fr *wFrame, s ast.Stmt) wCtl { return m.stmtL(fr, s, "") }

// consumed: a break (or, for loops, a continue) that arrives at the construct labelled label is meant for it.
func (fr *wFrame) consumed(label string) bool {
	if fr.lbl == "" {
		return true
	}
	if fr.lbl == label {
		fr.lbl = ""
		return true
	}
	return false
}

func (m *wMachine) stmtL(fr *wFrame, s ast.Stmt, label string) wCtl {
	m.tick(s)
	switch t := s.(type) {
	case nil:
		return wNone
	case *ast.EmptyStmt, *ast.DeferStmt, *ast.GoStmt:
		// deferred unlocks / logging: no effect on the value
		return wNone
	case *ast.BlockStmt:
		c := m.block(fr, t.List)
		if c == wBreak && label != "" && fr.lbl == label {
			fr.lbl = ""
			return wNone
		}
		return c
	case *ast.ExprStmt:
		if call, ok := unparen(t.X).(*ast.CallExpr); ok {
			m.effectCall(fr, call)
		}
		return wNone
	case *ast.DeclStmt:
		gd, ok := t.Decl.(*ast.GenDecl)
		if !ok || gd.Tok != token.VAR {
			return wNone
		}
		for _, sp := range gd.Specs {
			vs := sp.(*ast.ValueSpec)
			m.define(fr, identsToExprs(vs.Names), vs.Values, true, vs)
		}
		return wNone
	case *ast.AssignStmt:
		m.assign(fr, t)
		return wNone
	case *ast.IncDecStmt:
		v := m.expr(fr, t.X)
		if v.k == wInt {
			if t.Tok == token.INC {
				v.i++
			} else {
				v.i--
			}
		}
		m.store(fr, t.X, v, t)
		return wNone
	case *ast.ReturnStmt:
		if len(t.Results) == 0 {
			m.abort("naked return in %s", fr.fi.Name)
		}
		var vals []wVal
		if len(t.Results) == 1 {
			v := m.expr(fr, t.Results[0])
			if v.k == wTuple {
				vals = v.parts
			} else {
				vals = []wVal{v}
			}
		} else {
			for _, r := range t.Results {
				vals = append(vals, m.expr(fr, r))
			}
		}
		fr.ret, fr.rs = vals, t
		return wReturn
	case *ast.IfStmt:
		if t.Init != nil {
			if c := m.stmt(fr, t.Init); c != wNone {
				return c
			}
		}
		cv := m.expr(fr, t.Cond)
		var take bool
		if cv.k == wBool {
			take = cv.b
		} else {
			take = m.decide(cv, "the condition "+types.ExprString(t.Cond))
		}
		if take {
			c := m.block(fr, t.Body.List)
			if c == wBreak && label != "" && fr.lbl == label {
				fr.lbl = ""
				return wNone
			}
			return c
		}
		if t.Else != nil {
			return m.stmtL(fr, t.Else, label)
		}
		return wNone
	case *ast.SwitchStmt:
		return m.switchStmt(fr, t, label)
	case *ast.ForStmt:
		if t.Init != nil {
			m.stmt(fr, t.Init)
		}
		for {
			m.tick(t)
			if t.Cond != nil {
				cv := m.expr(fr, t.Cond)
				if cv.k != wBool {
					m.abort("loop condition %s cannot be evaluated", types.ExprString(t.Cond))
				}
				if !cv.b {
					break
				}
			}
			c := m.block(fr, t.Body.List)
			if c == wReturn {
				return c
			}
			if c == wBreak {
				if !fr.consumed(label) {
					return c
				}
				break
			}
			if c == wContinue && !fr.consumed(label) {
				return c
			}
			if t.Post != nil {
				m.stmt(fr, t.Post)
			}
		}
		return wNone
	case *ast.RangeStmt:
		return m.rangeStmt(fr, t, label)
	case *ast.BranchStmt:
		if t.Label != nil {
			fr.lbl = t.Label.Name
		}
		switch t.Tok {
		case token.BREAK:
			return wBreak
		case token.CONTINUE:
			return wContinue
		}
		m.abort("%s statement in %s", t.Tok, fr.fi.Name)
	case *ast.LabeledStmt:
		return m.stmtL(fr, t.Stmt, t.Label.Name)
	}
	m.abort("statement %T in %s is not interpreted", s, fr.fi.Name)
	return wNone
}

func identsToExprs(ids []*ast.Ident) []ast.Expr {
	out := make([]ast.Expr, len(ids))
	for i, id := range ids {
		out[i] = id
	}
	return out
}

func (m *wMachine) switchStmt(fr *wFrame, t *ast.SwitchStmt, label string) wCtl {
	if t.Init != nil {
		m.stmt(fr, t.Init)
	}
	var tag wVal
	hasTag := t.Tag != nil
	if hasTag {
		tag = m.expr(fr, t.Tag)
	}
	var dflt *ast.CaseClause
	run := func(cc *ast.CaseClause) wCtl {
		for _, s := range cc.Body {
			if br, ok := s.(*ast.BranchStmt); ok && br.Tok == token.FALLTHROUGH {
				m.abort("fallthrough in %s", fr.fi.Name)
			}
		}
		c := m.block(fr, cc.Body)
		if c == wBreak && fr.consumed(label) {
			return wNone
		}
		return c
	}
	for _, cl := range t.Body.List {
		cc := cl.(*ast.CaseClause)
		if cc.List == nil {
			dflt = cc
			continue
		}
		for _, e := range cc.List {
			ev := m.expr(fr, e)
			var cond wVal
			if hasTag {
				cond = m.compare(token.EQL, tag, ev)
			} else {
				cond = ev
			}
			take := false
			if cond.k == wBool {
				take = cond.b
			} else {
				take = m.decide(cond, "the case "+types.ExprString(e))
			}
			if take {
				return run(cc)
			}
		}
	}
	if dflt != nil {
		return run(dflt)
	}
	return wNone
}

func (m *wMachine) rangeStmt(fr *wFrame, t *ast.RangeStmt, label string) wCtl {
	x := m.expr(fr, t.X)
	bind := func(e ast.Expr, v wVal) {
		if e == nil {
			return
		}
		if id, ok := e.(*ast.Ident); ok && id.Name == "_" {
			return
		}
		m.store(fr, e, v, t)
	}
	iter := func() wCtl {
		c := m.block(fr, t.Body.List)
		if c == wContinue && fr.consumed(label) {
			return wNone
		}
		return c
	}
	switch x.k {
	case wStr:
		for i, r := range x.s {
			m.tick(t)
			bind(t.Key, wVal{k: wInt, i: int64(i), depS: x.depS})
			bind(t.Value, wVal{k: wInt, i: int64(r), depS: x.depS})
			c := iter()
			if c == wReturn {
				return c
			}
			if c == wBreak {
				if !fr.consumed(label) {
					return c
				}
				break
			}
			if c == wContinue {
				return c
			}
		}
		return wNone
	case wInt:
		for i := int64(0); i < x.i; i++ {
			m.tick(t)
			bind(t.Key, wVal{k: wInt, i: i, depS: x.depS})
			c := iter()
			if c == wReturn || c == wContinue {
				return c
			}
			if c == wBreak {
				if !fr.consumed(label) {
					return c
				}
				break
			}
		}
		return wNone
	case wComp:
		for i, p := range x.parts {
			m.tick(t)
			bind(t.Key, wVal{k: wInt, i: int64(i)})
			bind(t.Value, p)
			c := iter()
			if c == wReturn || c == wContinue {
				return c
			}
			if c == wBreak {
				if !fr.consumed(label) {
					return c
				}
				break
			}
		}
		return wNone
	}
	m.abort("range over %s cannot be evaluated", types.ExprString(t.X))
	return wNone
}

func (m *wMachine) assign(fr *wFrame, t *ast.AssignStmt) {
	switch t.Tok {
	case token.DEFINE, token.ASSIGN:
		m.define(fr, t.Lhs, t.Rhs, false, t)
	default:
		// op=
		if len(t.Lhs) != 1 || len(t.Rhs) != 1 {
			m.abort("assignment form not interpreted")
		}
		var op token.Token
		switch t.Tok {
		case token.ADD_ASSIGN:
			op = token.ADD
		case token.SUB_ASSIGN:
			op = token.SUB
		case token.MUL_ASSIGN:
			op = token.MUL
		case token.OR_ASSIGN:
			op = token.OR
		case token.AND_ASSIGN:
			op = token.AND
		default:
			m.store(fr, t.Lhs[0], wVal{k: wUnk, depS: true, why: "result of " + t.Tok.String()}, t)
			return
		}
		v := m.binary(op, m.expr(fr, t.Lhs[0]), m.expr(fr, t.Rhs[0]))
		m.store(fr, t.Lhs[0], v, t)
	}
}

func (m *wMachine) define(fr *wFrame, lhs []ast.Expr, rhs []ast.Expr, isVar bool, at ast.Node) {
	if len(rhs) == 0 {
		for _, l := range lhs {
			m.store(fr, l, m.zero(fr.info.TypeOf(l)), at)
		}
		return
	}
	if len(lhs) == len(rhs) {
		vals := make([]wVal, len(rhs))
		for i, r := range rhs {
			vals[i] = m.expr(fr, r)
		}
		for i, l := range lhs {
			m.store(fr, l, vals[i], at)
		}
		return
	}
	if len(rhs) == 1 {
		v := m.exprMulti(fr, rhs[0], len(lhs))
		if v.k == wTuple && len(v.parts) == len(lhs) {
			for i, l := range lhs {
				m.store(fr, l, v.parts[i], at)
			}
			return
		}
	}
	m.abort("assignment form not interpreted")
}

func (m *wMachine) zero(t types.Type) wVal {
	if t == nil {
		return wVal{k: wUnk}
	}
	switch u := t.Underlying().(type) {
	case *types.Basic:
		switch {
		case u.Info()&types.IsBoolean != 0:
			return wVal{k: wBool}
		case u.Info()&types.IsString != 0:
			return wVal{k: wStr}
		case u.Info()&types.IsInteger != 0:
			return wVal{k: wInt}
		}
	}
	return wVal{k: wUnk, why: "zero value"}
}

// store: assignment to a local, to an element of a memo, or to anything else (ignored: not part of the value).
func (m *wMachine) store(fr *wFrame, l ast.Expr, v wVal, at ast.Node) {
	switch t := unparen(l).(type) {
	case *ast.Ident:
		if t.Name == "_" {
			return
		}
		o := fr.info.ObjectOf(t)
		if vr, ok := o.(*types.Var); ok && !vr.IsField() && vr.Pkg() != nil && vr.Parent() != vr.Pkg().Scope() {
			fr.set(o, v)
		}
	case *ast.IndexExpr:
		if _, isMap := typeUnder(fr.info.TypeOf(t.X)).(*types.Map); isMap {
			cv := m.expr(fr, t.X)
			kv := m.expr(fr, t.Index)
			if cv.k == wCont {
				m.stores = append(m.stores, &wAccess{cont: cv.cont, shared: cv.shared, inst: cv.inst, key: wKey(cv, kv), val: v, pos: t.Pos(), fn: fr.fi.Name, expr: types.ExprString(t)})
			}
		}
	}
}

// wKey: the key of an access to container cv — with the indices that selected the container, if any.
func wKey(cv, kv wVal) wVal {
	if len(cv.pre) == 0 {
		return kv
	}
	out := wVal{k: wComp, parts: append(append([]wVal{}, cv.pre...), kv)}
	for _, p := range out.parts {
		out.depS, out.recv, out.method = out.depS || p.depS, out.recv || p.recv, out.method || p.method
	}
	return out
}

func isContType(t types.Type) bool {
	t = derefType(t)
	if t == nil {
		return false
	}
	if _, ok := t.Underlying().(*types.Map); ok {
		return true
	}
	if n, ok := t.(*types.Named); ok && n.Obj().Pkg() != nil && n.Obj().Pkg().Path() == "sync" && n.Obj().Name() == "Map" {
		return true
	}
	return false
}

func typeUnder(t types.Type) types.Type {
	if t == nil {
		return nil
	}
	return t.Underlying()
}

// effectCall: a call whose result is discarded. Only stores into a memo matter (sync.Map.Store); locks, logging and
// everything else have no effect on the value.
func (m *wMachine) effectCall(fr *wFrame, call *ast.CallExpr) {
	fn := calleeOf(fr.info, call)
	if fn == nil {
		// a function value (closure): evaluated for its effects when it is one the evaluator holds
		if fv, failed := m.tryExpr(fr, call.Fun); !failed && fv.k == wFunc && fv.lit != nil {
			m.call(fr, call)
		}
		return
	}
	switch fullName(fn) {
	case "sync.Map.Store", "sync.Map.Swap":
		m.call(fr, call)
		return
	}
	// a helper of the repository that stores into the memo: evaluate it for its effects
	if fi := m.prog.FuncOfObj(fn); fi != nil && fi.Decl.Body != nil && shortPkg(fi.Pkg.PkgPath) == shortPkg(fr.fi.Pkg.PkgPath) && wTouchesMemo(fi) {
		m.call(fr, call)
	}
}

var wTouchCache = map[*FuncInfo]bool{}

// wTouchesMemo: the body contains a map store or a sync.Map store (directly).
func wTouchesMemo(fi *FuncInfo) bool {
	if v, ok := wTouchCache[fi]; ok {
		return v
	}
	info := fi.Pkg.TypesInfo
	found := false
	ast.Inspect(fi.Decl.Body, func(n ast.Node) bool {
		switch t := n.(type) {
		case *ast.AssignStmt:
			for _, l := range t.Lhs {
				if ix, ok := unparen(l).(*ast.IndexExpr); ok {
					if _, isMap := typeUnder(info.TypeOf(ix.X)).(*types.Map); isMap {
						found = true
					}
				}
			}
		case *ast.CallExpr:
			if fn := calleeOf(info, t); fn != nil {
				switch fullName(fn) {
				case "sync.Map.Store", "sync.Map.Swap", "sync.Map.LoadOrStore":
					found = true
				}
			}
		}
		return !found
	})
	wTouchCache[fi] = found
	return found
}

// ---------------------------------------------------------------------------------------------------------------
// expressions

func wFromConst(cv constant.Value) (wVal, bool) {
	switch cv.Kind() {
	case constant.Int:
		if i, ok := constant.Int64Val(cv); ok {
			return wVal{k: wInt, i: i}, true
		}
	case constant.Bool:
		return wVal{k: wBool, b: constant.BoolVal(cv)}, true
	case constant.String:
		return wVal{k: wStr, s: constant.StringVal(cv)}, true
	case constant.Float:
		if f, _ := constant.Float64Val(cv); f == float64(int64(f)) {
			return wVal{k: wInt, i: int64(f)}, true
		}
	}
	return wVal{}, false
}

func (m *wMachine) exprMulti(fr *wFrame, e ast.Expr, n int) wVal {
	e = unparen(e)
	switch t := e.(type) {
	case *ast.IndexExpr:
		if n == 2 {
			if _, isMap := typeUnder(fr.info.TypeOf(t.X)).(*types.Map); isMap {
				v := m.expr(fr, t)
				ok := wVal{k: wUnk, why: "memo hit"}
				if v.memo == nil {
					ok = wVal{k: wUnk, depS: v.depS, why: "map hit"}
				}
				return wVal{k: wTuple, parts: []wVal{v, ok}}
			}
		}
	case *ast.TypeAssertExpr:
		if n == 2 {
			v := m.expr(fr, t.X)
			return wVal{k: wTuple, parts: []wVal{v, {k: wUnk, why: "type assertion holds"}}}
		}
	case *ast.CallExpr:
		v := m.expr(fr, t)
		if v.k == wTuple {
			return v
		}
	}
	return wVal{k: wUnk}
}

// expr: the value of e; a value whose static type is the width-method type is marked as a method.
func (m *wMachine) expr(fr *wFrame, e ast.Expr) wVal {
	v := m.expr0(fr, e)
	if m.methodT != nil && v.k != wTuple && v.k != wCont {
		if t := fr.info.TypeOf(e); t != nil && types.Identical(t, m.methodT) {
			v.method = true
		}
	}
	return v
}

func (m *wMachine) expr0(fr *wFrame, e ast.Expr) wVal {
	m.tick(e)
	e = unparen(e)
	if tv, ok := fr.info.Types[e]; ok && tv.Value != nil {
		if v, ok := wFromConst(tv.Value); ok {
			return v
		}
	}
	switch t := e.(type) {
	case *ast.BasicLit:
		switch t.Kind {
		case token.INT:
			if cv := constant.MakeFromLiteral(t.Value, t.Kind, 0); cv.Kind() == constant.Int {
				if v, ok := wFromConst(cv); ok {
					return v
				}
			}
		case token.STRING, token.CHAR:
			if v, ok := wFromConst(constant.MakeFromLiteral(t.Value, t.Kind, 0)); ok {
				return v
			}
		}
	case *ast.Ident:
		switch t.Name {
		case "true":
			if fr.info.ObjectOf(t) == nil || fr.info.ObjectOf(t).Pkg() == nil {
				return wVal{k: wBool, b: true}
			}
		case "false":
			if fr.info.ObjectOf(t) == nil || fr.info.ObjectOf(t).Pkg() == nil {
				return wVal{k: wBool, b: false}
			}
		case "nil":
			return wVal{k: wUnk, why: "nil"}
		}
		o := fr.info.ObjectOf(t)
		if v, ok := fr.lookup(o); ok {
			return v
		}
		if f, ok := o.(*types.Func); ok {
			return wVal{k: wFunc, fn: f}
		}
		if vr, ok := o.(*types.Var); ok && vr.Pkg() != nil && vr.Parent() == vr.Pkg().Scope() {
			if tv, ok := m.table(fr, vr); ok {
				return tv
			}
			return m.container(fr, t, vr, true, false, wVal{k: wUnk, why: "package variable " + vr.Name()})
		}
		return m.typed(fr, e, wVal{k: wUnk, why: "variable " + t.Name})
	case *ast.SelectorExpr:
		if s := fr.info.Selections[t]; s != nil && s.Kind() == types.FieldVal {
			x := m.expr(fr, t.X)
			if x.k == wComp {
				// a field of a composite built in this run
				if st, ok := typeUnder(derefType(fr.info.TypeOf(t.X))).(*types.Struct); ok {
					for i := 0; i < st.NumFields() && i < len(x.parts); i++ {
						if st.Field(i) == s.Obj() {
							return x.parts[i]
						}
					}
				}
			}
			fv, _ := s.Obj().(*types.Var)
			base := wVal{k: wUnk, recv: x.recv, inst: x.inst, depS: x.depS, shared: x.shared, why: "field " + t.Sel.Name}
			if fv != nil {
				return m.container(fr, t, fv, x.shared, x.inst, base)
			}
			return m.typed(fr, e, base)
		}
		if s := fr.info.Selections[t]; s != nil && s.Kind() == types.MethodVal {
			if f, ok := s.Obj().(*types.Func); ok {
				return wVal{k: wFunc, fn: f, parts: []wVal{m.expr(fr, t.X)}}
			}
		}
		if f, ok := fr.info.Uses[t.Sel].(*types.Func); ok {
			return wVal{k: wFunc, fn: f}
		}
		// qualified identifier of another package
		if o, ok := fr.info.Uses[t.Sel].(*types.Var); ok {
			return wVal{k: wUnk, why: "variable " + o.Name()}
		}
	case *ast.StarExpr:
		return m.expr(fr, t.X)
	case *ast.UnaryExpr:
		x := m.expr(fr, t.X)
		switch t.Op {
		case token.NOT:
			if x.k == wBool {
				x.b = !x.b
				return x
			}
			return x
		case token.SUB:
			if x.k == wInt {
				x.i = -x.i
				return x
			}
		case token.ADD:
			return x
		case token.AND:
			return x
		}
		return wVal{k: wUnk, depS: x.depS, recv: x.recv, why: "result of " + t.Op.String()}
	case *ast.BinaryExpr:
		switch t.Op {
		case token.LAND, token.LOR:
			x := m.expr(fr, t.X)
			if x.k == wBool {
				if (t.Op == token.LAND) != x.b {
					return x // short circuit: false && _, true || _
				}
				y := m.expr(fr, t.Y)
				y.depS = y.depS || x.depS
				return y
			}
			// the left operand is open: the right one is evaluated only if that cannot fail
			y, failed := m.tryExpr(fr, t.Y)
			if failed {
				return wVal{k: wUnk, depS: true, recv: x.recv, why: "condition"}
			}
			if y.k == wBool && (t.Op == token.LAND) != y.b {
				// _ && false, _ || true
				y.depS = y.depS || x.depS
				return y
			}
			if y.k == wBool {
				return x // _ && true, _ || false
			}
			return wVal{k: wUnk, depS: x.depS || y.depS, recv: x.recv || y.recv, why: "condition"}
		}
		x, y := m.expr(fr, t.X), m.expr(fr, t.Y)
		switch t.Op {
		case token.EQL, token.NEQ, token.LSS, token.LEQ, token.GTR, token.GEQ:
			return m.compare(t.Op, x, y)
		}
		v := m.binary(t.Op, x, y)
		return m.wrapInt(fr, e, v)
	case *ast.IndexExpr:
		xt := typeUnder(fr.info.TypeOf(t.X))
		if _, isMap := xt.(*types.Map); isMap {
			cv := m.expr(fr, t.X)
			kv := m.expr(fr, t.Index)
			if cv.k == wCont {
				a := &wAccess{cont: cv.cont, shared: cv.shared, inst: cv.inst, key: wKey(cv, kv), pos: t.Pos(), fn: fr.fi.Name, expr: types.ExprString(t)}
				m.reads = append(m.reads, a)
				return wVal{k: wUnk, memo: a, why: "memo value"}
			}
			return wVal{k: wUnk, depS: kv.depS, why: "map element"}
		}
		x, i := m.expr(fr, t.X), m.expr(fr, t.Index)
		if x.k == wUnk && (x.shared || x.inst) && isContType(fr.info.TypeOf(t)) {
			// one of several memos held in package-level / instance storage: caches[method]
			if o := wContObj(fr.info, t.X); o != nil {
				return wVal{k: wCont, cont: o, shared: x.shared, inst: x.inst, recv: x.inst, pre: append(append([]wVal{}, x.pre...), i)}
			}
		}
		if sl, isSl := xt.(*types.Slice); isSl && x.k == wStr && i.k == wInt {
			if bt, ok := sl.Elem().Underlying().(*types.Basic); ok && bt.Kind() != types.Uint8 {
				rs := []rune(x.s)
				if i.i < 0 || i.i >= int64(len(rs)) {
					m.fail("index out of range")
				}
				return wVal{k: wInt, i: int64(rs[i.i]), depS: x.depS || i.depS}
			}
		}
		if x.k == wStr && i.k == wInt {
			if i.i < 0 || i.i >= int64(len(x.s)) {
				m.fail("index out of range")
			}
			return wVal{k: wInt, i: int64(x.s[i.i]), depS: x.depS || i.depS}
		}
		if x.k == wComp && i.k == wInt {
			if i.i < 0 || i.i >= int64(len(x.parts)) {
				m.fail("index out of range")
			}
			r := x.parts[i.i]
			r.depS = r.depS || i.depS || x.depS
			return r
		}
		return wVal{k: wUnk, depS: x.depS || i.depS, why: "element"}
	case *ast.SliceExpr:
		x := m.expr(fr, t.X)
		if x.k == wStr && !t.Slice3 {
			lo, hi := int64(0), int64(len(x.s))
			if t.Low != nil {
				l := m.expr(fr, t.Low)
				if l.k != wInt {
					return wVal{k: wUnk, depS: true, why: "slice"}
				}
				lo = l.i
			}
			if t.High != nil {
				h := m.expr(fr, t.High)
				if h.k != wInt {
					return wVal{k: wUnk, depS: true, why: "slice"}
				}
				hi = h.i
			}
			if lo < 0 || hi > int64(len(x.s)) || lo > hi {
				m.fail("slice bounds out of range")
			}
			return wVal{k: wStr, s: x.s[lo:hi], depS: x.depS}
		}
		return wVal{k: wUnk, depS: x.depS, why: "slice"}
	case *ast.TypeAssertExpr:
		return m.expr(fr, t.X)
	case *ast.CompositeLit:
		v := wVal{k: wComp}
		ct := typeUnder(fr.info.TypeOf(t))
		if st, ok := ct.(*types.Struct); ok {
			v.parts = make([]wVal, st.NumFields())
			for i := range v.parts {
				v.parts[i] = m.zero(st.Field(i).Type())
			}
			for i, el := range t.Elts {
				if kv, ok := el.(*ast.KeyValueExpr); ok {
					if id, ok := kv.Key.(*ast.Ident); ok {
						for j := 0; j < st.NumFields(); j++ {
							if st.Field(j).Name() == id.Name {
								v.parts[j] = m.expr(fr, kv.Value)
							}
						}
					}
				} else if i < len(v.parts) {
					v.parts[i] = m.expr(fr, el)
				}
			}
		} else {
			switch ct.(type) {
			case *types.Map:
				return wVal{k: wCont, why: "local map"}
			}
			for _, el := range t.Elts {
				if kv, ok := el.(*ast.KeyValueExpr); ok {
					el = kv.Value
				}
				v.parts = append(v.parts, m.expr(fr, el))
			}
		}
		for _, p := range v.parts {
			v.depS = v.depS || p.depS
			v.recv = v.recv || p.recv
			v.method = v.method || p.method
		}
		return v
	case *ast.CallExpr:
		return m.call(fr, t)
	case *ast.FuncLit:
		return wVal{k: wFunc, lit: t, clo: fr}
	}
	return m.typed(fr, e, wVal{k: wUnk, depS: true, why: "expression " + types.ExprString(e)})
}

// table: a package-level array/slice/struct variable that is initialised by a literal and never modified is its literal.
func (m *wMachine) table(fr *wFrame, vr *types.Var) (wVal, bool) {
	if vr.Pkg() != fr.fi.Pkg.Types || vr.Exported() {
		return wVal{}, false
	}
	var lit *ast.CompositeLit
	switch typeUnder(vr.Type()).(type) {
	case *types.Array, *types.Slice:
		lit = m.prog.ReadOnlyTable(vr)
		if lit != nil && c01PkgVarWritten(fr.fi.Pkg, vr) {
			lit = nil
		}
	case *types.Struct:
		for _, f := range fr.fi.Pkg.Syntax {
			for _, d := range f.Decls {
				if gd, ok := d.(*ast.GenDecl); ok && gd.Tok == token.VAR {
					for _, sp := range gd.Specs {
						for _, nm := range sp.(*ast.ValueSpec).Names {
							if fr.info.Defs[nm] == types.Object(vr) {
								lit = pkgStructLit(fr.info, nm)
							}
						}
					}
				}
			}
		}
	}
	if lit == nil || len(lit.Elts) > 4096 {
		return wVal{}, false
	}
	// evaluated in an empty environment: the literal sees constants only
	nf := &wFrame{fi: fr.fi, info: fr.info, env: map[types.Object]wVal{}}
	ct := typeUnder(vr.Type())
	if _, isStruct := ct.(*types.Struct); isStruct {
		return m.expr(nf, lit), true
	}
	// arrays may be keyed (0x7f: 0)
	n := int64(len(lit.Elts))
	if at, ok := ct.(*types.Array); ok {
		n = at.Len()
	}
	var elemT types.Type
	switch u := ct.(type) {
	case *types.Array:
		elemT = u.Elem()
	case *types.Slice:
		elemT = u.Elem()
	}
	idx := int64(0)
	vals := map[int64]wVal{}
	max := int64(-1)
	for _, el := range lit.Elts {
		if kv, ok := el.(*ast.KeyValueExpr); ok {
			k, isC := constInt(fr.info, kv.Key)
			if !isC {
				return wVal{}, false
			}
			idx = k
			el = kv.Value
		}
		if cl, isCL := el.(*ast.CompositeLit); isCL && cl.Type == nil {
			// elided element type: go/types records the type on the literal all the same
			vals[idx] = m.expr(nf, cl)
		} else {
			vals[idx] = m.expr(nf, el)
		}
		if idx > max {
			max = idx
		}
		idx++
	}
	if max+1 > n {
		n = max + 1
	}
	if n > 4096 {
		return wVal{}, false
	}
	out := wVal{k: wComp, parts: make([]wVal, n)}
	for i := int64(0); i < n; i++ {
		if v, ok := vals[i]; ok {
			out.parts[i] = v
		} else {
			out.parts[i] = m.zero(elemT)
		}
	}
	return out, true
}

func derefType(t types.Type) types.Type {
	if t == nil {
		return nil
	}
	if p, ok := t.Underlying().(*types.Pointer); ok {
		return p.Elem()
	}
	return t
}

// typed marks an unknown value whose static type is the width-method type.
func (m *wMachine) typed(fr *wFrame, e ast.Expr, v wVal) wVal {
	if m.methodT != nil {
		if t := fr.info.TypeOf(e); t != nil && types.Identical(t, m.methodT) {
			v.method = true
		}
	}
	return v
}

// container: a variable or field that holds a map / sync.Map is a memo container; anything else is the plain unknown.
func (m *wMachine) container(fr *wFrame, e ast.Expr, vr *types.Var, shared, inst bool, plain wVal) wVal {
	t := derefType(vr.Type())
	isCont := false
	if t != nil {
		if _, ok := t.Underlying().(*types.Map); ok {
			isCont = true
		}
		if n, ok := t.(*types.Named); ok && n.Obj().Pkg() != nil && n.Obj().Pkg().Path() == "sync" && n.Obj().Name() == "Map" {
			isCont = true
		}
	}
	if isCont {
		return wVal{k: wCont, cont: vr, shared: shared, inst: inst, recv: inst}
	}
	plain.shared = shared
	plain.inst = inst
	if inst {
		plain.recv = true
	}
	return m.typed(fr, e, plain)
}

// tryExpr evaluates e; a failure of the evaluation itself (index out of range under an open guard) is reported, not raised.
func (m *wMachine) tryExpr(fr *wFrame, e ast.Expr) (v wVal, failed bool) {
	defer func() {
		if r := recover(); r != nil {
			if _, ok := r.(wAbort); ok {
				failed = true
				return
			}
			panic(r)
		}
	}()
	return m.expr(fr, e), false
}

func (m *wMachine) wrapInt(fr *wFrame, e ast.Expr, v wVal) wVal {
	if v.k != wInt {
		return v
	}
	if bt, ok := typeUnder(fr.info.TypeOf(e)).(*types.Basic); ok {
		v.i = wWrap(v.i, bt.Kind())
	}
	return v
}

func wWrap(i int64, k types.BasicKind) int64 {
	switch k {
	case types.Uint8:
		return int64(uint8(i))
	case types.Int8:
		return int64(int8(i))
	case types.Uint16:
		return int64(uint16(i))
	case types.Int16:
		return int64(int16(i))
	case types.Uint32:
		return int64(uint32(i))
	case types.Int32:
		return int64(int32(i))
	}
	return i
}

func (m *wMachine) compare(op token.Token, x, y wVal) wVal {
	dep := x.depS || y.depS
	res := func(b bool) wVal { return wVal{k: wBool, b: b, depS: dep} }
	switch {
	case x.k == wInt && y.k == wInt:
		switch op {
		case token.EQL:
			return res(x.i == y.i)
		case token.NEQ:
			return res(x.i != y.i)
		case token.LSS:
			return res(x.i < y.i)
		case token.LEQ:
			return res(x.i <= y.i)
		case token.GTR:
			return res(x.i > y.i)
		case token.GEQ:
			return res(x.i >= y.i)
		}
	case x.k == wStr && y.k == wStr:
		switch op {
		case token.EQL:
			return res(x.s == y.s)
		case token.NEQ:
			return res(x.s != y.s)
		case token.LSS:
			return res(x.s < y.s)
		case token.LEQ:
			return res(x.s <= y.s)
		case token.GTR:
			return res(x.s > y.s)
		case token.GEQ:
			return res(x.s >= y.s)
		}
	case x.k == wBool && y.k == wBool:
		switch op {
		case token.EQL:
			return res(x.b == y.b)
		case token.NEQ:
			return res(x.b != y.b)
		}
	}
	// a comparison of the measured width (or a memoised one) with a number depends on the string
	if x.measured || y.measured || x.memo != nil || y.memo != nil {
		dep = true
	}
	return wVal{k: wUnk, depS: dep, recv: x.recv || y.recv, why: "comparison"}
}

func (m *wMachine) binary(op token.Token, x, y wVal) wVal {
	dep := x.depS || y.depS
	if x.k == wStr && y.k == wStr && op == token.ADD {
		return wVal{k: wStr, s: x.s + y.s, depS: dep}
	}
	if x.k == wInt && y.k == wInt {
		r := wVal{k: wInt, depS: dep}
		switch op {
		case token.ADD:
			r.i = x.i + y.i
		case token.SUB:
			r.i = x.i - y.i
		case token.MUL:
			r.i = x.i * y.i
		case token.QUO:
			if y.i == 0 {
				m.fail("division by zero")
			}
			r.i = x.i / y.i
		case token.REM:
			if y.i == 0 {
				m.fail("division by zero")
			}
			r.i = x.i % y.i
		case token.AND:
			r.i = x.i & y.i
		case token.OR:
			r.i = x.i | y.i
		case token.XOR:
			r.i = x.i ^ y.i
		case token.AND_NOT:
			r.i = x.i &^ y.i
		case token.SHL:
			if y.i < 0 || y.i > 62 {
				return wVal{k: wUnk, depS: dep, why: "shift"}
			}
			r.i = x.i << uint(y.i)
		case token.SHR:
			if y.i < 0 || y.i > 62 {
				return wVal{k: wUnk, depS: dep, why: "shift"}
			}
			r.i = x.i >> uint(y.i)
		default:
			return wVal{k: wUnk, depS: dep, why: "result of " + op.String()}
		}
		return r
	}
	if x.measured || y.measured || x.memo != nil || y.memo != nil {
		dep = true
	}
	return wVal{k: wUnk, depS: dep, recv: x.recv || y.recv, method: x.method || y.method, why: "result of " + op.String()}
}

func (m *wMachine) call(fr *wFrame, call *ast.CallExpr) wVal {
	info := fr.info
	// conversions
	if tv, ok := info.Types[call.Fun]; ok && tv.IsType() && len(call.Args) == 1 {
		x := m.expr(fr, call.Args[0])
		switch u := typeUnder(tv.Type).(type) {
		case *types.Basic:
			switch {
			case u.Info()&types.IsString != 0:
				if x.k == wInt {
					return wVal{k: wStr, s: string(rune(x.i)), depS: x.depS}
				}
				return x
			case u.Info()&types.IsInteger != 0:
				if x.k == wInt {
					x.i = wWrap(x.i, u.Kind())
				}
				return x
			}
		case *types.Slice:
			return x // []byte(s), []rune(s): kept as the string (indexing a []rune is not supported: see IndexExpr)
		}
		return m.typed(fr, call, x)
	}
	// builtins
	if id, ok := unparen(call.Fun).(*ast.Ident); ok {
		if _, isB := info.ObjectOf(id).(*types.Builtin); isB {
			switch id.Name {
			case "len":
				x := m.expr(fr, call.Args[0])
				if x.k == wStr {
					if _, isStr := typeUnder(info.TypeOf(call.Args[0])).(*types.Basic); isStr {
						return wVal{k: wInt, i: int64(len(x.s)), depS: x.depS}
					}
					if sl, isSl := typeUnder(info.TypeOf(call.Args[0])).(*types.Slice); isSl {
						if bt, ok := sl.Elem().Underlying().(*types.Basic); ok && bt.Kind() == types.Uint8 {
							return wVal{k: wInt, i: int64(len(x.s)), depS: x.depS}
						}
						return wVal{k: wInt, i: int64(utf8.RuneCountInString(x.s)), depS: x.depS}
					}
				}
				if x.k == wComp {
					return wVal{k: wInt, i: int64(len(x.parts)), depS: x.depS}
				}
				return wVal{k: wUnk, depS: x.depS, why: "length"}
			case "min", "max":
				var vals []wVal
				allInt := true
				for _, a := range call.Args {
					v := m.expr(fr, a)
					vals = append(vals, v)
					allInt = allInt && v.k == wInt
				}
				if allInt && len(vals) > 0 {
					r := vals[0]
					for _, v := range vals[1:] {
						if (id.Name == "min" && v.i < r.i) || (id.Name == "max" && v.i > r.i) {
							r.i = v.i
						}
						r.depS = r.depS || v.depS
					}
					return r
				}
				return wVal{k: wUnk, depS: true, why: id.Name}
			case "delete":
				return wVal{k: wUnk}
			}
			return wVal{k: wUnk, depS: true, why: "builtin " + id.Name}
		}
	}
	var args []wVal
	fn := calleeOf(info, call)
	var recv *wVal
	if fn == nil {
		fv := m.expr(fr, call.Fun)
		for _, a := range call.Args {
			args = append(args, m.expr(fr, a))
		}
		if fv.k != wFunc {
			v := wVal{k: wUnk, depS: true, why: "dynamic call"}
			for _, a := range args {
				v.recv, v.method = v.recv || a.recv, v.method || a.method
			}
			return v
		}
		if fv.lit != nil {
			return m.callLit(fv, args)
		}
		fn = fv.fn
		if len(fv.parts) == 1 {
			recv = &fv.parts[0]
		}
	} else {
		if sel, ok := unparen(call.Fun).(*ast.SelectorExpr); ok {
			if sl := info.Selections[sel]; sl != nil && sl.Kind() == types.MethodVal {
				rv := m.expr(fr, sel.X)
				recv = &rv
			}
		}
		for _, a := range call.Args {
			args = append(args, m.expr(fr, a))
		}
	}
	return m.typed(fr, call, m.invoke(fr, fn, recv, args, call))
}

// invoke: fn applied to evaluated arguments (recv: the receiver of a method).
func (m *wMachine) invoke(fr *wFrame, fn *types.Func, recv *wVal, args []wVal, call *ast.CallExpr) wVal {
	full := fullName(fn)
	arg := func(i int) wVal {
		if i < len(args) {
			return args[i]
		}
		return wVal{k: wUnk}
	}
	memoAcc := func(key wVal, val wVal) (*wAccess, bool) {
		if recv == nil || recv.k != wCont {
			return nil, false
		}
		return &wAccess{cont: recv.cont, shared: recv.shared, inst: recv.inst, key: wKey(*recv, key), val: val, pos: call.Pos(), fn: fr.fi.Name, expr: types.ExprString(call)}, true
	}
	switch full {
	case "unicode/utf8.RuneCountInString":
		if x := arg(0); x.k == wStr {
			return wVal{k: wInt, i: int64(utf8.RuneCountInString(x.s)), depS: x.depS}
		}
	case "unicode/utf8.ValidString":
		if x := arg(0); x.k == wStr {
			return wVal{k: wBool, b: utf8.ValidString(x.s), depS: x.depS}
		}
	case "unicode/utf8.RuneLen":
		if x := arg(0); x.k == wInt {
			return wVal{k: wInt, i: int64(utf8.RuneLen(rune(x.i))), depS: x.depS}
		}
	case "unicode/utf8.DecodeRuneInString":
		if x := arg(0); x.k == wStr {
			r, n := utf8.DecodeRuneInString(x.s)
			return wVal{k: wTuple, parts: []wVal{{k: wInt, i: int64(r), depS: x.depS}, {k: wInt, i: int64(n), depS: x.depS}}}
		}
	case "strings.HasPrefix", "strings.HasSuffix", "strings.Contains", "strings.ContainsRune":
		x, y := arg(0), arg(1)
		if x.k == wStr && y.k == wStr {
			var b bool
			switch fn.Name() {
			case "HasPrefix":
				b = strings.HasPrefix(x.s, y.s)
			case "HasSuffix":
				b = strings.HasSuffix(x.s, y.s)
			case "Contains":
				b = strings.Contains(x.s, y.s)
			}
			return wVal{k: wBool, b: b, depS: x.depS || y.depS}
		}
		if x.k == wStr && y.k == wInt && fn.Name() == "ContainsRune" {
			return wVal{k: wBool, b: strings.ContainsRune(x.s, rune(y.i)), depS: x.depS || y.depS}
		}
	case "sync.Map.Load":
		if a, ok := memoAcc(arg(0), wVal{}); ok {
			m.reads = append(m.reads, a)
			return wVal{k: wTuple, parts: []wVal{{k: wUnk, memo: a, why: "memo value"}, {k: wUnk, why: "memo hit"}}}
		}
	case "sync.Map.LoadOrStore":
		if a, ok := memoAcc(arg(0), arg(1)); ok {
			m.reads = append(m.reads, a)
			m.stores = append(m.stores, a)
			return wVal{k: wTuple, parts: []wVal{{k: wUnk, memo: a, why: "memo value"}, {k: wUnk, why: "memo hit"}}}
		}
	case "sync.Map.Store", "sync.Map.Swap":
		if a, ok := memoAcc(arg(0), arg(1)); ok {
			m.stores = append(m.stores, a)
			return wVal{k: wUnk}
		}
	}
	switch repoName(fn) {
	case "vaxis.Vaxis.RenderedWidth":
		if recv != nil && len(args) == 1 {
			x := arg(0)
			if recv.inst && x.k == wStr && x.depS && x.s == m.probe {
				return wVal{k: wUnk, measured: true, depS: true, recv: true, why: "measured width"}
			}
			return wVal{k: wUnk, depS: true, why: "RenderedWidth of " + x.String()}
		}
	case "vaxis.gwidth":
		// measured directly with some width method (which one is the matter of C07.g / C07.i, not of C01.l)
		if len(args) == 2 {
			x := arg(0)
			if x.k == wStr && x.depS && x.s == m.probe && m.rootFn != fn {
				return wVal{k: wUnk, measured: true, depS: true, recv: arg(1).recv, method: false, why: "measured width"}
			}
		}
	}
	if fi := m.prog.FuncOfObj(fn); fi != nil && fi.Decl.Body != nil {
		return m.callRepo(fi, recv, args)
	}
	// an opaque function: its result depends on what it was given
	v := wVal{k: wUnk, why: "result of " + fn.Name()}
	if recv != nil {
		v.depS, v.recv = v.depS || recv.depS, v.recv || recv.recv
	}
	for _, a := range args {
		v.depS, v.recv, v.method = v.depS || a.depS, v.recv || a.recv, v.method || a.method
	}
	return v
}

// callRepo evaluates a function of the repository in the callee's own environment.
func (m *wMachine) callRepo(fi *FuncInfo, recv *wVal, args []wVal) wVal {
	if m.depth >= 5 {
		return wVal{k: wUnk, depS: true, why: "result of " + fi.Name + " (call depth)"}
	}
	if m.visited != nil {
		m.visited[fi] = true
	}
	info := fi.Pkg.TypesInfo
	nf := &wFrame{fi: fi, info: info, env: map[types.Object]wVal{}}
	if fi.Decl.Recv != nil {
		rv := wVal{k: wUnk, why: "receiver"}
		if recv != nil {
			rv = *recv
		}
		for _, f := range fi.Decl.Recv.List {
			for _, nm := range f.Names {
				nf.env[info.Defs[nm]] = rv
			}
		}
	}
	m.bindParams(nf, fi.Decl.Type, fi.Obj.Type().(*types.Signature), args)
	m.depth++
	ctl := m.block(nf, fi.Decl.Body.List)
	m.depth--
	return m.results(nf, ctl, fi.Obj.Type().(*types.Signature), fi.Name)
}

func (m *wMachine) bindParams(nf *wFrame, ft *ast.FuncType, sig *types.Signature, args []wVal) {
	info := nf.info
	i := 0
	if ft.Params != nil {
		for _, f := range ft.Params.List {
			for _, nm := range f.Names {
				if o := info.Defs[nm]; o != nil {
					if sig.Variadic() && i == sig.Params().Len()-1 {
						nf.env[o] = wVal{k: wUnk, depS: true, why: "variadic"}
					} else if i < len(args) {
						nf.env[o] = args[i]
					}
				}
				i++
			}
			if len(f.Names) == 0 {
				i++
			}
		}
	}
	// named results start at their zero values
	if ft.Results != nil {
		for _, f := range ft.Results.List {
			for _, nm := range f.Names {
				if o := info.Defs[nm]; o != nil {
					nf.env[o] = m.zero(o.Type())
				}
			}
		}
	}
}

func (m *wMachine) results(nf *wFrame, ctl wCtl, sig *types.Signature, name string) wVal {
	if ctl != wReturn {
		if sig.Results().Len() == 0 {
			return wVal{k: wUnk}
		}
		m.abort("%s ends without a return", name)
	}
	switch len(nf.ret) {
	case 0:
		return wVal{k: wUnk}
	case 1:
		return nf.ret[0]
	}
	return wVal{k: wTuple, parts: nf.ret}
}

// callLit evaluates a closure in the environment it was created in.
func (m *wMachine) callLit(fv wVal, args []wVal) wVal {
	if m.depth >= 5 {
		return wVal{k: wUnk, depS: true, why: "result of a closure (call depth)"}
	}
	nf := &wFrame{fi: fv.clo.fi, info: fv.clo.info, env: map[types.Object]wVal{}, outer: fv.clo}
	sig, _ := nf.info.TypeOf(fv.lit).(*types.Signature)
	if sig == nil {
		return wVal{k: wUnk, depS: true, why: "result of a closure"}
	}
	m.bindParams(nf, fv.lit.Type, sig, args)
	m.depth++
	ctl := m.block(nf, fv.lit.Body.List)
	m.depth--
	return m.results(nf, ctl, sig, "closure in "+nf.fi.Name)
}

// ---------------------------------------------------------------------------------------------------------------
// the rule

// wWidthSupplier: the function that answers the width of an auto-measured cell — characterWidth, or (after a rename)
// the one method of *Vaxis with the signature func(string) int, other than RenderedWidth, that is called with the
// grapheme of a cell and measures through RenderedWidth / gwidth. (nil, ""): there is no such function and no cell
// is measured through anything but RenderedWidth.
func wWidthSupplier(c *Ctx) (*FuncInfo, string) {
	if fi := c.P.Func("vaxis.(*Vaxis).characterWidth"); fi != nil && fi.Decl.Body != nil {
		return fi, ""
	}
	pk := c.P.Pkg("vaxis")
	if pk == nil {
		return nil, "package vaxis not loaded"
	}
	// what is called with a cell's grapheme to fill in a width: X.Width = f(X.Grapheme) / w := f(X.Grapheme)
	cands := map[*FuncInfo]bool{}
	for _, fi := range c.P.FuncsIn("vaxis") {
		if fi.Decl.Body == nil || fi.Pkg != pk {
			continue
		}
		info := fi.Pkg.TypesInfo
		ast.Inspect(fi.Decl.Body, func(n ast.Node) bool {
			call, ok := n.(*ast.CallExpr)
			if !ok || len(call.Args) != 1 {
				return true
			}
			sel, ok := unparen(call.Args[0]).(*ast.SelectorExpr)
			if !ok || sel.Sel.Name != "Grapheme" {
				return true
			}
			fn := calleeOf(info, call)
			if fn == nil || fn.Name() == "RenderedWidth" {
				return true
			}
			sig, _ := fn.Type().(*types.Signature)
			if sig == nil || sig.Recv() == nil || sig.Params().Len() != 1 || sig.Results().Len() != 1 {
				return true
			}
			if bt, ok := sig.Results().At(0).Type().Underlying().(*types.Basic); !ok || bt.Info()&types.IsInteger == 0 {
				return true
			}
			if cfi := c.P.FuncOfObj(fn); cfi != nil && cfi.Decl.Body != nil && cfi.Pkg == pk {
				cands[cfi] = true
			}
			return true
		})
	}
	// also: a method func(string) int of *Vaxis that measures through RenderedWidth, whoever calls it
	for _, fi := range c.P.FuncsIn("vaxis") {
		if fi.Decl.Body == nil || fi.Pkg != pk || fi.Decl.Recv == nil || fi.Obj.Name() == "RenderedWidth" || fi.Obj.Exported() {
			continue
		}
		sig, _ := fi.Obj.Type().(*types.Signature)
		if sig == nil || sig.Params().Len() != 1 || sig.Results().Len() != 1 {
			continue
		}
		if bt, ok := sig.Params().At(0).Type().Underlying().(*types.Basic); !ok || bt.Info()&types.IsString == 0 {
			continue
		}
		if bt, ok := sig.Results().At(0).Type().Underlying().(*types.Basic); !ok || bt.Info()&types.IsInteger == 0 {
			continue
		}
		if tn := typeName(sig.Recv().Type()); !strings.HasSuffix(tn, ".Vaxis") {
			continue
		}
		calls := false
		info := fi.Pkg.TypesInfo
		ast.Inspect(fi.Decl.Body, func(n ast.Node) bool {
			if call, ok := n.(*ast.CallExpr); ok {
				if fn := calleeOf(info, call); fn != nil && (repoName(fn) == "vaxis.Vaxis.RenderedWidth" || repoName(fn) == "vaxis.gwidth") {
					calls = true
				}
			}
			return !calls
		})
		if calls {
			cands[fi] = true
		}
	}
	switch len(cands) {
	case 0:
		return nil, ""
	case 1:
		for fi := range cands {
			return fi, ""
		}
	}
	var names []string
	for fi := range cands {
		names = append(names, fi.Name)
	}
	sort.Strings(names)
	return nil, "characterWidth not found and several functions supply widths of graphemes (" + strings.Join(names, ", ") + ")"
}

func wMethodType(c *Ctx) types.Type {
	if g := c.P.Func("vaxis.gwidth"); g != nil {
		if sig, ok := g.Obj.Type().(*types.Signature); ok && sig.Params().Len() == 2 {
			return sig.Params().At(1).Type()
		}
	}
	return nil
}

// wOnSupplierProgram runs a rule of the width path. The global pre-normalisation inlines every function whose name is
// not on the reference list into its callers and drops the declaration — which is what happens to characterWidth after
// a mere rename; its body is then spread over advance, render and Window.Print*. The evaluator follows calls itself
// and needs no inlining, so in that case (no width supplier in the normalised program) the rule runs on the program as
// written, loaded once more.
func wOnSupplierProgram(c *Ctx, run func()) {
	if fi, _ := wWidthSupplier(c); fi != nil || os.Getenv("VX_NO_NORMALISE") != "" || c.P == nil || c.P.Repo == "" {
		run()
		return
	}
	raw, err := Load(c.P.Repo, c.P.GOOS, false)
	if err != nil {
		run()
		return
	}
	norm := c.P
	c.P = raw
	installAccessorResolver(raw)
	defer func() {
		c.P = norm
		installAccessorResolver(norm)
	}()
	run()
}

func c01MeasuredWidth(c *Ctx) { wOnSupplierProgram(c, func() { c01MeasuredWidthRule(c) }) }

func c01MeasuredWidthRule(c *Ctx) {
	const rule = "C01.l"
	c.expect(rule, 1)
	c.Clauses = append(c.Clauses, "C01.l the width assumed for an auto-measured cell is the measured one: every value characterWidth returns is RenderedWidth of the grapheme itself, a memo of it stored under the grapheme itself, or a number equal to the reference width of every probe that reaches it (256 one-byte strings + 12 graphemes)")
	if nm := os.Getenv("VX_W_DUMP"); nm != "" {
		if o := c.P.Func(nm); o != nil {
			printer.Fprint(os.Stderr, c.P.Fset, o.Decl)
			fmt.Fprintln(os.Stderr)
		} else {
			fmt.Fprintln(os.Stderr, "no function", nm)
		}
	}
	fi, why := wWidthSupplier(c)
	if fi == nil {
		if why == "" {
			// no memoising wrapper any more: the callers measure with RenderedWidth themselves
			if rw := c.P.Func("vaxis.(*Vaxis).RenderedWidth"); rw != nil {
				c.okTrivial(rule, rw.Name+"/auto-measured cells are measured directly", rw.Decl.Pos(), "no function stands between the cells and RenderedWidth")
				return
			}
			why = "neither characterWidth nor RenderedWidth found"
		}
		c.undecided(rule, "vaxis.(*Vaxis).characterWidth", 0, "%s: the function that supplies the width of auto-measured cells cannot be identified", why)
		return
	}
	info := fi.Pkg.TypesInfo
	methodT := wMethodType(c)
	type verdict struct {
		bad, und string
		reached  int
		kinds    map[string]bool
	}
	rets := map[*ast.ReturnStmt]*verdict{}
	var order []*ast.ReturnStmt
	ast.Inspect(fi.Decl.Body, func(n ast.Node) bool {
		if _, isLit := n.(*ast.FuncLit); isLit {
			return false
		}
		if rs, ok := n.(*ast.ReturnStmt); ok {
			rets[rs] = &verdict{kinds: map[string]bool{}}
			order = append(order, rs)
		}
		return true
	})
	aborted := ""
	type memoV struct {
		a        *wAccess
		bad, und string
		n        int
	}
	readV := map[token.Pos]*memoV{}
	storeV := map[token.Pos]*memoV{}
	conts := map[types.Object]bool{}
	visited := map[*FuncInfo]bool{fi: true}
	probes := wProbes()
	written := wWrittenConts(c, "vaxis")
	for _, p := range probes {
		for _, o := range wRunAll(c.P, fi, p.s, methodT, visited) {
			for _, a := range o.reads {
				if a.cont == nil {
					continue
				}
				conts[a.cont] = true
				mv := readV[a.pos]
				if mv == nil {
					mv = &memoV{a: a}
					readV[a.pos] = mv
				}
				mv.n++
				switch {
				case !written[a.cont]:
					if mv.und == "" {
						mv.und = fmt.Sprintf("%s is never written: a constant table of widths, which the evaluator does not compare with the reference widths", a.cont.Name())
					}
				case a.key.k == wStr && a.key.depS && a.key.s == p.s:
				case a.key.k == wComp && a.key.depS && wCompHasString(a.key, p.s):
					// the grapheme together with something else (the width method): C07.i judges the rest
				case a.key.k == wStr && mv.bad == "":
					mv.bad = fmt.Sprintf("for the grapheme %q the memo is read under the key %q: the width of another string is served", p.s, a.key.s)
				case mv.und == "":
					mv.und = fmt.Sprintf("the key %s of the memo read is not the grapheme itself as far as the evaluator can tell", a.key)
				}
			}
			for _, a := range o.stores {
				if a.cont == nil {
					continue
				}
				mv := storeV[a.pos]
				if mv == nil {
					mv = &memoV{a: a}
					storeV[a.pos] = mv
				}
				mv.n++
				keyOK := a.key.k == wStr && a.key.depS && a.key.s == p.s || a.key.k == wComp && a.key.depS && wCompHasString(a.key, p.s)
				switch {
				case keyOK && a.val.measured:
				case keyOK && a.val.k == wInt && p.ref >= 0 && a.val.i == int64(p.ref) && o.imprecise == "":
				case keyOK && a.val.k == wInt && p.ref >= 0 && a.val.i != int64(p.ref) && o.imprecise == "" && mv.bad == "":
					mv.bad = fmt.Sprintf("for the grapheme %q the width %d is stored in the memo, but it measures %d", p.s, a.val.i, p.ref)
				case !keyOK && a.key.k == wStr && mv.bad == "":
					mv.bad = fmt.Sprintf("for the grapheme %q the width is stored under the key %q: a later look-up of that string is served the width of another", p.s, a.key.s)
				case mv.und == "" && !(keyOK && a.val.k == wInt && p.ref < 0):
					mv.und = fmt.Sprintf("the evaluator cannot tell that %s is the measured width of its key %s", a.val, a.key)
				}
			}
			if o.aborted != "" {
				if aborted == "" && !o.panics {
					aborted = fmt.Sprintf("on the probe %q: %s", p.s, o.aborted)
				}
				continue
			}
			v := rets[o.rs]
			if v == nil {
				continue
			}
			v.reached++
			switch {
			case o.val.measured:
				v.kinds["the measured width"] = true
			case o.val.memo != nil:
				v.kinds["a memo of it"] = true
			case o.val.k == wInt:
				v.kinds["the reference width of every probe that reaches it"] = true
				if p.ref < 0 {
					break
				}
				if o.val.i != int64(p.ref) {
					if o.imprecise != "" {
						if v.und == "" {
							v.und = fmt.Sprintf("the probe %q (measured width %d) may reach this return of %d, depending on %s, which the evaluator cannot decide", p.s, p.ref, o.val.i, o.imprecise)
						}
					} else if v.bad == "" {
						v.bad = fmt.Sprintf("for the grapheme %q characterWidth answers %d without measuring, but every width method measures %d: render() lays the row out with a width the terminal does not use, so the cells after it land in other columns than Vaxis believes (and the tail of the run keeps stale content)", p.s, o.val.i, p.ref)
					}
				}
			default:
				if v.und == "" {
					v.und = fmt.Sprintf("on the probe %q the returned value is %s: neither the measured width, nor a memo of it, nor a number", p.s, o.val)
				}
			}
		}
	}
	if aborted != "" {
		c.undecided(rule, fi.Name+"/evaluation", fi.Decl.Pos(), "characterWidth cannot be evaluated %s", aborted)
	}
	for i, rs := range order {
		v := rets[rs]
		key := fmt.Sprintf("%s/return#%d %s is the measured width", fi.Name, i+1, wExprs(rs.Results))
		switch {
		case v.bad != "":
			c.bad(rule, key, rs.Pos(), "%s", v.bad)
		case v.und != "":
			c.undecided(rule, key, rs.Pos(), "%s", v.und)
		case v.reached == 0:
			c.okTrivial(rule, key, rs.Pos(), "reached by none of the %d probes", len(probes))
		default:
			c.ok(rule, key, rs.Pos(), "%s (%d probe runs)", strings.Join(sortedKeys(v.kinds), " / "), v.reached)
		}
	}
	emit := func(kind string, mvs map[token.Pos]*memoV) {
		var ps []token.Pos
		for p := range mvs {
			ps = append(ps, p)
		}
		sort.Slice(ps, func(i, j int) bool { return ps[i] < ps[j] })
		for _, p := range ps {
			mv := mvs[p]
			key := fmt.Sprintf("%s/memo %s %s", mv.a.fn, kind, mv.a.cont.Name())
			switch {
			case mv.bad != "":
				c.bad(rule, key, p, "%s", mv.bad)
			case mv.und != "":
				c.undecided(rule, key, p, "%s", mv.und)
			case kind == "read":
				c.ok(rule, key, p, "keyed by the grapheme itself on all %d probe runs", mv.n)
			default:
				c.ok(rule, key, p, "the measured width of the grapheme is stored under the grapheme itself on all %d probe runs", mv.n)
			}
		}
	}
	emit("read", readV)
	emit("store", storeV)
	// every other store into the memo (anywhere in the package) bypasses the measurement
	for _, ofi := range c.P.FuncsIn("vaxis") {
		if ofi.Decl.Body == nil || visited[ofi] || ofi.Pkg != fi.Pkg {
			continue
		}
		ast.Inspect(ofi.Decl.Body, func(n ast.Node) bool {
			var cx ast.Expr
			switch t := n.(type) {
			case *ast.AssignStmt:
				for _, l := range t.Lhs {
					if ix, ok := unparen(l).(*ast.IndexExpr); ok {
						cx = ix.X
					}
				}
			case *ast.CallExpr:
				if fn := calleeOf(info, t); fn != nil {
					switch fullName(fn) {
					case "sync.Map.Store", "sync.Map.Swap", "sync.Map.LoadOrStore":
						if sel, ok := unparen(t.Fun).(*ast.SelectorExpr); ok {
							cx = sel.X
						}
					}
				}
			}
			if cx == nil {
				return true
			}
			if o := wContObj(info, cx); o != nil && conts[o] {
				c.undecided(rule, fmt.Sprintf("%s/memo store %s", ofi.Name, o.Name()), n.Pos(), "the width memo %s is also written outside characterWidth: that the stored value is the measured width of its key is not established", o.Name())
			}
			return true
		})
	}
}

// wWrittenConts: the variables / fields holding a map or sync.Map into which something is stored anywhere in pk.
func wWrittenConts(c *Ctx, short string) map[types.Object]bool {
	written := map[types.Object]bool{}
	pk := c.P.Pkg(short)
	if pk == nil {
		return written
	}
	info := pk.TypesInfo
	for _, f := range pk.Syntax {
		ast.Inspect(f, func(n ast.Node) bool {
			switch t := n.(type) {
			case *ast.AssignStmt:
				for _, l := range t.Lhs {
					if ix, ok := unparen(l).(*ast.IndexExpr); ok {
						if _, isMap := typeUnder(info.TypeOf(ix.X)).(*types.Map); isMap {
							if o := wContObj(info, ix.X); o != nil {
								written[o] = true
							}
						}
					}
				}
			case *ast.CallExpr:
				if fn := calleeOf(info, t); fn != nil {
					switch fullName(fn) {
					case "sync.Map.Store", "sync.Map.Swap", "sync.Map.LoadOrStore", "sync.Map.CompareAndSwap":
						if sel, ok := unparen(t.Fun).(*ast.SelectorExpr); ok {
							if o := wContObj(info, sel.X); o != nil {
								written[o] = true
							}
						}
					}
				}
			}
			return true
		})
	}
	return written
}

func wExprs(es []ast.Expr) string {
	var parts []string
	for _, e := range es {
		parts = append(parts, types.ExprString(e))
	}
	return strings.Join(parts, ", ")
}

// wCompHasString: one part of the composite key is the grapheme itself.
func wCompHasString(v wVal, s string) bool {
	for _, p := range v.parts {
		if p.k == wStr && p.depS && p.s == s {
			return true
		}
		if p.k == wComp && wCompHasString(p, s) {
			return true
		}
	}
	return false
}

// wContObj: the variable or field that holds the container named by e (a local alias `cache := vx.charCache` stands for
// what it was defined as).
func wContObj(info *types.Info, e ast.Expr) types.Object {
	o := wContObj0(info, e)
	for depth := 0; depth < 3; depth++ {
		v, ok := o.(*types.Var)
		if !ok || v.IsField() || v.Pkg() == nil || v.Parent() == v.Pkg().Scope() {
			break
		}
		src := singleDefOf(info, v)
		if src == nil {
			break
		}
		n := wContObj0(info, src)
		if n == nil {
			break
		}
		o = n
	}
	return o
}

func wContObj0(info *types.Info, e ast.Expr) types.Object {
	switch t := unparen(e).(type) {
	case *ast.Ident:
		return info.ObjectOf(t)
	case *ast.SelectorExpr:
		if s := info.Selections[t]; s != nil && s.Kind() == types.FieldVal {
			return s.Obj()
		}
		return info.ObjectOf(t.Sel)
	case *ast.StarExpr:
		return wContObj0(info, t.X)
	case *ast.UnaryExpr:
		return wContObj0(info, t.X)
	case *ast.IndexExpr:
		return wContObj0(info, t.X)
	}
	return nil
}
