package main

// c07w — C07.i: a memoised grapheme width is never served across width methods.
//
// The width of a grapheme depends on the method (wcwidth / noZWJ / unicodeStd), and the method is chosen from the
// capabilities the terminal of THIS instance advertised (C07.g). A memo in front of the measurement is therefore only
// faithful if an entry can never be read by an instance that measures with another method: its storage belongs to the
// instance (a field reached through the receiver), or its key contains the method. A process may hold several Vaxis
// instances (Options.WithConsole: one per ssh session; New after Close on another tty) whose terminals advertise
// different things; a package-level memo keyed by the grapheme alone hands the second one widths measured with the
// first one's method ("graphemes are measured with the width method that matches [the capabilities]" is lost for every
// grapheme on which the methods differ: ZWJ sequences, skin-tone modifiers, VS16 emoji).
//
// The functions of the width path (characterWidth, RenderedWidth, gwidth and the package functions they call) are
// evaluated with the evaluator of c01w.go on a few probe strings; every memo read (map element, sync.Map.Load) it meets
// is judged:
//
//	storage of the instance                                   -> fine
//	package-level storage that is never written               -> a constant table, not a memo (nothing to judge)
//	package-level storage, key contains a width method or
//	  a value computed from the instance                      -> fine
//	package-level storage, key is the grapheme alone          -> violated

import (
	"fmt"
	"go/ast"
	"go/token"
	"go/types"
	"sort"
)

func init() { registerExtra("C07", c07WidthMemo) }

func c07WidthMemo(c *Ctx) { wOnSupplierProgram(c, func() { c07WidthMemoRule(c) }) }

func c07WidthMemoRule(c *Ctx) {
	const rule = "C07.i"
	c.expect(rule, 1)
	c.Clauses = append(c.Clauses, "C07.i a memoised grapheme width is served only to the width method that measured it: every memo read on the width path (characterWidth, RenderedWidth, gwidth) is from storage of the instance, or its key contains the method")
	pk := c.P.Pkg("vaxis")
	if pk == nil {
		return
	}
	rw := c.P.Func("vaxis.(*Vaxis).RenderedWidth")
	if rw == nil {
		c.undecided(rule, "vaxis.(*Vaxis).RenderedWidth", 0, "RenderedWidth not found")
		return
	}
	var roots []*FuncInfo
	if fi, _ := wWidthSupplier(c); fi != nil {
		roots = append(roots, fi)
	}
	for _, n := range []string{"vaxis.(*Vaxis).RenderedWidth", "vaxis.gwidth"} {
		if fi := c.P.Func(n); fi != nil && fi.Decl.Body != nil {
			roots = append(roots, fi)
		}
	}
	methodT := wMethodType(c)
	written := wWrittenConts(c, "vaxis")
	type verdict struct {
		a        *wAccess
		bad, und string
		ok       string
		n        int
	}
	vs := map[token.Pos]*verdict{}
	probes := []string{"a", "\x7f", "é", "\U0001F469‍\U0001F4BB", "❤️"}
	for _, fi := range roots {
		aborted := ""
		for _, p := range probes {
			for _, o := range wRunAll(c.P, fi, p, methodT, nil) {
				if o.aborted != "" && !o.panics && aborted == "" {
					aborted = fmt.Sprintf("on the probe %q: %s", p, o.aborted)
				}
				for _, a := range o.reads {
					if a.cont == nil {
						continue
					}
					v := vs[a.pos]
					if v == nil {
						v = &verdict{a: a}
						vs[a.pos] = v
					}
					v.n++
					switch {
					case a.inst:
						v.ok = "storage of the instance"
					case !a.shared:
						v.ok = "storage local to the call"
					case !written[a.cont]:
						v.ok = "a package-level table that is never written (not a memo)"
					case a.key.method || a.key.recv:
						v.ok = "package-level storage whose key contains the width method (or a value computed from the instance)"
					case a.key.depS && (a.key.k == wStr || a.key.k == wComp):
						if v.bad == "" {
							v.bad = fmt.Sprintf("the memo %s is package-level storage shared by every Vaxis instance of the process and its key (%s for the grapheme %q) does not contain the width method: a width measured by an instance whose terminal advertised one set of capabilities (say unicodeStd: a ZWJ emoji is 2 columns) is served to an instance that must measure with another (wcwidth: 4 columns), so graphemes are laid out with a width method that does not match the capabilities", a.cont.Name(), a.key, p)
						}
					default:
						if v.und == "" {
							v.und = fmt.Sprintf("the memo %s is package-level storage and the evaluator cannot tell whether its key %s contains the width method", a.cont.Name(), a.key)
						}
					}
				}
			}
		}
		if aborted != "" && c07HasSharedRead(fi, written) {
			c.undecided(rule, fi.Name+"/evaluation", fi.Decl.Pos(), "%s reads package-level storage and cannot be evaluated %s", fi.Name, aborted)
		}
	}
	var ps []token.Pos
	for p := range vs {
		ps = append(ps, p)
	}
	sort.Slice(ps, func(i, j int) bool { return ps[i] < ps[j] })
	for _, p := range ps {
		v := vs[p]
		key := fmt.Sprintf("%s/memo read %s is per width method", v.a.fn, v.a.cont.Name())
		switch {
		case v.bad != "":
			c.bad(rule, key, p, "%s", v.bad)
		case v.und != "":
			c.undecided(rule, key, p, "%s", v.und)
		default:
			c.ok(rule, key, p, "%s (%d probe runs)", v.ok, v.n)
		}
	}
	if len(ps) == 0 {
		c.okTrivial(rule, rw.Name+"/no memo on the width path", rw.Decl.Pos(), "no function of the width path reads a memo")
	}
}

// c07HasSharedRead: the body reads an element of a package-level map / sync.Map that is written somewhere.
func c07HasSharedRead(fi *FuncInfo, written map[types.Object]bool) bool {
	info := fi.Pkg.TypesInfo
	found := false
	ast.Inspect(fi.Decl.Body, func(n ast.Node) bool {
		var cx ast.Expr
		switch t := n.(type) {
		case *ast.IndexExpr:
			if _, isMap := typeUnder(info.TypeOf(t.X)).(*types.Map); isMap {
				cx = t.X
			}
		case *ast.CallExpr:
			if fn := calleeOf(info, t); fn != nil {
				switch fullName(fn) {
				case "sync.Map.Load", "sync.Map.LoadOrStore":
					if sel, ok := unparen(t.Fun).(*ast.SelectorExpr); ok {
						cx = sel.X
					}
				}
			}
		}
		if cx != nil {
			if v, ok := rootObj(info, cx).(*types.Var); ok && v.Pkg() != nil && v.Parent() == v.Pkg().Scope() {
				found = true
			}
		}
		return !found
	})
	return found
}
