package main

// C01.n — every size report that is consumed updates the size the next Render will use.
//
// Render() takes the size it allocates the two screen buffers with from reportWinsize(), which for terminals with
// in-band resize reports (mode 2048) and for XTWINOPS terminals is Vaxis.nextSize: the grid the input goroutine
// stored when the last report (CSI 48;rows;cols;ypix;xpix t / CSI 8;rows;cols t) arrived. "The first frame after
// a size change is right whatever the terminal displayed before" therefore needs nextSize to be the grid of the
// MOST RECENT report: a report that is looked at and then dropped because of what Vaxis believes at that moment
// (`the grid equals winSize, spare the application a Redraw`) leaves an older report in nextSize — with sizes
// A→B→A between two Renders the buffers are reallocated to B on a terminal that is A.
//
// The clause decided: for every place S where a function of package vaxis stores the reported grid
// (Vaxis.nextSize.Cols / .Rows, directly, as a whole struct, or through a callee that itself satisfies this
// clause), EVERY path from the function's entry to a normal exit stores the grid, except paths that leave towards
// an exit on a branch decided by the report alone (another sequence, another report type, a malformed parameter
// list, a nonsensical value: conditions over the sequence, constants and locals computed from them only). A branch
// whose condition reads anything else (receiver state, package state, a call result) cannot excuse the store: both
// of its edges are followed. Edges whose report-only part contradicts the report-only conditions that hold at S
// (`typ == 4 && !vx.caps.…` while S needs `typ == 48`) are infeasible for a report that reaches S and are not
// followed.
//
// This is a statement about paths and about what conditions read, not about the shape of the dispatch: if/switch
// forms, early return vs else, split or merged guards, flag locals, whole-struct stores, stores inside a closure
// handed to a locking helper, and helpers are judged alike. Helpers come with two summaries, computed to a
// fixpoint: the fields a function stores on EVERY path (a call to it is a store wherever it stands), and the fields
// it stores on every path of a report it does not reject by the report alone (a call to it is a store only where
// the caller hands on its own report: all arguments are report-only in the caller). "Report-only" covers value
// parameters, constants, type-switch bindings of them, pure repository functions of them, and locals all of whose
// definitions are report-only and chosen by report-only conditions (the form the expression-helper inliner leaves).
//
// Non-vacuity: a store site must exist under a report-only guard that identifies each of the two grid-carrying
// reports (type 48 and type 8); otherwise the obligation is undecided (store deleted, or a dispatch shape the rule
// does not read).
//
// Not decided here: that the stored VALUES are the report's rows/columns (value level), and the pixel fields.

import (
	"fmt"
	"go/ast"
	"go/printer"
	"go/token"
	"go/types"
	"os"
	"sort"
	"strings"

	"golang.org/x/tools/go/cfg"
)

func init() { registerExtra("C01", c01SizeReportStored) }

const (
	c01nRule = "C01.n"
	c01nCols = 1
	c01nRows = 2
)

func c01nMaskString(m int) string {
	var s []string
	if m&c01nCols != 0 {
		s = append(s, "nextSize.Cols")
	}
	if m&c01nRows != 0 {
		s = append(s, "nextSize.Rows")
	}
	return strings.Join(s, " and ")
}

// ---------------------------------------------------------------------------------------------------------------
// "decided by the report alone": expressions over value parameters, constants, and single-definition locals thereof

type c01nDef struct {
	at   ast.Node // the defining statement
	rhs  ast.Expr // nil with zero: the zero value
	zero bool
	bad  bool // a definition whose value or moment this analysis does not follow (op-assign, ++, range, &x, tuple, closure)
}

type c01nFree struct {
	prog    *Program
	info    *types.Info
	fd      *ast.FuncDecl
	defs    map[types.Object][]c01nDef
	params  map[types.Object]bool
	tsSubj  map[types.Object]ast.Expr
	tsOf    map[*ast.CaseClause]*ast.TypeSwitchStmt
	memo    map[types.Object]int // 1 free, 2 not free, 3 being decided
	hasGoto bool
	scopeOf map[*types.Scope][]ast.Stmt // statement list of the block a scope belongs to
}

func c01nPointerLike(t types.Type) bool {
	if t == nil {
		return true
	}
	switch t.Underlying().(type) {
	case *types.Pointer, *types.Map, *types.Chan, *types.Signature:
		return true
	}
	return false
}

func c01nTypeSwitchSubject(ts *ast.TypeSwitchStmt) ast.Expr {
	var e ast.Expr
	switch a := ts.Assign.(type) {
	case *ast.ExprStmt:
		e = a.X
	case *ast.AssignStmt:
		if len(a.Rhs) == 1 {
			e = a.Rhs[0]
		}
	}
	if ta, ok := unparen(e).(*ast.TypeAssertExpr); ok {
		return ta.X
	}
	return nil
}

func newC01nFree(prog *Program, info *types.Info, fd *ast.FuncDecl) *c01nFree {
	fr := &c01nFree{prog: prog, info: info, fd: fd, defs: map[types.Object][]c01nDef{},
		params: map[types.Object]bool{}, tsSubj: map[types.Object]ast.Expr{}, tsOf: map[*ast.CaseClause]*ast.TypeSwitchStmt{},
		memo: map[types.Object]int{}, scopeOf: map[*types.Scope][]ast.Stmt{}}
	addParams := func(fl *ast.FieldList) {
		if fl == nil {
			return
		}
		for _, f := range fl.List {
			for _, nm := range f.Names {
				if o := info.ObjectOf(nm); o != nil {
					fr.params[o] = true
				}
			}
		}
	}
	addParams(fd.Recv)
	addParams(fd.Type.Params)
	if sc := info.Scopes[fd.Type]; sc != nil {
		fr.scopeOf[sc] = fd.Body.List
	}
	litDepth := 0
	var walk func(n ast.Node)
	def := func(at ast.Node, l ast.Expr, d c01nDef) {
		id, ok := unparen(l).(*ast.Ident)
		if !ok {
			return
		}
		o := info.ObjectOf(id)
		if o == nil {
			return
		}
		d.at = at
		if litDepth > 0 {
			d.bad = true
		}
		fr.defs[o] = append(fr.defs[o], d)
	}
	walk = func(root ast.Node) {
		ast.Inspect(root, func(n ast.Node) bool {
			switch t := n.(type) {
			case *ast.FuncLit:
				if n != root {
					litDepth++
					walk(t.Body)
					litDepth--
					return false
				}
			case *ast.BlockStmt:
				if sc := info.Scopes[t]; sc != nil {
					fr.scopeOf[sc] = t.List
				}
			case *ast.CaseClause:
				if sc := info.Scopes[t]; sc != nil {
					fr.scopeOf[sc] = t.Body
				}
			case *ast.BranchStmt:
				if t.Tok == token.GOTO {
					fr.hasGoto = true
				}
			case *ast.AssignStmt:
				for i, l := range t.Lhs {
					switch {
					case t.Tok != token.DEFINE && t.Tok != token.ASSIGN:
						def(t, l, c01nDef{bad: true})
					case len(t.Lhs) == len(t.Rhs):
						def(t, l, c01nDef{rhs: t.Rhs[i]})
					default:
						def(t, l, c01nDef{bad: true})
					}
				}
			case *ast.ValueSpec:
				for i, nm := range t.Names {
					switch {
					case len(t.Values) == len(t.Names):
						def(t, nm, c01nDef{rhs: t.Values[i]})
					case len(t.Values) == 0:
						def(t, nm, c01nDef{zero: true})
					default:
						def(t, nm, c01nDef{bad: true})
					}
				}
			case *ast.IncDecStmt:
				def(t, t.X, c01nDef{bad: true})
			case *ast.RangeStmt:
				if t.Key != nil {
					def(t, t.Key, c01nDef{bad: true})
				}
				if t.Value != nil {
					def(t, t.Value, c01nDef{bad: true})
				}
			case *ast.UnaryExpr:
				if t.Op == token.AND {
					def(t, t.X, c01nDef{bad: true})
				}
			case *ast.TypeSwitchStmt:
				subj := c01nTypeSwitchSubject(t)
				for _, cl := range t.Body.List {
					cc := cl.(*ast.CaseClause)
					fr.tsOf[cc] = t
					if o := info.Implicits[cc]; o != nil && subj != nil {
						fr.tsSubj[o] = subj
					}
				}
			}
			return true
		})
	}
	walk(fd.Body)
	return fr
}

// controlFree: every condition that decides which definitions inside statement s are executed is report-only.
func (fr *c01nFree) controlFree(s ast.Stmt) bool {
	ok := true
	ast.Inspect(s, func(n ast.Node) bool {
		if !ok {
			return false
		}
		switch t := n.(type) {
		case *ast.ForStmt, *ast.RangeStmt, *ast.SelectStmt, *ast.GoStmt, *ast.DeferStmt:
			ok = false
		case *ast.FuncLit:
			return false
		case *ast.IfStmt:
			ok = fr.free(t.Cond)
		case *ast.SwitchStmt:
			if t.Tag != nil && !fr.free(t.Tag) {
				ok = false
			}
			for _, cl := range t.Body.List {
				for _, e := range cl.(*ast.CaseClause).List {
					if !fr.free(e) {
						ok = false
					}
				}
			}
		case *ast.TypeSwitchStmt:
			if subj := c01nTypeSwitchSubject(t); subj == nil || !fr.free(subj) {
				ok = false
			}
		}
		return ok
	})
	return ok
}

// localFree: a local all of whose definitions store report-only values, and for which the choice among the
// definitions is made by report-only conditions (the statements of its block that contain a definition branch on
// nothing else and do not loop), is itself decided by the report.
func (fr *c01nFree) localFree(v *types.Var) bool {
	ds := fr.defs[v]
	if len(ds) == 0 {
		return false
	}
	for _, d := range ds {
		if d.bad || (!d.zero && (d.rhs == nil || !fr.free(d.rhs))) {
			return false
		}
	}
	if len(ds) == 1 {
		return true
	}
	if fr.hasGoto {
		return false
	}
	stmts, ok := fr.scopeOf[v.Parent()]
	if !ok {
		return false
	}
	covered := 0
	for _, s := range stmts {
		n := 0
		for _, d := range ds {
			if s.Pos() <= d.at.Pos() && d.at.End() <= s.End() {
				n++
			}
		}
		if n == 0 {
			continue
		}
		covered += n
		if _, isDecl := s.(*ast.DeclStmt); isDecl {
			continue
		}
		if _, isAssign := s.(*ast.AssignStmt); isAssign {
			continue
		}
		if !fr.controlFree(s) {
			return false
		}
	}
	return covered == len(ds)
}

func (fr *c01nFree) freeObj(o types.Object) bool {
	switch v := o.(type) {
	case *types.Const, *types.Nil:
		return true
	case *types.Var:
		switch fr.memo[o] {
		case 1:
			return true
		case 2, 3:
			return false
		}
		fr.memo[o] = 3
		res := false
		switch {
		case v.IsField():
		case c01nPointerLike(v.Type()):
		case fr.params[o]:
			res = len(fr.defs[o]) == 0
		case fr.tsSubj[o] != nil:
			res = len(fr.defs[o]) == 0 && fr.free(fr.tsSubj[o])
		case v.Parent() != nil && v.Pkg() != nil && v.Parent() == v.Pkg().Scope():
			// package state
		default:
			res = fr.localFree(v)
		}
		if res {
			fr.memo[o] = 1
		} else {
			fr.memo[o] = 2
		}
		return res
	}
	return false
}

// free: is the value of e decided by the function's value parameters (the report) and constants alone?
func (fr *c01nFree) free(e ast.Expr) bool {
	if e == nil {
		return true
	}
	if tv, ok := fr.info.Types[e]; ok && tv.Value != nil {
		return true
	}
	switch t := e.(type) {
	case *ast.ParenExpr:
		return fr.free(t.X)
	case *ast.Ident:
		if t.Name == "_" {
			return false
		}
		o := fr.info.ObjectOf(t)
		return o != nil && fr.freeObj(o)
	case *ast.BasicLit:
		return true
	case *ast.UnaryExpr:
		if t.Op == token.AND || t.Op == token.ARROW {
			return false
		}
		return fr.free(t.X)
	case *ast.BinaryExpr:
		return fr.free(t.X) && fr.free(t.Y)
	case *ast.SelectorExpr:
		if sel, ok := fr.info.Selections[t]; ok {
			return sel.Kind() == types.FieldVal && !sel.Indirect() && fr.free(t.X)
		}
		o := fr.info.ObjectOf(t.Sel)
		_, isConst := o.(*types.Const)
		return isConst
	case *ast.IndexExpr:
		return fr.free(t.X) && fr.free(t.Index)
	case *ast.SliceExpr:
		return fr.free(t.X) && fr.free(t.Low) && fr.free(t.High) && fr.free(t.Max)
	case *ast.TypeAssertExpr:
		return fr.free(t.X)
	case *ast.CompositeLit:
		for _, el := range t.Elts {
			if kv, ok := el.(*ast.KeyValueExpr); ok {
				el = kv.Value
			}
			if !fr.free(el) {
				return false
			}
		}
		return true
	case *ast.CallExpr:
		for _, a := range t.Args {
			if !fr.free(a) {
				return false
			}
		}
		if tv, ok := fr.info.Types[t.Fun]; ok && tv.IsType() {
			return true
		}
		if id, ok := unparen(t.Fun).(*ast.Ident); ok {
			if b, ok := fr.info.Uses[id].(*types.Builtin); ok {
				switch b.Name() {
				case "len", "cap", "min", "max":
					return true
				}
				return false
			}
		}
		fn := calleeOf(fr.info, t)
		if fn == nil || !c01nPure(fr.prog, fn, 0) {
			return false
		}
		if sel, ok := unparen(t.Fun).(*ast.SelectorExpr); ok {
			if _, isMethod := fr.info.Selections[sel]; isMethod && !fr.free(sel.X) {
				return false
			}
		}
		return true
	}
	return false
}

var c01nPureMemo = map[*types.Func]int{}

// c01nPure: a repository function whose result depends on its (value) arguments only: no package state, no
// pointer-like parameter or receiver, no calls other than conversions, len/cap/min/max and functions of this kind.
func c01nPure(prog *Program, fn *types.Func, depth int) bool {
	switch c01nPureMemo[fn] {
	case 1:
		return true
	case 2, 3:
		return false
	}
	if depth > 3 {
		return false
	}
	fi := prog.FuncOfObj(fn)
	if fi == nil || fi.Decl.Body == nil {
		return false
	}
	c01nPureMemo[fn] = 3
	info := fi.Pkg.TypesInfo
	pure := true
	sig, _ := fn.Type().(*types.Signature)
	if sig != nil {
		if r := sig.Recv(); r != nil && c01nPointerLike(r.Type()) {
			pure = false
		}
		for i := 0; i < sig.Params().Len(); i++ {
			if c01nPointerLike(sig.Params().At(i).Type()) {
				pure = false
			}
		}
	}
	ast.Inspect(fi.Decl.Body, func(n ast.Node) bool {
		if !pure {
			return false
		}
		switch t := n.(type) {
		case *ast.GoStmt, *ast.DeferStmt, *ast.SendStmt, *ast.SelectStmt, *ast.FuncLit, *ast.StarExpr:
			pure = false
		case *ast.UnaryExpr:
			if t.Op == token.ARROW || t.Op == token.AND {
				pure = false
			}
		case *ast.Ident:
			if v, ok := info.ObjectOf(t).(*types.Var); ok && !v.IsField() && v.Pkg() != nil && v.Parent() == v.Pkg().Scope() {
				pure = false
			}
		case *ast.CallExpr:
			if tv, ok := info.Types[t.Fun]; ok && tv.IsType() {
				return true
			}
			if id, ok := unparen(t.Fun).(*ast.Ident); ok {
				if b, ok := info.Uses[id].(*types.Builtin); ok {
					switch b.Name() {
					case "len", "cap", "min", "max":
						return true
					}
					pure = false
					return false
				}
			}
			callee := calleeOf(info, t)
			if callee == nil || callee == fn || !c01nPure(prog, callee, depth+1) {
				pure = false
			}
		}
		return pure
	})
	if pure {
		c01nPureMemo[fn] = 1
	} else {
		c01nPureMemo[fn] = 2
	}
	return pure
}

// ---------------------------------------------------------------------------------------------------------------
// conditions: conjuncts of an edge, atoms of the report-only conjuncts, contradiction with what holds at the site

type c01nConj struct {
	e   ast.Expr
	pol bool
}

// c01nConjuncts: the conjuncts implied by e having truth value pol (a disjunction stays one conjunct).
func c01nConjuncts(e ast.Expr, pol bool) []c01nConj {
	e = unparen(e)
	switch t := e.(type) {
	case *ast.UnaryExpr:
		if t.Op == token.NOT {
			return c01nConjuncts(t.X, !pol)
		}
	case *ast.BinaryExpr:
		if (t.Op == token.LAND && pol) || (t.Op == token.LOR && !pol) {
			return append(c01nConjuncts(t.X, pol), c01nConjuncts(t.Y, pol)...)
		}
	}
	return []c01nConj{{e, pol}}
}

// edgeAtoms: the atoms of the report-only conjuncts of cond == pol.
func (fr *c01nFree) edgeAtoms(cd *Cond, pol bool) []Atom {
	if cd.Alts != nil {
		return nil
	}
	if cd.Tag != nil {
		if fr.free(cd.Tag) && fr.free(cd.Expr) {
			return condAtoms(fr.info, cd, pol)
		}
		return nil
	}
	var out []Atom
	for _, cj := range c01nConjuncts(cd.Expr, pol) {
		if fr.free(cj.e) {
			out = append(out, exprAtoms(fr.info, cj.e, cj.pol)...)
		}
	}
	return out
}

func (fr *c01nFree) condFree(cd *Cond) bool {
	if cd.Tag != nil && !fr.free(cd.Tag) {
		return false
	}
	if cd.Alts != nil {
		for _, a := range cd.Alts {
			if !fr.free(a) {
				return false
			}
		}
		return true
	}
	return fr.free(cd.Expr)
}

func c01nContradicts(known []Atom, x Atom) bool {
	for _, k := range known {
		switch {
		case x.Kind == "lin" && k.Kind == "lin":
			// x: A-B <= kx ; k: B-A <= kk  =>  A-B >= -kk ; empty iff -kk > kx
			if x.A.ID == k.B.ID && x.B.ID == k.A.ID && x.K+k.K < 0 {
				return true
			}
		case (x.Kind == "eq" && k.Kind == "ne") || (x.Kind == "ne" && k.Kind == "eq"):
			if x.A.ID == k.A.ID && x.B.ID == k.B.ID && x.K == k.K {
				return true
			}
			if x.A.ID == k.B.ID && x.B.ID == k.A.ID && x.K == -k.K {
				return true
			}
		case x.Kind == "bool" && k.Kind == "bool", x.Kind == "nil" && k.Kind == "nil":
			if x.A.ID == k.A.ID && x.Pol != k.Pol {
				return true
			}
		}
	}
	return false
}

// ---------------------------------------------------------------------------------------------------------------

type c01nSite struct {
	loc  Loc
	node ast.Node
	mask int
}

type c01nFnRes struct {
	fi      *FuncInfo
	sites   []c01nSite
	here    int               // fields some site of the function stores
	must    int               // fields every path of the function stores, whatever it is called with
	missing map[int]int       // site index -> fields missing on some consuming path
	exitPos map[int]token.Pos // site index -> where the offending path leaves
	kinds   map[int][]int64   // site index -> report types its guards identify
	guards  map[int]string    // site index -> report-only atoms, for the reason text
}

type c01nAnalysis struct {
	c         *Ctx
	storeMust map[*types.Func]int // fields the function stores on every path, whatever it is called with
	storeCond map[*types.Func]int // fields it stores on every path of a report it does not reject by the report alone
	frees     map[*FuncInfo]*c01nFree
	guardsAt  map[Loc][]Guard
}

// wholeMask: which grid fields does `nextSize = rhs` set to something the right-hand side chose?
func c01nWholeMask(info *types.Info, rhs ast.Expr) int {
	cl, ok := unparen(rhs).(*ast.CompositeLit)
	if !ok {
		return c01nCols | c01nRows
	}
	if len(cl.Elts) == 0 {
		return 0
	}
	m := 0
	for _, el := range cl.Elts {
		kv, ok := el.(*ast.KeyValueExpr)
		if !ok {
			return c01nCols | c01nRows // positional: every field
		}
		if id, ok := kv.Key.(*ast.Ident); ok {
			switch id.Name {
			case "Cols":
				m |= c01nCols
			case "Rows":
				m |= c01nRows
			}
		}
	}
	return m
}

// nodeMask: the grid fields a CFG node stores (function literals it contains are taken to run where they stand;
// `go` statements are not).
func (a *c01nAnalysis) nodeMask(info *types.Info, self *types.Func, fr *c01nFree, n ast.Node) int {
	m := 0
	ast.Inspect(n, func(x ast.Node) bool {
		switch t := x.(type) {
		case *ast.GoStmt:
			return false
		case *ast.AssignStmt:
			if t.Tok != token.ASSIGN && t.Tok != token.DEFINE {
				return true
			}
			for i, l := range t.Lhs {
				if _, isSel := unparen(l).(*ast.SelectorExpr); !isSel {
					continue
				}
				switch lhsPath(info, l) {
				case "Vaxis.nextSize.Cols":
					m |= c01nCols
				case "Vaxis.nextSize.Rows":
					m |= c01nRows
				case "Vaxis.nextSize":
					if len(t.Lhs) == len(t.Rhs) {
						m |= c01nWholeMask(info, t.Rhs[i])
					} else {
						m |= c01nCols | c01nRows
					}
				}
			}
		case *ast.CallExpr:
			if fn := calleeOf(info, t); fn != nil && fn != self {
				m |= a.storeMust[fn]
				// a handler that decides by the report it is given: the call stores for the caller's report if the
				// caller hands its own report on (arguments computed from the caller's value parameters alone)
				if cm := a.storeCond[fn]; cm&^m != 0 && len(t.Args) > 0 {
					handsOn, nonConst := true, false
					for _, arg := range t.Args {
						if !fr.free(arg) {
							handsOn = false
						}
						if tv, ok := info.Types[arg]; !ok || tv.Value == nil {
							nonConst = true
						}
					}
					if handsOn && nonConst {
						m |= cm
					}
				}
			}
		}
		return true
	})
	return m
}

func (a *c01nAnalysis) freeOf(fi *FuncInfo) *c01nFree {
	if fr := a.frees[fi]; fr != nil {
		return fr
	}
	fr := newC01nFree(a.c.P, fi.Pkg.TypesInfo, fi.Decl)
	a.frees[fi] = fr
	return fr
}

func (a *c01nAnalysis) guards(g *FG, l Loc) []Guard {
	k := Loc{l.B, 0}
	if gs, ok := a.guardsAt[k]; ok {
		return gs
	}
	gs := g.Guards(l)
	a.guardsAt[k] = gs
	return gs
}

// analyse one function under the current must-store summaries.
func (a *c01nAnalysis) analyse(fi *FuncInfo) *c01nFnRes {
	g := a.c.P.Graph(fi)
	if g == nil || len(g.Blocks) == 0 {
		return nil
	}
	info := fi.Pkg.TypesInfo
	res := &c01nFnRes{fi: fi, missing: map[int]int{}, exitPos: map[int]token.Pos{}, kinds: map[int][]int64{}, guards: map[int]string{}}
	masks := map[ast.Node]int{}
	fr := a.freeOf(fi)
	for _, b := range g.Blocks {
		for i, n := range b.Nodes {
			if m := a.nodeMask(info, fi.Obj, fr, n); m != 0 {
				masks[n] = m
				res.sites = append(res.sites, c01nSite{Loc{b, i}, n, m})
				res.here |= m
			}
		}
	}
	if len(res.sites) == 0 {
		return nil
	}
	sort.Slice(res.sites, func(i, j int) bool { return res.sites[i].node.Pos() < res.sites[j].node.Pos() })
	if os.Getenv("VX_C01N_DUMP") != "" {
		fmt.Printf("---- %s\n", fi.Name)
		_ = printer.Fprint(os.Stdout, a.c.P.Fset, fi.Decl)
		fmt.Println()
	}
	// unconditional summary: what every path from entry to a normal exit stores
	{
		res.must = res.here
		type state struct {
			b *cfg.Block
			m int
		}
		seen := map[state]bool{}
		work := []state{{g.Blocks[0], 0}}
		for len(work) > 0 && res.must != 0 {
			cur := work[len(work)-1]
			work = work[:len(work)-1]
			if seen[cur] {
				continue
			}
			seen[cur] = true
			m := cur.m
			for _, n := range cur.b.Nodes {
				m |= masks[n]
			}
			if m&res.here == res.here {
				continue
			}
			if len(cur.b.Succs) == 0 {
				if g.isNormalExit(cur.b) {
					res.must &= m
				}
				continue
			}
			for _, sc := range cur.b.Succs {
				work = append(work, state{sc, m})
			}
		}
	}
	for si, s := range res.sites {
		// what the report-only conditions on every path to the site say about the report
		var known []Atom
		kindSet := map[int64]bool{}
		for _, gd := range a.guards(g, s.loc) {
			if gd.Cond.Alts != nil {
				if gd.Pol && gd.Cond.Tag != nil && fr.condFree(gd.Cond) {
					for _, alt := range gd.Cond.Alts {
						if v, ok := constInt(info, alt); ok {
							kindSet[v] = true
						}
					}
				}
				continue
			}
			known = append(known, fr.edgeAtoms(gd.Cond, gd.Pol)...)
		}
		for _, k := range known {
			if k.Kind == "eq" && (k.A.ID == "") != (k.B.ID == "") {
				v := k.K
				if k.A.ID == "" {
					v = -v
				}
				kindSet[v] = true
			}
		}
		for v := range kindSet {
			if v == 8 || v == 48 {
				res.kinds[si] = append(res.kinds[si], v)
			}
		}
		sort.Slice(res.kinds[si], func(i, j int) bool { return res.kinds[si][i] < res.kinds[si][j] })
		var ks []string
		for _, k := range known {
			if k.Kind == "eq" || k.Kind == "bool" || k.Kind == "nil" {
				ks = append(ks, k.String())
			}
		}
		res.guards[si] = strings.Join(ks, ", ")

		// blocks from which the site can still be reached
		reach := map[*cfg.Block]bool{s.loc.B: true}
		st := []*cfg.Block{s.loc.B}
		for len(st) > 0 {
			b := st[len(st)-1]
			st = st[:len(st)-1]
			for _, p := range g.preds[b] {
				if !reach[p] {
					reach[p] = true
					st = append(st, p)
				}
			}
		}
		need := res.here
		type state struct {
			b *cfg.Block
			m int
		}
		seen := map[state]bool{}
		work := []state{{g.Blocks[0], 0}}
		for len(work) > 0 {
			cur := work[len(work)-1]
			work = work[:len(work)-1]
			if seen[cur] {
				continue
			}
			seen[cur] = true
			m := cur.m
			for _, n := range cur.b.Nodes {
				m |= masks[n]
			}
			if m&need == need {
				continue
			}
			if len(cur.b.Succs) == 0 {
				if g.isNormalExit(cur.b) {
					if res.missing[si] == 0 {
						pos := fi.Decl.Body.Rbrace
						if len(cur.b.Nodes) > 0 {
							pos = cur.b.Nodes[len(cur.b.Nodes)-1].Pos()
						}
						res.exitPos[si] = pos
					}
					res.missing[si] |= need &^ m
				}
				continue
			}
			succs := cur.b.Succs
			keep := make([]bool, len(succs))
			for i := range keep {
				keep[i] = true
			}
			if len(succs) == 2 && succs[0] != succs[1] {
				reportOnly := false
				if cd := g.BranchCond(cur.b); cd != nil {
					for i, pol := range []bool{true, false} {
						for _, at := range fr.edgeAtoms(cd, pol) {
							if c01nContradicts(known, at) {
								keep[i] = false
							}
						}
					}
					reportOnly = fr.condFree(cd)
				} else if succs[0].Kind == cfg.KindSwitchCaseBody {
					if cc, ok := succs[0].Stmt.(*ast.CaseClause); ok {
						if ts := fr.tsOf[cc]; ts != nil {
							if subj := c01nTypeSwitchSubject(ts); subj != nil && fr.free(subj) {
								reportOnly = true
							}
						}
					}
				}
				// a branch the report alone decides: a report that reaches the site takes the edge towards it
				if reportOnly && reach[succs[0]] != reach[succs[1]] {
					keep[0], keep[1] = keep[0] && reach[succs[0]], keep[1] && reach[succs[1]]
				}
			}
			for i, sc := range succs {
				if keep[i] {
					work = append(work, state{sc, m})
				}
			}
		}
	}
	return res
}

func c01SizeReportStored(c *Ctx) {
	c.Clauses = append(c.Clauses, c01nRule+" every size report that is consumed updates the size the next Render will use: in every function that stores the reported grid into Vaxis.nextSize, every path stores it except those that leave on a branch decided by the report alone (no early exit that depends on what Vaxis currently believes); a store exists for the in-band (CSI 48 t) and the text-area (CSI 8 t) report")
	c.expect(c01nRule, 4)
	a := &c01nAnalysis{c: c, storeMust: map[*types.Func]int{}, storeCond: map[*types.Func]int{}, frees: map[*FuncInfo]*c01nFree{}, guardsAt: map[Loc][]Guard{}}
	fis := c.P.FuncsIn("vaxis")
	var results []*c01nFnRes
	for round := 0; round < 6; round++ {
		results = results[:0]
		changed := false
		for _, fi := range fis {
			if fi.Decl.Body == nil || fi.Obj == nil {
				continue
			}
			r := a.analyse(fi)
			if r == nil {
				continue
			}
			results = append(results, r)
			pass := r.here
			for _, miss := range r.missing {
				pass &^= miss
			}
			if a.storeCond[fi.Obj] != pass || a.storeMust[fi.Obj] != r.must {
				a.storeCond[fi.Obj] = pass
				a.storeMust[fi.Obj] = r.must
				changed = true
			}
		}
		if !changed {
			break
		}
	}
	kindName := map[int64]string{48: "in-band size report (CSI 48 t)", 8: "text-area size report (CSI 8 t)"}
	found := map[int64]token.Pos{}
	used := map[string]int{}
	for _, r := range results {
		for si, s := range r.sites {
			label := "size"
			if ks := r.kinds[si]; len(ks) == 1 {
				label = kindName[ks[0]]
			} else if len(ks) > 1 {
				label = "size report (CSI 8/48 t)"
			}
			for _, k := range r.kinds[si] {
				if _, ok := found[k]; !ok {
					found[k] = s.node.Pos()
				}
			}
			key := fmt.Sprintf("%s/%s: %s stored on every consuming path", r.fi.Name, label, c01nMaskString(s.mask))
			used[key]++
			if used[key] > 1 {
				key += fmt.Sprintf("#%d", used[key])
			}
			if miss := r.missing[si]; miss != 0 {
				c.bad(c01nRule, key, s.node.Pos(), "a report that reaches this store (%s) can also leave the function at %s without storing %s, on a path chosen by something other than the report itself: nextSize keeps an older report, and the next Render allocates the screens for a size the terminal no longer has", r.guards[si], c.P.Pos(r.exitPos[si]), c01nMaskString(miss))
			} else {
				c.ok(c01nRule, key, s.node.Pos(), "every path of a report satisfying (%s) stores %s", r.guards[si], c01nMaskString(r.here))
			}
		}
	}
	for _, k := range []int64{48, 8} {
		key := "vaxis/" + kindName[k] + " reaches nextSize"
		if pos, ok := found[k]; ok {
			c.ok(c01nRule, key, pos, "a store of the reported grid is guarded by the report type %d", k)
		} else {
			c.undecided(c01nRule, key, token.NoPos, "no store of Vaxis.nextSize.Cols/Rows (direct or through a callee) stands under a report-only guard that identifies report type %d: either the report is no longer stored, or the dispatch has a shape this rule does not read", k)
		}
	}
}
