package main

// Engine E1 — emission extractor: which byte templates are written to a sink,
// in which function, under which dominating guards.

import (
	"encoding/hex"
	"fmt"
	"go/ast"
	"go/constant"
	"go/token"
	"go/types"
	"sort"
	"strconv"
	"strings"

	"golang.org/x/tools/go/packages"
)

type Emission struct {
	Fn        *FuncInfo
	FnName    string
	Call      *ast.CallExpr
	Loc       Loc
	G         *FG
	Sink      string   // kind of sink
	Templates []string // possible strings; unresolved parts appear as verbs (%d, %s, %v)
	Resolved  bool
	Why       string
	Facts     []Atom
	GuardKeys []string // canonical guard atoms
	ArgExpr   ast.Expr
}

// SinkFn decides whether call is a sink; it returns the index of the string/bytes/format argument,
// whether the argument is a printf format (followed by args), and a label.
type SinkFn func(pk *packages.Package, call *ast.CallExpr, fn *types.Func) (arg int, isFormat bool, label string, ok bool)

type strEval struct {
	p     *Program
	pk    *packages.Package
	info  *types.Info
	depth int
	// legacy variants of package-level string variables: var obj -> extra values
	varVariants map[types.Object][]string
	// applyFormatAll: argument expression -> the one row value it stands for in the current combination
	pinInt map[ast.Expr]int64
	pinStr map[ast.Expr]string
	// nesting of single-definition locals being resolved
	localDepth int
}

func newStrEval(p *Program, pk *packages.Package) *strEval {
	se := &strEval{p: p, pk: pk, info: pk.TypesInfo, varVariants: map[types.Object][]string{}}
	se.collectVarVariants()
	return se
}

// collectVarVariants finds assignments `v = strings.ReplaceAll(v, a, b)` to package-level string vars.
func (se *strEval) collectVarVariants() {
	for _, f := range se.pk.Syntax {
		ast.Inspect(f, func(n ast.Node) bool {
			as, ok := n.(*ast.AssignStmt)
			if !ok || len(as.Lhs) != 1 || len(as.Rhs) != 1 || as.Tok != token.ASSIGN {
				return true
			}
			id, ok := as.Lhs[0].(*ast.Ident)
			if !ok {
				return true
			}
			obj, _ := se.info.Uses[id].(*types.Var)
			if obj == nil || obj.Parent() != se.pk.Types.Scope() {
				return true
			}
			call, ok := as.Rhs[0].(*ast.CallExpr)
			if !ok {
				return true
			}
			if fn := calleeOf(se.info, call); fn != nil && fullName(fn) == "strings.ReplaceAll" && len(call.Args) == 3 {
				a, okA := constString(se.info, call.Args[1])
				b, okB := constString(se.info, call.Args[2])
				if base, ok := se.varInit(obj); ok && okA && okB {
					for _, v := range base {
						se.varVariants[obj] = append(se.varVariants[obj], strings.ReplaceAll(v, a, b))
					}
				}
			}
			return true
		})
	}
}

func constString(info *types.Info, e ast.Expr) (string, bool) {
	tv, ok := info.Types[e]
	if !ok || tv.Value == nil || tv.Value.Kind() != constant.String {
		return "", false
	}
	return constant.StringVal(tv.Value), true
}

// varInit returns the initialiser value(s) of a package-level string variable.
func (se *strEval) varInit(obj *types.Var) ([]string, bool) {
	for _, f := range se.pk.Syntax {
		for _, d := range f.Decls {
			gd, ok := d.(*ast.GenDecl)
			if !ok || gd.Tok != token.VAR {
				continue
			}
			for _, sp := range gd.Specs {
				vs := sp.(*ast.ValueSpec)
				for i, n := range vs.Names {
					if se.info.Defs[n] == obj && i < len(vs.Values) {
						return se.eval(vs.Values[i], nil)
					}
				}
			}
		}
	}
	return nil, false
}

type strEnv map[types.Object]ast.Expr // parameter -> argument expression (evaluated in outer env)

type envFrame struct {
	env   strEnv
	outer *envFrame
	// the evaluator of the calling function (its type information resolves the argument expressions of env)
	callerSE *strEval
	// string-valued locals of the function being summarised (`style := vx.cursorStyle()`), evaluated in order
	locals map[types.Object][]string
}

// eval returns the possible string values of e (with unresolved verbs left in place).
func (se *strEval) eval(e ast.Expr, fr *envFrame) ([]string, bool) {
	e = unparen(e)
	if s, ok := constString(se.info, e); ok {
		return []string{s}, true
	}
	switch t := e.(type) {
	case *ast.BasicLit:
		// a synthesised zero value (resolveStatic): go/types has no constant for it
		if t.Kind == token.STRING {
			if s, err := strconv.Unquote(t.Value); err == nil {
				return []string{s}, true
			}
		}
		return nil, false
	case *ast.Ident:
		obj := se.info.ObjectOf(t)
		if _, isNil := obj.(*types.Nil); isNil {
			return []string{""}, true // a nil byte slice: no bytes
		}
		if fr != nil {
			if vals, ok := fr.locals[obj]; ok {
				return append([]string{}, vals...), true
			}
			if arg, ok := fr.env[obj]; ok {
				return se.eval(arg, fr.outer)
			}
		}
		// a local that is assigned exactly once stands for its defining expression (`seq := decset(m)` ...
		// `w.WriteString(seq)`): the template domain has no notion of time, and what it folds (constants,
		// package-level strings with all their variants, table rows) does not depend on when it is evaluated
		if v, ok := obj.(*types.Var); ok && !v.IsField() && v.Pkg() != nil && v.Parent() != v.Pkg().Scope() && se.localDepth < 6 {
			if src := singleDefOf(se.info, obj); src != nil {
				if bt, isB := v.Type().Underlying().(*types.Basic); isB && bt.Info()&types.IsString != 0 {
					se.localDepth++
					vals, ok := se.eval(src, fr)
					se.localDepth--
					if ok {
						return vals, true
					}
				}
			}
		}
		// the value variable of a range over a read-only package-level table: one value per row
		if rows := se.tableRows(t); rows != nil {
			var out []string
			for _, r := range rows {
				vals, ok := se.eval(r, fr)
				if !ok {
					return nil, false
				}
				out = appendUniq(out, vals...)
			}
			return out, true
		}
		if v, ok := obj.(*types.Var); ok && v.Parent() == se.pk.Types.Scope() {
			base, ok := se.varInit(v)
			if !ok {
				return nil, false
			}
			return append(append([]string{}, base...), se.varVariants[v]...), true
		}
		return nil, false
	case *ast.SelectorExpr:
		// a field of the row variable of a range over a read-only table of structs
		if fs := se.tableRowField(t); fs != nil {
			var out []string
			for _, r := range fs {
				vals, ok := se.eval(r, fr)
				if !ok {
					return nil, false
				}
				out = appendUniq(out, vals...)
			}
			return out, true
		}
		// a field of a constant row of a literal table (T[3].seq) or of a local struct literal (seqs.reset)
		if r := resolveStatic(se.info, t); r != nil {
			return se.eval(r, fr)
		}
		return nil, false
	case *ast.IndexExpr:
		if r := resolveStatic(se.info, t); r != nil {
			return se.eval(r, fr)
		}
		return nil, false
	case *ast.BinaryExpr:
		if t.Op == token.ADD {
			a, okA := se.eval(t.X, fr)
			b, okB := se.eval(t.Y, fr)
			if okA && okB {
				var out []string
				for _, x := range a {
					for _, y := range b {
						out = append(out, x+y)
					}
				}
				return out, true
			}
		}
		return nil, false
	case *ast.CompositeLit:
		// []byte{0x07}
		var sb strings.Builder
		for _, el := range t.Elts {
			v, ok := constInt(se.info, el)
			if !ok {
				return nil, false
			}
			sb.WriteByte(byte(v))
		}
		return []string{sb.String()}, true
	case *ast.CallExpr:
		// conversions []byte(s), string(x)
		if tv, ok := se.info.Types[t.Fun]; ok && tv.IsType() && len(t.Args) == 1 {
			return se.eval(t.Args[0], fr)
		}
		if vals, handled, ok := se.evalBuiltinBytes(t, fr); handled {
			return vals, ok
		}
		fn := calleeOf(se.info, t)
		if fn == nil {
			return nil, false
		}
		switch fullName(fn) {
		case "encoding/hex.EncodeToString", "strings.ToUpper", "strings.ToLower":
			// on fully constant text only (a hole would be rewritten as if it were text)
			if len(t.Args) != 1 {
				return nil, false
			}
			vals, ok := se.eval(t.Args[0], fr)
			if !ok {
				return nil, false
			}
			var out []string
			for _, v := range vals {
				if strings.Contains(v, "%") {
					return nil, false
				}
				switch fn.Name() {
				case "EncodeToString":
					v = hex.EncodeToString([]byte(v))
				case "ToUpper":
					v = strings.ToUpper(v)
				case "ToLower":
					v = strings.ToLower(v)
				}
				out = appendUniq(out, v)
			}
			return out, true
		case "strconv.Itoa":
			if len(t.Args) == 1 {
				return se.intText(t.Args[0], 10, fr)
			}
			return nil, false
		case "strconv.FormatInt", "strconv.FormatUint":
			if len(t.Args) == 2 {
				if base, ok := se.constIntArg(t.Args[1], fr); ok {
					return se.intText(t.Args[0], base, fr)
				}
			}
			return nil, false
		case "strconv.AppendInt", "strconv.AppendUint":
			if len(t.Args) == 3 {
				if base, ok := se.constIntArg(t.Args[2], fr); ok {
					head, okH := se.eval(t.Args[0], fr)
					num, okN := se.intText(t.Args[1], base, fr)
					if okH && okN {
						return crossConcat(head, num), true
					}
				}
			}
			return nil, false
		case "fmt.Appendf":
			if len(t.Args) >= 2 {
				head, okH := se.eval(t.Args[0], fr)
				fmts, okF := se.eval(t.Args[1], fr)
				if okH && okF {
					var tail []string
					for _, f := range fmts {
						tail = append(tail, se.applyFormatAll(f, t.Args[2:], t.Ellipsis.IsValid(), fr)...)
					}
					return crossConcat(head, tail), true
				}
			}
			return nil, false
		case "fmt.Sprintf":
			if len(t.Args) == 0 {
				return nil, false
			}
			fmts, ok := se.eval(t.Args[0], fr)
			if !ok {
				return nil, false
			}
			var out []string
			for _, f := range fmts {
				out = append(out, se.applyFormatAll(f, t.Args[1:], t.Ellipsis.IsValid(), fr)...)
			}
			return out, true
		case "bytes.Buffer.String", "strings.Builder.String", "bytes.Buffer.Bytes":
			return nil, false
		}
		// repository function: inline `return expr` bodies and straight-line builders
		if fi := se.p.FuncOfObj(fn); fi != nil && fi.Decl.Body != nil && se.depth < 4 {
			se.depth++
			defer func() { se.depth-- }()
			env := strEnv{}
			i := 0
			variadicStart := -1
			sig := fn.Type().(*types.Signature)
			for _, f := range fi.Decl.Type.Params.List {
				for _, n := range f.Names {
					if sig.Variadic() && i == sig.Params().Len()-1 {
						variadicStart = i
					} else if i < len(t.Args) {
						env[fi.Pkg.TypesInfo.Defs[n]] = t.Args[i]
					}
					i++
				}
			}
			callee := &strEval{p: se.p, pk: fi.Pkg, info: fi.Pkg.TypesInfo, depth: se.depth, varVariants: se.varVariants}
			if fi.Pkg != se.pk {
				callee = newStrEval(se.p, fi.Pkg)
				callee.depth = se.depth
			}
			return callee.evalBody(fi, &envFrame{env: env, outer: fr, callerSE: se}, t, variadicStart, se, fr)
		}
		return nil, false
	}
	return nil, false
}

// evalBody evaluates a string-returning function body of one of the forms
//
//	return <expr>
//	b := <builder>; b.WriteString(x)...; return b.String()
func (se *strEval) evalBody(fi *FuncInfo, fr *envFrame, call *ast.CallExpr, variadicStart int, callerSE *strEval, callerFr *envFrame) ([]string, bool) {
	body := fi.Decl.Body.List
	if len(body) == 1 {
		if rs, ok := body[0].(*ast.ReturnStmt); ok && len(rs.Results) == 1 {
			// fmt.Sprintf(s, args...) forwarding variadic
			if c2, ok := rs.Results[0].(*ast.CallExpr); ok {
				if fn := calleeOf(se.info, c2); fn != nil && fullName(fn) == "fmt.Sprintf" && c2.Ellipsis.IsValid() && variadicStart >= 0 && len(c2.Args) == 2 {
					fmts, ok := se.eval(c2.Args[0], fr)
					if !ok {
						return nil, false
					}
					var rest []ast.Expr
					if variadicStart < len(call.Args) {
						rest = call.Args[variadicStart:]
					}
					var out []string
					for _, f := range fmts {
						out = append(out, callerSE.applyFormatAll(f, rest, false, callerFr)...)
					}
					return out, true
				}
			}
			return se.eval(rs.Results[0], fr)
		}
	}
	// statement list: builders, string-valued intermediates, and returns selected by conditions on the arguments
	if fr != nil && fr.locals == nil {
		fr.locals = map[types.Object][]string{}
	}
	st := &bodyState{acc: []string{""}}
	vals, returned, ok := se.evalStmts(body, fr, st, 0)
	if !ok || !returned {
		return nil, false
	}
	return vals, true
}

// bodyState: the string builder of a function body being summarised and what was written to it so far.
type bodyState struct {
	builder types.Object
	acc     []string
}

// evalStmts evaluates a statement list of a string-returning helper: returned=true with the possible results if
// every path through the list returns; returned=false (and ok) if control falls out of the list. Conditions that
// depend only on constant arguments select one branch; any other condition keeps both (the result is the union),
// provided the branches do nothing but return.
func (se *strEval) evalStmts(list []ast.Stmt, fr *envFrame, st *bodyState, depth int) (vals []string, returned bool, ok bool) {
	if depth > 6 {
		return nil, false, false
	}
	var pending []string // results of returns taken under undecided conditions
	for _, s := range list {
		switch t := s.(type) {
		case *ast.BlockStmt:
			v, ret, ok := se.evalStmts(t.List, fr, st, depth+1)
			if !ok {
				return nil, false, false
			}
			if ret {
				return appendUniq(pending, v...), true, true
			}
		case *ast.AssignStmt:
			if len(t.Lhs) == 1 && len(t.Rhs) == 1 && t.Tok == token.DEFINE {
				if id, isID := t.Lhs[0].(*ast.Ident); isID {
					if bt, isB := se.info.TypeOf(id).Underlying().(*types.Basic); isB && bt.Info()&types.IsString != 0 && fr != nil {
						v, ok := se.eval(t.Rhs[0], fr)
						if !ok {
							return nil, false, false
						}
						fr.locals[se.info.Defs[id]] = v
						continue
					}
					// buf := make([]byte, 0, n) / []byte("...") : a byte-slice accumulator
					if isByteSlice(se.info.TypeOf(id)) && fr != nil && se.info.Defs[id] != nil {
						if v, ok := se.eval(t.Rhs[0], fr); ok {
							fr.locals[se.info.Defs[id]] = v
						}
						continue
					}
					if isBuilderType(se.info.TypeOf(id)) {
						if st.builder == nil {
							st.builder = se.info.Defs[id]
							continue
						}
						return nil, false, false
					}
					// any other local (`next := &vx.cursorNext`): what is written from it stays a hole
					continue
				}
			}
			// s = <expr> / s += <expr> on a string or byte-slice local whose value so far is known (straight-line
			// code: undecided conditions only guard returns, decided ones are followed)
			if len(t.Lhs) == 1 && len(t.Rhs) == 1 && (t.Tok == token.ASSIGN || t.Tok == token.ADD_ASSIGN) && fr != nil {
				if id, isID := t.Lhs[0].(*ast.Ident); isID && id.Name != "_" {
					if cur, tracked := fr.locals[se.info.ObjectOf(id)]; tracked {
						v, ok := se.eval(t.Rhs[0], fr)
						if !ok {
							return nil, false, false
						}
						if t.Tok == token.ADD_ASSIGN {
							v = crossConcat(cur, v)
						}
						fr.locals[se.info.ObjectOf(id)] = v
						continue
					}
				}
			}
			// `_ = x` (left behind by helper inlining) has no effect
			if len(t.Lhs) == 1 && t.Tok == token.ASSIGN {
				if id, isID := t.Lhs[0].(*ast.Ident); isID && id.Name == "_" {
					if _, isCall := unparen(t.Rhs[0]).(*ast.CallExpr); !isCall {
						continue
					}
				}
			}
			return nil, false, false
		case *ast.DeclStmt:
			// var b strings.Builder / var s string
			gd, isGD := t.Decl.(*ast.GenDecl)
			if !isGD || gd.Tok != token.VAR {
				return nil, false, false
			}
			for _, sp := range gd.Specs {
				vs := sp.(*ast.ValueSpec)
				for i, nm := range vs.Names {
					o := se.info.Defs[nm]
					switch {
					case isBuilderType(se.info.TypeOf(nm)) && len(vs.Values) == 0 && st.builder == nil:
						st.builder = o
					case i < len(vs.Values) && fr != nil:
						if bt, isB := se.info.TypeOf(nm).Underlying().(*types.Basic); isB && bt.Info()&types.IsString != 0 {
							v, ok := se.eval(vs.Values[i], fr)
							if !ok {
								return nil, false, false
							}
							fr.locals[o] = v
						} else if isByteSlice(se.info.TypeOf(nm)) {
							if v, ok := se.eval(vs.Values[i], fr); ok {
								fr.locals[o] = v
							}
						}
					case len(vs.Values) == 0 && fr != nil && o != nil:
						// var s string / var buf []byte: empty
						if bt, isB := se.info.TypeOf(nm).Underlying().(*types.Basic); (isB && bt.Info()&types.IsString != 0) || isByteSlice(se.info.TypeOf(nm)) {
							fr.locals[o] = []string{""}
						}
					}
				}
			}
		case *ast.ExprStmt:
			c2, isCall := t.X.(*ast.CallExpr)
			if !isCall {
				return nil, false, false
			}
			sel, isSel := c2.Fun.(*ast.SelectorExpr)
			if !isSel || st.builder == nil {
				return nil, false, false
			}
			var v []string
			ok := false
			switch {
			case rootObj(se.info, sel.X) == st.builder && (sel.Sel.Name == "WriteString" || sel.Sel.Name == "Write") && len(c2.Args) == 1:
				v, ok = se.eval(c2.Args[0], fr)
			case rootObj(se.info, sel.X) == st.builder && (sel.Sel.Name == "WriteByte" || sel.Sel.Name == "WriteRune") && len(c2.Args) == 1:
				if ch, isC := se.constIntArg(c2.Args[0], fr); isC && ch >= 0 && ch != '%' {
					if sel.Sel.Name == "WriteByte" {
						v, ok = []string{string([]byte{byte(ch)})}, ch < 256
					} else {
						v, ok = []string{string(rune(ch))}, true
					}
				}
			default:
				// fmt.Fprintf(&b, format, args...) / fmt.Fprint(&b, s)
				dst := ast.Expr(nil)
				if len(c2.Args) >= 2 {
					dst = unparen(c2.Args[0])
					if u, isU := dst.(*ast.UnaryExpr); isU && u.Op == token.AND {
						dst = u.X
					}
				}
				if fn := calleeOf(se.info, c2); fn != nil && dst != nil && rootObj(se.info, dst) == st.builder {
					switch fullName(fn) {
					case "fmt.Fprintf":
						if fmts, okF := se.eval(c2.Args[1], fr); okF {
							for _, f := range fmts {
								v = append(v, se.applyFormatAll(f, c2.Args[2:], c2.Ellipsis.IsValid(), fr)...)
							}
							ok = true
						}
					case "fmt.Fprint", "io.WriteString":
						if len(c2.Args) == 2 {
							if bt, isB := se.info.TypeOf(c2.Args[1]).Underlying().(*types.Basic); isB && bt.Info()&types.IsString != 0 {
								v, ok = se.eval(c2.Args[1], fr)
							}
						}
					}
				}
			}
			if !ok {
				return nil, false, false
			}
			var next []string
			for _, a := range st.acc {
				for _, x := range v {
					next = append(next, a+x)
				}
			}
			st.acc = next
		case *ast.ReturnStmt:
			if len(t.Results) != 1 {
				return nil, false, false
			}
			if c2, isCall := t.Results[0].(*ast.CallExpr); isCall && st.builder != nil {
				if sel, isSel := c2.Fun.(*ast.SelectorExpr); isSel && rootObj(se.info, sel.X) == st.builder && sel.Sel.Name == "String" {
					return appendUniq(pending, st.acc...), true, true
				}
			}
			if st.builder != nil {
				return nil, false, false
			}
			v, ok := se.eval(t.Results[0], fr)
			if !ok {
				return nil, false, false
			}
			return appendUniq(pending, v...), true, true
		case *ast.IfStmt:
			if t.Init != nil {
				return nil, false, false
			}
			if cv, known := se.constCond(t.Cond, fr); known {
				var branch []ast.Stmt
				if cv {
					branch = t.Body.List
				} else if t.Else != nil {
					branch = []ast.Stmt{t.Else}
				}
				v, ret, ok := se.evalStmts(branch, fr, st, depth+1)
				if !ok {
					return nil, false, false
				}
				if ret {
					return appendUniq(pending, v...), true, true
				}
				continue
			}
			// undecided: both arms may do nothing but return
			for _, arm := range []ast.Stmt{t.Body, t.Else} {
				if arm == nil {
					continue
				}
				if !se.onlyReturns(arm) {
					return nil, false, false
				}
				sub := &bodyState{builder: st.builder, acc: append([]string{}, st.acc...)}
				v, ret, ok := se.evalStmts([]ast.Stmt{arm}, fr, sub, depth+1)
				if !ok {
					return nil, false, false
				}
				if ret {
					pending = appendUniq(pending, v...)
				}
			}
			if t.Else != nil {
				if _, r1, _ := se.evalStmts([]ast.Stmt{t.Body}, fr, &bodyState{builder: st.builder, acc: append([]string{}, st.acc...)}, depth+1); r1 {
					if _, r2, _ := se.evalStmts([]ast.Stmt{t.Else}, fr, &bodyState{builder: st.builder, acc: append([]string{}, st.acc...)}, depth+1); r2 {
						return pending, true, true
					}
				}
			}
		case *ast.SwitchStmt:
			if t.Init != nil {
				return nil, false, false
			}
			var def *ast.CaseClause
			taken := false
			allReturn := true
			undecided := false
			for _, cl := range t.Body.List {
				cc := cl.(*ast.CaseClause)
				if cc.List == nil {
					def = cc
					continue
				}
				match, known := false, true
				for _, e := range cc.List {
					var cond ast.Expr = e
					if t.Tag != nil {
						cond = &ast.BinaryExpr{X: t.Tag, Op: token.EQL, Y: e}
					}
					cv, k := se.constCond(cond, fr)
					if !k {
						known = false
					} else if cv {
						match = true
					}
				}
				if match {
					v, ret, ok := se.evalStmts(cc.Body, fr, st, depth+1)
					if !ok {
						return nil, false, false
					}
					if ret {
						return appendUniq(pending, v...), true, true
					}
					taken = true
					break
				}
				if !known {
					undecided = true
					if !se.onlyReturns(&ast.BlockStmt{List: cc.Body}) {
						return nil, false, false
					}
					v, ret, ok := se.evalStmts(cc.Body, fr, &bodyState{builder: st.builder, acc: append([]string{}, st.acc...)}, depth+1)
					if !ok {
						return nil, false, false
					}
					if ret {
						pending = appendUniq(pending, v...)
					} else {
						allReturn = false
					}
				}
			}
			if taken {
				continue
			}
			if def != nil {
				if undecided && !se.onlyReturns(&ast.BlockStmt{List: def.Body}) {
					return nil, false, false
				}
				v, ret, ok := se.evalStmts(def.Body, fr, st, depth+1)
				if !ok {
					return nil, false, false
				}
				if ret {
					if allReturn {
						return appendUniq(pending, v...), true, true
					}
					pending = appendUniq(pending, v...)
				}
			}
		default:
			return nil, false, false
		}
	}
	if len(pending) > 0 {
		// some path returned under an undecided condition and the rest of the list fell through: not summarised
		return nil, false, false
	}
	return nil, false, true
}

// crossConcat: every a followed by every b.
func crossConcat(as, bs []string) []string {
	var out []string
	for _, a := range as {
		for _, b := range bs {
			out = appendUniq(out, a+b)
		}
	}
	return out
}

// evalBuiltinBytes: the byte-slice forms of the builtins — make([]byte, 0[, n]) is empty, append(b, s...) and
// append(b, c1, c2) (constant bytes) extend what b evaluates to.
func (se *strEval) evalBuiltinBytes(call *ast.CallExpr, fr *envFrame) (vals []string, handled, ok bool) {
	id, isID := unparen(call.Fun).(*ast.Ident)
	if !isID {
		return nil, false, false
	}
	b, isB := se.info.Uses[id].(*types.Builtin)
	if !isB {
		return nil, false, false
	}
	switch b.Name() {
	case "make":
		if len(call.Args) >= 2 && isByteSlice(se.info.TypeOf(call.Args[0])) {
			if n, okN := constInt(se.info, call.Args[1]); okN && n == 0 {
				return []string{""}, true, true
			}
		}
		return nil, true, false
	case "append":
		if len(call.Args) == 0 || !isByteSlice(se.info.TypeOf(call.Args[0])) {
			return nil, true, false
		}
		head, okH := se.eval(call.Args[0], fr)
		if !okH {
			return nil, true, false
		}
		if call.Ellipsis.IsValid() {
			if len(call.Args) != 2 {
				return nil, true, false
			}
			tail, okT := se.eval(call.Args[1], fr)
			if !okT {
				return nil, true, false
			}
			return crossConcat(head, tail), true, true
		}
		var sb strings.Builder
		for _, a := range call.Args[1:] {
			v, okV := se.constIntArg(a, fr)
			if !okV || v < 0 || v > 255 {
				return nil, true, false
			}
			sb.WriteByte(byte(v))
		}
		return crossConcat(head, []string{sb.String()}), true, true
	}
	return nil, false, false
}

// intText: the text strconv / %d produce for the integer expression e in the given base: the digits of a constant
// (also one reached through the parameters of the helpers being summarised, or each row value of a constant
// table), otherwise the hole %d (%x, %o, %b) — exactly what fmt.Sprintf with that verb evaluates to.
func (se *strEval) intText(e ast.Expr, base int64, fr *envFrame) ([]string, bool) {
	if base != 10 && base != 16 && base != 8 && base != 2 {
		return nil, false
	}
	e = se.stripWidening(e)
	t := se.info.TypeOf(e)
	if t == nil {
		return nil, false
	}
	if bt, isB := t.Underlying().(*types.Basic); !isB || bt.Info()&types.IsInteger == 0 {
		return nil, false
	}
	if vs, ok := se.intArgVals(e, fr); ok {
		var out []string
		for _, v := range vs {
			out = appendUniq(out, strconv.FormatInt(v, int(base)))
		}
		return out, true
	}
	switch base {
	case 16:
		return []string{"%x"}, true
	case 8:
		return []string{"%o"}, true
	case 2:
		return []string{"%b"}, true
	}
	return []string{"%d"}, true
}

// stripWidening removes value-preserving integer conversions (int64(mode) of an int, int(b) of a byte).
func (se *strEval) stripWidening(e ast.Expr) ast.Expr {
	for {
		e = unparen(e)
		call, ok := e.(*ast.CallExpr)
		if !ok || len(call.Args) != 1 {
			return e
		}
		tv, ok := se.info.Types[call.Fun]
		if !ok || !tv.IsType() {
			return e
		}
		if _, isConst := constInt(se.info, e); isConst {
			return e
		}
		to, okT := tv.Type.Underlying().(*types.Basic)
		from, okF := se.info.TypeOf(call.Args[0]).Underlying().(*types.Basic)
		if !okT || !okF || to.Info()&types.IsInteger == 0 || from.Info()&types.IsInteger == 0 {
			return e
		}
		size := func(b *types.Basic) int {
			switch b.Kind() {
			case types.Int8, types.Uint8:
				return 8
			case types.Int16, types.Uint16:
				return 16
			case types.Int32, types.Uint32:
				return 32
			}
			return 64
		}
		fromU, toU := from.Info()&types.IsUnsigned != 0, to.Info()&types.IsUnsigned != 0
		switch {
		case fromU == toU && size(to) >= size(from):
		case fromU && !toU && size(to) > size(from):
		default:
			return e
		}
		e = call.Args[0]
	}
}

// onlyReturns: the statement (tree of blocks / if-else) consists of return statements only.
func (se *strEval) onlyReturns(s ast.Stmt) bool {
	switch t := s.(type) {
	case *ast.ReturnStmt:
		return true
	case *ast.BlockStmt:
		for _, x := range t.List {
			if !se.onlyReturns(x) {
				return false
			}
		}
		return true
	case *ast.IfStmt:
		if t.Init != nil || !se.onlyReturns(t.Body) {
			return false
		}
		return t.Else == nil || se.onlyReturns(t.Else)
	}
	return false
}

// constCond: the truth value of a condition that depends only on constants and constant arguments.
func (se *strEval) constCond(e ast.Expr, fr *envFrame) (val, known bool) {
	e = unparen(e)
	if tv, ok := se.info.Types[e]; ok && tv.Value != nil && tv.Value.Kind() == constant.Bool {
		return constant.BoolVal(tv.Value), true
	}
	switch t := e.(type) {
	case *ast.Ident:
		if fr != nil {
			if arg, ok := fr.env[se.info.ObjectOf(t)]; ok {
				// the argument is evaluated in the caller's frame with the caller's type information
				if fr.callerSE != nil {
					return fr.callerSE.constCond(arg, fr.outer)
				}
				return se.constCond(arg, fr.outer)
			}
		}
	case *ast.UnaryExpr:
		if t.Op == token.NOT {
			v, k := se.constCond(t.X, fr)
			return !v, k
		}
	case *ast.BinaryExpr:
		switch t.Op {
		case token.LAND:
			a, ka := se.constCond(t.X, fr)
			b, kb := se.constCond(t.Y, fr)
			if (ka && !a) || (kb && !b) {
				return false, true
			}
			return a && b, ka && kb
		case token.LOR:
			a, ka := se.constCond(t.X, fr)
			b, kb := se.constCond(t.Y, fr)
			if (ka && a) || (kb && b) {
				return true, true
			}
			return a || b, ka && kb
		case token.EQL, token.NEQ, token.LSS, token.LEQ, token.GTR, token.GEQ:
			a, ka := se.constIntArg(t.X, fr)
			b, kb := se.constIntArg(t.Y, fr)
			if ka && kb {
				switch t.Op {
				case token.EQL:
					return a == b, true
				case token.NEQ:
					return a != b, true
				case token.LSS:
					return a < b, true
				case token.LEQ:
					return a <= b, true
				case token.GTR:
					return a > b, true
				case token.GEQ:
					return a >= b, true
				}
			}
			sa, ksa := se.constStrArg(t.X, fr)
			sb, ksb := se.constStrArg(t.Y, fr)
			if ksa && ksb && (t.Op == token.EQL || t.Op == token.NEQ) {
				return (sa == sb) == (t.Op == token.EQL), true
			}
		}
	}
	return false, false
}

// isBuilderType: *bytes.Buffer / bytes.Buffer / strings.Builder (and pointers to them).
func isBuilderType(t types.Type) bool {
	switch typeName(t) {
	case "bytes.Buffer", "strings.Builder":
		return true
	}
	return false
}

// applyFormat substitutes constant arguments into the verbs of format; other verbs stay.
func (se *strEval) applyFormat(format string, args []ast.Expr, ellipsis bool, fr *envFrame) string {
	var sb strings.Builder
	ai := 0
	for i := 0; i < len(format); i++ {
		ch := format[i]
		if ch != '%' {
			sb.WriteByte(ch)
			continue
		}
		if i+1 < len(format) && format[i+1] == '%' {
			sb.WriteString("%%")
			i++
			continue
		}
		j := i + 1
		for j < len(format) && strings.ContainsRune("+-# 0123456789.", rune(format[j])) {
			j++
		}
		if j >= len(format) {
			sb.WriteString(format[i:])
			break
		}
		verb := format[j]
		spec := format[i : j+1]
		repl := spec
		if ai < len(args) && !ellipsis {
			a := args[ai]
			// resolve through the env
			if v, ok := se.constIntArg(a, fr); ok && (verb == 'd' || verb == 'v') && spec == "%"+string(verb) {
				repl = fmt.Sprint(v)
			} else if s, ok := se.constStrArg(a, fr); ok {
				switch {
				case (verb == 's' || verb == 'v') && spec == "%"+string(verb):
					repl = strings.ReplaceAll(s, "%", "%%")
				case verb == 'X' && spec == "%X":
					repl = fmt.Sprintf("%X", s)
				}
			}
		}
		ai++
		sb.WriteString(repl)
		i = j
	}
	return sb.String()
}

// applyFormatAll is applyFormat for arguments that may be the row variable of a constant table: one template per
// combination of row values.
func (se *strEval) applyFormatAll(format string, args []ast.Expr, ellipsis bool, fr *envFrame) []string {
	if ellipsis {
		return []string{se.applyFormat(format, args, ellipsis, fr)}
	}
	// argument positions with several constant values
	type multi struct {
		idx  int
		ints []int64
		strs []string
	}
	var ms []multi
	for i, a := range args {
		if _, single := se.constIntArg(a, fr); single {
			continue
		}
		if _, single := se.constStrArg(a, fr); single {
			continue
		}
		if iv, ok := se.intArgVals(a, fr); ok {
			ms = append(ms, multi{idx: i, ints: iv})
		} else if sv, ok := se.strArgVals(a, fr); ok {
			ms = append(ms, multi{idx: i, strs: sv})
		}
	}
	if len(ms) == 0 || len(ms) > 2 {
		return []string{se.applyFormat(format, args, ellipsis, fr)}
	}
	var out []string
	var rec func(k int)
	rec = func(k int) {
		if k == len(ms) {
			out = appendUniq(out, se.applyFormat(format, args, ellipsis, fr))
			return
		}
		m := ms[k]
		if se.pinInt == nil {
			se.pinInt = map[ast.Expr]int64{}
			se.pinStr = map[ast.Expr]string{}
		}
		key := unparen(args[m.idx])
		for _, v := range m.ints {
			se.pinInt[key] = v
			rec(k + 1)
		}
		delete(se.pinInt, key)
		for _, v := range m.strs {
			se.pinStr[key] = v
			rec(k + 1)
		}
		delete(se.pinStr, key)
	}
	rec(0)
	return out
}

func appendUniq(out []string, vals ...string) []string {
	for _, v := range vals {
		dup := false
		for _, o := range out {
			if o == v {
				dup = true
			}
		}
		if !dup {
			out = append(out, v)
		}
	}
	return out
}

// tableRows: id is the value variable of `for _, id := range T` with T a read-only package-level table
// (Program.ReadOnlyTable); returns the row expressions of T's literal.
func (se *strEval) tableRows(id *ast.Ident) []ast.Expr {
	rx := rangeSourceOf(se.info, id)
	if rx == nil {
		return nil
	}
	var lit *ast.CompositeLit
	switch t := unparen(rx).(type) {
	case *ast.CompositeLit:
		lit = t // for _, m := range []int{a, b, c}
	case *ast.Ident:
		v, ok := se.info.ObjectOf(t).(*types.Var)
		if !ok || v.Pkg() == nil || v.Parent() != v.Pkg().Scope() {
			return nil
		}
		lit = se.p.ReadOnlyTable(v)
	}
	if lit == nil || len(lit.Elts) == 0 {
		return nil
	}
	var rows []ast.Expr
	for _, el := range lit.Elts {
		if kv, ok := el.(*ast.KeyValueExpr); ok {
			el = kv.Value
		}
		rows = append(rows, el)
	}
	return rows
}

// tableRowField: sel is row.f with row as in tableRows and the rows struct literals; returns f's value per row.
func (se *strEval) tableRowField(sel *ast.SelectorExpr) []ast.Expr {
	id, ok := unparen(sel.X).(*ast.Ident)
	if !ok {
		return nil
	}
	rows := se.tableRows(id)
	if rows == nil {
		return nil
	}
	t := se.info.TypeOf(id)
	if p, ok := t.(*types.Pointer); ok {
		t = p.Elem()
	}
	st, ok := t.Underlying().(*types.Struct)
	if !ok {
		return nil
	}
	fidx := -1
	for i := 0; i < st.NumFields(); i++ {
		if st.Field(i).Name() == sel.Sel.Name {
			fidx = i
		}
	}
	if fidx < 0 {
		return nil
	}
	var out []ast.Expr
	for _, r := range rows {
		if u, ok := r.(*ast.UnaryExpr); ok && u.Op == token.AND {
			r = u.X
		}
		cl, ok := r.(*ast.CompositeLit)
		if !ok {
			return nil
		}
		var fv ast.Expr
		for i, el := range cl.Elts {
			if kv, ok := el.(*ast.KeyValueExpr); ok {
				if k, ok := kv.Key.(*ast.Ident); ok && k.Name == sel.Sel.Name {
					fv = kv.Value
				}
			} else if i == fidx {
				fv = el
			}
		}
		if fv == nil {
			return nil // field left at its zero value: not a template
		}
		out = append(out, fv)
	}
	return out
}

// intArgVals / strArgVals: the constant values an argument can take (several for a table row variable).
func (se *strEval) intArgVals(a ast.Expr, fr *envFrame) ([]int64, bool) {
	a = unparen(a)
	if v, ok := se.constIntArg(a, fr); ok {
		return []int64{v}, true
	}
	var rows []ast.Expr
	switch t := a.(type) {
	case *ast.Ident:
		if fr != nil {
			if arg, ok := fr.env[se.info.ObjectOf(t)]; ok {
				return se.intArgVals(arg, fr.outer)
			}
		}
		rows = se.tableRows(t)
	case *ast.SelectorExpr:
		rows = se.tableRowField(t)
	}
	if rows == nil {
		return nil, false
	}
	var out []int64
	for _, r := range rows {
		v, ok := se.constIntArg(r, fr)
		if !ok {
			return nil, false
		}
		out = append(out, v)
	}
	return out, true
}

func (se *strEval) strArgVals(a ast.Expr, fr *envFrame) ([]string, bool) {
	a = unparen(a)
	if v, ok := se.constStrArg(a, fr); ok {
		return []string{v}, true
	}
	var rows []ast.Expr
	switch t := a.(type) {
	case *ast.Ident:
		if fr != nil {
			if arg, ok := fr.env[se.info.ObjectOf(t)]; ok {
				return se.strArgVals(arg, fr.outer)
			}
		}
		rows = se.tableRows(t)
	case *ast.SelectorExpr:
		rows = se.tableRowField(t)
	}
	if rows == nil {
		return nil, false
	}
	var out []string
	for _, r := range rows {
		v, ok := se.constStrArg(r, fr)
		if !ok {
			return nil, false
		}
		out = append(out, v)
	}
	return out, true
}

func (se *strEval) constIntArg(a ast.Expr, fr *envFrame) (int64, bool) {
	a = unparen(a)
	if v, ok := se.pinInt[a]; ok {
		return v, true
	}
	if v, ok := constInt(se.info, a); ok {
		if tv := se.info.Types[a]; tv.Type != nil {
			if b, ok := tv.Type.Underlying().(*types.Basic); ok && b.Info()&types.IsInteger != 0 {
				return v, true
			}
			if b, ok := tv.Type.Underlying().(*types.Basic); ok && b.Kind() == types.UntypedInt || b.Kind() == types.UntypedRune {
				return v, true
			}
		}
	}
	if id, ok := a.(*ast.Ident); ok && fr != nil {
		if arg, ok := fr.env[se.info.ObjectOf(id)]; ok {
			outer := se
			return outer.constIntArg(arg, fr.outer)
		}
	}
	if src := se.staticSource(a); src != nil {
		se.localDepth++
		v, ok := se.constIntArg(src, fr)
		se.localDepth--
		return v, ok
	}
	return 0, false
}

// staticSource: the expression a stands for when a is a local assigned exactly once (`mode := T[2]`) or a
// constant part of a literal (T[2], T[2].f, seqs.f — resolveStatic); nil otherwise.
func (se *strEval) staticSource(a ast.Expr) ast.Expr {
	if se.localDepth > 6 {
		return nil
	}
	switch t := unparen(a).(type) {
	case *ast.Ident:
		if v, ok := se.info.ObjectOf(t).(*types.Var); ok && !v.IsField() && v.Pkg() != nil && v.Parent() != v.Pkg().Scope() {
			return singleDefOf(se.info, v)
		}
	case *ast.SelectorExpr, *ast.IndexExpr:
		return resolveStatic(se.info, t)
	}
	return nil
}

func (se *strEval) constStrArg(a ast.Expr, fr *envFrame) (string, bool) {
	a = unparen(a)
	if v, ok := se.pinStr[a]; ok {
		return v, true
	}
	if s, ok := constString(se.info, a); ok {
		return s, true
	}
	if id, ok := a.(*ast.Ident); ok && fr != nil {
		if arg, ok := fr.env[se.info.ObjectOf(id)]; ok {
			return se.constStrArg(arg, fr.outer)
		}
	}
	if src := se.staticSource(a); src != nil {
		se.localDepth++
		v, ok := se.constStrArg(src, fr)
		se.localDepth--
		return v, ok
	}
	return "", false
}

// canonTerm renders an access path rooted at the nearest enclosing value of a
// named repository struct type that is NOT a plain sub-struct field, so that
// `vx.caps.rgb`, `w.vx.caps.rgb` and `k.vx.caps.rgb` all become "Vaxis.caps.rgb".
func canonPath(info *types.Info, e ast.Expr) string {
	e = unparen(e)
	// a constant part of a literal (row field of a table, field of a local struct literal) is what it is defined as
	switch e.(type) {
	case *ast.SelectorExpr, *ast.IndexExpr:
		if r := resolveStatic(info, e); r != nil {
			if _, isLit := unparen(r).(*ast.CompositeLit); !isLit {
				return canonExpr(info, r)
			}
		}
	}
	var fields []string
	cur := e
	hops := 0
	for {
		switch t := cur.(type) {
		case *ast.Ident:
			// a local defined exactly once as a copy of an access path stands for that path
			if src := localAliasOf(info, t); src != nil && hops < 4 {
				hops++
				root := canonPath(info, src)
				if id, ok := unparen(src).(*ast.Ident); ok && root == id.Name && len(fields) > 0 {
					if name := anchorType(info.TypeOf(id)); name != "" {
						root = name
					}
				}
				// `vx := w.vx; vx.caps.rgb` is `w.vx.caps.rgb`: a pointer to a named repository struct anchors
				// the path exactly as it does when the selector chain is written out
				if _, isSel := unparen(src).(*ast.SelectorExpr); isSel && len(fields) > 0 {
					if _, isPtr := info.TypeOf(src).(*types.Pointer); isPtr && !isAmbiguousAnchor(info.TypeOf(src)) {
						if name := anchorType(info.TypeOf(src)); name != "" {
							root = name
						}
					}
				}
				return joinPath(root, fields)
			}
			// the value variable of `for _, v := range X` stands for an element of X
			if rx := rangeSourceOf(info, t); rx != nil && hops < 4 {
				hops++
				return joinPath(canonPath(info, rx)+"[*]", fields)
			}
			// a local defined exactly once by a call or conversion stands for that expression
			if src := singleDefOf(info, info.ObjectOf(t)); src != nil && hops < 4 && canonDepth < 6 {
				switch unparen(src).(type) {
				case *ast.CallExpr, *ast.IndexExpr:
					hops++
					canonDepth++
					r := joinPath(canonExpr(info, src), fields)
					canonDepth--
					return r
				}
			}
			if len(fields) > 0 {
				if name := anchorType(info.TypeOf(t)); name != "" {
					return joinPath(name, fields)
				}
			}
		case *ast.IndexExpr:
			if v, ok := constInt(info, t.Index); ok {
				fields = append([]string{fmt.Sprintf("[%d]", v)}, fields...)
				cur = t.X
				continue
			}
			// X[i] with i the key of `for i := range X` is the element the loop is at: X[*]
			if kid, ok := unparen(t.Index).(*ast.Ident); ok && canonDepth < 6 {
				if rx := rangeKeySourceOf(info, kid); rx != nil {
					canonDepth++
					same := canonPath(info, rx) == canonPath(info, t.X)
					canonDepth--
					if same {
						fields = append([]string{"[*]"}, fields...)
						cur = t.X
						continue
					}
				}
			}
			if canonDepth < 6 {
				canonDepth++
				ix := canonExpr(info, t.Index)
				canonDepth--
				fields = append([]string{"[" + ix + "]"}, fields...)
				cur = t.X
				continue
			}
		case *ast.ParenExpr:
			cur = t.X
			continue
		case *ast.StarExpr:
			cur = t.X
			continue
		case *ast.SelectorExpr:
			if _, ok := info.Selections[t]; ok {
				fields = append([]string{t.Sel.Name}, fields...)
				// does t.X have a pointer-to-named or named struct type that anchors the path?
				if name := anchorType(info.TypeOf(t.X)); name != "" {
					aliased := false
					if id, ok := unparen(t.X).(*ast.Ident); ok && localAliasOf(info, id) != nil {
						aliased = true
					}
					_, isPtr := info.TypeOf(t.X).(*types.Pointer)
					if (isPtr || isIdent(t.X)) && !aliased && (isIdent(t.X) || !isAmbiguousAnchor(info.TypeOf(t.X))) {
						return joinPath(name, fields)
					}
					// `vx := w.vx` (a copy of a pointer to an unambiguous anchor type): the path is anchored at the
					// pointee's type exactly as if the source expression stood here
					if aliased && isPtr && !isAmbiguousAnchor(info.TypeOf(t.X)) {
						return joinPath(name, fields)
					}
				}
				cur = t.X
				continue
			}
		case *ast.CallExpr:
			if id, ok := t.Fun.(*ast.Ident); ok && id.Name == "len" && len(t.Args) == 1 && len(fields) == 0 {
				return "len(" + canonPath(info, t.Args[0]) + ")"
			}
			// method call with no args: x.Len()
			if sel, ok := t.Fun.(*ast.SelectorExpr); ok && len(t.Args) == 0 && len(fields) == 0 {
				return canonPath(info, sel.X) + "." + sel.Sel.Name + "()"
			}
		}
		break
	}
	if len(fields) > 0 && cur != e {
		// an index/field suffix on something that is not a path (a call result, ...)
		if _, isCall := unparen(cur).(*ast.CallExpr); isCall && canonDepth < 6 {
			canonDepth++
			r := joinPath(canonExpr(info, cur), fields)
			canonDepth--
			return r
		}
	}
	s := types.ExprString(e)
	return s
}

var canonDepth int

// ambiguousAnchor: named struct types of which some struct holds two (pointers to) values; filled at load.
var ambiguousAnchor = map[*types.TypeName]bool{}

func isAmbiguousAnchor(t types.Type) bool {
	if p, ok := t.(*types.Pointer); ok {
		t = p.Elem()
	}
	if n, ok := t.(*types.Named); ok {
		return ambiguousAnchor[n.Obj()]
	}
	return false
}

// joinPath appends field and index components to a root: joinPath("CSI", ["Parameters","[0]","[0]"]) = "CSI.Parameters[0][0]".
func joinPath(root string, fields []string) string {
	var sb strings.Builder
	sb.WriteString(root)
	for _, f := range fields {
		if !strings.HasPrefix(f, "[") {
			sb.WriteByte('.')
		}
		sb.WriteString(f)
	}
	return sb.String()
}

var rangeSourceTables = map[*types.Info]map[types.Object]ast.Expr{}

var rangeKeyTables = map[*types.Info]map[types.Object]ast.Expr{}

// rangeKeySourceOf: id is the key variable of exactly one range statement and is never assigned otherwise;
// returns the ranged-over expression.
func rangeKeySourceOf(info *types.Info, id *ast.Ident) ast.Expr {
	if t := rangeKeyTables[info]; t != nil {
		return t[info.ObjectOf(id)]
	}
	return nil
}

// rangeSourceOf: id is the value variable of exactly one range statement and is never assigned otherwise;
// returns the ranged-over expression.
func rangeSourceOf(info *types.Info, id *ast.Ident) ast.Expr {
	if t := rangeSourceTables[info]; t != nil {
		return t[info.ObjectOf(id)]
	}
	return nil
}

func isIdent(e ast.Expr) bool { _, ok := unparen(e).(*ast.Ident); return ok }

func anchorType(t types.Type) string {
	if t == nil {
		return ""
	}
	if p, ok := t.(*types.Pointer); ok {
		t = p.Elem()
	}
	if n, ok := t.(*types.Named); ok {
		if _, isStruct := n.Underlying().(*types.Struct); isStruct && n.Obj().Pkg() != nil && strings.HasPrefix(n.Obj().Pkg().Path(), modPath) {
			return n.Obj().Name()
		}
	}
	return ""
}

// guardKeys renders the boolean/nil/comparison guards in force as canonical strings.
func guardKeys(g *FG, l Loc) []string {
	var out []string
	seen := map[string]bool{}
	for _, gd := range g.Guards(l) {
		for _, k := range condKeys(g.Info, gd.Cond, gd.Pol) {
			// kill check
			objs := objsIn(g.Info, gd.Cond.Expr)
			if gd.Cond.Tag != nil {
				for o := range objsIn(g.Info, gd.Cond.Tag) {
					objs[o] = true
				}
			}
			if !seen[k] {
				seen[k] = true
				out = append(out, k)
			}
			_ = objs
		}
	}
	sort.Strings(out)
	return out
}

// condKeys: canonical strings for the conjuncts implied by cond==pol.
func condKeys(info *types.Info, c *Cond, pol bool) []string {
	if c.Alts != nil {
		var vals []string
		for _, a := range c.Alts {
			vals = append(vals, canonExpr(info, a))
		}
		if c.Tag != nil {
			return []string{canonPath(info, c.Tag) + "∈{" + strings.Join(vals, ",") + "}"}
		}
		return []string{"(" + strings.Join(vals, "||") + ")"}
	}
	if c.Tag != nil {
		// switch tag { case v: }
		if b, ok := info.TypeOf(c.Tag).Underlying().(*types.Basic); ok && b.Info()&types.IsBoolean != 0 {
			if tv, ok := info.Types[c.Expr]; ok && tv.Value != nil {
				val := constant.BoolVal(tv.Value)
				return exprKeys(info, c.Tag, val == pol)
			}
		}
		cv := canonExpr(info, c.Expr)
		op := "=="
		if !pol {
			op = "!="
		}
		return []string{canonPath(info, c.Tag) + op + cv}
	}
	return exprKeys(info, c.Expr, pol)
}

func exprKeys(info *types.Info, e ast.Expr, pol bool) []string {
	e = unparen(e)
	// a constant condition constrains nothing (or excludes the location altogether)
	if tv, ok := info.Types[e]; ok && tv.Value != nil && tv.Value.Kind() == constant.Bool {
		if constant.BoolVal(tv.Value) == pol {
			return nil
		}
		return []string{"⊥"}
	}
	if v, ok := synthBool(info, e); ok {
		if v == pol {
			return nil
		}
		return []string{"⊥"}
	}
	switch e.(type) {
	case *ast.SelectorExpr, *ast.IndexExpr:
		// a boolean part of a literal (T[3].wanted, seqs.short) is read as the expression it was given
		if r := resolveStatic(info, e); r != nil && flagDepth < 4 {
			if _, isLit := unparen(r).(*ast.CompositeLit); !isLit {
				flagDepth++
				out := exprKeys(info, r, pol)
				flagDepth--
				return out
			}
		}
	}
	switch t := e.(type) {
	case *ast.UnaryExpr:
		if t.Op == token.NOT {
			return exprKeys(info, t.X, !pol)
		}
	case *ast.BinaryExpr:
		switch t.Op {
		case token.LAND:
			if pol {
				return append(exprKeys(info, t.X, true), exprKeys(info, t.Y, true)...)
			}
			return []string{"!(" + canonExpr(info, e) + ")"}
		case token.LOR:
			if !pol {
				return append(exprKeys(info, t.X, false), exprKeys(info, t.Y, false)...)
			}
			// x == a || x == b is the membership test a multi-value case list makes
			if k := membershipKey(info, e); k != "" {
				return []string{k}
			}
			return []string{"(" + canonExpr(info, e) + ")"}
		case token.EQL, token.NEQ, token.LSS, token.LEQ, token.GTR, token.GEQ:
			op := t.Op
			if !pol {
				op = negOp(op)
			}
			// boolean compare with constant
			if tv, ok := info.Types[t.Y]; ok && tv.Value != nil && tv.Value.Kind() == constant.Bool && (t.Op == token.EQL || t.Op == token.NEQ) {
				val := constant.BoolVal(tv.Value)
				return exprKeys(info, t.X, (val == (t.Op == token.EQL)) == pol)
			}
			x, y := t.X, t.Y
			// a constant on the left: c < x is x > c
			if _, xc := constInt(info, x); xc {
				if _, yc := constInt(info, y); !yc {
					x, y = y, x
					op = mirrorOp(op)
				}
			}
			// a length is never negative: n > 0, n >= 1 are n != 0; n < 1, n <= 0 are n == 0
			if isLengthExpr(info, x) {
				if c, ok := constInt(info, y); ok {
					switch {
					case (op == token.GTR && c == 0) || (op == token.GEQ && c == 1):
						op, y = token.NEQ, zeroIntLit
					case (op == token.LSS && c == 1) || (op == token.LEQ && c == 0):
						op, y = token.EQL, zeroIntLit
					}
				}
			}
			ys := "0"
			if y != zeroIntLit {
				ys = canonExpr(info, y)
			}
			return []string{canonExpr(info, x) + op.String() + ys}
		}
	}
	// a boolean local defined once by a condition (`private := len(x) == 1 && x[0] == '?'`) stands for it
	if id, ok := e.(*ast.Ident); ok {
		if def := flagDefOf(info, id); def != nil && flagDepth < 4 {
			flagDepth++
			r := exprKeys(info, def, pol)
			flagDepth--
			return r
		}
	}
	k := canonExpr(info, e)
	out := []string{"-" + k}
	if pol {
		out = []string{"+" + k}
	}
	// a boolean obtained from a repository helper: add what the helper's returns imply
	switch t := e.(type) {
	case *ast.Ident:
		if td, ok := tupleDefTables[info][info.ObjectOf(t)]; ok {
			if ks, ok := helperResultKeys(info, td.call, td.idx, pol); ok {
				out = append(out, ks...)
			}
		} else if src := singleDefOf(info, info.ObjectOf(t)); src != nil {
			if call, ok := unparen(src).(*ast.CallExpr); ok {
				if ks, ok := helperResultKeys(info, call, 0, pol); ok {
					out = append(out, ks...)
				}
			}
		}
	case *ast.CallExpr:
		if ks, ok := helperResultKeys(info, t, 0, pol); ok {
			out = append(out, ks...)
		}
	}
	return out
}

var zeroIntLit ast.Expr = &ast.BasicLit{Kind: token.INT, Value: "0"}

func mirrorOp(op token.Token) token.Token {
	switch op {
	case token.LSS:
		return token.GTR
	case token.GTR:
		return token.LSS
	case token.LEQ:
		return token.GEQ
	case token.GEQ:
		return token.LEQ
	}
	return op
}

// isLengthExpr: len(x), cap(x) or a call of a method named Len without arguments.
func isLengthExpr(info *types.Info, e ast.Expr) bool {
	call, ok := unparen(e).(*ast.CallExpr)
	if !ok {
		return false
	}
	switch f := call.Fun.(type) {
	case *ast.Ident:
		if _, isB := info.Uses[f].(*types.Builtin); isB && (f.Name == "len" || f.Name == "cap") {
			return true
		}
	case *ast.SelectorExpr:
		if f.Sel.Name == "Len" && len(call.Args) == 0 {
			if bt, ok := info.TypeOf(call).Underlying().(*types.Basic); ok && bt.Kind() == types.Int {
				return true
			}
		}
	}
	return false
}

func canonExpr(info *types.Info, e ast.Expr) string {
	e = unparen(e)
	if v, ok := constInt(info, e); ok {
		if tv := info.Types[e]; tv.Value != nil && tv.Value.Kind() == constant.Int {
			return fmt.Sprint(v)
		}
	}
	if s, ok := constString(info, e); ok {
		return fmt.Sprintf("%q", s)
	}
	switch t := e.(type) {
	case *ast.BinaryExpr:
		return canonExpr(info, t.X) + t.Op.String() + canonExpr(info, t.Y)
	case *ast.UnaryExpr:
		return t.Op.String() + canonExpr(info, t.X)
	case *ast.CallExpr:
		if r := inlineAccessor(info, t); r != "" {
			return r
		}
		if stringResolver != nil {
			if s, ok := stringResolver(info, t); ok {
				return fmt.Sprintf("%q", s)
			}
		}
		if r := canonPath(info, e); r != types.ExprString(e) {
			return r
		}
		// f(args) / T(x): canonical arguments
		if canonDepth < 6 {
			canonDepth++
			var args []string
			for _, a := range t.Args {
				args = append(args, canonExpr(info, a))
			}
			canonDepth--
			return types.ExprString(t.Fun) + "(" + strings.Join(args, ", ") + ")"
		}
		return types.ExprString(e)
	case *ast.Ident:
		if def := flagDefOf(info, t); def != nil && flagDepth < 4 {
			flagDepth++
			r := canonExpr(info, def)
			flagDepth--
			if b, ok := unparen(def).(*ast.BinaryExpr); ok && (b.Op == token.LAND || b.Op == token.LOR) {
				r = "(" + r + ")"
			}
			return r
		}
		return canonPath(info, e)
	case *ast.SelectorExpr, *ast.StarExpr, *ast.IndexExpr:
		return canonPath(info, e)
	}
	return types.ExprString(e)
}

var flagDepth int

// flagDefOf: id is a boolean local assigned exactly once, by a condition (comparison, &&, ||, !) rather than
// by a call or a copy; returns that condition. Such a flag variable is read as the condition it names.
func flagDefOf(info *types.Info, id *ast.Ident) ast.Expr {
	o := info.ObjectOf(id)
	if o == nil || o.Type() == nil {
		return nil
	}
	if bt, ok := o.Type().Underlying().(*types.Basic); !ok || bt.Info()&types.IsBoolean == 0 {
		return nil
	}
	src := singleDefOf(info, o)
	if src == nil {
		return nil
	}
	// the condition must still mean the same where the flag is read: the local variables it mentions are
	// themselves assigned at most once (parameters: never)
	stable := true
	ast.Inspect(src, func(n ast.Node) bool {
		if x, ok := n.(*ast.Ident); ok {
			if v, isVar := info.ObjectOf(x).(*types.Var); isVar && !v.IsField() && v.Pkg() != nil && v.Parent() != v.Pkg().Scope() {
				if writeCountTables[info][v] > 1 {
					stable = false
				}
			}
		}
		return true
	})
	if !stable {
		return nil
	}
	switch t := unparen(src).(type) {
	case *ast.BinaryExpr:
		switch t.Op {
		case token.LAND, token.LOR, token.EQL, token.NEQ, token.LSS, token.LEQ, token.GTR, token.GEQ:
			return src
		}
	case *ast.UnaryExpr:
		if t.Op == token.NOT {
			return src
		}
	}
	return nil
}

// membershipKey: e is a disjunction of equalities of one expression with constants (x == 1 || x == 2, flags and
// parentheses seen through); returns "x∈{1,2}" in source order, "" otherwise.
func membershipKey(info *types.Info, e ast.Expr) string {
	var lhs string
	var vals []string
	ok := true
	var walk func(x ast.Expr, depth int)
	walk = func(x ast.Expr, depth int) {
		x = unparen(x)
		if !ok {
			return
		}
		if id, isId := x.(*ast.Ident); isId && depth < 4 {
			if def := flagDefOf(info, id); def != nil {
				walk(def, depth+1)
				return
			}
		}
		b, isB := x.(*ast.BinaryExpr)
		if !isB {
			ok = false
			return
		}
		switch b.Op {
		case token.LOR:
			walk(b.X, depth)
			walk(b.Y, depth)
		case token.EQL:
			l, r := b.X, b.Y
			if tv, isC := info.Types[l]; isC && tv.Value != nil {
				l, r = r, l
			}
			tv, isC := info.Types[r]
			if !isC || tv.Value == nil || tv.Value.Kind() == constant.Bool {
				ok = false
				return
			}
			cl := canonExpr(info, l)
			if lhs == "" {
				lhs = cl
			} else if lhs != cl {
				ok = false
				return
			}
			vals = append(vals, canonExpr(info, r))
		default:
			ok = false
		}
	}
	walk(e, 0)
	if !ok || len(vals) < 2 {
		return ""
	}
	return lhs + "∈{" + strings.Join(vals, ",") + "}"
}

// accessorResolver is set by main once the program is loaded; it maps a call of a
// zero-argument accessor method whose body is `return <expr>` to the canonical form of <expr>.
var accessorResolver func(info *types.Info, call *ast.CallExpr) string

// stringResolver evaluates a call of a repository string function on constant arguments (hexEncode("RGB")).
var stringResolver func(info *types.Info, call *ast.CallExpr) (string, bool)

func inlineAccessor(info *types.Info, call *ast.CallExpr) string {
	if accessorResolver == nil || len(call.Args) != 0 {
		return ""
	}
	return accessorResolver(info, call)
}

// ExtractEmissions finds every sink call in the given functions.
func ExtractEmissions(p *Program, fis []*FuncInfo, isSink SinkFn) []*Emission {
	var out []*Emission
	evals := map[*packages.Package]*strEval{}
	for _, fi := range fis {
		if fi.Decl.Body == nil {
			continue
		}
		se := evals[fi.Pkg]
		if se == nil {
			se = newStrEval(p, fi.Pkg)
			evals[fi.Pkg] = se
		}
		// the declared body and every function literal inside it
		type unit struct {
			g    *FG
			name string
		}
		units := []unit{{p.Graph(fi), fi.Name}}
		litN := 0
		ast.Inspect(fi.Decl.Body, func(n ast.Node) bool {
			if lit, ok := n.(*ast.FuncLit); ok {
				litN++
				nm := fmt.Sprintf("%s$%d", fi.Name, litN)
				units = append(units, unit{p.GraphOfLit(fi.Pkg, nm, lit), nm})
			}
			return true
		})
		for _, u := range units {
			g := u.g
			// a sink method taken as a VALUE (`write := w.WriteString`, a method expression in a table): what is
			// written through it is not visible at the calls of the value. The common benign form is rewritten
			// away before the rules run (c01norm.go, function values); whatever is left is reported as a site
			// whose argument is unknown rather than silently not being a site.
			calleePos := map[ast.Expr]bool{}
			for _, h := range g.Find(func(n ast.Node) bool { _, ok := n.(*ast.CallExpr); return ok }) {
				calleePos[unparen(h.Node.(*ast.CallExpr).Fun)] = true
			}
			for _, h := range g.Find(func(n ast.Node) bool { _, ok := n.(*ast.SelectorExpr); return ok }) {
				sel := h.Node.(*ast.SelectorExpr)
				if calleePos[sel] {
					continue
				}
				si := fi.Pkg.TypesInfo.Selections[sel]
				if si == nil || (si.Kind() != types.MethodVal && si.Kind() != types.MethodExpr) {
					continue
				}
				fn, _ := si.Obj().(*types.Func)
				if fn == nil {
					continue
				}
				fake := &ast.CallExpr{Fun: sel, Args: []ast.Expr{ast.NewIdent("_")}}
				if _, _, label, ok := isSink(fi.Pkg, fake, fn); ok {
					out = append(out, &Emission{Fn: fi, FnName: u.name, Call: fake, Loc: h.Loc, G: g, Sink: label + " (as a value)", ArgExpr: sel,
						Why:   "the sink " + types.ExprString(sel) + " is used as a value: what is written through it is not visible here",
						Facts: g.FactsAt(h.Loc), GuardKeys: guardKeys(g, h.Loc)})
				}
			}
			for _, h := range g.Find(func(n ast.Node) bool { _, ok := n.(*ast.CallExpr); return ok }) {
				call := h.Node.(*ast.CallExpr)
				fn := calleeOf(fi.Pkg.TypesInfo, call)
				arg, isFmt, label, ok := isSink(fi.Pkg, call, fn)
				if !ok || arg >= len(call.Args) {
					continue
				}
				em := &Emission{Fn: fi, FnName: u.name, Call: call, Loc: h.Loc, G: g, Sink: label, ArgExpr: call.Args[arg]}
				vals, okv := se.eval(call.Args[arg], nil)
				if okv {
					if isFmt {
						var all []string
						for _, v := range vals {
							all = append(all, se.applyFormatAll(v, call.Args[arg+1:], call.Ellipsis.IsValid(), nil)...)
						}
						vals = all
					}
					em.Templates, em.Resolved = vals, true
				} else {
					em.Why = "argument " + types.ExprString(call.Args[arg]) + " is not a constant template"
				}
				em.Facts = g.FactsAt(h.Loc)
				em.GuardKeys = guardKeys(g, h.Loc)
				if containsStr(em.GuardKeys, "⊥") {
					continue // dominated by a condition that is constantly false (a helper inlined with a constant flag)
				}
				// the sequence was chosen into a local variable earlier and is written here: one emission per
				// definition that reaches the write, under the guards of the definition and of the write together
				if !okv && !isFmt {
					if exp := se.expandByDefinition(fi, g, em); exp != nil {
						out = append(out, exp...)
						continue
					}
				}
				out = append(out, em)
			}
		}
	}
	return out
}

// expandByDefinition: em writes a local string / []byte variable (possibly converted) that is assigned in several
// places of the function; returns one resolved emission per assignment that can reach the write — located AT THE
// ASSIGNMENT (that is where the choice is made; Loc and G serve reachability questions), with the guard keys of the
// assignment and of the write (those of the write that do not test the variable itself). nil if the argument is not
// such a variable or some reaching assignment does not evaluate to templates.
func (se *strEval) expandByDefinition(fi *FuncInfo, g *FG, em *Emission) []*Emission {
	arg := unparen(em.ArgExpr)
	for {
		call, ok := arg.(*ast.CallExpr)
		if !ok || len(call.Args) != 1 {
			break
		}
		if tv, ok := se.info.Types[call.Fun]; !ok || !tv.IsType() {
			break
		}
		arg = unparen(call.Args[0])
	}
	id, ok := arg.(*ast.Ident)
	if !ok {
		return nil
	}
	obj := se.info.ObjectOf(id)
	defs := c07LocalDefs(&FuncInfo{Pkg: fi.Pkg, Decl: &ast.FuncDecl{Body: g.Body, Type: g.Type, Recv: g.Recv}, Name: fi.Name}, obj)
	if len(defs) < 2 {
		return nil
	}
	// a parameter or a variable captured from an enclosing function carries values we do not see
	if v, isVar := obj.(*types.Var); !isVar || v.Pos() < g.Body.Pos() || v.Pos() >= g.Body.End() {
		return nil
	}
	// the guards of the write, except conditions on the variable itself (`if seq != ""`)
	var useKeys []string
	for _, gd := range g.Guards(em.Loc) {
		objs := objsIn(g.Info, gd.Cond.Expr)
		if gd.Cond.Tag != nil {
			for o := range objsIn(g.Info, gd.Cond.Tag) {
				objs[o] = true
			}
		}
		for _, a := range gd.Cond.Alts {
			for o := range objsIn(g.Info, a) {
				objs[o] = true
			}
		}
		if v, isVar := obj.(*types.Var); isVar && objs[v] {
			continue
		}
		useKeys = append(useKeys, condKeys(g.Info, gd.Cond, gd.Pol)...)
	}
	var out []*Emission
	for _, d := range defs {
		dl, okL := g.Locate(d.node)
		if !okL {
			return nil
		}
		if !g.reachesUnder(dl, em.Loc, d.isDef, nil) {
			continue
		}
		var vals []string
		if d.rhs == nil {
			// declared without a value: the zero string
			if vs, isVS := d.node.(*ast.ValueSpec); isVS && len(vs.Values) == 0 {
				vals = []string{""}
			} else {
				return nil
			}
		} else {
			v, okE := se.eval(d.rhs, nil)
			if !okE {
				return nil
			}
			vals = v
		}
		e2 := *em
		e2.Templates, e2.Resolved, e2.Why = vals, true, ""
		e2.Loc = dl
		e2.Facts = g.FactsAt(dl)
		keys := guardKeys(g, dl)
		for _, k := range useKeys {
			if !containsStr(keys, k) {
				keys = append(keys, k)
			}
		}
		sort.Strings(keys)
		e2.GuardKeys = keys
		out = append(out, &e2)
	}
	if len(out) == 0 {
		return nil
	}
	return out
}

// ---- ECMA-48 recogniser for templates

type Seq struct {
	Kind    string // CSI OSC DCS APC ESC C0 TEXT
	Private string // leading private marker(s) of a CSI: ? > < =
	Params  string // parameter bytes with holes
	Inter   string
	Final   string
	Data    string // string payload for OSC/DCS/APC (OSC: after selector)
	OSCSel  string
	Raw     string
}

func (s Seq) String() string {
	switch s.Kind {
	case "CSI":
		return fmt.Sprintf("CSI %s%s%s%s", s.Private, s.Params, s.Inter, s.Final)
	case "OSC":
		return "OSC " + s.OSCSel
	case "ESC":
		return "ESC " + s.Inter + s.Final
	}
	return s.Kind + " " + s.Raw
}

// parseSeqs splits a template into control sequences. Holes (%d, %s, %v, %X) are parameter material.
func parseSeqs(t string) []Seq {
	var out []Seq
	i := 0
	n := len(t)
	text := func(s string) {
		if s != "" {
			out = append(out, Seq{Kind: "TEXT", Raw: s})
		}
	}
	start := 0
	for i < n {
		if t[i] != 0x1b {
			if t[i] < 0x20 && t[i] != '%' {
				text(t[start:i])
				out = append(out, Seq{Kind: "C0", Raw: t[i : i+1], Final: t[i : i+1]})
				i++
				start = i
				continue
			}
			i++
			continue
		}
		text(t[start:i])
		if i+1 >= n {
			out = append(out, Seq{Kind: "ESC", Raw: t[i:]})
			i = n
			start = n
			break
		}
		c := t[i+1]
		switch c {
		case '[':
			j := i + 2
			priv := ""
			for j < n && strings.ContainsRune("?><=", rune(t[j])) {
				priv += string(t[j])
				j++
			}
			ps := j
			for j < n && (t[j] >= 0x30 && t[j] <= 0x3b || t[j] == '%') {
				if t[j] == '%' {
					// a hole: %d %s %v ...
					j++
					for j < n && strings.ContainsRune("+-# 0123456789.", rune(t[j])) {
						j++
					}
					if j < n {
						j++
					}
					continue
				}
				j++
			}
			params := t[ps:j]
			is := j
			for j < n && t[j] >= 0x20 && t[j] <= 0x2f {
				j++
			}
			inter := t[is:j]
			fin := ""
			if j < n {
				fin = t[j : j+1]
				j++
			}
			out = append(out, Seq{Kind: "CSI", Private: priv, Params: params, Inter: inter, Final: fin, Raw: t[i:j]})
			i = j
		case ']', 'P', '_', 'X', '^':
			kind := map[byte]string{']': "OSC", 'P': "DCS", '_': "APC", 'X': "SOS", '^': "PM"}[c]
			j := i + 2
			end := -1
			term := 0
			for k := j; k < n; k++ {
				if t[k] == 0x07 && kind == "OSC" {
					end, term = k, 1
					break
				}
				if t[k] == 0x1b && k+1 < n && t[k+1] == '\\' {
					end, term = k, 2
					break
				}
			}
			if end < 0 {
				end, term = n, 0
			}
			body := t[j:end]
			s := Seq{Kind: kind, Data: body, Raw: t[i : end+term]}
			if term == 0 {
				s.Inter = "UNTERMINATED"
			}
			if kind == "OSC" {
				if k := strings.IndexByte(body, ';'); k >= 0 {
					s.OSCSel, s.Data = body[:k], body[k+1:]
				} else {
					s.OSCSel, s.Data = body, ""
				}
			}
			out = append(out, s)
			i = end + term
		default:
			j := i + 1
			is := j
			for j < n && t[j] >= 0x20 && t[j] <= 0x2f {
				j++
			}
			fin := ""
			if j < n {
				fin = t[j : j+1]
				j++
			}
			out = append(out, Seq{Kind: "ESC", Inter: t[is : j-len(fin)], Final: fin, Raw: t[i:j]})
			i = j
		}
		start = i
	}
	if start < n {
		text(t[start:])
	}
	return out
}

// ---- single-definition local aliases: `next := w.vx.cursorNext`, `closed := vx.closed`

var aliasTables = map[*types.Info]map[types.Object]ast.Expr{}

// aliasSources is filled by installAliasTables (main) for every loaded package.
func buildAliasTable(info *types.Info, files []*ast.File) {
	defs := map[types.Object][]ast.Expr{}
	bad := map[types.Object]bool{}
	anyDefs := map[types.Object][]ast.Expr{}
	multi := map[types.Object]bool{}
	rangeDefs := map[types.Object][]ast.Expr{}
	rangeKeyDefs := map[types.Object][]ast.Expr{}
	tupleDefs := map[types.Object][]tupleDef{}
	writes := map[types.Object]int{}
	note := func(l ast.Expr, r ast.Expr, define bool) {
		if id, ok := l.(*ast.Ident); ok {
			writes[info.ObjectOf(id)]++
		}
		id, ok := l.(*ast.Ident)
		if !ok {
			return
		}
		o := info.ObjectOf(id)
		v, ok := o.(*types.Var)
		if !ok || v.IsField() || v.Parent() == nil || v.Parent() == v.Pkg().Scope() {
			return
		}
		if r == nil {
			multi[o] = true
		} else {
			anyDefs[o] = append(anyDefs[o], r)
		}
		// `p := &a.b.c` makes p.x the same storage as a.b.c.x: the alias stands for the pointee path
		if r != nil {
			if u, ok := unparen(r).(*ast.UnaryExpr); ok && u.Op == token.AND && isAccessPath(info, u.X) {
				r = u.X
			}
		}
		if r == nil || !isAccessPath(info, r) {
			bad[o] = true
			return
		}
		defs[o] = append(defs[o], r)
	}
	for _, f := range files {
		ast.Inspect(f, func(n ast.Node) bool {
			switch s := n.(type) {
			case *ast.AssignStmt:
				if len(s.Lhs) == len(s.Rhs) && (s.Tok == token.DEFINE || s.Tok == token.ASSIGN) {
					for i := range s.Lhs {
						note(s.Lhs[i], s.Rhs[i], s.Tok == token.DEFINE)
					}
				} else {
					for i, l := range s.Lhs {
						note(l, nil, false)
						if call, ok := s.Rhs[0].(*ast.CallExpr); ok && len(s.Rhs) == 1 {
							if id, ok := l.(*ast.Ident); ok && id.Name != "_" {
								o := info.ObjectOf(id)
								tupleDefs[o] = append(tupleDefs[o], tupleDef{call, i})
							}
						}
					}
				}
			case *ast.IncDecStmt:
				note(s.X, nil, false)
			case *ast.RangeStmt:
				if s.Key != nil {
					note(s.Key, nil, false)
					if id, ok := s.Key.(*ast.Ident); ok && s.Tok == token.DEFINE && id.Name != "_" {
						// only slices and arrays: the key of a map or channel range is not an index
						switch info.TypeOf(s.X).Underlying().(type) {
						case *types.Slice, *types.Array:
							rangeKeyDefs[info.ObjectOf(id)] = append(rangeKeyDefs[info.ObjectOf(id)], s.X)
						case *types.Pointer:
							rangeKeyDefs[info.ObjectOf(id)] = append(rangeKeyDefs[info.ObjectOf(id)], s.X)
						}
					}
				}
				if s.Value != nil {
					note(s.Value, nil, false)
					if id, ok := s.Value.(*ast.Ident); ok && s.Tok == token.DEFINE {
						rangeDefs[info.ObjectOf(id)] = append(rangeDefs[info.ObjectOf(id)], s.X)
					}
				}
			case *ast.ValueSpec:
				for i, nm := range s.Names {
					if i < len(s.Values) {
						note(nm, s.Values[i], true)
					} else {
						note(nm, nil, true)
					}
				}
			case *ast.UnaryExpr:
				if s.Op == token.AND {
					if id, ok := unparen(s.X).(*ast.Ident); ok {
						bad[info.ObjectOf(id)] = true
						multi[info.ObjectOf(id)] = true
					}
				}
			}
			return true
		})
	}
	tbl := map[types.Object]ast.Expr{}
	for o, ds := range defs {
		if len(ds) == 1 && !bad[o] {
			tbl[o] = ds[0]
		}
	}
	aliasTables[info] = tbl
	// every single-definition local, whatever its defining expression
	sd := map[types.Object]ast.Expr{}
	for o, ds := range anyDefs {
		if len(ds) == 1 && !multi[o] {
			sd[o] = ds[0]
		}
	}
	singleDefTables[info] = sd
	rs := map[types.Object]ast.Expr{}
	for o, xs := range rangeDefs {
		if len(xs) == 1 && writes[o] == 1 && o != nil {
			rs[o] = xs[0]
		}
	}
	rangeSourceTables[info] = rs
	rk := map[types.Object]ast.Expr{}
	for o, xs := range rangeKeyDefs {
		if len(xs) == 1 && writes[o] == 1 && o != nil {
			rk[o] = xs[0]
		}
	}
	rangeKeyTables[info] = rk
	td := map[types.Object]tupleDef{}
	for o, ds := range tupleDefs {
		if len(ds) == 1 && writes[o] == 1 && o != nil {
			td[o] = ds[0]
		}
	}
	tupleDefTables[info] = td
	writeCountTables[info] = writes
}

// writeCountTables: per package, how many statements assign each identifier-named variable.
var writeCountTables = map[*types.Info]map[types.Object]int{}

type tupleDef struct {
	call *ast.CallExpr
	idx  int
}

var tupleDefTables = map[*types.Info]map[types.Object]tupleDef{}

// theProgram is set once the program is loaded (helper summaries need function bodies).
var theProgram *Program

var helperKeyDepth int

// helperResultKeys: the canonical guard keys that hold whenever result #idx of the repository function
// called by call has the boolean value pol: the keys common to every return statement that can yield it
// (the callee's parameters stand for the caller's arguments). ok=false: not a summarisable helper.
func helperResultKeys(info *types.Info, call *ast.CallExpr, idx int, pol bool) ([]string, bool) {
	p := theProgram
	if p == nil || helperKeyDepth > 2 {
		return nil, false
	}
	fi := p.FuncOfObj(calleeOf(info, call))
	if fi == nil || fi.Decl.Body == nil || fi.Pkg.TypesInfo != info {
		return nil, false
	}
	sig := fi.Obj.Type().(*types.Signature)
	if idx >= sig.Results().Len() {
		return nil, false
	}
	if bt, ok := sig.Results().At(idx).Type().Underlying().(*types.Basic); !ok || bt.Info()&types.IsBoolean == 0 {
		return nil, false
	}
	// bind parameters to arguments for the duration of the summary
	tbl := aliasTables[info]
	if tbl == nil {
		return nil, false
	}
	var bound []types.Object
	i := 0
	for _, f := range fi.Decl.Type.Params.List {
		for _, nm := range f.Names {
			if i < len(call.Args) && !sig.Variadic() {
				o := info.Defs[nm]
				if _, had := tbl[o]; !had && o != nil {
					tbl[o] = call.Args[i]
					bound = append(bound, o)
				}
			}
			i++
		}
	}
	defer func() {
		for _, o := range bound {
			delete(tbl, o)
		}
	}()
	helperKeyDepth++
	defer func() { helperKeyDepth-- }()
	g := p.Graph(fi)
	var common map[string]bool
	n := 0
	for _, h := range g.Find(func(n ast.Node) bool { _, ok := n.(*ast.ReturnStmt); return ok }) {
		rs := h.Node.(*ast.ReturnStmt)
		if len(rs.Results) != sig.Results().Len() {
			return nil, false // bare return / call forwarding: not summarised
		}
		r := rs.Results[idx]
		keys := guardKeys(g, h.Loc)
		if tv, ok := info.Types[r]; ok && tv.Value != nil && tv.Value.Kind() == constant.Bool {
			if constant.BoolVal(tv.Value) != pol {
				continue
			}
		} else {
			keys = append(keys, exprKeys(info, r, pol)...)
		}
		n++
		set := map[string]bool{}
		for _, k := range keys {
			set[k] = true
		}
		if common == nil {
			common = set
		} else {
			for k := range common {
				if !set[k] {
					delete(common, k)
				}
			}
		}
	}
	if n == 0 {
		return nil, false
	}
	var out []string
	for k := range common {
		out = append(out, k)
	}
	sort.Strings(out)
	return out, true
}

var singleDefTables = map[*types.Info]map[types.Object]ast.Expr{}

// singleDefOf returns the defining expression of a local variable that is assigned exactly once.
func singleDefOf(info *types.Info, o types.Object) ast.Expr {
	if t := singleDefTables[info]; t != nil {
		return t[o]
	}
	return nil
}

// isAccessPath: identifier/selector chain rooted at a variable, with at least one field selection
// (a plain `a := b` copy of another local is not treated as an alias).
func isAccessPath(info *types.Info, e ast.Expr) bool {
	e = unparen(e)
	n := 0
	for {
		switch t := e.(type) {
		case *ast.SelectorExpr:
			if _, ok := info.Selections[t]; !ok {
				return false
			}
			n++
			e = t.X
		case *ast.StarExpr:
			e = t.X
		case *ast.ParenExpr:
			e = t.X
		case *ast.IndexExpr:
			if _, ok := constInt(info, t.Index); !ok {
				return false
			}
			e = t.X
		case *ast.Ident:
			_, isVar := info.ObjectOf(t).(*types.Var)
			return isVar && n > 0
		default:
			return false
		}
	}
}

func localAliasOf(info *types.Info, id *ast.Ident) ast.Expr {
	tbl := aliasTables[info]
	if tbl == nil {
		return nil
	}
	return tbl[info.ObjectOf(id)]
}

// lhsPath is canonPath for an assignment target: plain identifiers (locals being defined or
// assigned) are never resolved through aliases and yield "".
func lhsPath(info *types.Info, e ast.Expr) string {
	if _, ok := unparen(e).(*ast.Ident); ok {
		return ""
	}
	return canonPath(info, e)
}
