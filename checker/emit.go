package main

// Engine E1 — emission extractor: which byte templates are written to a sink,
// in which function, under which dominating guards.

import (
	"fmt"
	"go/ast"
	"go/constant"
	"go/token"
	"go/types"
	"sort"
	"strings"

	"golang.org/x/tools/go/packages"
)

type Emission struct {
	Fn        *FuncInfo
	FnName    string
	Call      *ast.CallExpr
	Loc       Loc
	G         *FG
	Sink      string   // kind of sink
	Templates []string // possible strings; unresolved parts appear as verbs (%d, %s, %v)
	Resolved  bool
	Why       string
	Facts     []Atom
	GuardKeys []string // canonical guard atoms
	ArgExpr   ast.Expr
}

// SinkFn decides whether call is a sink; it returns the index of the string/bytes/format argument,
// whether the argument is a printf format (followed by args), and a label.
type SinkFn func(pk *packages.Package, call *ast.CallExpr, fn *types.Func) (arg int, isFormat bool, label string, ok bool)

type strEval struct {
	p     *Program
	pk    *packages.Package
	info  *types.Info
	depth int
	// legacy variants of package-level string variables: var obj -> extra values
	varVariants map[types.Object][]string
}

func newStrEval(p *Program, pk *packages.Package) *strEval {
	se := &strEval{p: p, pk: pk, info: pk.TypesInfo, varVariants: map[types.Object][]string{}}
	se.collectVarVariants()
	return se
}

// collectVarVariants finds assignments `v = strings.ReplaceAll(v, a, b)` to package-level string vars.
func (se *strEval) collectVarVariants() {
	for _, f := range se.pk.Syntax {
		ast.Inspect(f, func(n ast.Node) bool {
			as, ok := n.(*ast.AssignStmt)
			if !ok || len(as.Lhs) != 1 || len(as.Rhs) != 1 || as.Tok != token.ASSIGN {
				return true
			}
			id, ok := as.Lhs[0].(*ast.Ident)
			if !ok {
				return true
			}
			obj, _ := se.info.Uses[id].(*types.Var)
			if obj == nil || obj.Parent() != se.pk.Types.Scope() {
				return true
			}
			call, ok := as.Rhs[0].(*ast.CallExpr)
			if !ok {
				return true
			}
			if fn := calleeOf(se.info, call); fn != nil && fullName(fn) == "strings.ReplaceAll" && len(call.Args) == 3 {
				a, okA := constString(se.info, call.Args[1])
				b, okB := constString(se.info, call.Args[2])
				if base, ok := se.varInit(obj); ok && okA && okB {
					for _, v := range base {
						se.varVariants[obj] = append(se.varVariants[obj], strings.ReplaceAll(v, a, b))
					}
				}
			}
			return true
		})
	}
}

func constString(info *types.Info, e ast.Expr) (string, bool) {
	tv, ok := info.Types[e]
	if !ok || tv.Value == nil || tv.Value.Kind() != constant.String {
		return "", false
	}
	return constant.StringVal(tv.Value), true
}

// varInit returns the initialiser value(s) of a package-level string variable.
func (se *strEval) varInit(obj *types.Var) ([]string, bool) {
	for _, f := range se.pk.Syntax {
		for _, d := range f.Decls {
			gd, ok := d.(*ast.GenDecl)
			if !ok || gd.Tok != token.VAR {
				continue
			}
			for _, sp := range gd.Specs {
				vs := sp.(*ast.ValueSpec)
				for i, n := range vs.Names {
					if se.info.Defs[n] == obj && i < len(vs.Values) {
						return se.eval(vs.Values[i], nil)
					}
				}
			}
		}
	}
	return nil, false
}

type strEnv map[types.Object]ast.Expr // parameter -> argument expression (evaluated in outer env)

type envFrame struct {
	env   strEnv
	outer *envFrame
}

// eval returns the possible string values of e (with unresolved verbs left in place).
func (se *strEval) eval(e ast.Expr, fr *envFrame) ([]string, bool) {
	e = unparen(e)
	if s, ok := constString(se.info, e); ok {
		return []string{s}, true
	}
	switch t := e.(type) {
	case *ast.Ident:
		obj := se.info.ObjectOf(t)
		if fr != nil {
			if arg, ok := fr.env[obj]; ok {
				return se.eval(arg, fr.outer)
			}
		}
		if v, ok := obj.(*types.Var); ok && v.Parent() == se.pk.Types.Scope() {
			base, ok := se.varInit(v)
			if !ok {
				return nil, false
			}
			return append(append([]string{}, base...), se.varVariants[v]...), true
		}
		return nil, false
	case *ast.BinaryExpr:
		if t.Op == token.ADD {
			a, okA := se.eval(t.X, fr)
			b, okB := se.eval(t.Y, fr)
			if okA && okB {
				var out []string
				for _, x := range a {
					for _, y := range b {
						out = append(out, x+y)
					}
				}
				return out, true
			}
		}
		return nil, false
	case *ast.CompositeLit:
		// []byte{0x07}
		var sb strings.Builder
		for _, el := range t.Elts {
			v, ok := constInt(se.info, el)
			if !ok {
				return nil, false
			}
			sb.WriteByte(byte(v))
		}
		return []string{sb.String()}, true
	case *ast.CallExpr:
		// conversions []byte(s), string(x)
		if tv, ok := se.info.Types[t.Fun]; ok && tv.IsType() && len(t.Args) == 1 {
			return se.eval(t.Args[0], fr)
		}
		fn := calleeOf(se.info, t)
		if fn == nil {
			return nil, false
		}
		switch fullName(fn) {
		case "fmt.Sprintf":
			if len(t.Args) == 0 {
				return nil, false
			}
			fmts, ok := se.eval(t.Args[0], fr)
			if !ok {
				return nil, false
			}
			var out []string
			for _, f := range fmts {
				out = append(out, se.applyFormat(f, t.Args[1:], t.Ellipsis.IsValid(), fr))
			}
			return out, true
		case "bytes.Buffer.String", "strings.Builder.String", "bytes.Buffer.Bytes":
			return nil, false
		}
		// repository function: inline `return expr` bodies and straight-line builders
		if fi := se.p.FuncOfObj(fn); fi != nil && fi.Decl.Body != nil && se.depth < 4 {
			se.depth++
			defer func() { se.depth-- }()
			env := strEnv{}
			i := 0
			variadicStart := -1
			sig := fn.Type().(*types.Signature)
			for _, f := range fi.Decl.Type.Params.List {
				for _, n := range f.Names {
					if sig.Variadic() && i == sig.Params().Len()-1 {
						variadicStart = i
					} else if i < len(t.Args) {
						env[fi.Pkg.TypesInfo.Defs[n]] = t.Args[i]
					}
					i++
				}
			}
			callee := &strEval{p: se.p, pk: fi.Pkg, info: fi.Pkg.TypesInfo, depth: se.depth, varVariants: se.varVariants}
			if fi.Pkg != se.pk {
				callee = newStrEval(se.p, fi.Pkg)
				callee.depth = se.depth
			}
			return callee.evalBody(fi, &envFrame{env: env, outer: fr}, t, variadicStart, se, fr)
		}
		return nil, false
	}
	return nil, false
}

// evalBody evaluates a string-returning function body of one of the forms
//   return <expr>
//   b := <builder>; b.WriteString(x)...; return b.String()
func (se *strEval) evalBody(fi *FuncInfo, fr *envFrame, call *ast.CallExpr, variadicStart int, callerSE *strEval, callerFr *envFrame) ([]string, bool) {
	body := fi.Decl.Body.List
	if len(body) == 1 {
		if rs, ok := body[0].(*ast.ReturnStmt); ok && len(rs.Results) == 1 {
			// fmt.Sprintf(s, args...) forwarding variadic
			if c2, ok := rs.Results[0].(*ast.CallExpr); ok {
				if fn := calleeOf(se.info, c2); fn != nil && fullName(fn) == "fmt.Sprintf" && c2.Ellipsis.IsValid() && variadicStart >= 0 && len(c2.Args) == 2 {
					fmts, ok := se.eval(c2.Args[0], fr)
					if !ok {
						return nil, false
					}
					var rest []ast.Expr
					if variadicStart < len(call.Args) {
						rest = call.Args[variadicStart:]
					}
					var out []string
					for _, f := range fmts {
						out = append(out, callerSE.applyFormat(f, rest, false, callerFr))
					}
					return out, true
				}
			}
			return se.eval(rs.Results[0], fr)
		}
	}
	// straight-line builder
	var builder types.Object
	acc := []string{""}
	for _, s := range body {
		switch st := s.(type) {
		case *ast.AssignStmt:
			if len(st.Lhs) == 1 && st.Tok == token.DEFINE {
				if id, ok := st.Lhs[0].(*ast.Ident); ok && builder == nil {
					builder = se.info.Defs[id]
					continue
				}
			}
			return nil, false
		case *ast.ExprStmt:
			c2, ok := st.X.(*ast.CallExpr)
			if !ok {
				return nil, false
			}
			sel, ok := c2.Fun.(*ast.SelectorExpr)
			if !ok || rootObj(se.info, sel.X) != builder || sel.Sel.Name != "WriteString" || len(c2.Args) != 1 {
				return nil, false
			}
			vals, ok := se.eval(c2.Args[0], fr)
			if !ok {
				return nil, false
			}
			var next []string
			for _, a := range acc {
				for _, v := range vals {
					next = append(next, a+v)
				}
			}
			acc = next
		case *ast.ReturnStmt:
			if len(st.Results) == 1 {
				if c2, ok := st.Results[0].(*ast.CallExpr); ok {
					if sel, ok := c2.Fun.(*ast.SelectorExpr); ok && rootObj(se.info, sel.X) == builder && sel.Sel.Name == "String" {
						return acc, true
					}
				}
			}
			return nil, false
		default:
			return nil, false
		}
	}
	return nil, false
}

// applyFormat substitutes constant arguments into the verbs of format; other verbs stay.
func (se *strEval) applyFormat(format string, args []ast.Expr, ellipsis bool, fr *envFrame) string {
	var sb strings.Builder
	ai := 0
	for i := 0; i < len(format); i++ {
		ch := format[i]
		if ch != '%' {
			sb.WriteByte(ch)
			continue
		}
		if i+1 < len(format) && format[i+1] == '%' {
			sb.WriteString("%%")
			i++
			continue
		}
		j := i + 1
		for j < len(format) && strings.ContainsRune("+-# 0123456789.", rune(format[j])) {
			j++
		}
		if j >= len(format) {
			sb.WriteString(format[i:])
			break
		}
		verb := format[j]
		spec := format[i : j+1]
		repl := spec
		if ai < len(args) && !ellipsis {
			a := args[ai]
			// resolve through the env
			if v, ok := se.constIntArg(a, fr); ok && (verb == 'd' || verb == 'v') && spec == "%"+string(verb) {
				repl = fmt.Sprint(v)
			} else if s, ok := se.constStrArg(a, fr); ok {
				switch {
				case (verb == 's' || verb == 'v') && spec == "%"+string(verb):
					repl = strings.ReplaceAll(s, "%", "%%")
				case verb == 'X' && spec == "%X":
					repl = fmt.Sprintf("%X", s)
				}
			}
		}
		ai++
		sb.WriteString(repl)
		i = j
	}
	return sb.String()
}

func (se *strEval) constIntArg(a ast.Expr, fr *envFrame) (int64, bool) {
	a = unparen(a)
	if v, ok := constInt(se.info, a); ok {
		if tv := se.info.Types[a]; tv.Type != nil {
			if b, ok := tv.Type.Underlying().(*types.Basic); ok && b.Info()&types.IsInteger != 0 {
				return v, true
			}
			if b, ok := tv.Type.Underlying().(*types.Basic); ok && b.Kind() == types.UntypedInt || b.Kind() == types.UntypedRune {
				return v, true
			}
		}
	}
	if id, ok := a.(*ast.Ident); ok && fr != nil {
		if arg, ok := fr.env[se.info.ObjectOf(id)]; ok {
			outer := se
			return outer.constIntArg(arg, fr.outer)
		}
	}
	return 0, false
}

func (se *strEval) constStrArg(a ast.Expr, fr *envFrame) (string, bool) {
	a = unparen(a)
	if s, ok := constString(se.info, a); ok {
		return s, true
	}
	if id, ok := a.(*ast.Ident); ok && fr != nil {
		if arg, ok := fr.env[se.info.ObjectOf(id)]; ok {
			return se.constStrArg(arg, fr.outer)
		}
	}
	return "", false
}

// canonTerm renders an access path rooted at the nearest enclosing value of a
// named repository struct type that is NOT a plain sub-struct field, so that
// `vx.caps.rgb`, `w.vx.caps.rgb` and `k.vx.caps.rgb` all become "Vaxis.caps.rgb".
func canonPath(info *types.Info, e ast.Expr) string {
	e = unparen(e)
	var fields []string
	cur := e
	hops := 0
	for {
		switch t := cur.(type) {
		case *ast.Ident:
			// a local defined exactly once as a copy of an access path stands for that path
			if src := localAliasOf(info, t); src != nil && hops < 4 {
				hops++
				root := canonPath(info, src)
				if id, ok := unparen(src).(*ast.Ident); ok && root == id.Name && len(fields) > 0 {
					if name := anchorType(info.TypeOf(id)); name != "" {
						root = name
					}
				}
				// `vx := w.vx; vx.caps.rgb` is `w.vx.caps.rgb`: a pointer to a named repository struct anchors
				// the path exactly as it does when the selector chain is written out
				if _, isSel := unparen(src).(*ast.SelectorExpr); isSel && len(fields) > 0 {
					if _, isPtr := info.TypeOf(src).(*types.Pointer); isPtr && !isAmbiguousAnchor(info.TypeOf(src)) {
						if name := anchorType(info.TypeOf(src)); name != "" {
							root = name
						}
					}
				}
				return joinPath(root, fields)
			}
			// the value variable of `for _, v := range X` stands for an element of X
			if rx := rangeSourceOf(info, t); rx != nil && hops < 4 {
				hops++
				return joinPath(canonPath(info, rx)+"[*]", fields)
			}
			// a local defined exactly once by a call or conversion stands for that expression
			if src := singleDefOf(info, info.ObjectOf(t)); src != nil && hops < 4 && canonDepth < 6 {
				switch unparen(src).(type) {
				case *ast.CallExpr, *ast.IndexExpr:
					hops++
					canonDepth++
					r := joinPath(canonExpr(info, src), fields)
					canonDepth--
					return r
				}
			}
			if len(fields) > 0 {
				if name := anchorType(info.TypeOf(t)); name != "" {
					return joinPath(name, fields)
				}
			}
		case *ast.IndexExpr:
			if v, ok := constInt(info, t.Index); ok {
				fields = append([]string{fmt.Sprintf("[%d]", v)}, fields...)
				cur = t.X
				continue
			}
			if canonDepth < 6 {
				canonDepth++
				ix := canonExpr(info, t.Index)
				canonDepth--
				fields = append([]string{"[" + ix + "]"}, fields...)
				cur = t.X
				continue
			}
		case *ast.ParenExpr:
			cur = t.X
			continue
		case *ast.StarExpr:
			cur = t.X
			continue
		case *ast.SelectorExpr:
			if _, ok := info.Selections[t]; ok {
				fields = append([]string{t.Sel.Name}, fields...)
				// does t.X have a pointer-to-named or named struct type that anchors the path?
				if name := anchorType(info.TypeOf(t.X)); name != "" {
					aliased := false
					if id, ok := unparen(t.X).(*ast.Ident); ok && localAliasOf(info, id) != nil {
						aliased = true
					}
					if _, isPtr := info.TypeOf(t.X).(*types.Pointer); (isPtr || isIdent(t.X)) && !aliased && (isIdent(t.X) || !isAmbiguousAnchor(info.TypeOf(t.X))) {
						return joinPath(name, fields)
					}
				}
				cur = t.X
				continue
			}
		case *ast.CallExpr:
			if id, ok := t.Fun.(*ast.Ident); ok && id.Name == "len" && len(t.Args) == 1 && len(fields) == 0 {
				return "len(" + canonPath(info, t.Args[0]) + ")"
			}
			// method call with no args: x.Len()
			if sel, ok := t.Fun.(*ast.SelectorExpr); ok && len(t.Args) == 0 && len(fields) == 0 {
				return canonPath(info, sel.X) + "." + sel.Sel.Name + "()"
			}
		}
		break
	}
	if len(fields) > 0 && cur != e {
		// an index/field suffix on something that is not a path (a call result, ...)
		if _, isCall := unparen(cur).(*ast.CallExpr); isCall && canonDepth < 6 {
			canonDepth++
			r := joinPath(canonExpr(info, cur), fields)
			canonDepth--
			return r
		}
	}
	s := types.ExprString(e)
	return s
}

var canonDepth int

// ambiguousAnchor: named struct types of which some struct holds two (pointers to) values; filled at load.
var ambiguousAnchor = map[*types.TypeName]bool{}

func isAmbiguousAnchor(t types.Type) bool {
	if p, ok := t.(*types.Pointer); ok {
		t = p.Elem()
	}
	if n, ok := t.(*types.Named); ok {
		return ambiguousAnchor[n.Obj()]
	}
	return false
}

// joinPath appends field and index components to a root: joinPath("CSI", ["Parameters","[0]","[0]"]) = "CSI.Parameters[0][0]".
func joinPath(root string, fields []string) string {
	var sb strings.Builder
	sb.WriteString(root)
	for _, f := range fields {
		if !strings.HasPrefix(f, "[") {
			sb.WriteByte('.')
		}
		sb.WriteString(f)
	}
	return sb.String()
}

var rangeSourceTables = map[*types.Info]map[types.Object]ast.Expr{}

// rangeSourceOf: id is the value variable of exactly one range statement and is never assigned otherwise;
// returns the ranged-over expression.
func rangeSourceOf(info *types.Info, id *ast.Ident) ast.Expr {
	if t := rangeSourceTables[info]; t != nil {
		return t[info.ObjectOf(id)]
	}
	return nil
}

func isIdent(e ast.Expr) bool { _, ok := unparen(e).(*ast.Ident); return ok }

func anchorType(t types.Type) string {
	if t == nil {
		return ""
	}
	if p, ok := t.(*types.Pointer); ok {
		t = p.Elem()
	}
	if n, ok := t.(*types.Named); ok {
		if _, isStruct := n.Underlying().(*types.Struct); isStruct && n.Obj().Pkg() != nil && strings.HasPrefix(n.Obj().Pkg().Path(), modPath) {
			return n.Obj().Name()
		}
	}
	return ""
}

// guardKeys renders the boolean/nil/comparison guards in force as canonical strings.
func guardKeys(g *FG, l Loc) []string {
	var out []string
	seen := map[string]bool{}
	for _, gd := range g.Guards(l) {
		for _, k := range condKeys(g.Info, gd.Cond, gd.Pol) {
			// kill check
			objs := objsIn(g.Info, gd.Cond.Expr)
			if gd.Cond.Tag != nil {
				for o := range objsIn(g.Info, gd.Cond.Tag) {
					objs[o] = true
				}
			}
			if !seen[k] {
				seen[k] = true
				out = append(out, k)
			}
			_ = objs
		}
	}
	sort.Strings(out)
	return out
}

// condKeys: canonical strings for the conjuncts implied by cond==pol.
func condKeys(info *types.Info, c *Cond, pol bool) []string {
	if c.Alts != nil {
		var vals []string
		for _, a := range c.Alts {
			vals = append(vals, canonExpr(info, a))
		}
		if c.Tag != nil {
			return []string{canonPath(info, c.Tag) + "∈{" + strings.Join(vals, ",") + "}"}
		}
		return []string{"(" + strings.Join(vals, "||") + ")"}
	}
	if c.Tag != nil {
		// switch tag { case v: }
		if b, ok := info.TypeOf(c.Tag).Underlying().(*types.Basic); ok && b.Info()&types.IsBoolean != 0 {
			if tv, ok := info.Types[c.Expr]; ok && tv.Value != nil {
				val := constant.BoolVal(tv.Value)
				return exprKeys(info, c.Tag, val == pol)
			}
		}
		cv := canonExpr(info, c.Expr)
		op := "=="
		if !pol {
			op = "!="
		}
		return []string{canonPath(info, c.Tag) + op + cv}
	}
	return exprKeys(info, c.Expr, pol)
}

func exprKeys(info *types.Info, e ast.Expr, pol bool) []string {
	e = unparen(e)
	switch t := e.(type) {
	case *ast.UnaryExpr:
		if t.Op == token.NOT {
			return exprKeys(info, t.X, !pol)
		}
	case *ast.BinaryExpr:
		switch t.Op {
		case token.LAND:
			if pol {
				return append(exprKeys(info, t.X, true), exprKeys(info, t.Y, true)...)
			}
			return []string{"!(" + canonExpr(info, e) + ")"}
		case token.LOR:
			if !pol {
				return append(exprKeys(info, t.X, false), exprKeys(info, t.Y, false)...)
			}
			return []string{"(" + canonExpr(info, e) + ")"}
		case token.EQL, token.NEQ, token.LSS, token.LEQ, token.GTR, token.GEQ:
			op := t.Op
			if !pol {
				op = negOp(op)
			}
			// boolean compare with constant
			if tv, ok := info.Types[t.Y]; ok && tv.Value != nil && tv.Value.Kind() == constant.Bool && (t.Op == token.EQL || t.Op == token.NEQ) {
				val := constant.BoolVal(tv.Value)
				return exprKeys(info, t.X, (val == (t.Op == token.EQL)) == pol)
			}
			return []string{canonExpr(info, t.X) + op.String() + canonExpr(info, t.Y)}
		}
	}
	k := canonExpr(info, e)
	out := []string{"-" + k}
	if pol {
		out = []string{"+" + k}
	}
	// a boolean obtained from a repository helper: add what the helper's returns imply
	switch t := e.(type) {
	case *ast.Ident:
		if td, ok := tupleDefTables[info][info.ObjectOf(t)]; ok {
			if ks, ok := helperResultKeys(info, td.call, td.idx, pol); ok {
				out = append(out, ks...)
			}
		} else if src := singleDefOf(info, info.ObjectOf(t)); src != nil {
			if call, ok := unparen(src).(*ast.CallExpr); ok {
				if ks, ok := helperResultKeys(info, call, 0, pol); ok {
					out = append(out, ks...)
				}
			}
		}
	case *ast.CallExpr:
		if ks, ok := helperResultKeys(info, t, 0, pol); ok {
			out = append(out, ks...)
		}
	}
	return out
}

func canonExpr(info *types.Info, e ast.Expr) string {
	e = unparen(e)
	if v, ok := constInt(info, e); ok {
		if tv := info.Types[e]; tv.Value != nil && tv.Value.Kind() == constant.Int {
			return fmt.Sprint(v)
		}
	}
	if s, ok := constString(info, e); ok {
		return fmt.Sprintf("%q", s)
	}
	switch t := e.(type) {
	case *ast.BinaryExpr:
		return canonExpr(info, t.X) + t.Op.String() + canonExpr(info, t.Y)
	case *ast.UnaryExpr:
		return t.Op.String() + canonExpr(info, t.X)
	case *ast.CallExpr:
		if r := inlineAccessor(info, t); r != "" {
			return r
		}
		if stringResolver != nil {
			if s, ok := stringResolver(info, t); ok {
				return fmt.Sprintf("%q", s)
			}
		}
		if r := canonPath(info, e); r != types.ExprString(e) {
			return r
		}
		// f(args) / T(x): canonical arguments
		if canonDepth < 6 {
			canonDepth++
			var args []string
			for _, a := range t.Args {
				args = append(args, canonExpr(info, a))
			}
			canonDepth--
			return types.ExprString(t.Fun) + "(" + strings.Join(args, ", ") + ")"
		}
		return types.ExprString(e)
	case *ast.SelectorExpr, *ast.Ident, *ast.StarExpr, *ast.IndexExpr:
		return canonPath(info, e)
	}
	return types.ExprString(e)
}

// accessorResolver is set by main once the program is loaded; it maps a call of a
// zero-argument accessor method whose body is `return <expr>` to the canonical form of <expr>.
var accessorResolver func(info *types.Info, call *ast.CallExpr) string

// stringResolver evaluates a call of a repository string function on constant arguments (hexEncode("RGB")).
var stringResolver func(info *types.Info, call *ast.CallExpr) (string, bool)

func inlineAccessor(info *types.Info, call *ast.CallExpr) string {
	if accessorResolver == nil || len(call.Args) != 0 {
		return ""
	}
	return accessorResolver(info, call)
}

// ExtractEmissions finds every sink call in the given functions.
func ExtractEmissions(p *Program, fis []*FuncInfo, isSink SinkFn) []*Emission {
	var out []*Emission
	evals := map[*packages.Package]*strEval{}
	for _, fi := range fis {
		if fi.Decl.Body == nil {
			continue
		}
		se := evals[fi.Pkg]
		if se == nil {
			se = newStrEval(p, fi.Pkg)
			evals[fi.Pkg] = se
		}
		// the declared body and every function literal inside it
		type unit struct {
			g    *FG
			name string
		}
		units := []unit{{p.Graph(fi), fi.Name}}
		litN := 0
		ast.Inspect(fi.Decl.Body, func(n ast.Node) bool {
			if lit, ok := n.(*ast.FuncLit); ok {
				litN++
				nm := fmt.Sprintf("%s$%d", fi.Name, litN)
				units = append(units, unit{p.GraphOfLit(fi.Pkg, nm, lit), nm})
			}
			return true
		})
		for _, u := range units {
			g := u.g
			for _, h := range g.Find(func(n ast.Node) bool { _, ok := n.(*ast.CallExpr); return ok }) {
				call := h.Node.(*ast.CallExpr)
				fn := calleeOf(fi.Pkg.TypesInfo, call)
				arg, isFmt, label, ok := isSink(fi.Pkg, call, fn)
				if !ok || arg >= len(call.Args) {
					continue
				}
				em := &Emission{Fn: fi, FnName: u.name, Call: call, Loc: h.Loc, G: g, Sink: label, ArgExpr: call.Args[arg]}
				vals, okv := se.eval(call.Args[arg], nil)
				if okv {
					if isFmt {
						for i, v := range vals {
							vals[i] = se.applyFormat(v, call.Args[arg+1:], call.Ellipsis.IsValid(), nil)
						}
					}
					em.Templates, em.Resolved = vals, true
				} else {
					em.Why = "argument " + types.ExprString(call.Args[arg]) + " is not a constant template"
				}
				em.Facts = g.FactsAt(h.Loc)
				em.GuardKeys = guardKeys(g, h.Loc)
				out = append(out, em)
			}
		}
	}
	return out
}

// ---- ECMA-48 recogniser for templates

type Seq struct {
	Kind    string // CSI OSC DCS APC ESC C0 TEXT
	Private string // leading private marker(s) of a CSI: ? > < =
	Params  string // parameter bytes with holes
	Inter   string
	Final   string
	Data    string // string payload for OSC/DCS/APC (OSC: after selector)
	OSCSel  string
	Raw     string
}

func (s Seq) String() string {
	switch s.Kind {
	case "CSI":
		return fmt.Sprintf("CSI %s%s%s%s", s.Private, s.Params, s.Inter, s.Final)
	case "OSC":
		return "OSC " + s.OSCSel
	case "ESC":
		return "ESC " + s.Inter + s.Final
	}
	return s.Kind + " " + s.Raw
}

// parseSeqs splits a template into control sequences. Holes (%d, %s, %v, %X) are parameter material.
func parseSeqs(t string) []Seq {
	var out []Seq
	i := 0
	n := len(t)
	text := func(s string) {
		if s != "" {
			out = append(out, Seq{Kind: "TEXT", Raw: s})
		}
	}
	start := 0
	for i < n {
		if t[i] != 0x1b {
			if t[i] < 0x20 && t[i] != '%' {
				text(t[start:i])
				out = append(out, Seq{Kind: "C0", Raw: t[i : i+1], Final: t[i : i+1]})
				i++
				start = i
				continue
			}
			i++
			continue
		}
		text(t[start:i])
		if i+1 >= n {
			out = append(out, Seq{Kind: "ESC", Raw: t[i:]})
			i = n
			start = n
			break
		}
		c := t[i+1]
		switch c {
		case '[':
			j := i + 2
			priv := ""
			for j < n && strings.ContainsRune("?><=", rune(t[j])) {
				priv += string(t[j])
				j++
			}
			ps := j
			for j < n && (t[j] >= 0x30 && t[j] <= 0x3b || t[j] == '%') {
				if t[j] == '%' {
					// a hole: %d %s %v ...
					j++
					for j < n && strings.ContainsRune("+-# 0123456789.", rune(t[j])) {
						j++
					}
					if j < n {
						j++
					}
					continue
				}
				j++
			}
			params := t[ps:j]
			is := j
			for j < n && t[j] >= 0x20 && t[j] <= 0x2f {
				j++
			}
			inter := t[is:j]
			fin := ""
			if j < n {
				fin = t[j : j+1]
				j++
			}
			out = append(out, Seq{Kind: "CSI", Private: priv, Params: params, Inter: inter, Final: fin, Raw: t[i:j]})
			i = j
		case ']', 'P', '_', 'X', '^':
			kind := map[byte]string{']': "OSC", 'P': "DCS", '_': "APC", 'X': "SOS", '^': "PM"}[c]
			j := i + 2
			end := -1
			term := 0
			for k := j; k < n; k++ {
				if t[k] == 0x07 && kind == "OSC" {
					end, term = k, 1
					break
				}
				if t[k] == 0x1b && k+1 < n && t[k+1] == '\\' {
					end, term = k, 2
					break
				}
			}
			if end < 0 {
				end, term = n, 0
			}
			body := t[j:end]
			s := Seq{Kind: kind, Data: body, Raw: t[i : end+term]}
			if term == 0 {
				s.Inter = "UNTERMINATED"
			}
			if kind == "OSC" {
				if k := strings.IndexByte(body, ';'); k >= 0 {
					s.OSCSel, s.Data = body[:k], body[k+1:]
				} else {
					s.OSCSel, s.Data = body, ""
				}
			}
			out = append(out, s)
			i = end + term
		default:
			j := i + 1
			is := j
			for j < n && t[j] >= 0x20 && t[j] <= 0x2f {
				j++
			}
			fin := ""
			if j < n {
				fin = t[j : j+1]
				j++
			}
			out = append(out, Seq{Kind: "ESC", Inter: t[is : j-len(fin)], Final: fin, Raw: t[i:j]})
			i = j
		}
		start = i
	}
	if start < n {
		text(t[start:])
	}
	return out
}

// ---- single-definition local aliases: `next := w.vx.cursorNext`, `closed := vx.closed`

var aliasTables = map[*types.Info]map[types.Object]ast.Expr{}

// aliasSources is filled by installAliasTables (main) for every loaded package.
func buildAliasTable(info *types.Info, files []*ast.File) {
	defs := map[types.Object][]ast.Expr{}
	bad := map[types.Object]bool{}
	anyDefs := map[types.Object][]ast.Expr{}
	multi := map[types.Object]bool{}
	rangeDefs := map[types.Object][]ast.Expr{}
	tupleDefs := map[types.Object][]tupleDef{}
	writes := map[types.Object]int{}
	note := func(l ast.Expr, r ast.Expr, define bool) {
		if id, ok := l.(*ast.Ident); ok {
			writes[info.ObjectOf(id)]++
		}
		id, ok := l.(*ast.Ident)
		if !ok {
			return
		}
		o := info.ObjectOf(id)
		v, ok := o.(*types.Var)
		if !ok || v.IsField() || v.Parent() == nil || v.Parent() == v.Pkg().Scope() {
			return
		}
		if r == nil {
			multi[o] = true
		} else {
			anyDefs[o] = append(anyDefs[o], r)
		}
		if r == nil || !isAccessPath(info, r) {
			bad[o] = true
			return
		}
		defs[o] = append(defs[o], r)
	}
	for _, f := range files {
		ast.Inspect(f, func(n ast.Node) bool {
			switch s := n.(type) {
			case *ast.AssignStmt:
				if len(s.Lhs) == len(s.Rhs) && (s.Tok == token.DEFINE || s.Tok == token.ASSIGN) {
					for i := range s.Lhs {
						note(s.Lhs[i], s.Rhs[i], s.Tok == token.DEFINE)
					}
				} else {
					for i, l := range s.Lhs {
						note(l, nil, false)
						if call, ok := s.Rhs[0].(*ast.CallExpr); ok && len(s.Rhs) == 1 {
							if id, ok := l.(*ast.Ident); ok && id.Name != "_" {
								o := info.ObjectOf(id)
								tupleDefs[o] = append(tupleDefs[o], tupleDef{call, i})
							}
						}
					}
				}
			case *ast.IncDecStmt:
				note(s.X, nil, false)
			case *ast.RangeStmt:
				if s.Key != nil {
					note(s.Key, nil, false)
				}
				if s.Value != nil {
					note(s.Value, nil, false)
					if id, ok := s.Value.(*ast.Ident); ok && s.Tok == token.DEFINE {
						rangeDefs[info.ObjectOf(id)] = append(rangeDefs[info.ObjectOf(id)], s.X)
					}
				}
			case *ast.ValueSpec:
				for i, nm := range s.Names {
					if i < len(s.Values) {
						note(nm, s.Values[i], true)
					} else {
						note(nm, nil, true)
					}
				}
			case *ast.UnaryExpr:
				if s.Op == token.AND {
					if id, ok := unparen(s.X).(*ast.Ident); ok {
						bad[info.ObjectOf(id)] = true
						multi[info.ObjectOf(id)] = true
					}
				}
			}
			return true
		})
	}
	tbl := map[types.Object]ast.Expr{}
	for o, ds := range defs {
		if len(ds) == 1 && !bad[o] {
			tbl[o] = ds[0]
		}
	}
	aliasTables[info] = tbl
	// every single-definition local, whatever its defining expression
	sd := map[types.Object]ast.Expr{}
	for o, ds := range anyDefs {
		if len(ds) == 1 && !multi[o] {
			sd[o] = ds[0]
		}
	}
	singleDefTables[info] = sd
	rs := map[types.Object]ast.Expr{}
	for o, xs := range rangeDefs {
		if len(xs) == 1 && writes[o] == 1 && o != nil {
			rs[o] = xs[0]
		}
	}
	rangeSourceTables[info] = rs
	td := map[types.Object]tupleDef{}
	for o, ds := range tupleDefs {
		if len(ds) == 1 && writes[o] == 1 && o != nil {
			td[o] = ds[0]
		}
	}
	tupleDefTables[info] = td
}

type tupleDef struct {
	call *ast.CallExpr
	idx  int
}

var tupleDefTables = map[*types.Info]map[types.Object]tupleDef{}

// theProgram is set once the program is loaded (helper summaries need function bodies).
var theProgram *Program

var helperKeyDepth int

// helperResultKeys: the canonical guard keys that hold whenever result #idx of the repository function
// called by call has the boolean value pol: the keys common to every return statement that can yield it
// (the callee's parameters stand for the caller's arguments). ok=false: not a summarisable helper.
func helperResultKeys(info *types.Info, call *ast.CallExpr, idx int, pol bool) ([]string, bool) {
	p := theProgram
	if p == nil || helperKeyDepth > 2 {
		return nil, false
	}
	fi := p.FuncOfObj(calleeOf(info, call))
	if fi == nil || fi.Decl.Body == nil || fi.Pkg.TypesInfo != info {
		return nil, false
	}
	sig := fi.Obj.Type().(*types.Signature)
	if idx >= sig.Results().Len() {
		return nil, false
	}
	if bt, ok := sig.Results().At(idx).Type().Underlying().(*types.Basic); !ok || bt.Info()&types.IsBoolean == 0 {
		return nil, false
	}
	// bind parameters to arguments for the duration of the summary
	tbl := aliasTables[info]
	if tbl == nil {
		return nil, false
	}
	var bound []types.Object
	i := 0
	for _, f := range fi.Decl.Type.Params.List {
		for _, nm := range f.Names {
			if i < len(call.Args) && !sig.Variadic() {
				o := info.Defs[nm]
				if _, had := tbl[o]; !had && o != nil {
					tbl[o] = call.Args[i]
					bound = append(bound, o)
				}
			}
			i++
		}
	}
	defer func() {
		for _, o := range bound {
			delete(tbl, o)
		}
	}()
	helperKeyDepth++
	defer func() { helperKeyDepth-- }()
	g := p.Graph(fi)
	var common map[string]bool
	n := 0
	for _, h := range g.Find(func(n ast.Node) bool { _, ok := n.(*ast.ReturnStmt); return ok }) {
		rs := h.Node.(*ast.ReturnStmt)
		if len(rs.Results) != sig.Results().Len() {
			return nil, false // bare return / call forwarding: not summarised
		}
		r := rs.Results[idx]
		keys := guardKeys(g, h.Loc)
		if tv, ok := info.Types[r]; ok && tv.Value != nil && tv.Value.Kind() == constant.Bool {
			if constant.BoolVal(tv.Value) != pol {
				continue
			}
		} else {
			keys = append(keys, exprKeys(info, r, pol)...)
		}
		n++
		set := map[string]bool{}
		for _, k := range keys {
			set[k] = true
		}
		if common == nil {
			common = set
		} else {
			for k := range common {
				if !set[k] {
					delete(common, k)
				}
			}
		}
	}
	if n == 0 {
		return nil, false
	}
	var out []string
	for k := range common {
		out = append(out, k)
	}
	sort.Strings(out)
	return out, true
}

var singleDefTables = map[*types.Info]map[types.Object]ast.Expr{}

// singleDefOf returns the defining expression of a local variable that is assigned exactly once.
func singleDefOf(info *types.Info, o types.Object) ast.Expr {
	if t := singleDefTables[info]; t != nil {
		return t[o]
	}
	return nil
}

// isAccessPath: identifier/selector chain rooted at a variable, with at least one field selection
// (a plain `a := b` copy of another local is not treated as an alias).
func isAccessPath(info *types.Info, e ast.Expr) bool {
	e = unparen(e)
	n := 0
	for {
		switch t := e.(type) {
		case *ast.SelectorExpr:
			if _, ok := info.Selections[t]; !ok {
				return false
			}
			n++
			e = t.X
		case *ast.StarExpr:
			e = t.X
		case *ast.ParenExpr:
			e = t.X
		case *ast.IndexExpr:
			if _, ok := constInt(info, t.Index); !ok {
				return false
			}
			e = t.X
		case *ast.Ident:
			_, isVar := info.ObjectOf(t).(*types.Var)
			return isVar && n > 0
		default:
			return false
		}
	}
}

func localAliasOf(info *types.Info, id *ast.Ident) ast.Expr {
	tbl := aliasTables[info]
	if tbl == nil {
		return nil
	}
	return tbl[info.ObjectOf(id)]
}

// lhsPath is canonPath for an assignment target: plain identifiers (locals being defined or
// assigned) are never resolved through aliases and yield "".
func lhsPath(info *types.Info, e ast.Expr) string {
	if _, ok := unparen(e).(*ast.Ident); ok {
		return ""
	}
	return canonPath(info, e)
}
