package main

// c16split — the long-word split written in two phases, and forward iterations whose cursor outlives the loop.
//
// The split of a word W that is longer than the line hands a prefix W[:k] to the token and the suffix W[k:] to the new
// rest. c16.go reads the spellings that do both inside one loop (per-grapheme deferral; break with the tail moved in the
// breaking arm). Here the same thing is read when it is written as
//
//	scan:  a front-to-back iteration over W that, in one iteration, either leaves the loop without any effect or keeps
//	       W[i] (token += W[i]; w += W[i].Width) — so at every exit the token has received exactly W[:i];
//	cut:   a local that holds that i after the loop: the loop's own index when it outlives the loop (it is len(W) when
//	       the loop runs to its end), or a local declared as len(W) before the loop and set to i right before the break;
//	tail:  later on the same path, with cut and W untouched in between, W[cut:] is appended to the new rest in order
//	       (append(rest, W[cut:]...), a range over W[cut:], an index loop from cut, or the scan cursor carried on).
//
// The scan contributes the event word[:k] to the token and the tail the event word[k:] to the rest of the path, so the
// accounting rule of c16.go decides order, multiplicity and loss exactly as for the one-loop spellings (a missing tail
// leaves word[:k] unaccounted for: reported).

import (
	"go/ast"
	"go/token"
	"go/types"
)

// c16Conjuncts splits a && b && c.
func c16Conjuncts(e ast.Expr) []ast.Expr {
	e = unparen(e)
	if b, ok := e.(*ast.BinaryExpr); ok && b.Op == token.LAND {
		return append(c16Conjuncts(b.X), c16Conjuncts(b.Y)...)
	}
	return []ast.Expr{e}
}

// c16WritesTo lists the nodes inside n that (may) change the local o: assignments, ++/--, declarations, range
// variables, and &o (after which anything may write it).
func c16WritesTo(info *types.Info, n ast.Node, o types.Object) []ast.Node {
	var out []ast.Node
	if n == nil || o == nil {
		return nil
	}
	isO := func(e ast.Expr) bool {
		id, ok := unparen(e).(*ast.Ident)
		return ok && info.ObjectOf(id) == o
	}
	ast.Inspect(n, func(m ast.Node) bool {
		switch t := m.(type) {
		case *ast.AssignStmt:
			for _, l := range t.Lhs {
				if isO(l) {
					out = append(out, t)
				}
			}
		case *ast.IncDecStmt:
			if isO(t.X) {
				out = append(out, t)
			}
		case *ast.ValueSpec:
			for _, nm := range t.Names {
				if info.Defs[nm] == o {
					out = append(out, t)
				}
			}
		case *ast.RangeStmt:
			for _, l := range []ast.Expr{t.Key, t.Value} {
				if l != nil && isO(l) {
					out = append(out, t)
				}
			}
		case *ast.UnaryExpr:
			if t.Op == token.AND && isO(t.X) {
				out = append(out, t)
			}
		}
		return true
	})
	return out
}

// c16DeclValue: n declares o (`o := e`, `var o T`, `var o = e`); returns the initial value (nil = the zero value).
func c16DeclValue(info *types.Info, n ast.Node, o types.Object) (val ast.Expr, isDecl bool) {
	switch t := n.(type) {
	case *ast.AssignStmt:
		if t.Tok != token.DEFINE || len(t.Lhs) != len(t.Rhs) {
			return nil, false
		}
		for i, l := range t.Lhs {
			if id, ok := l.(*ast.Ident); ok && info.Defs[id] == o {
				return t.Rhs[i], true
			}
		}
	case *ast.ValueSpec:
		for i, nm := range t.Names {
			if info.Defs[nm] == o {
				if len(t.Values) == 0 {
					return nil, true
				}
				if len(t.Values) == len(t.Names) {
					return t.Values[i], true
				}
			}
		}
	}
	return nil, false
}

// stmtListOwner: the block / case clause whose statement list holds n (n or an ancestor of n is an element of it).
func (s *c16Scanner) stmtListOwner(n ast.Node) ast.Node {
	for cur := s.par[n]; cur != nil; cur = s.par[cur] {
		switch cur.(type) {
		case *ast.BlockStmt, *ast.CaseClause, *ast.CommClause:
			return cur
		}
	}
	return nil
}

func (s *c16Scanner) isAncestor(anc, n ast.Node) bool {
	for cur := s.par[n]; cur != nil; cur = s.par[cur] {
		if cur == anc {
			return true
		}
	}
	return false
}

func (s *c16Scanner) inFuncLit(n ast.Node) bool {
	for cur := s.par[n]; cur != nil; cur = s.par[cur] {
		if _, ok := cur.(*ast.FuncLit); ok {
			return true
		}
	}
	return false
}

// declaredBefore: the local o has, when `loop` is entered, the value of its declaration: the declaration is the only
// write to o that is not inside the loop and lies before it, it sits in a statement list that encloses the loop, in the
// same innermost enclosing loop (so every way back to `loop` passes the declaration again), and o's address is never
// taken nor is o touched by a closure. Returns the declared value (nil = zero value).
func (s *c16Scanner) declaredBefore(o types.Object, loop ast.Stmt) (val ast.Expr, ok bool) {
	var decl ast.Node
	for _, w := range c16WritesTo(s.info, s.fi.Decl.Body, o) {
		if u, isAddr := w.(*ast.UnaryExpr); isAddr && u.Op == token.AND {
			return nil, false
		}
		if s.inFuncLit(w) {
			return nil, false
		}
		if w.Pos() >= loop.Pos() && w.End() <= loop.End() {
			continue
		}
		if w.Pos() > loop.End() {
			continue // after the loop: it reaches the loop again only through the declaration (checked below)
		}
		if decl != nil {
			return nil, false
		}
		decl = w
	}
	if decl == nil {
		return nil, false
	}
	v, isDecl := c16DeclValue(s.info, decl, o)
	if !isDecl {
		return nil, false
	}
	owner := s.stmtListOwner(decl)
	if owner == nil || !s.isAncestor(owner, loop) {
		return nil, false
	}
	if c15LoopOf(s.par, decl) != c15LoopOf(s.par, loop) {
		return nil, false
	}
	return v, true
}

// continuesLoop: does body contain a `continue` that targets the loop `loop` (whose body it is)?
func (s *c16Scanner) continuesLoop(loop ast.Stmt, body *ast.BlockStmt) bool {
	var label types.Object
	if ls, ok := s.par[loop].(*ast.LabeledStmt); ok {
		label = s.info.ObjectOf(ls.Label)
	}
	found := false
	var visit func(n ast.Node, nested bool)
	visit = func(n ast.Node, nested bool) {
		ast.Inspect(n, func(m ast.Node) bool {
			if m == nil || found {
				return false
			}
			switch t := m.(type) {
			case *ast.FuncLit:
				return false
			case *ast.ForStmt:
				if m != n {
					visit(t.Body, true)
					return false
				}
			case *ast.RangeStmt:
				if m != n {
					visit(t.Body, true)
					return false
				}
			case *ast.BranchStmt:
				if t.Tok == token.CONTINUE {
					if t.Label == nil && !nested {
						found = true
					}
					if t.Label != nil && label != nil && s.info.ObjectOf(t.Label) == label {
						found = true
					}
				}
			}
			return true
		})
	}
	visit(body, false)
	return found
}

// iterOf: c15IterOf, plus the front-to-back iterations whose index is declared before the loop and/or advanced at the
// end of the body:
//
//	n := 0; for n < len(X) { ...; n += 1 }      var n int; for ; n < len(X); n++ { ... }      for n := 0; n < len(X); { ...; n++ }
//
// For a trailing increment the returned body is the loop body without it (the element visited is X[n] throughout).
func (s *c16Scanner) iterOf(st ast.Stmt) *c15Iter {
	info := s.info
	if it := c15IterOf(info, s.defs, st); it != nil {
		return it
	}
	fs, ok := st.(*ast.ForStmt)
	if !ok || fs.Cond == nil || (fs.Init != nil && fs.Post != nil) {
		return nil
	}
	conj := c16Conjuncts(fs.Cond)
	var x ast.Expr
	var idx types.Object
	for _, cj := range conj {
		atoms, isConj := c15Conj(c15Formula(info, cj))
		if !isConj || len(atoms) != 1 {
			continue
		}
		var lens []*ast.CallExpr
		var ids []*ast.Ident
		ast.Inspect(cj, func(n ast.Node) bool {
			switch t := n.(type) {
			case *ast.CallExpr:
				if fid, ok := t.Fun.(*ast.Ident); ok && fid.Name == "len" && len(t.Args) == 1 {
					if _, isB := info.Uses[fid].(*types.Builtin); isB {
						lens = append(lens, t)
						return false
					}
				}
			case *ast.Ident:
				if v, ok := info.ObjectOf(t).(*types.Var); ok && !v.IsField() && v.Pkg() != nil && v.Parent() != v.Pkg().Scope() {
					ids = append(ids, t)
				}
			}
			return true
		})
		for _, id := range ids {
			for _, cl := range lens {
				want := c15LinOf(info, id).add(c15LinOf(info, cl), -1).plus(1) // i - len(X) + 1 <= 0
				if atoms[0].canon() == want.canon() {
					x, idx = cl.Args[0], info.ObjectOf(id)
				}
			}
		}
	}
	if idx == nil {
		return nil
	}
	// starts at 0
	if fs.Init != nil {
		as, ok := fs.Init.(*ast.AssignStmt)
		if !ok || len(as.Lhs) != 1 || len(as.Rhs) != 1 || !s.isObj(as.Lhs[0], idx) {
			return nil
		}
		if v, ok := constInt(info, as.Rhs[0]); !ok || v != 0 {
			return nil
		}
	} else {
		v, ok := s.declaredBefore(idx, fs)
		if !ok {
			return nil
		}
		if v != nil {
			if k, isC := constInt(info, v); !isC || k != 0 {
				return nil
			}
		}
	}
	// advances by one once per iteration, as the last thing
	body := fs.Body
	if fs.Post != nil {
		if inc, ok := c16Advance(info, fs.Post, idx); !ok || inc.canon() != c15Const(1).canon() {
			return nil
		}
	} else {
		list := fs.Body.List
		for len(list) > 0 {
			if _, isEmpty := list[len(list)-1].(*ast.EmptyStmt); !isEmpty {
				break
			}
			list = list[:len(list)-1]
		}
		if len(list) == 0 {
			return nil
		}
		if inc, ok := c16Advance(info, list[len(list)-1], idx); !ok || inc.canon() != c15Const(1).canon() {
			return nil
		}
		if s.continuesLoop(fs, fs.Body) {
			return nil
		}
		body = &ast.BlockStmt{Lbrace: fs.Body.Lbrace, List: list[:len(list)-1], Rbrace: fs.Body.Rbrace}
	}
	if len(c16WritesTo(info, body, idx)) != 0 {
		return nil
	}
	// the collection is the same throughout
	if xo := rootObj(info, c16StripConv(info, x)); xo != nil && len(c16WritesTo(info, fs.Body, xo)) != 0 {
		return nil
	}
	return &c15Iter{stmt: fs, body: body, x: x, xID: termOf(info, c16StripConv(info, x)).ID, idx: idx, full: len(conj) == 1, anchor: fs.Cond, info: info, defs: s.defs}
}

// scanCut: the split loop `it` leaves, in its breaking arm, nothing but `pre` before the break. Which local holds the
// number of graphemes kept once the loop is over? nil = none the rule can name.
func (s *c16Scanner) scanCut(loop ast.Stmt, it *c15Iter, pre []ast.Stmt) types.Object {
	info := s.info
	if it.idx == nil || !it.full {
		return nil
	}
	wid, ok := c16StripConv(info, it.x).(*ast.Ident)
	if !ok {
		return nil
	}
	wObj := info.ObjectOf(wid)
	switch len(pre) {
	case 0:
		// the loop's own index, alive after the loop: i at a break, len(W) when the condition i < len(W) fails
		if _, isFor := loop.(*ast.ForStmt); !isFor {
			return nil
		}
		d := s.declOf(it.idx)
		if d == nil || (d.Pos() >= loop.Pos() && d.End() <= loop.End()) {
			return nil
		}
		return it.idx
	case 1:
		// cut := len(W) ... { cut = i; break }
		as, ok := pre[0].(*ast.AssignStmt)
		if !ok || as.Tok != token.ASSIGN || len(as.Lhs) != 1 || len(as.Rhs) != 1 || !s.isObj(as.Rhs[0], it.idx) {
			return nil
		}
		id, ok := unparen(as.Lhs[0]).(*ast.Ident)
		if !ok {
			return nil
		}
		cut, isVar := info.ObjectOf(id).(*types.Var)
		if !isVar || cut.IsField() || types.Object(cut) == it.idx || cut.Pkg() == nil || cut.Parent() == cut.Pkg().Scope() {
			return nil
		}
		inLoop := 0
		for _, w := range c16WritesTo(info, loop, cut) {
			if w != ast.Node(as) {
				return nil
			}
			inLoop++
		}
		if inLoop != 1 {
			return nil
		}
		v, ok := s.declaredBefore(cut, loop)
		if !ok || v == nil {
			return nil
		}
		cl, ok := unparen(v).(*ast.CallExpr)
		if !ok || len(cl.Args) != 1 {
			return nil
		}
		fid, ok := cl.Fun.(*ast.Ident)
		if !ok || fid.Name != "len" {
			return nil
		}
		if _, isB := info.Uses[fid].(*types.Builtin); !isB || termOf(info, c16StripConv(info, cl.Args[0])).ID != it.xID {
			return nil
		}
		// W is the same slice when its length is taken and when it is scanned
		for _, w := range c16WritesTo(info, s.fi.Decl.Body, wObj) {
			if w.Pos() > v.Pos() && w.End() <= loop.End() {
				return nil
			}
		}
		return cut
	}
	return nil
}

// restAppendOfElem: st is `s.rest = append(s.rest, <elem>...)` with <elem> the element of `it` (or its Grapheme).
func (s *c16Scanner) restAppendOfElem(st ast.Stmt, it *c15Iter) bool {
	as, ok := st.(*ast.AssignStmt)
	if !ok {
		return false
	}
	x := s.appendOf(as, "rest")
	if x == nil {
		return false
	}
	e := c16StripConv(s.info, x)
	if sel, ok := e.(*ast.SelectorExpr); ok && sel.Sel.Name == "Grapheme" {
		e = sel.X
	}
	return it.isElem(e)
}

// isTailSlice: e is W[cut:]
func (s *c16Scanner) isTailSlice(e ast.Expr, cut types.Object, xID string) bool {
	sl, ok := unparen(e).(*ast.SliceExpr)
	return ok && sl.High == nil && !sl.Slice3 && sl.Low != nil && s.isObj(sl.Low, cut) && termOf(s.info, c16StripConv(s.info, sl.X)).ID == xID
}

// cutBelowLen: cond is exactly  cut < len(W)  (in any spelling).
func (s *c16Scanner) cutBelowLen(cond ast.Expr, cut types.Object, xID string) bool {
	info := s.info
	atoms, isConj := c15Conj(c15Formula(info, cond))
	if !isConj || len(atoms) != 1 {
		return false
	}
	found := false
	ast.Inspect(cond, func(n ast.Node) bool {
		cl, ok := n.(*ast.CallExpr)
		if !ok || len(cl.Args) != 1 {
			return true
		}
		fid, ok := cl.Fun.(*ast.Ident)
		if !ok || fid.Name != "len" {
			return true
		}
		if _, isB := info.Uses[fid].(*types.Builtin); !isB || termOf(info, c16StripConv(info, cl.Args[0])).ID != xID {
			return true
		}
		ast.Inspect(cond, func(m ast.Node) bool {
			if id, ok := m.(*ast.Ident); ok && info.ObjectOf(id) == cut {
				want := c15LinOf(info, id).add(c15LinOf(info, cl), -1).plus(1) // cut - len(W) + 1 <= 0
				if atoms[0].canon() == want.canon() {
					found = true
				}
			}
			return true
		})
		return true
	})
	return found
}

// tailMove: st appends W[cut:] to the new rest, front to back, and nothing else.
func (s *c16Scanner) tailMove(st ast.Stmt, cut types.Object, xID string) bool {
	info := s.info
	switch t := st.(type) {
	case *ast.AssignStmt:
		// s.rest = append(s.rest, W[cut:]...)
		if x := s.appendOf(t, "rest"); x != nil {
			if call, ok := unparen(t.Rhs[0]).(*ast.CallExpr); ok && call.Ellipsis.IsValid() {
				return s.isTailSlice(c16StripConv(info, x), cut, xID)
			}
		}
	case *ast.RangeStmt:
		// for _, c := range W[cut:] { s.rest = append(s.rest, c.Grapheme...) }
		it := c15IterOf(info, s.defs, t)
		if it == nil || !it.full || !s.isTailSlice(it.x, cut, xID) {
			return false
		}
		body := c15Flat(it.body.List)
		return len(body) == 1 && s.restAppendOfElem(body[0], it)
	case *ast.ForStmt:
		// for j := cut; j < len(W); j++ { s.rest = append(s.rest, W[j]...) }
		if s.tailByIndex(t, &c15Iter{idx: cut, xID: xID, info: info, defs: s.defs}) {
			return true
		}
		// the scan cursor carried on: for ; cut < len(W); cut++ { s.rest = append(s.rest, W[cut]...) }
		if t.Init != nil || t.Cond == nil {
			return false
		}
		if !s.cutBelowLen(t.Cond, cut, xID) {
			return false
		}
		list := c15Flat(t.Body.List)
		if t.Post != nil {
			if inc, ok := c16Advance(info, t.Post, cut); !ok || inc.canon() != c15Const(1).canon() {
				return false
			}
		} else {
			if len(list) == 0 {
				return false
			}
			if inc, ok := c16Advance(info, list[len(list)-1], cut); !ok || inc.canon() != c15Const(1).canon() {
				return false
			}
			list = list[:len(list)-1]
		}
		if len(list) != 1 {
			return false
		}
		return s.restAppendOfElem(list[0], &c15Iter{idx: cut, xID: xID, info: info, defs: s.defs})
	case *ast.IfStmt:
		// if cut < len(W) { <tail move> }: when the guard fails the tail is empty
		if t.Init != nil || t.Else != nil {
			return false
		}
		body := c15Flat(t.Body.List)
		if len(body) != 1 || !s.tailMove(body[0], cut, xID) {
			return false
		}
		return s.cutBelowLen(t.Cond, cut, xID)
	case *ast.BlockStmt:
		body := c15Flat(t.List)
		return len(body) == 1 && s.tailMove(body[0], cut, xID)
	case *ast.LabeledStmt:
		return s.tailMove(t.Stmt, cut, xID)
	}
	return false
}
