package main

// C05 — the embedded terminal never crashes or hangs on child output.
//
// This file holds (1) the B-screen engine shared with C06: an abstract
// interpreter over go/cfg whose values are sets of symbolic bounds
// (value <= sym+k, value >= sym+k; sym is a constant, ROWS, COLS, another
// variable/field path, or a ghost entry value), with linear guard facts for
// compound expressions, semantic join, widening and callee inlining; and
// (2) the C05 rules.
//
// Conventions of the engine
//   ROWS = len(activeScreen) now, COLS = len of every row now (>= 1 each).
//   "@"  = the *Model receiver; "@.cursor.row" is a field path key.
//   INV  = 0<=cursor.row<=ROWS-1, 0<=cursor.col<=COLS, 0<=margin.top<=margin.bottom<=ROWS-1,
//          margin.left==0, margin.right==COLS-1, saved cursors >= 0, tab stops >= 0,
//          len(screens)==ROWS, len(row)==COLS.
// Every function is analysed assuming INV at entry (plus: int parameters are
// >= 0, which call sites and C05.d discharge) and must re-establish it.

import (
	"fmt"
	"go/ast"
	"go/token"
	"go/types"
	"os"
	"runtime/debug"
	"sort"
	"strings"
	"time"

	"golang.org/x/tools/go/cfg"
	"golang.org/x/tools/go/packages"
)

// ---------------------------------------------------------------- linear forms

type c05Lin struct {
	t map[string]int64
	k int64
}

func c05Const(k int64) c05Lin { return c05Lin{t: map[string]int64{}, k: k} }
func c05Atom(a string) c05Lin { return c05Lin{t: map[string]int64{a: 1}} }
func (l c05Lin) clone() c05Lin {
	n := c05Lin{t: make(map[string]int64, len(l.t)), k: l.k}
	for a, c := range l.t {
		n.t[a] = c
	}
	return n
}
func (l c05Lin) addScaled(o c05Lin, s int64) c05Lin {
	n := l.clone()
	for a, c := range o.t {
		n.t[a] += c * s
		if n.t[a] == 0 {
			delete(n.t, a)
		}
	}
	n.k += o.k * s
	return n
}
func (l c05Lin) neg() c05Lin { return c05Const(0).addScaled(l, -1) }
func (l c05Lin) atoms() []string {
	out := make([]string, 0, len(l.t))
	for a := range l.t {
		out = append(out, a)
	}
	sort.Strings(out)
	return out
}
func (l c05Lin) key() string {
	var sb strings.Builder
	for _, a := range l.atoms() {
		fmt.Fprintf(&sb, "%+d*%s ", l.t[a], a)
	}
	fmt.Fprintf(&sb, "%+d", l.k)
	return sb.String()
}
func (l c05Lin) mentions(a string) bool { _, ok := l.t[a]; return ok }

// ---------------------------------------------------------------- values

// c05Val: lo[sym]=k means value >= sym+k ; hi[sym]=k means value <= sym+k ; sym "" is the constant 0.
type c05Val struct {
	lo, hi map[string]int64
	bot    bool // no value yet (row length of a screen none of whose rows is allocated)
}

func c05Top() *c05Val { return &c05Val{lo: map[string]int64{}, hi: map[string]int64{}} }
func c05Exact(sym string, k int64) *c05Val {
	v := c05Top()
	v.lo[sym] = k
	v.hi[sym] = k
	return v
}
func (v *c05Val) clone() *c05Val {
	n := c05Top()
	n.bot = v.bot
	for s, k := range v.lo {
		n.lo[s] = k
	}
	for s, k := range v.hi {
		n.hi[s] = k
	}
	return n
}
func (v *c05Val) addLo(s string, k int64) bool {
	if o, ok := v.lo[s]; ok && o >= k {
		return false
	}
	v.lo[s] = k
	return true
}
func (v *c05Val) addHi(s string, k int64) bool {
	if o, ok := v.hi[s]; ok && o <= k {
		return false
	}
	v.hi[s] = k
	return true
}
func (v *c05Val) shift(c int64) *c05Val {
	n := c05Top()
	for s, k := range v.lo {
		n.lo[s] = k + c
	}
	for s, k := range v.hi {
		n.hi[s] = k + c
	}
	return n
}

// saturate adds the bounds implied by ROWS>=1, COLS>=1.
func (v *c05Val) saturate() *c05Val {
	if c, ok := v.hi[""]; ok && c < 1<<40 {
		v.addHi("ROWS", c-1)
		v.addHi("COLS", c-1)
	}
	for _, g := range []string{"ROWS", "COLS"} {
		if k, ok := v.lo[g]; ok {
			v.addLo("", 1+k)
		}
	}
	return v
}
func (v *c05Val) constLo() (int64, bool) { k, ok := v.lo[""]; return k, ok }
func (v *c05Val) constHi() (int64, bool) { k, ok := v.hi[""]; return k, ok }

func c05IsGeo(s string) bool { return s == "ROWS" || s == "COLS" }

// ---------------------------------------------------------------- states

type c05State struct {
	env   map[string]*c05Val
	facts []c05Lin // each: lin <= 0
}

func c05NewState() *c05State { return &c05State{env: map[string]*c05Val{}} }
func (s *c05State) clone() *c05State {
	if s == nil {
		return nil
	}
	n := &c05State{env: make(map[string]*c05Val, len(s.env))}
	for k, v := range s.env {
		n.env[k] = v.clone()
	}
	n.facts = append(n.facts, s.facts...)
	return n
}
func (s *c05State) sig() string {
	if s == nil {
		return "<dead>"
	}
	keys := make([]string, 0, len(s.env))
	for k := range s.env {
		keys = append(keys, k)
	}
	sort.Strings(keys)
	var sb strings.Builder
	for _, k := range keys {
		v := s.env[k]
		if len(v.lo) == 0 && len(v.hi) == 0 && !v.bot {
			continue
		}
		if v.bot {
			sb.WriteString(k + "{bot}")
			continue
		}
		sb.WriteString(k + "{")
		for _, m := range []map[string]int64{v.lo, v.hi} {
			ss := make([]string, 0, len(m))
			for x := range m {
				ss = append(ss, x)
			}
			sort.Strings(ss)
			for _, x := range ss {
				fmt.Fprintf(&sb, "%s%+d,", x, m[x])
			}
			sb.WriteString("|")
		}
		sb.WriteString("}")
	}
	fs := make([]string, 0, len(s.facts))
	for _, f := range s.facts {
		fs = append(fs, f.key())
	}
	sort.Strings(fs)
	sb.WriteString(strings.Join(fs, ";"))
	return sb.String()
}

// ---------------------------------------------------------------- engine

type c05Frame struct {
	fi      *FuncInfo
	pkg     *packages.Package
	info    *types.Info
	recv    types.Object // receiver object, mapped to "@" when recvIsAt
	recvAt  bool
	g       *FG
	rets    []*c05Val
	hasRet  bool
	top     bool
	parents map[ast.Node]ast.Node
}

type c05Hook func(e *c05Eng, fr *c05Frame, n ast.Node, st *c05State)

type c05Eng struct {
	c        *Ctx
	pk       *packages.Package
	model    *types.Named
	cellT    types.Type // term.cell
	colT     types.Type // term.column
	disp     map[string]string
	deps     map[string][]string
	stack    []*FuncInfo
	hooks    []c05Hook
	tmpN     int
	budget   int
	noInline map[string]string // function name -> reason (summarised by havoc-to-INV)
	stores   map[*FuncInfo]map[string]bool
	ghost    map[string]bool
	warn     []string
	// summariseAll: calls to functions that store receiver fields are replaced by their INV summary
	// (used for dispatchers, which have no stores of their own and inherit INV from their callees)
	summariseAll bool
	// paramBytes: elements of ansi.Parser.params are digits, ';' or ':' (C02)
	paramBytes bool
	vcache     map[string]*c05Val
	// shadow: key -> shadow key. The shadow follows the key through constant assignments only, so it
	// keeps denoting "the parameter after default normalisation" when the variable is later reused
	// for a derived quantity (a count clamped to the lines that remain, ...).
	shadow map[string]string
	// tmpDeps: for the temporary holding the result of an inlined pure call, the variables its arguments mention ("?" = unknown)
	tmpDeps map[string][]string
	// wanted: the functions the invariant rule analyses (their proofs assume count parameters >= 0)
	wanted map[*FuncInfo]bool
	// ctx: helpers that have no proof of their own (their parameters carry facts only the callers know);
	// they are always inlined, and the hooks run inside them while the caller's final pass is emitting
	ctx      map[*FuncInfo]bool
	ctxHooks []c05Hook
	emitting bool
	// callVal: value of a call expression on the current path, set while the statement containing it is
	// transferred after the callee's body was executed path-sensitively (c06X.execViaCall)
	callVal map[*ast.CallExpr]c05Lin
	// noWeaker: set while a widening join runs (only bounds that hold unchanged survive a widening)
	noWeaker bool
	// elemAll: for a [][]int parameter list P of the function under analysis (key of P -> v): every P[i][0] has
	// the value v ("the request consists of the parameter v only, however often"). Used by contracts on
	// dispatchers that loop over their parameter list (C06.p); elemOf: range value variable -> key of the
	// ranged slice.
	elemAll map[string]int64
	elemOf  map[string]string
}

// elemAllVal: the atom a is P[i][0] (or param[0] for the value variable of a range over P) of a list in elemAll.
func (e *c05Eng) elemAllVal(a string) (int64, bool) {
	if len(e.elemAll) == 0 {
		return 0, false
	}
	suffix := "[" + c05Const(0).key() + "]"
	if !strings.HasPrefix(a, "a:") || !strings.HasSuffix(a, suffix) {
		return 0, false
	}
	x := strings.TrimSuffix(strings.TrimPrefix(a, "a:"), suffix)
	if b, ok := e.elemOf[x]; ok {
		v, ok := e.elemAll[b]
		return v, ok
	}
	if strings.HasPrefix(x, "a:") && strings.HasSuffix(x, "]") {
		for b, v := range e.elemAll {
			if strings.HasPrefix(x, "a:"+b+"[") && !strings.Contains(x[len("a:"+b+"["):len(x)-1], "]") {
				return v, true
			}
		}
	}
	return 0, false
}

func newC05Eng(c *Ctx) *c05Eng {
	e := &c05Eng{c: c, pk: c.P.Pkg("widgets/term"), disp: map[string]string{"": "0"}, deps: map[string][]string{},
		noInline: map[string]string{}, stores: map[*FuncInfo]map[string]bool{}, ghost: map[string]bool{}}
	if e.pk == nil {
		return e
	}
	if tn, ok := e.pk.Types.Scope().Lookup("Model").(*types.TypeName); ok {
		e.model, _ = tn.Type().(*types.Named)
	}
	if tn, ok := e.pk.Types.Scope().Lookup("cell").(*types.TypeName); ok {
		e.cellT = tn.Type()
	}
	if tn, ok := e.pk.Types.Scope().Lookup("column").(*types.TypeName); ok {
		e.colT = tn.Type()
	}
	return e
}

func (e *c05Eng) show(key string) string {
	if d, ok := e.disp[key]; ok {
		return d
	}
	return key
}

func (e *c05Eng) showLin(l c05Lin) string {
	var parts []string
	for _, a := range l.atoms() {
		c := l.t[a]
		switch c {
		case 1:
			parts = append(parts, "+"+e.show(a))
		case -1:
			parts = append(parts, "-"+e.show(a))
		default:
			parts = append(parts, fmt.Sprintf("%+d*%s", c, e.show(a)))
		}
	}
	if l.k != 0 || len(parts) == 0 {
		parts = append(parts, fmt.Sprintf("%+d", l.k))
	}
	return strings.TrimPrefix(strings.Join(parts, ""), "+")
}

func (e *c05Eng) showVal(v *c05Val) string {
	f := func(m map[string]int64) string {
		var ss []string
		for s, k := range m {
			if s == "" {
				ss = append(ss, fmt.Sprint(k))
			} else if k == 0 {
				ss = append(ss, e.show(s))
			} else {
				ss = append(ss, fmt.Sprintf("%s%+d", e.show(s), k))
			}
		}
		sort.Strings(ss)
		return strings.Join(ss, ",")
	}
	lo, hi := f(v.lo), f(v.hi)
	if lo == "" {
		lo = "-inf"
	}
	if hi == "" {
		hi = "+inf"
	}
	return ">={" + lo + "} <={" + hi + "}"
}

// ---------------------------------------------------------------- keys

// pathKey canonicalises a variable or field path; "" if e is not a path. A path through a local pointer
// or an accessor call that has exactly one possible target is that target (c05ptr.go).
func (e *c05Eng) pathKey(fr *c05Frame, x ast.Expr) string {
	if x != nil && e.c != nil && e.ptrRooted(fr, x) {
		if ks := e.aliasKeys(fr, x); len(ks) == 1 {
			return ks[0]
		}
	}
	return e.pathKeyRaw(fr, x)
}

func (e *c05Eng) pathKeyRaw(fr *c05Frame, x ast.Expr) string {
	x = unparen(x)
	switch t := x.(type) {
	case *ast.Ident:
		obj := fr.info.ObjectOf(t)
		v, ok := obj.(*types.Var)
		if !ok {
			return ""
		}
		if obj == fr.recv && fr.recvAt {
			e.disp["@"] = "vt"
			return "@"
		}
		k := fmt.Sprintf("v%p", v)
		e.disp[k] = v.Name()
		return k
	case *ast.SelectorExpr:
		if s, ok := fr.info.Selections[t]; ok && s.Kind() == types.FieldVal {
			b := e.pathKeyRaw(fr, t.X)
			if b == "" {
				return ""
			}
			k := b + "." + t.Sel.Name
			e.disp[k] = strings.TrimPrefix(e.show(b)+"."+t.Sel.Name, "vt.")
			if b != "@" {
				e.addDep(k, b)
			}
			return k
		}
	case *ast.StarExpr:
		return e.pathKeyRaw(fr, t.X)
	}
	return ""
}

func (e *c05Eng) addDep(key string, on ...string) {
	have := e.deps[key]
outer:
	for _, o := range on {
		for _, h := range have {
			if h == o {
				continue outer
			}
		}
		have = append(have, o)
		// transitive
		for _, d := range e.deps[o] {
			dup := false
			for _, h := range have {
				if h == d {
					dup = true
				}
			}
			if !dup {
				have = append(have, d)
			}
		}
	}
	e.deps[key] = have
}

func (e *c05Eng) derived(prefix, key string) string {
	k := prefix + key
	if _, ok := e.disp[k]; !ok {
		e.disp[k] = strings.TrimSuffix(prefix, ":") + "(" + e.show(key) + ")"
		e.addDep(k, key)
	}
	return k
}

func (e *c05Eng) tmp(what string) string {
	e.tmpN++
	k := fmt.Sprintf("t%d", e.tmpN)
	e.disp[k] = what
	return k
}

func isIntType(t types.Type) bool {
	if t == nil {
		return false
	}
	b, ok := t.Underlying().(*types.Basic)
	return ok && b.Info()&types.IsInteger != 0
}

func isUnsignedType(t types.Type) bool {
	b, ok := t.Underlying().(*types.Basic)
	return ok && b.Info()&types.IsUnsigned != 0
}

// ---------------------------------------------------------------- evaluation

// valOf returns the (saturated) bounds of an atom in st, including the atom itself as a symbol.
func (e *c05Eng) valOf(st *c05State, a string) *c05Val {
	if a == "ROWS" || a == "COLS" {
		v := c05Exact(a, 0)
		if x, ok := st.env[a]; ok {
			for s, k := range x.lo {
				v.addLo(s, k)
			}
			for s, k := range x.hi {
				v.addHi(s, k)
			}
		}
		v.addLo("", 1)
		return v
	}
	var v *c05Val
	if x, ok := st.env[a]; ok && !x.bot {
		v = x.clone()
	} else if k, ok := e.elemAllVal(a); ok {
		v = c05Exact("", k)
	} else {
		v = c05Top()
	}
	if strings.HasPrefix(a, "len:") || strings.HasPrefix(a, "rowlen:") {
		v.addLo("", 0)
	}
	v.saturate()
	return v
}

// canon replaces atoms whose value is exactly const/ROWS/COLS (+k) by that value.
func (e *c05Eng) canon(st *c05State, l c05Lin) c05Lin {
	out := c05Const(l.k)
	for a, c := range l.t {
		rep := false
		if !c05IsGeo(a) {
			if v, ok := st.env[a]; ok && !v.bot {
				for _, s := range []string{"", "ROWS", "COLS"} {
					lo, ok1 := v.lo[s]
					hi, ok2 := v.hi[s]
					if ok1 && ok2 && lo == hi {
						if s == "" {
							out.k += c * lo
						} else {
							out = out.addScaled(c05Atom(s), c)
							out.k += c * lo
						}
						rep = true
						break
					}
				}
			}
		}
		if !rep {
			out = out.addScaled(c05Atom(a), c)
		}
	}
	return out
}

// canonGeo replaces only atoms that are exactly ROWS+k / COLS+k.
func (e *c05Eng) canonGeo(st *c05State, l c05Lin) c05Lin {
	out := c05Const(l.k)
	for a, c := range l.t {
		rep := false
		if v, ok := st.env[a]; ok && !v.bot && !c05IsGeo(a) {
			for _, s := range []string{"ROWS", "COLS"} {
				lo, ok1 := v.lo[s]
				hi, ok2 := v.hi[s]
				if ok1 && ok2 && lo == hi {
					out = out.addScaled(c05Atom(s), c)
					out.k += c * lo
					rep = true
					break
				}
			}
		}
		if !rep {
			out = out.addScaled(c05Atom(a), c)
		}
	}
	return out
}

// evalLin computes bounds for a linear form.
func (e *c05Eng) evalLin(st *c05State, l c05Lin) *c05Val {
	l = e.canon(st, l)
	if len(l.t) == 0 {
		return c05Exact("", l.k).saturate()
	}
	if len(l.t) == 1 {
		for a, c := range l.t {
			if c == 1 {
				v := e.valOf(st, a).shift(l.k)
				v.addLo(a, l.k)
				v.addHi(a, l.k)
				return v.saturate()
			}
		}
	}
	res := c05Top()
	// constant bounds of sub-forms
	constBound := func(m c05Lin, upper bool) (int64, bool) {
		sum := m.k
		for a, c := range m.t {
			v := e.valOf(st, a)
			var b int64
			var ok bool
			if (c > 0) == upper {
				b, ok = v.constHi()
			} else {
				b, ok = v.constLo()
			}
			if !ok {
				return 0, false
			}
			sum += c * b
		}
		return sum, true
	}
	if u, ok := constBound(l, true); ok {
		res.addHi("", u)
	}
	if d, ok := constBound(l, false); ok {
		res.addLo("", d)
	}
	if len(l.t) == 2 {
		if _, ok := res.lo[""]; !ok && e.proveShallow(st, l.neg()) {
			res.addLo("", 0)
		}
		if _, ok := res.hi[""]; !ok && e.proveShallow(st, l) {
			res.addHi("", 0)
		}
	}
	for a, c := range l.t {
		if c != 1 {
			continue
		}
		rest := l.addScaled(c05Atom(a), -1)
		va := e.valOf(st, a)
		va.addLo(a, 0)
		va.addHi(a, 0)
		if u, ok := constBound(rest, true); ok {
			for s, k := range va.hi {
				res.addHi(s, k+u)
			}
		}
		if d, ok := constBound(rest, false); ok {
			for s, k := range va.lo {
				res.addLo(s, k+d)
			}
		}
	}
	return res.saturate()
}

// typeDefault: bounds known from the type/provenance of an expression alone.
func (e *c05Eng) typeDefault(fr *c05Frame, x ast.Expr) *c05Val {
	v := c05Top()
	t := fr.info.TypeOf(x)
	if t != nil && isUnsignedType(t) {
		v.addLo("", 0)
	}
	switch s := unparen(x).(type) {
	case *ast.IndexExpr:
		if e.paramBytes {
			if sel, ok := unparen(s.X).(*ast.SelectorExpr); ok && sel.Sel.Name == "params" && typeName(fr.info.TypeOf(sel.X)) == modPath+"/ansi.Parser" {
				v.addLo("", 0x30)
				v.addHi("", 0x3B)
			}
		}
		bt := fr.info.TypeOf(s.X)
		if bt != nil {
			if sl, ok := bt.Underlying().(*types.Slice); ok {
				// elements of []column (tab stops) and of parser parameter lists ([]int reached through [][]int)
				if e.colT != nil && types.Identical(sl.Elem(), e.colT) {
					v.addLo("", 0)
				}
				if inner, ok := unparen(s.X).(*ast.IndexExpr); ok && isIntType(sl.Elem()) {
					if ot := fr.info.TypeOf(inner.X); ot != nil {
						if osl, ok := ot.Underlying().(*types.Slice); ok {
							if _, ok := osl.Elem().Underlying().(*types.Slice); ok {
								v.addLo("", 0)
							}
						}
					}
				}
			}
		}
	case *ast.SelectorExpr:
		if sel, ok := fr.info.Selections[s]; ok && sel.Kind() == types.FieldVal && s.Sel.Name == "Width" {
			// display widths (ansi.Print.Width, vaxis.Character.Width) are computed by uniseg: >= 0
			if fv, ok := sel.Obj().(*types.Var); ok && fv.Pkg() != nil && strings.HasPrefix(fv.Pkg().Path(), modPath) && fv.Pkg() != e.pk.Types {
				v.addLo("", 0)
			}
		}
	}
	return v
}

// linOf translates an integer expression to a linear form; side effects of
// inlined pure calls are applied to st.
func (e *c05Eng) linOf(fr *c05Frame, st *c05State, x ast.Expr) c05Lin {
	x = unparen(x)
	if v, ok := constInt(fr.info, x); ok {
		return c05Const(v)
	}
	switch t := x.(type) {
	case *ast.BinaryExpr:
		switch t.Op {
		case token.ADD:
			return e.linOf(fr, st, t.X).addScaled(e.linOf(fr, st, t.Y), 1)
		case token.SUB:
			return e.linOf(fr, st, t.X).addScaled(e.linOf(fr, st, t.Y), -1)
		case token.MUL:
			if c, ok := constInt(fr.info, t.Y); ok {
				return c05Const(0).addScaled(e.linOf(fr, st, t.X), c)
			}
			if c, ok := constInt(fr.info, t.X); ok {
				return c05Const(0).addScaled(e.linOf(fr, st, t.Y), c)
			}
		}
	case *ast.UnaryExpr:
		if t.Op == token.SUB {
			return e.linOf(fr, st, t.X).neg()
		}
		if t.Op == token.ADD {
			return e.linOf(fr, st, t.X)
		}
	case *ast.CallExpr:
		// a call whose callee was executed path by path by the caller (C06 executor): its value on this path
		if l, ok := e.callVal[t]; ok {
			return l.clone()
		}
		// conversion between integer types: transparent
		if tv, ok := fr.info.Types[t.Fun]; ok && tv.IsType() && len(t.Args) == 1 {
			if isIntType(tv.Type) && isIntType(fr.info.TypeOf(t.Args[0])) {
				return e.linOf(fr, st, t.Args[0])
			}
		}
		if id, ok := t.Fun.(*ast.Ident); ok {
			if b, ok := fr.info.Uses[id].(*types.Builtin); ok {
				switch b.Name() {
				case "len":
					return e.canon(st, e.lenLin(fr, st, t.Args[0]))
				case "min", "max":
					k := e.tmp(types.ExprString(t))
					res := c05Top()
					var deps []string
					for _, a := range t.Args {
						for at := range e.linOf(fr, st, a).t {
							if c05IsTmp(at) {
								deps = append(deps, "?")
							} else {
								deps = append(deps, at)
							}
						}
					}
					if e.tmpDeps == nil {
						e.tmpDeps = map[string][]string{}
					}
					e.tmpDeps[k] = deps
					for i, a := range t.Args {
						av := e.evalLin(st, e.linOf(fr, st, a))
						if i == 0 {
							res = av
							continue
						}
						res = c05MinMax(res, av, b.Name() == "min")
					}
					st.env[k] = res
					return c05Atom(k)
				}
			}
		}
		if fn := calleeOf(fr.info, t); fn != nil {
			if fi := e.c.P.FuncOfObj(fn); fi != nil && fi.Pkg == e.pk && fi.Decl.Body != nil {
				var deps []string
				if len(e.storesOf(fi)) > 0 {
					deps = append(deps, "?")
				}
				for _, a := range t.Args {
					if !isIntegerExpr(fr.info, a) {
						deps = append(deps, "?")
						continue
					}
					for at := range e.linOf(fr, st, a).t {
						if c05IsTmp(at) {
							if d2, ok := e.tmpDeps[at]; ok {
								deps = append(deps, d2...)
							} else {
								deps = append(deps, "?")
							}
						} else {
							deps = append(deps, at)
						}
					}
				}
				if rv := e.inlineCall(fr, st, t, fi, true); rv != nil {
					k := e.tmp(types.ExprString(t))
					if e.tmpDeps == nil {
						e.tmpDeps = map[string][]string{}
					}
					e.tmpDeps[k] = deps
					st.env[k] = rv
					return e.canon(st, c05Atom(k))
				}
			}
		}
	case *ast.Ident, *ast.SelectorExpr, *ast.StarExpr:
		if k := e.pathKey(fr, x); k != "" {
			if _, ok := st.env[k]; !ok {
				if d := e.typeDefault(fr, x); len(d.lo)+len(d.hi) > 0 {
					st.env[k] = d
				}
			}
			return e.canonGeo(st, c05Atom(k))
		}
	case *ast.IndexExpr:
		if k := e.indexKey(fr, st, t); k != "" {
			if _, ok := st.env[k]; !ok {
				if kv, ok := e.elemAllVal(k); ok {
					st.env[k] = c05Exact("", kv)
				} else if d := e.typeDefault(fr, x); len(d.lo)+len(d.hi) > 0 {
					st.env[k] = d
				}
			}
			return e.canon(st, c05Atom(k))
		}
	}
	k := e.tmp(types.ExprString(x))
	if d := e.typeDefault(fr, x); len(d.lo)+len(d.hi) > 0 {
		st.env[k] = d
	}
	return c05Atom(k)
}

func c05MinMax(a, b *c05Val, isMin bool) *c05Val {
	r := c05Top()
	if isMin {
		// min <= both uppers; min >= common lowers
		for s, k := range a.hi {
			r.addHi(s, k)
		}
		for s, k := range b.hi {
			r.addHi(s, k)
		}
		for s, k := range a.lo {
			if k2, ok := b.lo[s]; ok {
				if k2 < k {
					k = k2
				}
				r.addLo(s, k)
			}
		}
	} else {
		for s, k := range a.lo {
			r.addLo(s, k)
		}
		for s, k := range b.lo {
			r.addLo(s, k)
		}
		for s, k := range a.hi {
			if k2, ok := b.hi[s]; ok {
				if k2 > k {
					k = k2
				}
				r.addHi(s, k)
			}
		}
	}
	return r
}

// indexKey: canonical atom for X[i] (value of an element), with dependencies.
func (e *c05Eng) indexKey(fr *c05Frame, st *c05State, ix *ast.IndexExpr) string {
	var base string
	switch b := unparen(ix.X).(type) {
	case *ast.IndexExpr:
		base = e.indexKey(fr, st, b)
	default:
		base = e.pathKey(fr, ix.X)
	}
	if base == "" {
		return ""
	}
	il := e.linOf(fr, st, ix.Index)
	k := "a:" + base + "[" + il.key() + "]"
	if _, ok := e.disp[k]; !ok {
		e.disp[k] = e.show(base) + "[" + e.showLin(il) + "]"
		e.addDep(k, base)
		for a := range il.t {
			e.addDep(k, a)
		}
	}
	return k
}

// lenLin: linear form of len(x) for a slice-valued expression.
func (e *c05Eng) lenLin(fr *c05Frame, st *c05State, x ast.Expr) c05Lin {
	x = unparen(x)
	if ix, ok := x.(*ast.IndexExpr); ok {
		// a row of a screen, or of a window X[a:b] of a screen (the rows are the screen's own)
		if bk := e.pathKey(fr, c05StripSlices(ix.X)); bk != "" {
			if e.isGrid(fr.info.TypeOf(ix.X)) {
				return c05Atom(e.derived("rowlen:", bk))
			}
		}
	}
	if sx, ok := x.(*ast.SliceExpr); ok {
		// len(X[lo:hi]) == hi - lo, with the defaults 0 and len(X) (the expression itself is judged by C05.p)
		if t := fr.info.TypeOf(sx.X); t != nil {
			_, isSl := t.Underlying().(*types.Slice)
			if b, isB := t.Underlying().(*types.Basic); isSl || (isB && b.Info()&types.IsString != 0) {
				var l c05Lin
				if sx.High != nil {
					l = e.linOf(fr, st, sx.High)
				} else {
					l = e.lenLin(fr, st, sx.X)
				}
				if sx.Low != nil {
					l = l.addScaled(e.linOf(fr, st, sx.Low), -1)
				}
				return l
			}
		}
	}
	if k := e.pathKey(fr, x); k != "" {
		return c05Atom(e.derived("len:", k))
	}
	k := e.tmp("len(" + types.ExprString(x) + ")")
	st.env[k] = c05Top()
	st.env[k].addLo("", 0)
	return c05Atom(k)
}

// c05StripSlices: X for X[a:b], X[a:][:c], (X) ...
func c05StripSlices(x ast.Expr) ast.Expr {
	for {
		x = unparen(x)
		s, ok := x.(*ast.SliceExpr)
		if !ok {
			return x
		}
		x = s.X
	}
}

// isGrid: [][]cell ; isRow: []cell
func (e *c05Eng) isGrid(t types.Type) bool {
	if t == nil || e.cellT == nil {
		return false
	}
	s, ok := t.Underlying().(*types.Slice)
	if !ok {
		return false
	}
	return e.isRow(s.Elem())
}
func (e *c05Eng) isRow(t types.Type) bool {
	if t == nil || e.cellT == nil {
		return false
	}
	s, ok := t.Underlying().(*types.Slice)
	return ok && types.Identical(s.Elem(), e.cellT)
}

// ---------------------------------------------------------------- prover

// prove: does st entail l <= 0 ?
func (e *c05Eng) prove(st *c05State, l c05Lin) bool {
	if st == nil {
		return true
	}
	e.budget = 3000
	e.vcache = map[string]*c05Val{}
	l = e.canon(st, l)
	for d := 1; d <= 5; d++ {
		if e.proveD(st, l, d, 0, map[string]bool{}) {
			return true
		}
		if e.budget <= 0 {
			return false
		}
	}
	return false
}

func (e *c05Eng) proveD(st *c05State, l c05Lin, depth int, usedFacts int, seen map[string]bool) bool {
	if len(l.t) == 0 {
		return l.k <= 0
	}
	if depth == 0 || e.budget <= 0 {
		return false
	}
	e.budget--
	sk := fmt.Sprintf("%d|%s", depth, l.key())
	if seen[sk] {
		return false
	}
	seen[sk] = true
	atoms := l.atoms()
	// every atom must be eliminable in the remaining depth: quick reject when more atoms than depth allows
	for _, a := range atoms {
		c := l.t[a]
		var bs map[string]int64
		v, okc := e.vcache[a]
		if !okc {
			v = e.valOf(st, a)
			e.vcache[a] = v
		}
		if c > 0 {
			bs = v.hi
		} else {
			bs = v.lo
		}
		// order: symbols already in l (cancellation) first, then constants, then geometry, then others
		type cand struct {
			s string
			k int64
			w int
		}
		var cs []cand
		for s, k := range bs {
			if s == a {
				continue
			}
			w := 3
			switch {
			case s != "" && l.mentions(s):
				w = 0
			case s == "":
				w = 1
			case c05IsGeo(s):
				w = 2
			}
			cs = append(cs, cand{s, k, w})
		}
		sort.Slice(cs, func(i, j int) bool {
			if cs[i].w != cs[j].w {
				return cs[i].w < cs[j].w
			}
			return cs[i].s < cs[j].s
		})
		for _, cd := range cs {
			n := l.addScaled(c05Atom(a), -c)
			if cd.s != "" {
				n = n.addScaled(c05Atom(cd.s), c)
			}
			n.k += c * cd.k
			if e.proveD(st, n, depth-1, usedFacts, seen) {
				return true
			}
		}
	}
	if usedFacts < 2 {
		for _, f := range st.facts {
			// only facts sharing an atom with the right sign
			share := false
			for a, c := range f.t {
				if lc, ok := l.t[a]; ok && (lc > 0) == (c > 0) {
					share = true
					break
				}
			}
			if !share {
				continue
			}
			n := l.addScaled(f, -1)
			if e.proveD(st, n, depth-1, usedFacts+1, seen) {
				return true
			}
		}
	}
	return false
}

// proveVal: value v (of something not in the env) satisfies v - rhs <= 0 / rhs - v <= 0.
func (e *c05Eng) proveUpper(st *c05State, l c05Lin, bound c05Lin) bool {
	return e.prove(st, l.addScaled(bound, -1))
}
func (e *c05Eng) proveLower(st *c05State, l c05Lin, bound c05Lin) bool {
	return e.prove(st, bound.addScaled(l, -1))
}

// ---------------------------------------------------------------- assume

func (e *c05Eng) setBound(st *c05State, a string) *c05Val {
	v, ok := st.env[a]
	if !ok {
		v = c05Top()
		if k, ok := e.elemAllVal(a); ok {
			v = c05Exact("", k)
		}
		st.env[a] = v
	}
	return v
}

// assumeLE0 refines st with l <= 0 ; returns nil when infeasible.
func (e *c05Eng) assumeLE0(st *c05State, l c05Lin) *c05State {
	if st == nil {
		return nil
	}
	raw := l
	l = e.canon(st, l)
	n := l.neg()
	n.k += 1
	if e.prove(st, n) {
		return nil
	}
	if len(raw.t) >= 2 && len(raw.t) > len(l.t) {
		localConst := false
		for a := range raw.t {
			if _, still := l.t[a]; !still && strings.HasPrefix(a, "v") && !strings.Contains(a, ".") {
				localConst = true
			}
		}
		if localConst {
			st.facts = c05AddFact(st.facts, e.canonGeo(st, raw))
		}
	}
	atoms := l.atoms()
	switch {
	case len(atoms) == 0:
		if l.k <= 0 {
			return st
		}
		return nil
	case len(atoms) == 1:
		a := atoms[0]
		switch l.t[a] {
		case 1:
			e.setBound(st, a).addHi("", -l.k)
		case -1:
			e.setBound(st, a).addLo("", l.k)
		default:
			st.facts = c05AddFact(st.facts, l)
		}
	case len(atoms) == 2 && l.t[atoms[0]]*l.t[atoms[1]] == -1:
		a, b := atoms[0], atoms[1]
		if l.t[a] != 1 {
			a, b = b, a
		}
		// a - b + k <= 0
		va, vb := e.valOf(st, a), e.valOf(st, b)
		if !c05IsGeo(a) {
			x := e.setBound(st, a)
			x.addHi(b, -l.k)
			for s, kk := range vb.hi {
				if s != a {
					x.addHi(s, kk-l.k)
				}
			}
		}
		if !c05IsGeo(b) {
			y := e.setBound(st, b)
			y.addLo(a, l.k)
			for s, kk := range va.lo {
				if s != b {
					y.addLo(s, kk+l.k)
				}
			}
		}
	default:
		st.facts = c05AddFact(st.facts, l)
	}
	return st
}

func c05AddFact(fs []c05Lin, l c05Lin) []c05Lin {
	// same left-hand side: keep the tighter
	lk := l.clone()
	lk.k = 0
	key := lk.key()
	for i, f := range fs {
		fk := f.clone()
		fk.k = 0
		if fk.key() == key {
			if l.k > f.k {
				out := append([]c05Lin{}, fs...)
				out[i] = l
				return out
			}
			return fs
		}
	}
	out := append([]c05Lin{}, fs...)
	return append(out, l)
}

// assumeCmp: x op y holds.
func (e *c05Eng) assumeCmp(fr *c05Frame, st *c05State, x ast.Expr, op token.Token, y ast.Expr) *c05State {
	if st == nil {
		return nil
	}
	if !isIntegerExpr(fr.info, x) || !isIntegerExpr(fr.info, y) {
		return st
	}
	d := e.linOf(fr, st, x).addScaled(e.linOf(fr, st, y), -1) // x - y
	plus := func(l c05Lin, k int64) c05Lin { l = l.clone(); l.k += k; return l }
	switch op {
	case token.LSS:
		return e.assumeLE0(st, plus(d, 1))
	case token.LEQ:
		return e.assumeLE0(st, d)
	case token.GTR:
		return e.assumeLE0(st, plus(d.neg(), 1))
	case token.GEQ:
		return e.assumeLE0(st, d.neg())
	case token.EQL:
		st = e.assumeLE0(st, d)
		return e.assumeLE0(st, d.neg())
	case token.NEQ:
		if e.prove(st, d) && e.prove(st, d.neg()) {
			return nil
		}
		if e.prove(st, d) {
			return e.assumeLE0(st, plus(d, 1))
		}
		if e.prove(st, d.neg()) {
			return e.assumeLE0(st, plus(d.neg(), 1))
		}
	}
	return st
}

// assume refines st (consumed) with cond having truth value pol.
func (e *c05Eng) assume(fr *c05Frame, st *c05State, cond ast.Expr, pol bool) *c05State {
	if st == nil {
		return nil
	}
	cond = unparen(cond)
	switch t := cond.(type) {
	case *ast.UnaryExpr:
		if t.Op == token.NOT {
			return e.assume(fr, st, t.X, !pol)
		}
	case *ast.BinaryExpr:
		switch t.Op {
		case token.LAND, token.LOR:
			conj := (t.Op == token.LAND) == pol
			if conj {
				// A&&B true  /  A||B false : both operands have value pol
				st = e.assume(fr, st, t.X, pol)
				return e.assume(fr, st, t.Y, pol)
			}
			// A&&B false = !A or (A and !B) ; A||B true = A or (!A and B)
			s1 := e.assume(fr, st.clone(), t.X, pol)
			s2 := e.assume(fr, st, t.X, !pol)
			s2 = e.assume(fr, s2, t.Y, pol)
			return e.join(s1, s2, false)
		case token.EQL, token.NEQ, token.LSS, token.LEQ, token.GTR, token.GEQ:
			op := t.Op
			if !pol {
				op = negOp(op)
			}
			return e.assumeCmp(fr, st, t.X, op, t.Y)
		}
	}
	if tv, ok := fr.info.Types[cond]; ok && tv.Value != nil && tv.Value.String() != fmt.Sprint(pol) {
		if tv.Value.String() == "true" || tv.Value.String() == "false" {
			return nil
		}
	}
	return st
}

// assumeAlts is assume without the join at a disjunction: the states in which cond has the value pol, one per
// disjunct (A&&B false = !A | A&&!B). What every alternative entails holds after the condition — also a
// relation that no single alternative carries as a fact (i >= ps | i >= len(tail) both give i >= COLS-col when
// ps > COLS-col). At most eight alternatives; beyond that the joined state.
func (e *c05Eng) assumeAlts(fr *c05Frame, st *c05State, cond ast.Expr, pol bool) []*c05State {
	if st == nil {
		return nil
	}
	cond = unparen(cond)
	switch t := cond.(type) {
	case *ast.UnaryExpr:
		if t.Op == token.NOT {
			return e.assumeAlts(fr, st, t.X, !pol)
		}
	case *ast.BinaryExpr:
		if t.Op == token.LAND || t.Op == token.LOR {
			var out []*c05State
			if (t.Op == token.LAND) == pol {
				for _, s1 := range e.assumeAlts(fr, st, t.X, pol) {
					out = append(out, e.assumeAlts(fr, s1, t.Y, pol)...)
				}
			} else {
				out = append(out, e.assumeAlts(fr, st.clone(), t.X, pol)...)
				for _, s2 := range e.assumeAlts(fr, st.clone(), t.X, !pol) {
					out = append(out, e.assumeAlts(fr, s2, t.Y, pol)...)
				}
			}
			if len(out) > 8 {
				if j := e.assume(fr, st, cond, pol); j != nil {
					return []*c05State{j}
				}
				return nil
			}
			return out
		}
	}
	if s := e.assume(fr, st, cond, pol); s != nil {
		return []*c05State{s}
	}
	return nil
}

// ---------------------------------------------------------------- join / widen

// join keeps from each side the bounds and facts the other side entails.
// widen=true: a is the old state; only a's bounds survive.
func (e *c05Eng) join(a, b *c05State, widen bool) *c05State {
	if a == nil {
		return b.clone()
	}
	if b == nil {
		return a.clone()
	}
	res := c05NewState()
	if widen {
		defer func(o bool) { e.noWeaker = o }(e.noWeaker)
		e.noWeaker = true
	}
	keep := func(from, other *c05State) {
		for key, v := range from.env {
			if v.bot {
				if ov, ok := other.env[key]; ok && (!widen || from == a) {
					res.env[key] = ov.clone()
				}
				continue
			}
			if ov, ok := other.env[key]; ok && ov.bot {
				res.env[key] = v.clone()
				continue
			}
			for s, k := range v.lo {
				if e.entailsBound(other, key, s, k, false) {
					e.setBound(res, key).addLo(s, k)
				} else if k2, ok := e.weakerBound(other, key, s, k, false); ok && !widen {
					e.setBound(res, key).addLo(s, k2)
				}
			}
			for s, k := range v.hi {
				if e.entailsBound(other, key, s, k, true) {
					e.setBound(res, key).addHi(s, k)
				} else if k2, ok := e.weakerBound(other, key, s, k, true); ok && !widen {
					e.setBound(res, key).addHi(s, k2)
				}
			}
		}
		for _, f := range from.facts {
			if e.proveShallow(other, f) {
				res.facts = c05AddFactWeak(res.facts, f)
			}
		}
	}
	keep(a, b)
	if !widen {
		keep(b, a)
	}
	return res
}

// c05AddFactWeak: same lhs -> keep the weaker (larger slack), used when both sides contribute
func c05AddFactWeak(fs []c05Lin, l c05Lin) []c05Lin {
	lk := l.clone()
	lk.k = 0
	key := lk.key()
	for _, f := range fs {
		fk := f.clone()
		fk.k = 0
		if fk.key() == key {
			return fs // an entailed fact with this lhs is already present
		}
	}
	return append(fs, l)
}

// weakerBound: the other side of a join does not entail key >= s+k (key <= s+k); if it entails the
// bound with a slack of one or two (end := col+ps joined with end := len(line) under col <= len(line):
// end >= col+1 on one side, end >= col on the other), that weaker relation holds on both sides.
func (e *c05Eng) weakerBound(st *c05State, key, s string, k int64, upper bool) (int64, bool) {
	if e.noWeaker || s == "" || s == key || c05IsTmp(s) || c05IsTmp(key) || c05IsGeo(s) {
		return 0, false
	}
	if _, ok := st.env[key]; !ok {
		return 0, false
	}
	for d := int64(1); d <= 2; d++ {
		k2 := k - d
		if upper {
			k2 = k + d
		}
		if e.entailsBound(st, key, s, k2, upper) {
			return k2, true
		}
	}
	return 0, false
}

func (e *c05Eng) entailsBound(st *c05State, key, s string, k int64, upper bool) bool {
	if v, ok := st.env[key]; ok {
		if upper {
			if k2, ok := v.hi[s]; ok && k2 <= k {
				return true
			}
		} else {
			if k2, ok := v.lo[s]; ok && k2 >= k {
				return true
			}
		}
	}
	l := c05Atom(key)
	if s != "" {
		l = l.addScaled(c05Atom(s), -1)
	}
	l.k -= k // key - s - k
	if !upper {
		l = l.neg()
	}
	return e.proveShallow(st, l)
}

func (e *c05Eng) proveShallow(st *c05State, l c05Lin) bool {
	e.budget = 300
	e.vcache = map[string]*c05Val{}
	l = e.canon(st, l)
	for d := 1; d <= 3; d++ {
		if e.proveD(st, l, d, 0, map[string]bool{}) {
			return true
		}
	}
	return false
}

// ---------------------------------------------------------------- assignment

// kill forgets everything about key (and what depends on it).
func (e *c05Eng) kill(st *c05State, key string) {
	dead := map[string]bool{key: true}
	for k := range st.env {
		if k == key || strings.HasPrefix(k, key+".") {
			dead[k] = true
			continue
		}
		for _, d := range e.deps[k] {
			if d == key || strings.HasPrefix(d, key+".") {
				dead[k] = true
				break
			}
		}
	}
	// symbols that depend on key but have no env entry
	isDead := func(s string) bool {
		if dead[s] {
			return true
		}
		if s == "" || c05IsGeo(s) {
			return false
		}
		if strings.HasPrefix(s, key+".") {
			return true
		}
		for _, d := range e.deps[s] {
			if d == key || strings.HasPrefix(d, key+".") {
				return true
			}
		}
		return false
	}
	for k := range dead {
		delete(st.env, k)
	}
	for _, v := range st.env {
		for s := range v.lo {
			if isDead(s) {
				delete(v.lo, s)
			}
		}
		for s := range v.hi {
			if isDead(s) {
				delete(v.hi, s)
			}
		}
	}
	var fs []c05Lin
	for _, f := range st.facts {
		ok := true
		for a := range f.t {
			if isDead(a) {
				ok = false
			}
		}
		if ok {
			fs = append(fs, f)
		}
	}
	st.facts = fs
}

// assignLin: key := l (evaluated in st before the assignment).
func (e *c05Eng) assignLin(st *c05State, key string, l c05Lin) {
	if sh, ok := e.shadow[key]; ok {
		if g := e.canon(st, l); len(g.t) == 0 {
			defer func() { st.env[sh] = c05Exact("", g.k) }()
		} else if e.onlyDependsOn(g, key) {
			// p = f(p) with f pure (oneIfZero(p), max(p,1), p): the variable still holds "the parameter"
			defer func() {
				if v, ok := st.env[key]; ok {
					sv := v.clone()
					sv.addLo(key, 0)
					sv.addHi(key, 0)
					st.env[sh] = sv
					v.addLo(sh, 0)
					v.addHi(sh, 0)
				}
			}()
		}
	}
	if g := e.canonGeo(st, l); len(g.t) == 1 && g.t[key] == 1 {
		l = g
	} else {
		l = e.canon(st, l)
	}
	// invertible self-update key := key + c : shift instead of kill
	if len(l.t) == 1 && l.t[key] == 1 {
		c := l.k
		if v, ok := st.env[key]; ok {
			st.env[key] = v.shift(c)
		}
		for k2, v := range st.env {
			if k2 == key {
				continue
			}
			if k, ok := v.lo[key]; ok {
				v.lo[key] = k - c
			}
			if k, ok := v.hi[key]; ok {
				v.hi[key] = k - c
			}
		}
		// atoms depending on key (e.g. X[key]) are invalid
		for k2 := range st.env {
			for _, d := range e.deps[k2] {
				if d == key {
					e.killDependents(st, key)
					break
				}
			}
		}
		for i, f := range st.facts {
			if cf, ok := f.t[key]; ok {
				nf := f.clone()
				nf.k -= cf * c // key_old = key_new - c
				st.facts[i] = nf
			}
		}
		// facts list was shared by clone(): make sure we own it
		return
	}
	val := e.evalLin(st, l)
	var eq []c05Lin
	if len(l.t) >= 2 && !l.mentions(key) {
		d := c05Atom(key).addScaled(l, -1)
		eq = []c05Lin{d, d.neg()}
	}
	derived := e.eliminate(st, key)
	e.kill(st, key)
	for _, f := range derived {
		st.facts = c05AddFact(st.facts, f)
	}
	delete(val.lo, key)
	delete(val.hi, key)
	st.env[key] = val
	// key := a + k  also bounds a from both sides (a == key - k), until one of them is reassigned
	if len(l.t) == 1 {
		for a, c := range l.t {
			if c == 1 && a != key && !c05IsGeo(a) && !c05IsTmp(a) {
				av := e.setBound(st, a)
				av.addLo(key, -l.k)
				av.addHi(key, -l.k)
			}
		}
	}
	for _, f := range eq {
		st.facts = c05AddFact(st.facts, f)
	}
}

// eliminate: what the facts and bounds about key imply for the other variables once key is gone
// (one Fourier-Motzkin step; only relations between at least two other atoms are kept).
func (e *c05Eng) eliminate(st *c05State, key string) []c05Lin {
	var ups, los []c05Lin // key <= U  as  key - U <= 0 ;  key >= L  as  L - key <= 0
	for _, f := range st.facts {
		switch f.t[key] {
		case 1:
			ups = append(ups, f)
		case -1:
			los = append(los, f)
		}
	}
	if len(ups)+len(los) == 0 {
		return nil
	}
	if v, ok := st.env[key]; ok && !v.bot {
		for s, k := range v.hi {
			if s != "" && s != key && !c05IsTmp(s) {
				l := c05Atom(key).addScaled(c05Atom(s), -1)
				l.k -= k
				ups = append(ups, l)
			}
		}
		for s, k := range v.lo {
			if s != "" && s != key && !c05IsTmp(s) {
				l := c05Atom(s).addScaled(c05Atom(key), -1)
				l.k += k
				los = append(los, l)
			}
		}
	}
	var out []c05Lin
	for _, u := range ups {
		for _, l := range los {
			d := u.addScaled(l, 1)
			if d.mentions(key) || len(d.t) < 2 || len(d.t) > 4 {
				continue
			}
			out = append(out, d)
			if len(out) >= 8 {
				return out
			}
		}
	}
	return out
}

// onlyDependsOn: every atom of l is key itself or the result of a pure call whose arguments
// depend on nothing but key and constants.
func (e *c05Eng) onlyDependsOn(l c05Lin, key string) bool {
	for a := range l.t {
		if a == key {
			continue
		}
		if !c05IsTmp(a) {
			return false
		}
		deps, ok := e.tmpDeps[a]
		if !ok {
			return false
		}
		for _, d := range deps {
			if d != key {
				return false
			}
		}
	}
	return true
}

func (e *c05Eng) killDependents(st *c05State, key string) {
	for k2 := range st.env {
		for _, d := range e.deps[k2] {
			if d == key {
				e.kill(st, k2)
				break
			}
		}
	}
}

func (e *c05Eng) assignVal(st *c05State, key string, v *c05Val) {
	e.kill(st, key)
	v = v.clone()
	delete(v.lo, key)
	delete(v.hi, key)
	st.env[key] = v
}

// intLeaves lists the integer leaf paths (".row", ".cursor.col", ...) of a struct type.
func c05IntLeaves(t types.Type, depth int) []string {
	st, ok := t.Underlying().(*types.Struct)
	if !ok || depth > 3 {
		return nil
	}
	var out []string
	for i := 0; i < st.NumFields(); i++ {
		f := st.Field(i)
		if isIntType(f.Type()) {
			out = append(out, "."+f.Name())
		} else if _, ok := f.Type().Underlying().(*types.Struct); ok {
			for _, s := range c05IntLeaves(f.Type(), depth+1) {
				out = append(out, "."+f.Name()+s)
			}
		}
	}
	return out
}

// assignExpr: lhs = rhs for one pair (rhs may be nil for zero value).
func (e *c05Eng) assignExpr(fr *c05Frame, st *c05State, lhs ast.Expr, rhs ast.Expr, lt types.Type) {
	lk := e.pathKey(fr, lhs)
	if lt == nil {
		lt = fr.info.TypeOf(lhs)
	}
	if lt == nil {
		return
	}
	// a store through a pointer that may point to several fields: weak update of each
	if ak := e.aliasKeys(fr, lhs); len(ak) >= 2 {
		switch {
		case isIntType(lt):
			nv := c05Exact("", 0)
			if rhs != nil {
				nv = e.evalLin(st, e.linOf(fr, st, rhs))
			}
			for _, t := range ak {
				e.weakStore(st, t, nv)
			}
		case isStructType(lt):
			vals := e.structVals(fr, st, rhs, lt)
			for _, t := range ak {
				for _, s := range c05IntLeaves(lt, 0) {
					k := t + s
					if _, ok := e.disp[k]; !ok {
						e.disp[k] = strings.TrimPrefix(e.show(t)+s, "vt.")
					}
					nv, ok := vals[s]
					if !ok {
						nv = c05Top()
					}
					e.weakStore(st, k, nv)
				}
			}
		default:
			for _, t := range ak {
				e.kill(st, t)
				e.killDependents(st, t)
			}
		}
	}
	switch {
	case isIntType(lt):
		if lk == "" {
			// store through an index etc.: element atoms rooted at the same base are invalid
			if ix, ok := unparen(lhs).(*ast.IndexExpr); ok {
				if r := e.rootKey(fr, ix); r != "" {
					e.killDependents(st, r)
				}
			}
			return
		}
		if rhs == nil {
			e.assignLin(st, lk, c05Const(0))
			return
		}
		e.assignLin(st, lk, e.linOf(fr, st, rhs))
	case isStructType(lt):
		if lk == "" {
			return
		}
		leaves := c05IntLeaves(lt, 0)
		vals := e.structVals(fr, st, rhs, lt)
		e.kill(st, lk)
		for _, s := range leaves {
			k := lk + s
			e.disp[k] = strings.TrimPrefix(e.show(lk)+s, "vt.")
			if lk != "@" && !strings.HasPrefix(lk, "@.") {
				e.addDep(k, strings.SplitN(lk, ".", 2)[0])
			}
			if v, ok := vals[s]; ok {
				v = v.clone()
				for sym := range v.lo {
					if sym == k || strings.HasPrefix(sym, lk+".") || sym == lk {
						delete(v.lo, sym)
					}
				}
				for sym := range v.hi {
					if sym == k || strings.HasPrefix(sym, lk+".") || sym == lk {
						delete(v.hi, sym)
					}
				}
				st.env[k] = v
			}
		}
	case isSliceType(lt):
		if lk == "" {
			// X[i] = make([]cell, E): row allocation
			if ix, ok := unparen(lhs).(*ast.IndexExpr); ok && e.isRow(lt) {
				e.rowAlloc(fr, st, ix, rhs)
			} else if ix, ok := unparen(lhs).(*ast.IndexExpr); ok {
				if r := e.rootKey(fr, ix); r != "" {
					e.killDependents(st, r)
				}
			}
			return
		}
		var ln, rl *c05Val
		var lenEq *c05Lin
		if rhs != nil {
			r := unparen(rhs)
			if call, ok := r.(*ast.CallExpr); ok {
				if id, ok := call.Fun.(*ast.Ident); ok && id.Name == "make" && len(call.Args) >= 2 {
					if _, isB := fr.info.Uses[id].(*types.Builtin); isB {
						ln = e.evalLin(st, e.linOf(fr, st, call.Args[1]))
						rl = c05Top()
						rl.bot = true
					}
				}
			} else if cl, ok := r.(*ast.CompositeLit); ok {
				ln = c05Exact("", int64(len(cl.Elts)))
			} else {
				ll := e.lenLin(fr, st, r)
				ln = e.evalLin(st, ll)
				if _, isSx := r.(*ast.SliceExpr); isSx {
					// x := X[lo:hi]: len(x) == hi - lo is kept as a relation, not only as bounds
					if cl := e.canon(st, ll); len(cl.t) >= 2 {
						lenEq = &cl
					}
				}
				if rk := e.pathKey(fr, c05StripSlices(r)); rk != "" && e.isGrid(lt) {
					if ov, ok := st.env[e.derived("rowlen:", rk)]; ok && ov.bot {
						rl = ov.clone()
					} else {
						rl = e.evalLin(st, c05Atom(e.derived("rowlen:", rk)))
					}
				}
			}
		} else {
			ln = c05Exact("", 0)
		}
		e.kill(st, lk)
		e.killDependents(st, lk)
		lenK := e.derived("len:", lk)
		if ln != nil {
			ln = ln.clone()
			delete(ln.lo, lenK)
			delete(ln.hi, lenK)
			st.env[lenK] = ln
			if lenEq != nil {
				usable := true
				for a := range lenEq.t {
					if a == lenK || a == lk || c05IsTmp(a) {
						usable = false
					}
					for _, d := range e.deps[a] {
						if d == lk {
							usable = false
						}
					}
				}
				if usable {
					d := c05Atom(lenK).addScaled(*lenEq, -1)
					st.facts = c05AddFact(st.facts, d)
					st.facts = c05AddFact(st.facts, d.neg())
				}
			}
		}
		if e.isGrid(lt) {
			rlK := e.derived("rowlen:", lk)
			if rl != nil {
				rl = rl.clone()
				delete(rl.lo, rlK)
				delete(rl.hi, rlK)
				st.env[rlK] = rl
			}
		}
	default:
		if lk != "" {
			e.kill(st, lk)
			e.bindPtr(fr, st, lk, lhs, rhs)
		}
	}
}

// structVals: the bounds of the integer leaves of a struct-valued right-hand side (nil = zero value).
func (e *c05Eng) structVals(fr *c05Frame, st *c05State, rhs ast.Expr, lt types.Type) map[string]*c05Val {
	leaves := c05IntLeaves(lt, 0)
	vals := map[string]*c05Val{}
	switch r := unparenOrNil(rhs).(type) {
	case nil:
		for _, s := range leaves {
			vals[s] = c05Exact("", 0)
		}
	case *ast.CompositeLit:
		e.compositeLeaves(fr, st, r, lt, "", vals)
		for _, s := range leaves {
			if _, ok := vals[s]; !ok {
				vals[s] = c05Exact("", 0)
			}
		}
	default:
		if rk := e.pathKey(fr, r); rk != "" {
			for _, s := range leaves {
				k := rk + s
				e.disp[k] = strings.TrimPrefix(e.show(rk)+s, "vt.")
				v := e.valOf(st, k)
				v.addLo(k, 0)
				v.addHi(k, 0)
				vals[s] = v
			}
		} else if ak := e.aliasKeys(fr, r); len(ak) >= 2 {
			// a copy of what a pointer with several possible targets points to (`state := *vt.savedSlot()`):
			// each leaf has the bounds that hold for every target
			for _, s := range leaves {
				var vs []*c05Val
				for _, t := range ak {
					k := t + s
					if _, ok := e.disp[k]; !ok {
						e.disp[k] = strings.TrimPrefix(e.show(t)+s, "vt.")
					}
					vs = append(vs, e.valOf(st, k))
				}
				vals[s] = c05JoinVals(vs)
			}
		}
	}
	return vals
}

func unparenOrNil(x ast.Expr) ast.Expr {
	if x == nil {
		return nil
	}
	return unparen(x)
}

func isStructType(t types.Type) bool { _, ok := t.Underlying().(*types.Struct); return ok }
func isSliceType(t types.Type) bool  { _, ok := t.Underlying().(*types.Slice); return ok }

func (e *c05Eng) rootKey(fr *c05Frame, x ast.Expr) string {
	for {
		switch t := unparen(x).(type) {
		case *ast.IndexExpr:
			x = t.X
			continue
		case *ast.SelectorExpr:
			if k := e.pathKey(fr, t); k != "" {
				return k
			}
			x = t.X
			continue
		default:
			return e.pathKey(fr, t)
		}
	}
}

func (e *c05Eng) compositeLeaves(fr *c05Frame, st *c05State, cl *ast.CompositeLit, t types.Type, prefix string, out map[string]*c05Val) {
	stt, ok := t.Underlying().(*types.Struct)
	if !ok {
		return
	}
	for i, el := range cl.Elts {
		var name string
		var val ast.Expr
		if kv, ok := el.(*ast.KeyValueExpr); ok {
			id, _ := kv.Key.(*ast.Ident)
			if id == nil {
				continue
			}
			name, val = id.Name, kv.Value
		} else if i < stt.NumFields() {
			name, val = stt.Field(i).Name(), el
		}
		var ft types.Type
		for j := 0; j < stt.NumFields(); j++ {
			if stt.Field(j).Name() == name {
				ft = stt.Field(j).Type()
			}
		}
		if ft == nil {
			continue
		}
		switch {
		case isIntType(ft):
			out[prefix+"."+name] = e.evalLin(st, e.linOf(fr, st, val))
		case isStructType(ft):
			if inner, ok := unparen(val).(*ast.CompositeLit); ok {
				e.compositeLeaves(fr, st, inner, ft, prefix+"."+name, out)
				for _, s := range c05IntLeaves(ft, 0) {
					if _, ok := out[prefix+"."+name+s]; !ok {
						out[prefix+"."+name+s] = c05Exact("", 0)
					}
				}
			} else if rk := e.pathKey(fr, val); rk != "" {
				for _, s := range c05IntLeaves(ft, 0) {
					k := rk + s
					e.disp[k] = strings.TrimPrefix(e.show(rk)+s, "vt.")
					v := e.valOf(st, k)
					v.addLo(k, 0)
					v.addHi(k, 0)
					out[prefix+"."+name+s] = v
				}
			} else {
				for _, s := range c05IntLeaves(ft, 0) {
					out[prefix+"."+name+s] = c05Top()
				}
			}
		}
	}
}

// rowAlloc handles X[i] = make([]cell, E). The update of rowlen(X) is strong
// when the statement sits in a loop whose key i ranges over a slice of the same
// length as X (every row is then allocated with this width); otherwise weak.
func (e *c05Eng) rowAlloc(fr *c05Frame, st *c05State, ix *ast.IndexExpr, rhs ast.Expr) {
	bk := e.pathKey(fr, ix.X)
	if bk == "" {
		return
	}
	rlK := e.derived("rowlen:", bk)
	var w *c05Val
	if call, ok := unparenOrNil(rhs).(*ast.CallExpr); ok {
		if id, ok := call.Fun.(*ast.Ident); ok && id.Name == "make" && len(call.Args) >= 2 {
			w = e.evalLin(st, e.linOf(fr, st, call.Args[1]))
		}
	} else if rhs != nil {
		w = e.evalLin(st, e.lenLin(fr, st, rhs))
	}
	if w == nil {
		delete(st.env, rlK)
		return
	}
	strong := false
	if id, ok := unparen(ix.Index).(*ast.Ident); ok {
		iobj := fr.info.ObjectOf(id)
		for cur := ast.Node(ix); cur != nil; cur = fr.parents[cur] {
			rs, ok := cur.(*ast.RangeStmt)
			if !ok {
				continue
			}
			kid, _ := rs.Key.(*ast.Ident)
			if kid == nil || fr.info.ObjectOf(kid) != iobj {
				continue
			}
			lx := e.lenLin(fr, st, rs.X)
			ly := c05Atom(e.derived("len:", bk))
			d := lx.addScaled(ly, -1)
			if e.prove(st, d) && e.prove(st, d.neg()) {
				strong = true
			}
			break
		}
	}
	w = w.clone()
	delete(w.lo, rlK)
	delete(w.hi, rlK)
	if strong {
		st.env[rlK] = w
		return
	}
	// weak: join with the old value (no row allocated so far: some rows stay nil)
	if old, ok := st.env[rlK]; ok && old.bot {
		v := c05Top()
		v.addLo("", 0)
		st.env[rlK] = v
		return
	}
	a := c05NewState()
	a.env[rlK] = e.valOf(st, rlK)
	b := c05NewState()
	b.env[rlK] = w
	j := e.join(a, b, false)
	if v, ok := j.env[rlK]; ok {
		st.env[rlK] = v
	} else {
		delete(st.env, rlK)
	}
}

// ---------------------------------------------------------------- INV

type c05Goal struct {
	key   string // env key the goal is about
	base  string // field whose store makes the goal relevant ("@.cursor.row", "@.activeScreen")
	what  string // stable description, used in obligation keys
	lins  []c05Lin
	geo   bool // depends on the geometry
	fails string
}

func c05L(pairs ...any) c05Lin {
	// c05L("a",1,"b",-1, 3)  => a - b + 3
	l := c05Const(0)
	for i := 0; i < len(pairs); i++ {
		switch t := pairs[i].(type) {
		case string:
			c := int64(pairs[i+1].(int))
			l = l.addScaled(c05Atom(t), c)
			i++
		case int:
			l.k += int64(t)
		}
	}
	return l
}

const (
	c05Row    = "@.cursor.row"
	c05Col    = "@.cursor.col"
	c05Top_   = "@.margin.top"
	c05Bot    = "@.margin.bottom"
	c05Left   = "@.margin.left"
	c05Right  = "@.margin.right"
	c05Active = "@.activeScreen"
)

var c05Screens = []string{"@.activeScreen", "@.primaryScreen", "@.altScreen"}
var c05Saved = []string{"@.primaryState.cursor.row", "@.primaryState.cursor.col", "@.altState.cursor.row", "@.altState.cursor.col"}

func (e *c05Eng) registerNames() {
	for _, k := range append(append([]string{c05Row, c05Col, c05Top_, c05Bot, c05Left, c05Right}, c05Saved...), c05Screens...) {
		e.disp[k] = strings.TrimPrefix(k, "@.")
	}
	for _, s := range c05Screens {
		e.derived("len:", s)
		e.derived("rowlen:", s)
	}
	e.disp["@"] = "vt"
}

func (e *c05Eng) goals() []c05Goal {
	e.registerNames()
	gs := []c05Goal{
		{key: c05Row, base: c05Row, what: "cursor.row >= 0", lins: []c05Lin{c05L(c05Row, -1)}, fails: "the next grid access at the cursor row indexes a negative row"},
		{key: c05Row, base: c05Row, what: "cursor.row <= ROWS-1", lins: []c05Lin{c05L(c05Row, 1, "ROWS", -1, 1)}, geo: true, fails: "the next grid access at the cursor row indexes past the last row"},
		{key: c05Col, base: c05Col, what: "cursor.col >= 0", lins: []c05Lin{c05L(c05Col, -1)}, fails: "the next grid access at the cursor column indexes a negative column"},
		{key: c05Col, base: c05Col, what: "cursor.col <= COLS", lins: []c05Lin{c05L(c05Col, 1, "COLS", -1)}, geo: true, fails: "the cursor leaves the screen (COLS itself is the deferred-wrap column)"},
		{key: c05Top_, base: c05Top_, what: "margin.top >= 0", lins: []c05Lin{c05L(c05Top_, -1)}, fails: "scrolling indexes a negative row"},
		{key: c05Top_, base: c05Top_, what: "margin.top <= margin.bottom", lins: []c05Lin{c05L(c05Top_, 1, c05Bot, -1)}, fails: "the scroll margins are not ordered"},
		{key: c05Bot, base: c05Bot, what: "margin.top <= margin.bottom", lins: []c05Lin{c05L(c05Top_, 1, c05Bot, -1)}, fails: "the scroll margins are not ordered"},
		{key: c05Bot, base: c05Bot, what: "margin.bottom <= ROWS-1", lins: []c05Lin{c05L(c05Bot, 1, "ROWS", -1, 1)}, geo: true, fails: "scrolling indexes a row past the screen"},
		{key: c05Left, base: c05Left, what: "margin.left == 0", lins: []c05Lin{c05L(c05Left, 1), c05L(c05Left, -1)}, fails: "left-margin tests no longer bound the column from below"},
		{key: c05Right, base: c05Right, what: "margin.right == COLS-1", lins: []c05Lin{c05L(c05Right, 1, "COLS", -1, 1), c05L(c05Right, -1, "COLS", 1, -1)}, geo: true, fails: "right-margin clamps no longer keep the column inside the row"},
	}
	for _, s := range c05Saved {
		gs = append(gs, c05Goal{key: s, base: s, what: strings.TrimPrefix(s, "@.") + " >= 0", lins: []c05Lin{c05L(s, -1)}, fails: "DECRC restores a negative cursor position"})
	}
	for _, s := range c05Screens {
		n := strings.TrimPrefix(s, "@.")
		gs = append(gs, c05Goal{key: "len:" + s, base: s, what: "len(" + n + ") == ROWS", geo: true,
			lins: []c05Lin{c05L("len:"+s, 1, "ROWS", -1), c05L("len:"+s, -1, "ROWS", 1)}, fails: "the screens no longer have the same number of rows"})
		gs = append(gs, c05Goal{key: "rowlen:" + s, base: s, what: "every row of " + n + " has COLS cells", geo: true,
			lins: []c05Lin{c05L("rowlen:"+s, 1, "COLS", -1), c05L("rowlen:"+s, -1, "COLS", 1)}, fails: "rows do not all have the terminal's width"})
	}
	return gs
}

// invState: the invariant as an abstract state. withGeo=false leaves out everything that mentions the geometry.
func (e *c05Eng) invState(withGeo bool) *c05State {
	e.registerNames()
	st := c05NewState()
	set := func(k string) *c05Val { return e.setBound(st, k) }
	set(c05Row).addLo("", 0)
	set(c05Col).addLo("", 0)
	set(c05Top_).addLo("", 0)
	set(c05Top_).addHi(c05Bot, 0)
	set(c05Bot).addLo("", 0)
	set(c05Bot).addLo(c05Top_, 0)
	st.env[c05Left] = c05Exact("", 0)
	for _, s := range c05Saved {
		set(s).addLo("", 0)
	}
	if withGeo {
		set(c05Row).addHi("ROWS", -1)
		set(c05Col).addHi("COLS", 0)
		set(c05Top_).addHi("ROWS", -1)
		set(c05Bot).addHi("ROWS", -1)
		st.env[c05Right] = c05Exact("COLS", -1)
		st.env[c05Right].addLo("", 0)
		for _, s := range c05Screens {
			st.env["len:"+s] = c05Exact("ROWS", 0)
			st.env["rowlen:"+s] = c05Exact("COLS", 0)
		}
	}
	return st
}

func (e *c05Eng) holds(st *c05State, g c05Goal) bool {
	for _, l := range g.lins {
		if !e.prove(st, l) {
			return false
		}
	}
	return true
}

// ---------------------------------------------------------------- syntactic store sets

func (e *c05Eng) recvOf(fi *FuncInfo) types.Object {
	if fi.Decl.Recv == nil && e.model != nil && fi.Pkg == e.pk {
		// a plain helper function that is handed the terminal: func f(vt *Model, ...)
		if _, obj := e.modelParam(fi); obj != nil {
			return obj
		}
		return nil
	}
	if fi.Decl.Recv == nil || len(fi.Decl.Recv.List) != 1 || len(fi.Decl.Recv.List[0].Names) != 1 {
		return nil
	}
	obj := fi.Pkg.TypesInfo.Defs[fi.Decl.Recv.List[0].Names[0]]
	if obj == nil || e.model == nil {
		return nil
	}
	t := obj.Type()
	if p, ok := t.(*types.Pointer); ok {
		t = p.Elem()
	}
	if !types.Identical(t, e.model) {
		return nil
	}
	return obj
}

// modelParam: index and object of the first *Model parameter of a function without receiver.
func (e *c05Eng) modelParam(fi *FuncInfo) (int, types.Object) {
	if fi.Decl.Recv != nil || fi.Decl.Type.Params == nil {
		return -1, nil
	}
	i := 0
	for _, f := range fi.Decl.Type.Params.List {
		for _, nme := range f.Names {
			obj := fi.Pkg.TypesInfo.Defs[nme]
			if obj != nil {
				if p, ok := obj.Type().(*types.Pointer); ok && types.Identical(p.Elem(), e.model) {
					return i, obj
				}
			}
			i++
		}
		if len(f.Names) == 0 {
			i++
		}
	}
	return -1, nil
}

func (e *c05Eng) newFrame(fi *FuncInfo, top bool) *c05Frame {
	fr := &c05Frame{fi: fi, pkg: fi.Pkg, info: fi.Pkg.TypesInfo, top: top, parents: e.c.P.Parents(fi.Pkg)}
	fr.recv = e.recvOf(fi)
	fr.recvAt = fr.recv != nil
	fr.g = e.c.P.Graph(fi)
	return fr
}

// storesOf: receiver-rooted keys a function may assign, transitively over static calls inside the package.
func (e *c05Eng) storesOf(fi *FuncInfo) map[string]bool {
	if s, ok := e.stores[fi]; ok {
		return s
	}
	out := map[string]bool{}
	e.stores[fi] = out
	if fi.Decl.Body == nil {
		return out
	}
	fr := &c05Frame{fi: fi, pkg: fi.Pkg, info: fi.Pkg.TypesInfo}
	fr.recv = e.recvOf(fi)
	fr.recvAt = fr.recv != nil
	rec := func(lhs ast.Expr) {
		for _, k := range e.aliasKeys(fr, lhs) {
			if strings.HasPrefix(k, "@.") {
				out[k] = true
			}
		}
		if k := e.pathKey(fr, lhs); strings.HasPrefix(k, "@.") {
			out[k] = true
			return
		}
		// element store X[i] = ... : the slice itself counts as stored when rows are replaced
		if ix, ok := unparen(lhs).(*ast.IndexExpr); ok {
			if k := e.pathKey(fr, ix.X); strings.HasPrefix(k, "@.") && e.isGrid(fr.info.TypeOf(ix.X)) {
				out[k] = true
			}
		}
	}
	ast.Inspect(fi.Decl.Body, func(n ast.Node) bool {
		switch s := n.(type) {
		case *ast.AssignStmt:
			for _, l := range s.Lhs {
				rec(l)
			}
		case *ast.IncDecStmt:
			rec(s.X)
		case *ast.CallExpr:
			if dst := e.c05CopyDst(fr.info, s); dst != nil {
				if k := e.pathKey(fr, dst); strings.HasPrefix(k, "@.") {
					out[k] = true // rows are replaced
				}
			}
			if fn := calleeOf(fr.info, s); fn != nil {
				if cf := e.c.P.FuncOfObj(fn); cf != nil && cf.Pkg == e.pk && cf != fi {
					for k := range e.storesOf(cf) {
						out[k] = true
					}
				}
			}
		}
		return true
	})
	return out
}

// directStores: receiver-rooted keys assigned in the function's own body.
func (e *c05Eng) directStores(fi *FuncInfo) map[string]bool {
	out := map[string]bool{}
	if fi.Decl.Body == nil {
		return out
	}
	fr := &c05Frame{fi: fi, pkg: fi.Pkg, info: fi.Pkg.TypesInfo}
	fr.recv = e.recvOf(fi)
	fr.recvAt = fr.recv != nil
	rec := func(lhs ast.Expr) {
		for _, k := range e.aliasKeys(fr, lhs) {
			if strings.HasPrefix(k, "@.") {
				out[k] = true
			}
		}
		if k := e.pathKey(fr, lhs); strings.HasPrefix(k, "@.") {
			out[k] = true
		} else if ix, ok := unparen(lhs).(*ast.IndexExpr); ok {
			if k := e.pathKey(fr, ix.X); strings.HasPrefix(k, "@.") && e.isGrid(fr.info.TypeOf(ix.X)) {
				out[k] = true
			}
		}
	}
	ast.Inspect(fi.Decl.Body, func(n ast.Node) bool {
		switch s := n.(type) {
		case *ast.AssignStmt:
			for _, l := range s.Lhs {
				rec(l)
			}
		case *ast.IncDecStmt:
			rec(s.X)
		case *ast.CallExpr:
			if dst := e.c05CopyDst(fr.info, s); dst != nil {
				if k := e.pathKey(fr, dst); strings.HasPrefix(k, "@.") {
					out[k] = true // rows are replaced
				}
			}
		}
		return true
	})
	return out
}

func c05Relevant(stores map[string]bool, base string) bool {
	for k := range stores {
		if k == base || strings.HasPrefix(base, k+".") {
			return true
		}
	}
	return false
}

// geoParams: for a function that allocates a screen with parameter-given size,
// the parameters that become ROWS and COLS.
func (e *c05Eng) geoParams(fi *FuncInfo) (rows, cols types.Object) {
	if fi.Decl.Body == nil {
		return nil, nil
	}
	info := fi.Pkg.TypesInfo
	params := map[types.Object]bool{}
	for _, f := range fi.Decl.Type.Params.List {
		for _, n := range f.Names {
			params[info.Defs[n]] = true
		}
	}
	ast.Inspect(fi.Decl.Body, func(n ast.Node) bool {
		as, ok := n.(*ast.AssignStmt)
		if !ok || len(as.Lhs) != 1 || len(as.Rhs) != 1 {
			return true
		}
		call, ok := unparen(as.Rhs[0]).(*ast.CallExpr)
		if !ok || len(call.Args) < 2 {
			return true
		}
		if id, ok := call.Fun.(*ast.Ident); !ok || id.Name != "make" {
			return true
		}
		id, ok := unparen(call.Args[1]).(*ast.Ident)
		if !ok || !params[info.ObjectOf(id)] {
			return true
		}
		t := info.TypeOf(as.Lhs[0])
		if e.isGrid(t) {
			rows = info.ObjectOf(id)
		} else if e.isRow(t) {
			cols = info.ObjectOf(id)
		}
		return true
	})
	return
}

func (e *c05Eng) isGeoSetter(fi *FuncInfo, seen map[*FuncInfo]bool) bool {
	if seen[fi] || fi.Decl.Body == nil {
		return false
	}
	seen[fi] = true
	if r, _ := e.geoParams(fi); r != nil {
		return true
	}
	found := false
	info := fi.Pkg.TypesInfo
	ast.Inspect(fi.Decl.Body, func(n ast.Node) bool {
		if call, ok := n.(*ast.CallExpr); ok && !found {
			if fn := calleeOf(info, call); fn != nil {
				if cf := e.c.P.FuncOfObj(fn); cf != nil && cf.Pkg == e.pk && e.isGeoSetter(cf, seen) {
					found = true
				}
			}
		}
		return !found
	})
	return found
}

// ---------------------------------------------------------------- fixpoint

type c05Res struct {
	exit *c05State
	ret  *c05Val
}

func (e *c05Eng) retKey(fr *c05Frame) string {
	k := fmt.Sprintf("ret:%p", fr)
	e.disp[k] = "result of " + fr.fi.Name
	return k
}

func (e *c05Eng) run(fr *c05Frame, entry *c05State) *c05State {
	g := fr.g
	if g == nil || len(g.Blocks) == 0 {
		return entry
	}
	in := map[*cfg.Block]*c05State{}
	sigs := map[*cfg.Block]string{}
	done := map[*cfg.Block]bool{}
	edges := map[*cfg.Block][]*c05State{}
	visits := map[*cfg.Block]int{}
	order := map[*cfg.Block]int{}
	for i, b := range g.Blocks {
		order[b] = i
	}
	_ = order
	// loop heads: targets of DFS back edges
	heads := map[*cfg.Block]bool{}
	{
		state := map[*cfg.Block]int{}
		var dfs func(b *cfg.Block)
		dfs = func(b *cfg.Block) {
			state[b] = 1
			for _, s := range b.Succs {
				switch state[s] {
				case 0:
					dfs(s)
				case 1:
					heads[s] = true
				}
			}
			state[b] = 2
		}
		dfs(g.Blocks[0])
	}
	hasBack := func(b *cfg.Block) bool { return heads[b] }
	saved := e.hooks
	e.hooks = nil
	wasEmitting := e.emitting
	e.emitting = false
	changed := true
	for iter := 0; changed && iter < 60; iter++ {
		changed = false
		for _, b := range g.Blocks {
			var st *c05State
			if b == g.Blocks[0] {
				st = entry.clone()
			}
			first := st == nil
			for _, p := range g.preds[b] {
				for i, s := range p.Succs {
					if s != b || edges[p] == nil || edges[p][i] == nil {
						continue
					}
					if first {
						st = edges[p][i].clone()
						first = false
					} else {
						st = e.join(st, edges[p][i], false)
					}
				}
			}
			if st == nil {
				continue
			}
			if done[b] && visits[b] > 3 && hasBack(b) {
				st = e.join(in[b], st, true)
			}
			sg := st.sig()
			if done[b] && sg == sigs[b] {
				continue
			}
			visits[b]++
			in[b], sigs[b], done[b] = st, sg, true
			changed = true
			edges[b] = e.block(fr, b, st.clone(), false)
		}
	}
	e.hooks = saved
	e.emitting = wasEmitting
	// final pass with hooks, collecting exits
	useHooks := fr.top && len(e.hooks) > 0
	if !fr.top && wasEmitting && e.ctx[fr.fi] && len(e.ctxHooks) > 0 {
		useHooks = true
		e.hooks = e.ctxHooks
	}
	defer func() { e.hooks = saved }()
	var exit *c05State
	firstExit := true
	for _, b := range g.Blocks {
		if !done[b] {
			continue
		}
		outs := e.block(fr, b, in[b].clone(), useHooks)
		if len(b.Succs) == 0 && g.isNormalExit(b) && len(outs) == 1 && outs[0] != nil {
			if firstExit {
				exit = outs[0]
				firstExit = false
			} else {
				exit = e.join(exit, outs[0], false)
			}
		}
	}
	return exit
}

// block processes the nodes of b from st and returns the state on each successor edge
// (or a single state for an exit block).
func (e *c05Eng) block(fr *c05Frame, b *cfg.Block, st *c05State, hooks bool) []*c05State {
	saved := e.hooks
	wasEmitting := e.emitting
	e.emitting = hooks
	defer func() { e.emitting = wasEmitting }()
	for _, n := range b.Nodes {
		if hooks {
			for _, h := range saved {
				e.hooks = nil
				h(e, fr, n, st)
			}
		}
		e.hooks = nil
		dead := e.transfer(fr, st, n)
		e.hooks = saved
		if dead {
			out := make([]*c05State, len(b.Succs))
			if len(b.Succs) == 0 {
				return []*c05State{nil}
			}
			return out
		}
	}
	e.hooks = saved
	if len(b.Succs) == 0 {
		return []*c05State{st}
	}
	if len(b.Succs) == 1 {
		return []*c05State{st}
	}
	out := make([]*c05State, len(b.Succs))
	if b.Kind == cfg.KindRangeLoop {
		if rs, ok := b.Stmt.(*ast.RangeStmt); ok {
			body := st.clone()
			e.bindRange(fr, body, rs)
			out[0], out[1] = body, st
			return out
		}
	}
	saved = e.hooks
	e.hooks = nil
	defer func() { e.hooks = saved }()
	if cd := fr.g.BranchCond(b); cd != nil {
		if cd.Tag != nil {
			out[0] = e.assumeCmp(fr, st.clone(), cd.Tag, token.EQL, cd.Expr)
			out[1] = e.assumeCmp(fr, st, cd.Tag, token.NEQ, cd.Expr)
		} else {
			out[0] = e.assume(fr, st.clone(), cd.Expr, true)
			out[1] = e.assume(fr, st, cd.Expr, false)
		}
		e.purgeTemps(out[0])
		e.purgeTemps(out[1])
		return out
	}
	for i := range out {
		out[i] = st.clone()
	}
	return out
}

func (e *c05Eng) bindRange(fr *c05Frame, st *c05State, rs *ast.RangeStmt) {
	if rs.Key != nil {
		if k := e.pathKey(fr, rs.Key); k != "" {
			xt := fr.info.TypeOf(rs.X)
			e.kill(st, k)
			v := c05Top()
			if xt != nil {
				switch xt.Underlying().(type) {
				case *types.Slice, *types.Array, *types.Basic:
					v.addLo("", 0)
					if _, isSl := xt.Underlying().(*types.Slice); isSl {
						ll := e.canon(st, e.lenLin(fr, st, rs.X))
						lv := e.evalLin(st, ll)
						for s, kk := range lv.hi {
							v.addHi(s, kk-1)
						}
						// key <= len(X)-1 relative to the length itself (as the condition of the equivalent
						// `for i := 0; i < len(X); i++` would record): inside the body len(X) >= 1
						if len(ll.t) == 1 {
							for a, cf := range ll.t {
								if cf == 1 && a != k && !c05IsTmp(a) {
									v.addHi(a, ll.k-1)
									defer func() {
										f := c05Atom(k).addScaled(ll, -1)
										f.k += 1
										st.facts = c05AddFact(st.facts, f)
									}()
								}
							}
						}
					} else if isIntType(xt) { // range over int
						lv := e.evalLin(st, e.linOf(fr, st, rs.X))
						for s, kk := range lv.hi {
							v.addHi(s, kk-1)
						}
					}
				}
			}
			st.env[k] = v
		}
	}
	if rs.Value != nil {
		if k := e.pathKey(fr, rs.Value); k != "" {
			e.kill(st, k)
			if len(e.elemAll) > 0 {
				if xk := e.pathKey(fr, rs.X); xk != "" {
					if _, ok := e.elemAll[xk]; ok {
						if e.elemOf == nil {
							e.elemOf = map[string]string{}
						}
						e.elemOf[k] = xk
					}
				}
			}
			// element of the ranged slice: type-based default via a synthetic index expression
			d := e.typeDefault(fr, &ast.IndexExpr{X: rs.X, Index: &ast.BasicLit{Kind: token.INT, Value: "0"}})
			if t := fr.info.TypeOf(rs.Value); t != nil && isIntType(t) && len(d.lo) > 0 {
				st.env[k] = d
			}
			// for _, line := range <screen>: len(line) is the screen's row length
			if e.isGrid(fr.info.TypeOf(rs.X)) {
				if xk := e.pathKey(fr, c05StripSlices(rs.X)); xk != "" {
					lv := e.evalLin(st, c05Atom(e.derived("rowlen:", xk)))
					lk := e.derived("len:", k)
					delete(lv.lo, lk)
					delete(lv.hi, lk)
					st.env[lk] = lv
				}
			}
		}
	}
}

func c05IsTmp(k string) bool { return len(k) >= 2 && k[0] == 't' && k[1] >= '0' && k[1] <= '9' }

// purgeTemps forgets the temporaries of expression evaluation (results of inlined calls, min/max);
// nothing after the current node can refer to them.
func (e *c05Eng) purgeTemps(st *c05State) {
	if st == nil || st.env == nil {
		return
	}
	for k, v := range st.env {
		if c05IsTmp(k) {
			delete(st.env, k)
			continue
		}
		for s := range v.lo {
			if c05IsTmp(s) {
				delete(v.lo, s)
			}
		}
		for s := range v.hi {
			if c05IsTmp(s) {
				delete(v.hi, s)
			}
		}
	}
	n := 0
	for _, f := range st.facts {
		keep := true
		for a := range f.t {
			if c05IsTmp(a) {
				keep = false
			}
		}
		if keep {
			n++
		}
	}
	if n != len(st.facts) {
		var fs []c05Lin
		for _, f := range st.facts {
			keep := true
			for a := range f.t {
				if c05IsTmp(a) {
					keep = false
				}
			}
			if keep {
				fs = append(fs, f)
			}
		}
		st.facts = fs
	}
}

// transfer applies one CFG node; returns true when control does not continue.
func (e *c05Eng) transfer(fr *c05Frame, st *c05State, n ast.Node) bool {
	defer e.purgeTemps(st)
	defer e.copyIntoGrid(fr, st, n)
	e.enterCtxCalls(fr, st, n)
	switch s := n.(type) {
	case *ast.AssignStmt:
		switch {
		case s.Tok == token.ASSIGN || s.Tok == token.DEFINE:
			if len(s.Lhs) == len(s.Rhs) {
				for i := range s.Lhs {
					if id, ok := s.Lhs[i].(*ast.Ident); ok && id.Name == "_" {
						continue
					}
					e.assignExpr(fr, st, s.Lhs[i], s.Rhs[i], fr.info.TypeOf(s.Rhs[i]))
				}
			} else {
				if call, ok := unparen(s.Rhs[0]).(*ast.CallExpr); ok {
					e.callStmt(fr, st, call)
				}
				for _, l := range s.Lhs {
					if k := e.pathKey(fr, l); k != "" {
						e.kill(st, k)
					}
				}
			}
		case s.Tok == token.ADD_ASSIGN || s.Tok == token.SUB_ASSIGN:
			e.killAliases(fr, st, s.Lhs[0])
			if k := e.pathKey(fr, s.Lhs[0]); k != "" && isIntegerExpr(fr.info, s.Lhs[0]) {
				sign := int64(1)
				if s.Tok == token.SUB_ASSIGN {
					sign = -1
				}
				l := e.linOf(fr, st, s.Lhs[0]).addScaled(e.linOf(fr, st, s.Rhs[0]), sign)
				e.assignLin(st, k, l)
			}
		case s.Tok == token.MUL_ASSIGN:
			e.killAliases(fr, st, s.Lhs[0])
			if k := e.pathKey(fr, s.Lhs[0]); k != "" && isIntegerExpr(fr.info, s.Lhs[0]) {
				if c, ok := constInt(fr.info, s.Rhs[0]); ok {
					e.assignLin(st, k, c05Const(0).addScaled(e.linOf(fr, st, s.Lhs[0]), c))
				} else {
					e.kill(st, k)
				}
			}
		default:
			e.killAliases(fr, st, s.Lhs[0])
			if k := e.pathKey(fr, s.Lhs[0]); k != "" {
				e.kill(st, k)
			}
		}
	case *ast.IncDecStmt:
		e.killAliases(fr, st, s.X)
		if k := e.pathKey(fr, s.X); k != "" && isIntegerExpr(fr.info, s.X) {
			d := int64(1)
			if s.Tok == token.DEC {
				d = -1
			}
			l := e.linOf(fr, st, s.X)
			l.k += d
			e.assignLin(st, k, l)
		}
	case *ast.ValueSpec:
		for i, name := range s.Names {
			if name.Name == "_" {
				continue
			}
			var rhs ast.Expr
			if i < len(s.Values) {
				rhs = s.Values[i]
			}
			e.assignExpr(fr, st, name, rhs, fr.info.TypeOf(name))
		}
	case *ast.DeclStmt:
		if gd, ok := s.Decl.(*ast.GenDecl); ok {
			for _, sp := range gd.Specs {
				if vs, ok := sp.(*ast.ValueSpec); ok {
					e.transfer(fr, st, vs)
				}
			}
		}
	case *ast.ExprStmt:
		if call, ok := unparen(s.X).(*ast.CallExpr); ok {
			return e.callStmt(fr, st, call)
		}
	case *ast.ReturnStmt:
		if len(s.Results) >= 1 && isIntegerExpr(fr.info, s.Results[0]) {
			e.assignLin(st, e.retKey(fr), e.linOf(fr, st, s.Results[0]))
			fr.hasRet = true
		}
	}
	return false
}

// callStmt handles a call evaluated for its effects. Returns true if the callee never returns.
func (e *c05Eng) callStmt(fr *c05Frame, st *c05State, call *ast.CallExpr) bool {
	fn := calleeOf(fr.info, call)
	if fn == nil {
		return false
	}
	fi := e.c.P.FuncOfObj(fn)
	if fi == nil || fi.Pkg != e.pk || fi.Decl.Body == nil {
		return false
	}
	rv := e.inlineCall(fr, st, call, fi, false)
	_ = rv
	return st.env == nil
}

// inlineCall analyses the callee from the current state and installs its exit state in st.
// It returns the bounds of the (first) result, or nil.
func (e *c05Eng) inlineCall(fr *c05Frame, st *c05State, call *ast.CallExpr, fi *FuncInfo, wantValue bool) *c05Val {
	cf := e.newFrame(fi, false)
	summarise := false
	recvOK := true
	if idx, _ := e.modelParam(fi); cf.recv != nil && idx >= 0 {
		if idx >= len(call.Args) || e.pathKey(fr, call.Args[idx]) != "@" {
			summarise = true
			recvOK = false
		}
	} else if cf.recv != nil {
		sel, ok := unparen(call.Fun).(*ast.SelectorExpr)
		if !ok || e.pathKey(fr, sel.X) != "@" {
			summarise = true
			recvOK = false
		}
	} else if fi.Decl.Recv != nil {
		return nil // method of another type: no tracked effects (erase, rune, ...)
	}
	if _, no := e.noInline[fi.Name]; no {
		summarise = true
	}
	for _, s := range e.stack {
		if s == fi {
			summarise = true
		}
	}
	if len(e.stack) > 10 {
		summarise = true
	}
	if e.summariseAll && len(e.storesOf(fi)) > 0 {
		summarise = true
	}
	if e.ctx[fi] && recvOK {
		summarise = false
		for _, s := range e.stack {
			if s == fi {
				summarise = true
			}
		}
	}
	if !wantValue && len(e.storesOf(fi)) == 0 && !(e.ctx[fi] && e.emitting) {
		return nil // no receiver field is assigned (directly or transitively): nothing tracked changes
	}
	if !summarise && e.isGeoSetter(fi, map[*FuncInfo]bool{}) && !e.sameGeometryCaller(fr) {
		e.geoCall(st)
		return nil
	}
	if summarise {
		e.havocCall(st, fi)
		return nil
	}
	// bind parameters
	i := 0
	for _, f := range fi.Decl.Type.Params.List {
		for _, nme := range f.Names {
			if i >= len(call.Args) {
				break
			}
			arg := call.Args[i]
			i++
			pobj := cf.info.Defs[nme]
			if pobj == nil || nme.Name == "_" || pobj == cf.recv {
				continue
			}
			pk := fmt.Sprintf("v%p", pobj)
			e.disp[pk] = nme.Name
			pt := pobj.Type()
			switch {
			case isIntType(pt):
				// keeps the relation to the argument expression (pk == row+r) as facts
				e.assignLin(st, pk, e.linOf(fr, st, arg))
			case isStructType(pt):
				if ak := e.pathKey(fr, arg); ak != "" {
					for _, s := range c05IntLeaves(pt, 0) {
						v := e.valOf(st, ak+s)
						e.disp[pk+s] = nme.Name + s
						e.addDep(pk+s, pk)
						st.env[pk+s] = v
					}
				}
			case isSliceType(pt):
				ll := e.evalLin(st, e.lenLin(fr, st, arg))
				st.env[e.derived("len:", pk)] = ll
				if e.isGrid(pt) {
					if ak := e.pathKey(fr, arg); ak != "" {
						st.env[e.derived("rowlen:", pk)] = e.evalLin(st, c05Atom(e.derived("rowlen:", ak)))
					}
				}
			}
		}
	}
	e.stack = append(e.stack, fi)
	exit := e.run(cf, st)
	e.stack = e.stack[:len(e.stack)-1]
	if exit == nil {
		st.env = nil
		st.facts = nil
		return nil
	}
	var rv *c05Val
	if cf.hasRet {
		rk := e.retKey(cf)
		if v, ok := exit.env[rk]; ok {
			rv = v.clone()
			delete(exit.env, rk)
		} else {
			rv = c05Top()
		}
	}
	st.env, st.facts = exit.env, exit.facts
	return rv
}

// sameGeometryCaller: a geometry setter analysed on its own keeps inlining its own callees.
func (e *c05Eng) sameGeometryCaller(fr *c05Frame) bool {
	if len(e.stack) == 0 {
		return false
	}
	r, _ := e.geoParams(e.stack[0])
	return r != nil
}

// havocCall: the callee is assumed to preserve INV (it is checked on its own or is a listed exception):
// what it may store is set to its INV range if INV holds before the call, and forgotten otherwise.
func (e *c05Eng) havocCall(st *c05State, fi *FuncInfo) {
	stores := e.storesOf(fi)
	invOK := true
	for _, g := range e.goals() {
		if v, ok := st.env[g.key]; ok && v.bot {
			continue // no row allocated on this path (zero-iteration prefix of the allocation loop): vacuous
		}
		if !e.holds(st, g) {
			invOK = false
			if os.Getenv("C05_DEBUG") != "" {
				fmt.Printf("DEBUG havoc %s (analysing %s): INV goal %q does not hold before the call: %s raw=%v\n", fi.Name, e.stack[0].Name, g.what, e.showVal(e.valOf(st, g.key)), st.env[g.key])
			}
			break
		}
	}
	inv := e.invState(true)
	for k := range stores {
		e.kill(st, k)
	}
	if !invOK {
		return
	}
	for k, v := range inv.env {
		base := strings.TrimPrefix(strings.TrimPrefix(k, "len:"), "rowlen:")
		if c05Relevant(stores, base) {
			// relational INV bounds (top<=bottom) only when both ends are re-established
			st.env[k] = v.clone()
		}
	}
}

// geoCall: the callee changes the geometry; ROWS/COLS are rebound, INV holds for the new geometry.
func (e *c05Eng) geoCall(st *c05State) {
	inv := e.invState(true)
	for k, v := range st.env {
		if _, ok := inv.env[k]; ok {
			continue
		}
		for s := range v.lo {
			if c05IsGeo(s) || strings.HasPrefix(s, "@") || strings.Contains(s, ":@") {
				delete(v.lo, s)
			}
		}
		for s := range v.hi {
			if c05IsGeo(s) || strings.HasPrefix(s, "@") || strings.Contains(s, ":@") {
				delete(v.hi, s)
			}
		}
	}
	st.facts = nil
	delete(st.env, "ROWS")
	delete(st.env, "COLS")
	for k, v := range inv.env {
		st.env[k] = v.clone()
	}
}

// entryState: INV plus the parameter assumptions for a function analysed on its own.
func (e *c05Eng) entryState(fr *c05Frame) *c05State {
	rowsP, colsP := e.geoParams(fr.fi)
	st := e.invState(rowsP == nil)
	for _, f := range fr.fi.Decl.Type.Params.List {
		for _, nme := range f.Names {
			pobj := fr.info.Defs[nme]
			if pobj == nil {
				continue
			}
			pk := fmt.Sprintf("v%p", pobj)
			e.disp[pk] = nme.Name
			switch {
			case pobj == rowsP:
				st.env[pk] = c05Exact("ROWS", 0)
			case pobj == colsP:
				st.env[pk] = c05Exact("COLS", 0)
			case e.isCountType(pobj.Type()):
				st.env[pk] = c05Top()
				if !c05SelectorParam(fr.fi, pobj) { // a selector (switch tag / compared with constants only) is not a count: nothing assumed (c05sign.go)
					st.env[pk].addLo("", 0)
				}
			}
		}
	}
	return st
}

// analyse runs a function on its own from INV (or from a prepared entry state) with the hooks armed.
func (e *c05Eng) analyse(fi *FuncInfo, prep func(fr *c05Frame, st *c05State)) (*c05Frame, *c05State) {
	fr := e.newFrame(fi, true)
	st := e.entryState(fr)
	if prep != nil {
		prep(fr, st)
	}
	e.stack = []*FuncInfo{fi}
	exit := e.run(fr, st)
	e.stack = nil
	return fr, exit
}

// ---------------------------------------------------------------- C05 rules

func init() { register("C05", false, runC05) }

const c05PrintName = "widgets/term.(*Model).print"

func c05Engine(c *Ctx) *c05Eng {
	e := newC05Eng(c)
	e.noInline[c05PrintName] = "print is checked on its own; its callers use its INV summary"
	return e
}

func runC05(c *Ctx) {
	c.Clauses = []string{
		"C05.a events: no blocking send on Model.events from the goroutine that is its only receiver; no blocking host query while vt.mu is held",
		"C05.b every function of widgets/term that stores cursor.row/col, margin.*, saved cursors or tab stops re-establishes INV (0<=row<=ROWS-1, 0<=col<=COLS, 0<=top<=bottom<=ROWS-1, left==0, right==COLS-1, saved/tab stops >= 0) at exit, assuming INV at entry; int arguments passed to handlers are >= 0",
		"C05.c a function that allocates the screens with parameter-given size re-establishes all of INV for the new geometry; both screens get ROWS rows of COLS cells",
		"C05.d CSI parameter accumulation cannot overflow: parameters are non-negative",
		"C05.e Draw touches the host only through its Window (SetCell/ShowCursor/New/Size) and image objects",
		"C05.f the PTY goroutine defers a recover handler that reports and closes",
		"C05.g every index into a screen ([][]cell) or row ([]cell) is within [0,ROWS-1] / [0,COLS-1]",
		"C05.k every loop whose bound is a sequence parameter is limited by a screen dimension at its head or leaves early under a test of its own (no hours-long repeat count)",
		"C05.h the host handle vt.vx is dereferenced only under a nil test",
		c05pClause,
	}
	c.NotDec = []string{
		"panics inside sgr parameter indexing (C18.e), third-party sixel decoding, and the host application's event handler",
		"termination of loops; liveness beyond the two wait-for shapes of C05.a",
	}
	c.Assume = append(c.Assume, "terminal sizes are at least 1x1 (ROWS>=1, COLS>=1)", "ansi.Print.Width >= 0 (computed by uniseg)", "bytes stored by the parser action `param` are digits, ';' or ':' (C02 transition table)")
	defer debug.SetGCPercent(debug.SetGCPercent(1000)) // the engine allocates many small maps next to a large, static program
	c05Normalise(c)
	e := c05Engine(c)
	if e.pk == nil || e.model == nil || e.cellT == nil {
		c.undecided("C05.b", "widgets/term", 0, "package widgets/term, type Model or type cell not found")
		return
	}
	c05RuleInvariant(c, e)
	c05RuleEvents(c, e)
	c05RuleParams(c)
	c05RuleDraw(c, e)
	c05RuleRecover(c, e)
	c05RuleVx(c, e)
	c05Debug(c)
}

func c05Debug(c *Ctx) {
	if os.Getenv("C05_DEBUG") == "" {
		return
	}
	for _, o := range c.Obs {
		fmt.Printf("OBS %-10s %s  [%s] %s\n", o.Status, o.Key, o.Pos, o.Reason)
	}
}

// c05Funcs: the functions worth analysing (they store INV fields, index a grid, or call such functions).
func c05Funcs(c *Ctx, e *c05Eng) []*FuncInfo {
	goals := e.goals()
	all := c05LiveFuncs(c, e, c.P.FuncsIn("widgets/term"))
	want := map[*FuncInfo]bool{}
	// functions whose own code matters: they store INV fields, index a screen, or append tab stops
	for _, fi := range all {
		if fi.Decl.Body == nil {
			continue
		}
		info := fi.Pkg.TypesInfo
		w := false
		for _, g := range goals {
			if c05Relevant(e.storesOf(fi), g.base) {
				w = true
			}
		}
		ast.Inspect(fi.Decl.Body, func(n ast.Node) bool {
			switch x := n.(type) {
			case *ast.IndexExpr:
				if t := info.TypeOf(x.X); e.isGrid(t) || e.isRow(t) {
					w = true
				}
			case *ast.SliceExpr:
				if t := info.TypeOf(x.X); e.isGrid(t) || e.isRow(t) {
					w = true
				}
			case *ast.CallExpr:
				if id, ok := x.Fun.(*ast.Ident); ok && id.Name == "append" && len(x.Args) >= 2 {
					if sl, ok := info.TypeOf(x.Args[0]).Underlying().(*types.Slice); ok && e.colT != nil && types.Identical(sl.Elem(), e.colT) {
						w = true // tab stops
					}
				}
			}
			return !w
		})
		if w {
			want[fi] = true
		}
	}
	// and their callers, when they hand them a count (the callee's proof assumes it is >= 0)
	for changed := true; changed; {
		changed = false
		for _, fi := range all {
			if fi.Decl.Body == nil || want[fi] {
				continue
			}
			info := fi.Pkg.TypesInfo
			w := false
			ast.Inspect(fi.Decl.Body, func(n ast.Node) bool {
				if x, ok := n.(*ast.CallExpr); ok {
					if fn := calleeOf(info, x); fn != nil {
						if cf := c.P.FuncOfObj(fn); cf != nil && cf.Pkg == e.pk && want[cf] {
							sig := fn.Type().(*types.Signature)
							for i := 0; i < sig.Params().Len(); i++ {
								if e.isCountType(sig.Params().At(i).Type()) {
									w = true
								}
							}
						}
					}
				}
				return !w
			})
			if w {
				want[fi] = true
				changed = true
			}
		}
	}
	e.wanted = want
	var out []*FuncInfo
	for _, fi := range all {
		if want[fi] {
			out = append(out, fi)
		}
	}
	return out
}

func c05ShortFn(fi *FuncInfo) string { return fi.Name }

// isCountType: int, or an integer type declared in widgets/term (row, column).
func (e *c05Eng) isCountType(t types.Type) bool {
	if !isIntType(t) {
		return false
	}
	if b, ok := t.(*types.Basic); ok {
		return b.Kind() == types.Int
	}
	if n, ok := t.(*types.Named); ok {
		return n.Obj().Pkg() == e.pk.Types
	}
	return false
}

func c05RuleInvariant(c *Ctx, e *c05Eng) {
	// grid accesses inside function literals are not analysed: say so loudly
	for _, fi := range c.P.FuncsIn("widgets/term") {
		if fi.Decl.Body == nil {
			continue
		}
		info := fi.Pkg.TypesInfo
		ast.Inspect(fi.Decl.Body, func(n ast.Node) bool {
			lit, ok := n.(*ast.FuncLit)
			if !ok {
				return true
			}
			ast.Inspect(lit.Body, func(m ast.Node) bool {
				if ix, ok := m.(*ast.IndexExpr); ok {
					if t := info.TypeOf(ix.X); e.isGrid(t) || e.isRow(t) {
						c.undecided("C05.g", fmt.Sprintf("%s/function literal indexes %s", fi.Name, types.ExprString(ix)), ix.Pos(), "a screen is indexed inside a function literal, which the engine does not enter")
					}
				}
				if sx, ok := m.(*ast.SliceExpr); ok {
					if t := info.TypeOf(sx.X); e.isGrid(t) || e.isRow(t) {
						c.undecided("C05.p", fmt.Sprintf("%s/function literal slices %s", fi.Name, types.ExprString(sx)), sx.Pos(), "a screen is sliced inside a function literal, which the engine does not enter")
					}
				}
				return true
			})
			return false
		})
	}
	c.expect("C05.b", 30)
	c.expect("C05.c", 10)
	c.expect("C05.g", 40)
	c.expect("C05.k", 4) // cursor-motion / repeat loops; the cell loops of ICH/ECH/IL may as well be written as copy/clear/range over a window (C05.p)
	c.expect("C05.p", 1)
	goals := e.goals()
	// Every function is first checked on its own (INV at entry, parameters >= 0). A helper whose
	// proof needs what only its callers know (an extracted loop body taking a row, ...) is then
	// checked in the context of each caller instead; if that fails as well, the stand-alone
	// verdict is what is reported (stable keys).
	standalone := c05InvRound(c, e, goals, map[*FuncInfo]bool{})
	recs := standalone
	failKeys := func(rs []c05Rec) map[string]bool {
		m := map[string]bool{}
		for _, r := range rs {
			if !r.ok {
				m[r.rule+"/"+r.key] = true
			}
		}
		return m
	}
	fail0 := failKeys(standalone)
	var cands []*FuncInfo
	seenCand := map[*FuncInfo]bool{}
	for _, r := range standalone {
		if !r.ok && !seenCand[r.owner] && c05CtxEligible(c, e, r.owner) {
			seenCand[r.owner] = true
			cands = append(cands, r.owner)
		}
	}
	// a helper is rescued if, checked inside its callers (and, where needed, their callers), no
	// failure appears that the stand-alone round did not already have elsewhere — and every construct
	// of it that failed stand-alone was indeed judged again inside a caller (a helper the engine
	// does not enter where it is called is not rescued by silence)
	judgedInCtx := func(rs []c05Rec, cset map[*FuncInfo]bool) bool {
		seen := map[string]bool{}
		for _, r := range rs {
			if r.ctx != nil {
				seen[fmt.Sprintf("%s@%d", r.rule, r.pos)] = true
			}
		}
		for _, r := range standalone {
			if !r.ok && r.site && cset[r.owner] && !seen[fmt.Sprintf("%s@%d", r.rule, r.pos)] {
				return false
			}
		}
		return true
	}
	final := map[*FuncInfo]bool{}
	for _, f := range cands {
		if len(cands) > 6 {
			break // a tree this broken is reported as it stands
		}
		cset := map[*FuncInfo]bool{f: true}
		for depth := 0; depth < 3; depth++ {
			rs := c05InvRound(c, e, goals, cset)
			var fresh []c05Rec
			for _, r := range rs {
				if !r.ok && !fail0[r.rule+"/"+r.key] {
					fresh = append(fresh, r)
				}
			}
			if os.Getenv("C05_DEBUG") != "" {
				for m := range cset {
					fmt.Printf("DEBUG contextual attempt for %s: %s in context, %d new failures\n", f.Name, m.Name, len(fresh))
				}
			}
			if len(fresh) == 0 {
				if judgedInCtx(rs, cset) {
					for m := range cset {
						final[m] = true
					}
				}
				break
			}
			grew := false
			for _, r := range fresh {
				cand := r.owner
				if r.ctx != nil {
					cand = r.ctx
				}
				if !cset[cand] && c05CtxEligible(c, e, cand) && c05PackageCalls(c, e, cand) <= 12 {
					cset[cand] = true
					grew = true
				}
			}
			if !grew {
				break
			}
		}
	}
	if len(final) > 0 {
		rs := c05InvRound(c, e, goals, final)
		okAll := true
		for k := range failKeys(rs) {
			if !fail0[k] {
				okAll = false
			}
		}
		if okAll && judgedInCtx(rs, final) {
			recs = rs
		}
	}
	fields := map[string]bool{}
	setters, grids, slices := 0, 0, 0
	for _, r := range recs {
		if r.ok {
			c.ok(r.rule, r.key, r.pos, "%s", r.msg)
		} else {
			c.bad(r.rule, r.key, r.pos, "%s", r.msg)
		}
		for _, f := range []string{"cursor.row", "cursor.col", "margin.top", "margin.bottom"} {
			if r.rule != "C05.g" && strings.Contains(r.key, "/"+f+" ") {
				fields[f] = true
			}
		}
		if r.rule == "C05.c" {
			setters++
		}
		if r.rule == "C05.g" {
			grids++
		}
		if r.rule == "C05.p" {
			slices++
		}
	}
	// what must exist semantically (instead of brittle instance counts)
	for _, f := range []string{"cursor.row", "cursor.col", "margin.top", "margin.bottom"} {
		if !fields[f] {
			c.undecided("C05.b", "widgets/term/stores of "+f, 0, "no function was found that stores %s: the recogniser lost track of the emulator state", f)
		}
	}
	if setters == 0 {
		c.undecided("C05.c", "widgets/term/geometry setter", 0, "no function allocating the screens from its parameters was found")
	}
	if grids == 0 {
		c.undecided("C05.g", "widgets/term/grid accesses", 0, "no index into a screen was found")
	}
	if slices == 0 {
		c.okTrivial("C05.p", "widgets/term/slice expressions on screens and rows", 0, "no screen or row is sliced: nothing can fail (every access is an index, C05.g)")
	}
}

type c05Rec struct {
	owner *FuncInfo // function whose code contains the construct / whose exit is checked
	ctx   *FuncInfo // non-nil: checked while inlined into this function
	rule  string
	key   string
	pos   token.Pos
	ok    bool
	msg   string
	site  bool // produced at a construct inside the body (index, window, loop, argument), not at the exit
}

// c05CtxEligible: every use of the function is a direct call from a declared function of the
// package (so the callers' contexts are all the contexts there are).
func c05CtxEligible(c *Ctx, e *c05Eng, fi *FuncInfo) bool {
	if fi == nil || fi.Obj.Exported() || fi.Pkg != e.pk {
		return false
	}
	if r, _ := e.geoParams(fi); r != nil {
		return false
	}
	parents := c.P.Parents(e.pk)
	calls := 0
	ok := true
	for id, obj := range e.pk.TypesInfo.Uses {
		if obj != types.Object(fi.Obj) {
			continue
		}
		// the identifier must be the function part of a call
		var n ast.Node = id
		if sel, isSel := parents[id].(*ast.SelectorExpr); isSel && sel.Sel == id {
			n = sel
		}
		call, isCall := parents[n].(*ast.CallExpr)
		if !isCall || call.Fun != n {
			ok = false
			continue
		}
		inDecl := false
		for cur := ast.Node(call); cur != nil; cur = parents[cur] {
			if _, isLit := cur.(*ast.FuncLit); isLit {
				break
			}
			if _, isGo := cur.(*ast.GoStmt); isGo {
				break
			}
			if _, isDefer := cur.(*ast.DeferStmt); isDefer {
				break
			}
			if _, isDecl := cur.(*ast.FuncDecl); isDecl {
				inDecl = true
				break
			}
		}
		if !inDecl {
			ok = false
		}
		calls++
	}
	return ok && calls > 0
}

// c05PackageCalls: number of calls into the package in the function's body (dispatchers are large).
func c05PackageCalls(c *Ctx, e *c05Eng, fi *FuncInfo) int {
	n := 0
	if fi.Decl.Body == nil {
		return 0
	}
	ast.Inspect(fi.Decl.Body, func(m ast.Node) bool {
		if call, ok := m.(*ast.CallExpr); ok {
			if fn := calleeOf(fi.Pkg.TypesInfo, call); fn != nil {
				if cf := c.P.FuncOfObj(fn); cf != nil && cf.Pkg == e.pk {
					n++
				}
			}
		}
		return true
	})
	return n
}

// effStores: the function's own stores plus those of the contextual helpers it calls.
func (e *c05Eng) effStores(fi *FuncInfo, ctxSet map[*FuncInfo]bool, seen map[*FuncInfo]bool) map[string]bool {
	out := map[string]bool{}
	if seen[fi] || fi.Decl.Body == nil {
		return out
	}
	seen[fi] = true
	for k := range e.directStores(fi) {
		out[k] = true
	}
	info := fi.Pkg.TypesInfo
	ast.Inspect(fi.Decl.Body, func(n ast.Node) bool {
		if call, ok := n.(*ast.CallExpr); ok {
			if fn := calleeOf(info, call); fn != nil {
				if cf := e.c.P.FuncOfObj(fn); cf != nil && ctxSet[cf] {
					for k := range e.effStores(cf, ctxSet, seen) {
						out[k] = true
					}
				}
			}
		}
		return true
	})
	return out
}

// c05InvRound analyses every function not in ctxSet on its own and returns the obligations.
func c05InvRound(c *Ctx, e *c05Eng, goals []c05Goal, ctxSet map[*FuncInfo]bool) []c05Rec {
	var recs []c05Rec
	e.ctx = ctxSet
	defer func() { e.ctx = nil; e.ctxHooks = nil }()
	for _, fi := range c05Funcs(c, e) {
		fi := fi
		if ctxSet[fi] {
			continue
		}
		stores := e.effStores(fi, ctxSet, map[*FuncInfo]bool{})
		invDirect := false
		for _, g := range goals {
			if c05Relevant(stores, g.base) {
				invDirect = true
			}
		}
		rowsP, _ := e.geoParams(fi)
		isSetter := rowsP != nil
		callsSetter := !isSetter && e.isGeoSetter(fi, map[*FuncInfo]bool{})
		// hooks: grid indexes, call arguments, tab-stop appends
		idxHook := func(e *c05Eng, fr *c05Frame, n ast.Node, st *c05State) {
			if st == nil || st.env == nil {
				return
			}
			info := fr.info
			owner := fr.fi
			fn := c05ShortFn(owner)
			var cx *FuncInfo
			if owner != fi {
				cx = fi
				fn = fmt.Sprintf("%s (called from %s)", c05ShortFn(owner), strings.TrimPrefix(c05ShortFn(fi), "widgets/term."))
			}
			add := func(rule, key string, pos token.Pos, ok bool, format string, args ...any) {
				recs = append(recs, c05Rec{owner: owner, ctx: cx, rule: rule, key: key, pos: pos, ok: ok, msg: fmt.Sprintf(format, args...), site: true})
			}
			// C05.k: a loop whose bound is a count parameter is bounded by the screen (or leaves early)
			if cx, isExpr := n.(ast.Expr); isExpr {
				if fs := c05ForCondOf(owner, cx); fs != nil {
					if loopVar, bound := c05CountLoop(e, fr, owner, fs); bound != nil {
						s2 := st.clone()
						b := e.linOf(fr, s2, bound)
						byRows := b.addScaled(c05Atom("ROWS"), -1)
						byRows.k -= 1
						byCols := b.addScaled(c05Atom("COLS"), -1)
						byCols.k -= 1
						key := fmt.Sprintf("%s/loop over %s < %s is bounded by the screen", fn, loopVar, types.ExprString(bound))
						switch {
						case e.prove(s2, byRows) || e.prove(s2, byCols):
							add("C05.k", key, fs.Pos(), true, "the bound %s is %s", e.showLin(b), e.showVal(e.evalLin(s2, b)))
						case c05LoopLeavesEarly(fs):
							add("C05.k", key, fs.Pos(), true, "the bound %s is only limited by the parameter, but the body leaves the loop (break/return) under a test of its own", e.showLin(b))
						default:
							add("C05.k", key, fs.Pos(), false, "the loop runs %s times (%s) with no exit of its own: a sequence with a huge parameter (the parser delivers values up to 2^30) keeps the emulator busy, holding its mutex, for minutes to hours — child output is no longer processed and Draw blocks", e.showLin(b), e.showVal(e.evalLin(s2, b)))
						}
					}
				}
			}
			inspectNoLit(n, func(m ast.Node) bool {
				switch x := m.(type) {
				case *ast.IndexExpr:
					xt := info.TypeOf(x.X)
					grid, row := e.isGrid(xt), e.isRow(xt)
					if !grid && !row {
						return true
					}
					s2 := st.clone()
					idx := e.linOf(fr, s2, x.Index)
					ln := e.canon(s2, e.lenLin(fr, s2, x.X))
					what, lim := "column", "COLS-1"
					if grid {
						what, lim = "row", "ROWS-1"
					}
					if len(ln.t) != 1 || (ln.t["ROWS"] != 1 && ln.t["COLS"] != 1) || ln.k != 0 {
						lim = "len-1"
					}
					ex := types.ExprString(x)
					lo := e.prove(s2, idx.neg())
					up := idx.addScaled(ln, -1)
					up.k += 1
					hi := e.prove(s2, up)
					val := e.showVal(e.evalLin(s2, idx))
					if lo {
						add("C05.g", fmt.Sprintf("%s/%s: %s index >= 0", fn, ex, what), x.Pos(), true, "index %s is %s", e.showLin(idx), val)
					} else {
						add("C05.g", fmt.Sprintf("%s/%s: %s index >= 0", fn, ex, what), x.Pos(), false, "the %s index %s can be negative (bounds: %s): index out of range panic on child output", what, e.showLin(idx), val)
					}
					if hi {
						add("C05.g", fmt.Sprintf("%s/%s: %s index <= %s", fn, ex, what, lim), x.Pos(), true, "index %s is %s, length %s", e.showLin(idx), val, e.showLin(ln))
					} else {
						add("C05.g", fmt.Sprintf("%s/%s: %s index <= %s", fn, ex, what, lim), x.Pos(), false, "the %s index %s is not bounded by the length %s (bounds: %s): index out of range panic on child output", what, e.showLin(idx), e.showLin(ln), val)
					}
				case *ast.SliceExpr:
					c05SliceObligations(e, fr, st, x, fn, add)
				case *ast.CallExpr:
					// append(<[]column>, v): tab stops stay >= 0
					if id, ok := x.Fun.(*ast.Ident); ok && id.Name == "append" && len(x.Args) >= 2 {
						if _, isB := info.Uses[id].(*types.Builtin); isB {
							if sl, ok := info.TypeOf(x.Args[0]).Underlying().(*types.Slice); ok && e.colT != nil && types.Identical(sl.Elem(), e.colT) {
								for _, a := range x.Args[1:] {
									s2 := st.clone()
									l := e.linOf(fr, s2, a)
									key := fmt.Sprintf("%s/tab stop %s >= 0", fn, types.ExprString(a))
									if e.prove(s2, l.neg()) {
										add("C05.b", key, a.Pos(), true, "appended tab stop %s", e.showVal(e.evalLin(s2, l)))
									} else {
										add("C05.b", key, a.Pos(), false, "a tab stop that may be negative is stored (%s): CBT/CHT then move the cursor to a negative column", e.showVal(e.evalLin(s2, l)))
									}
								}
							}
						}
						return true
					}
					// integer arguments of calls into the package are >= 0 (assumed by the callee's own analysis)
					cal := calleeOf(info, x)
					if cal == nil {
						return true
					}
					cf := c.P.FuncOfObj(cal)
					if cf == nil || cf.Pkg != e.pk || ctxSet[cf] || !e.wanted[cf] {
						return true // contextual helpers are checked with the actual arguments; functions that are not analysed assume nothing
					}
					sig := cal.Type().(*types.Signature)
					for i := 0; i < sig.Params().Len() && i < len(x.Args); i++ {
						if !e.isCountType(sig.Params().At(i).Type()) {
							continue
						}
						if e.isGeoSetter(cf, map[*FuncInfo]bool{}) {
							continue // sizes: assumed >= 1 (see assumptions)
						}
						if c05SelectorParam(cf, c06ParamObj(cf, i)) {
							continue // the callee only selects on the value and assumes nothing about its sign (c05sign.go)
						}
						s2 := st.clone()
						l := e.linOf(fr, s2, x.Args[i])
						key := fmt.Sprintf("%s/argument %s of %s >= 0", fn, sig.Params().At(i).Name(), cal.Name())
						if e.prove(s2, l.neg()) {
							add("C05.b", key, x.Args[i].Pos(), true, "argument %s", e.showVal(e.evalLin(s2, l)))
						} else {
							add("C05.b", key, x.Args[i].Pos(), false, "%s is called with an argument that may be negative (%s); its clamps assume a non-negative count", cal.Name(), e.showVal(e.evalLin(s2, l)))
						}
					}
				}
				return true
			})
		}
		t0 := time.Now()
		e.hooks = []c05Hook{idxHook}
		e.ctxHooks = []c05Hook{idxHook}
		if d := os.Getenv("C05_TRACE"); d != "" && strings.HasSuffix(fi.Name, d) {
			e.hooks = append(e.hooks, func(e *c05Eng, fr *c05Frame, n ast.Node, st *c05State) {
				var sb strings.Builder
				for _, k := range strings.Split(os.Getenv("C05_TRACE_KEYS"), ",") {
					fmt.Fprintf(&sb, " %s=%s", k, e.showVal(e.valOf(st, k)))
				}
				txt := fmt.Sprintf("%T", n)
				if ex, ok := n.(ast.Expr); ok {
					txt = types.ExprString(ex)
				}
				fmt.Printf("TRACE %s %s |%s facts=%d\n", c.P.Pos(n.Pos()), txt, sb.String(), len(st.facts))
			})
		}
		e.summariseAll = !invDirect
		_, exit := e.analyse(fi, nil)
		e.summariseAll = false
		e.hooks = nil
		e.ctxHooks = nil
		if os.Getenv("C05_DEBUG") != "" {
			fmt.Printf("DEBUG time %s %v\n", fi.Name, time.Since(t0))
		}
		if !invDirect && !isSetter {
			continue // no stores of its own: INV is inherited from the callees, each checked on its own
		}
		if exit == nil || exit.env == nil {
			continue
		}
		if callsSetter {
			continue
		}
		fn := c05ShortFn(fi)
		doneWhat := map[string]bool{}
		for _, g := range goals {
			if doneWhat[g.what] {
				continue
			}
			doneWhat[g.what] = true
			rule := "C05.b"
			if isSetter {
				rule = "C05.c"
			} else if !c05Relevant(stores, g.base) {
				continue
			}
			key := fmt.Sprintf("%s/%s", fn, g.what)
			if e.holds(exit, g) {
				recs = append(recs, c05Rec{owner: fi, rule: rule, key: key, pos: fi.Decl.Pos(), ok: true, msg: fmt.Sprintf("holds at every exit: %s is %s", e.show(g.key), e.showVal(e.valOf(exit, g.key)))})
			} else {
				recs = append(recs, c05Rec{owner: fi, rule: rule, key: key, pos: fi.Decl.Pos(), ok: false, msg: fmt.Sprintf("%s is not re-established at exit (%s is %s): %s", g.what, e.show(g.key), e.showVal(e.valOf(exit, g.key)), g.fails)})
			}
		}
	}
	return recs
}

// ---------------------------------------------------------------- C05.a events / blocking under the lock

// c05Reach: functions reachable from the given body by static calls, not entering `go` statements.
func c05Reach(p *Program, pk *packages.Package, body ast.Node, seen map[*FuncInfo]bool) {
	var walk func(n ast.Node, info *types.Info)
	walk = func(n ast.Node, info *types.Info) {
		ast.Inspect(n, func(m ast.Node) bool {
			switch t := m.(type) {
			case *ast.GoStmt:
				return false
			case *ast.CallExpr:
				if fn := calleeOf(info, t); fn != nil {
					if fi := p.FuncOfObj(fn); fi != nil && !seen[fi] && fi.Decl.Body != nil {
						seen[fi] = true
						walk(fi.Decl.Body, fi.Pkg.TypesInfo)
					}
				}
			}
			return true
		})
	}
	walk(body, pk.TypesInfo)
}

// c05Blocking lists the channel operations in body that can block indefinitely:
// a send/receive outside a select, or a select with neither default nor a timer/context arm.
func c05Blocking(info *types.Info, parents map[ast.Node]ast.Node, body ast.Node) []ast.Node {
	var out []ast.Node
	inComm := func(n ast.Node) *ast.SelectStmt {
		for cur := parents[n]; cur != nil; cur = parents[cur] {
			switch t := cur.(type) {
			case *ast.CommClause:
				if t.Comm != nil && t.Comm.Pos() <= n.Pos() && n.End() <= t.Comm.End() {
					if sel, ok := parents[parents[t]].(*ast.SelectStmt); ok {
						return sel
					}
				}
				return nil
			case *ast.FuncLit, *ast.FuncDecl:
				return nil
			}
		}
		return nil
	}
	bounded := func(sel *ast.SelectStmt) bool {
		for _, cl := range sel.Body.List {
			cc := cl.(*ast.CommClause)
			if cc.Comm == nil {
				return true // default
			}
			esc := false
			ast.Inspect(cc.Comm, func(m ast.Node) bool {
				if u, ok := m.(*ast.UnaryExpr); ok && u.Op == token.ARROW {
					switch x := unparen(u.X).(type) {
					case *ast.CallExpr:
						if fn := calleeOf(info, x); fn != nil && (fullName(fn) == "time.After" || fn.Name() == "Done") {
							esc = true
						}
					case *ast.SelectorExpr:
						if x.Sel.Name == "C" && typeName(info.TypeOf(x.X)) == "time.Timer" {
							esc = true
						}
					}
				}
				return true
			})
			if esc {
				return true
			}
		}
		return false
	}
	ast.Inspect(body, func(m ast.Node) bool {
		switch t := m.(type) {
		case *ast.GoStmt:
			return false
		case *ast.SendStmt:
			if sel := inComm(t); sel == nil || !bounded(sel) {
				out = append(out, t)
			}
		case *ast.UnaryExpr:
			if t.Op == token.ARROW {
				if sel := inComm(t); sel == nil || !bounded(sel) {
					out = append(out, t)
				}
			}
		case *ast.RangeStmt:
			if _, ok := info.TypeOf(t.X).Underlying().(*types.Chan); ok {
				out = append(out, t)
			}
		}
		return true
	})
	return out
}

func c05RuleEvents(c *Ctx, e *c05Eng) {
	c.expect("C05.a", 3)
	pk := e.pk
	info := pk.TypesInfo
	parents := c.P.Parents(pk)
	mst, _ := e.model.Underlying().(*types.Struct)
	chanFields := map[*types.Var]bool{}
	for i := 0; mst != nil && i < mst.NumFields(); i++ {
		if _, ok := mst.Field(i).Type().Underlying().(*types.Chan); ok {
			chanFields[mst.Field(i)] = true
		}
	}
	fieldOf := func(x ast.Expr) *types.Var {
		sel, ok := unparen(x).(*ast.SelectorExpr)
		if !ok {
			return nil
		}
		s, ok := info.Selections[sel]
		if !ok {
			return nil
		}
		v, _ := s.Obj().(*types.Var)
		if chanFields[v] {
			return v
		}
		return nil
	}
	enclosing := func(n ast.Node) (fd *ast.FuncDecl, goLit *ast.FuncLit) {
		for cur := n; cur != nil; cur = parents[cur] {
			switch t := cur.(type) {
			case *ast.FuncLit:
				if g, ok := parents[parents[t]].(*ast.GoStmt); ok && goLit == nil && g.Call.Fun == t {
					goLit = t
				}
			case *ast.FuncDecl:
				return t, goLit
			}
		}
		return nil, goLit
	}
	// goroutine roots
	type root struct {
		lit   *ast.FuncLit
		named *ast.FuncDecl // `go vt.run()`: the goroutine's body is a declared function of the package
		in    *ast.FuncDecl
		reach map[*FuncInfo]bool
	}
	var roots []*root
	type recv struct {
		f   *types.Var
		lit *ast.FuncLit
		fd  *ast.FuncDecl
	}
	var recvs []recv
	var sends []*ast.SendStmt
	for _, file := range pk.Syntax {
		ast.Inspect(file, func(n ast.Node) bool {
			switch t := n.(type) {
			case *ast.GoStmt:
				if lit, ok := t.Call.Fun.(*ast.FuncLit); ok {
					fd, _ := enclosing(t)
					r := &root{lit: lit, in: fd, reach: map[*FuncInfo]bool{}}
					c05Reach(c.P, pk, lit.Body, r.reach)
					roots = append(roots, r)
				} else if fn := calleeOf(info, t.Call); fn != nil {
					if gfi := c.P.FuncOfObj(fn); gfi != nil && gfi.Pkg == pk && gfi.Decl.Body != nil {
						fd, _ := enclosing(t)
						r := &root{named: gfi.Decl, in: fd, reach: map[*FuncInfo]bool{gfi: true}}
						c05Reach(c.P, pk, gfi.Decl.Body, r.reach)
						roots = append(roots, r)
					}
				}
			case *ast.UnaryExpr:
				if t.Op == token.ARROW {
					if f := fieldOf(t.X); f != nil {
						fd, lit := enclosing(t)
						recvs = append(recvs, recv{f, lit, fd})
					}
				}
			case *ast.SendStmt:
				if fieldOf(t.Chan) != nil {
					sends = append(sends, t)
				}
			}
			return true
		})
	}
	if len(sends) == 0 {
		c.okTrivial("C05.a", "widgets/term/no sends on Model channels", 0, "no channel hand-off left")
	}
	for _, snd := range sends {
		f := fieldOf(snd.Chan)
		fd, lit := enclosing(snd)
		fname := "widgets/term." + funcDeclName(fd)
		key := fmt.Sprintf("%s/send on Model.%s never blocks the goroutine that is its only receiver", fname, f.Name())
		blocking := false
		for _, b := range c05Blocking(info, parents, snd) {
			if b == ast.Node(snd) {
				blocking = true
			}
		}
		if !blocking {
			c.ok("C05.a", key, snd.Pos(), "the send is a select arm with a default/timer arm")
			continue
		}
		fi := c.P.Func(fname)
		verdict := ""
		for _, r := range roots {
			inRoot := (r.lit != nil && lit == r.lit) || (fi != nil && r.reach[fi])
			if !inRoot {
				continue
			}
			only := true
			n := 0
			for _, rc := range recvs {
				if rc.f != f {
					continue
				}
				n++
				if !((r.lit != nil && rc.lit == r.lit) || (r.named != nil && rc.lit == nil && rc.fd == r.named)) {
					only = false
				}
			}
			if n > 0 && only {
				verdict = fmt.Sprintf("blocking send reachable from the goroutine started in %s, which contains every receive of Model.%s: once the buffer is full that goroutine waits for itself (while update holds vt.mu, so Draw/Update of the host block too)", funcDeclName(r.in), f.Name())
			}
			if n == 0 {
				verdict = fmt.Sprintf("blocking send on Model.%s, which nobody receives from", f.Name())
			}
		}
		if verdict != "" {
			c.bad("C05.a", key, snd.Pos(), "%s", verdict)
		} else {
			c.ok("C05.a", key, snd.Pos(), "a different goroutine receives")
		}
	}
	// blocking operations of the host (package vaxis) reachable while vt.mu is held
	for _, fi := range c.P.FuncsIn("widgets/term") {
		if fi.Decl.Body == nil || e.recvOf(fi) == nil || !c05HoldsMu(e, fi) {
			continue
		}
		local := map[*FuncInfo]bool{fi: true}
		// functions of widgets/term reachable without leaving the package
		var walk func(f *FuncInfo)
		var sites []struct {
			in   *FuncInfo
			call *ast.CallExpr
			to   *FuncInfo
		}
		walk = func(f *FuncInfo) {
			ast.Inspect(f.Decl.Body, func(m ast.Node) bool {
				switch t := m.(type) {
				case *ast.GoStmt:
					return false
				case *ast.CallExpr:
					if fn := calleeOf(f.Pkg.TypesInfo, t); fn != nil {
						cf := c.P.FuncOfObj(fn)
						if cf == nil || cf.Decl.Body == nil {
							return true
						}
						if cf.Pkg == pk {
							if !local[cf] {
								local[cf] = true
								walk(cf)
							}
						} else {
							sites = append(sites, struct {
								in   *FuncInfo
								call *ast.CallExpr
								to   *FuncInfo
							}{f, t, cf})
						}
					}
				}
				return true
			})
		}
		walk(fi)
		for _, s := range sites {
			reach := map[*FuncInfo]bool{s.to: true}
			c05Reach(c.P, s.to.Pkg, s.to.Decl.Body, reach)
			var where []string
			for r := range reach {
				for _, b := range c05Blocking(r.Pkg.TypesInfo, c.P.Parents(r.Pkg), r.Decl.Body) {
					where = append(where, fmt.Sprintf("%s (%s)", r.Name, c.P.Pos(b.Pos())))
				}
			}
			sort.Strings(where)
			key := fmt.Sprintf("%s/%s -> %s does not block while vt.mu is held", fi.Name, s.in.Name, s.to.Name)
			if len(where) == 0 {
				c.ok("C05.a", key, s.call.Pos(), "no unbounded channel operation reachable")
			} else {
				c.bad("C05.a", key, s.call.Pos(), "%s waits on a channel without bound (%s) while %s holds vt.mu: the PTY goroutine and every Draw/Update stall until the host terminal answers", s.to.Name, strings.Join(where, ", "), fi.Name)
			}
		}
	}
}

// c05HoldsMu: the function locks the receiver's mutex and releases it by defer.
func c05HoldsMu(e *c05Eng, fi *FuncInfo) bool {
	info := fi.Pkg.TypesInfo
	lock, unlock := false, false
	for _, st := range fi.Decl.Body.List {
		switch t := st.(type) {
		case *ast.ExprStmt:
			if call, ok := t.X.(*ast.CallExpr); ok {
				if fn := calleeOf(info, call); fn != nil && fullName(fn) == "sync.Mutex.Lock" {
					lock = true
				}
			}
		case *ast.DeferStmt:
			if fn := calleeOf(info, t.Call); fn != nil && fullName(fn) == "sync.Mutex.Unlock" {
				unlock = true
			}
		}
	}
	return lock && unlock
}

// ---------------------------------------------------------------- C05.d parameters cannot overflow

func c05RuleParams(c *Ctx) {
	c.expect("C05.d", 2)
	fi := c.P.Func("ansi.(*Parser).csiDispatch")
	if fi == nil {
		c.undecided("C05.d", "ansi.(*Parser).csiDispatch", 0, "csiDispatch not found")
		return
	}
	e := newC05Eng(c)
	info := fi.Pkg.TypesInfo
	const limit = int64(1) << 59
	nMul, nApp := 0, 0
	hook := func(e *c05Eng, fr *c05Frame, n ast.Node, st *c05State) {
		if st == nil || st.env == nil {
			return
		}
		checkMul := func(x ast.Expr, cst int64, at ast.Node) {
			if !isIntegerExpr(info, x) || cst < 2 {
				return
			}
			nMul++
			s2 := st.clone()
			v := e.evalLin(s2, e.linOf(fr, s2, x))
			hi, ok := v.constHi()
			lo, ok2 := v.constLo()
			key := fmt.Sprintf("%s/%s * %d cannot overflow", fi.Name, types.ExprString(x), cst)
			if ok && ok2 && hi <= limit/cst && lo >= 0 {
				c.ok("C05.d", key, at.Pos(), "operand is within [%d,%d]", lo, hi)
			} else {
				c.bad("C05.d", key, at.Pos(), "the accumulator %s has no upper bound when it is multiplied (%s): a long digit string overflows int and the parameter becomes negative, which no handler of the embedded terminal expects", types.ExprString(x), e.showVal(v))
			}
		}
		switch t := n.(type) {
		case *ast.AssignStmt:
			if t.Tok == token.MUL_ASSIGN && len(t.Lhs) == 1 {
				if cst, ok := constInt(info, t.Rhs[0]); ok {
					checkMul(t.Lhs[0], cst, t)
				}
			}
		}
		inspectNoLit(n, func(m ast.Node) bool {
			switch x := m.(type) {
			case *ast.BinaryExpr:
				if x.Op == token.MUL {
					if cst, ok := constInt(info, x.Y); ok {
						checkMul(x.X, cst, x)
					} else if cst, ok := constInt(info, x.X); ok {
						checkMul(x.Y, cst, x)
					}
				}
			case *ast.CallExpr:
				if id, ok := x.Fun.(*ast.Ident); ok && id.Name == "append" && len(x.Args) == 2 {
					if sl, ok := info.TypeOf(x.Args[0]).Underlying().(*types.Slice); ok && isIntType(sl.Elem()) {
						nApp++
						s2 := st.clone()
						l := e.linOf(fr, s2, x.Args[1])
						key := fmt.Sprintf("%s/parameter %s >= 0", fi.Name, types.ExprString(x.Args[1]))
						if e.prove(s2, l.neg()) {
							c.ok("C05.d", key, x.Pos(), "delivered parameter is %s", e.showVal(e.evalLin(s2, l)))
						} else {
							c.bad("C05.d", key, x.Pos(), "a parameter that may be negative is delivered (%s)", e.showVal(e.evalLin(s2, l)))
						}
					}
				}
			}
			return true
		})
	}
	e.paramBytes = true
	e.hooks = []c05Hook{hook}
	fr := e.newFrame(fi, true)
	e.stack = []*FuncInfo{fi}
	e.run(fr, c05NewState())
	e.stack = nil
	if nMul == 0 {
		c.undecided("C05.d", fi.Name+"/accumulation", fi.Decl.Pos(), "no decimal accumulation (x*10) found in csiDispatch: the recogniser does not understand how parameters are built")
	}
	if nApp == 0 {
		c.undecided("C05.d", fi.Name+"/delivery", fi.Decl.Pos(), "no append of a parameter value found in csiDispatch")
	}
}

// ---------------------------------------------------------------- C05.e Draw stays inside its window

func c05RuleDraw(c *Ctx, e *c05Eng) {
	c.expect("C05.e", 3)
	fi := c.P.Func("widgets/term.(*Model).Draw")
	if fi == nil {
		c.undecided("C05.e", "widgets/term.(*Model).Draw", 0, "Draw not found")
		return
	}
	info := fi.Pkg.TypesInfo
	var winObj types.Object
	for _, f := range fi.Decl.Type.Params.List {
		for _, n := range f.Names {
			if typeName(info.Defs[n].Type()) == modPath+".Window" {
				winObj = info.Defs[n]
			}
		}
	}
	if winObj == nil {
		c.undecided("C05.e", fi.Name+"/window parameter", fi.Decl.Pos(), "Draw has no vaxis.Window parameter")
		return
	}
	// locals holding a window derived from win (win.New(...))
	derived := map[types.Object]bool{winObj: true}
	ast.Inspect(fi.Decl.Body, func(n ast.Node) bool {
		if as, ok := n.(*ast.AssignStmt); ok && len(as.Lhs) == 1 && len(as.Rhs) == 1 {
			if call, ok := unparen(as.Rhs[0]).(*ast.CallExpr); ok {
				if fn := calleeOf(info, call); fn != nil && repoName(fn) == "vaxis.Window.New" {
					if sel, ok := call.Fun.(*ast.SelectorExpr); ok && derived[rootObj(info, sel.X)] {
						if id, ok := as.Lhs[0].(*ast.Ident); ok {
							derived[info.ObjectOf(id)] = true
						}
					}
				}
			}
		}
		return true
	})
	allowedWin := map[string]bool{"vaxis.Window.Size": true, "vaxis.Window.SetCell": true, "vaxis.Window.ShowCursor": true, "vaxis.Window.New": true}
	allowedOther := map[string]bool{"vaxis.Vaxis.NewImage": true, "vaxis.Image.Resize": true, "vaxis.Image.Draw": true}
	seen := map[*FuncInfo]bool{fi: true}
	var visit func(f *FuncInfo)
	visit = func(f *FuncInfo) {
		finfo := f.Pkg.TypesInfo
		ast.Inspect(f.Decl.Body, func(n ast.Node) bool {
			call, ok := n.(*ast.CallExpr)
			if !ok {
				return true
			}
			fn := calleeOf(finfo, call)
			if fn == nil || fn.Pkg() == nil {
				return true
			}
			if cf := c.P.FuncOfObj(fn); cf != nil && cf.Pkg == e.pk {
				if !seen[cf] && cf.Decl.Body != nil {
					seen[cf] = true
					visit(cf)
				}
				return true
			}
			if fn.Pkg().Path() != modPath {
				return true
			}
			rn := repoName(fn)
			key := fmt.Sprintf("%s/host call %s stays inside the window", f.Name, rn)
			switch {
			case allowedWin[rn]:
				sel, _ := call.Fun.(*ast.SelectorExpr)
				if f == fi && sel != nil && derived[rootObj(finfo, sel.X)] {
					c.ok("C05.e", key, call.Pos(), "called on the host window (or a child of it), which clips (C11)")
				} else {
					c.bad("C05.e", key, call.Pos(), "%s is called on a window that is not the one Draw was given (nor a child of it)", rn)
				}
			case rn == "vaxis.Image.Draw":
				okArg := len(call.Args) == 1 && derived[rootObj(finfo, call.Args[0])]
				c.check(okArg && f == fi, "C05.e", key, call.Pos(), "the image is drawn into a child of the host window", "an image is drawn into a window that is not derived from the host window")
			case allowedOther[rn]:
				c.ok("C05.e", key, call.Pos(), "creates/encodes an image object; nothing is written to the screen")
			default:
				c.bad("C05.e", key, call.Pos(), "Draw reaches %s, which is not a clipped Window operation: the embedded terminal can affect the host outside its window", rn)
			}
			return true
		})
	}
	visit(fi)
}

// ---------------------------------------------------------------- C05.f recover

func c05RuleRecover(c *Ctx, e *c05Eng) {
	c.expect("C05.f", 3)
	pk := e.pk
	info := pk.TypesInfo
	parents := c.P.Parents(pk)
	found := false
	for _, file := range pk.Syntax {
		ast.Inspect(file, func(n ast.Node) bool {
			gs, ok := n.(*ast.GoStmt)
			if !ok {
				return true
			}
			var body *ast.BlockStmt
			if lit, ok := gs.Call.Fun.(*ast.FuncLit); ok {
				body = lit.Body
			} else if fn := calleeOf(info, gs.Call); fn != nil {
				// `go vt.run()`: the goroutine's body is a declared function of the package
				if gfi := c.P.FuncOfObj(fn); gfi != nil && gfi.Pkg == pk && gfi.Decl.Body != nil {
					body = gfi.Decl.Body
				}
			}
			if body == nil {
				return true
			}
			// the PTY goroutine: calls update
			reach := map[*FuncInfo]bool{}
			c05Reach(c.P, pk, body, reach)
			up := c.P.Func("widgets/term.(*Model).update")
			if up == nil || !reach[up] {
				return true
			}
			found = true
			var encl string
			for cur := ast.Node(gs); cur != nil; cur = parents[cur] {
				if fd, ok := cur.(*ast.FuncDecl); ok {
					encl = "widgets/term." + funcDeclName(fd)
				}
			}
			var handler *FuncInfo
			if len(body.List) > 0 {
				if ds, ok := body.List[0].(*ast.DeferStmt); ok {
					if fn := calleeOf(info, ds.Call); fn != nil {
						handler = c.P.FuncOfObj(fn)
					}
				}
			}
			c.check(handler != nil, "C05.f", encl+"/PTY goroutine defers a handler first", gs.Pos(), "first statement is a defer of a repository function", "the goroutine that feeds child output to the emulator does not start with a deferred recovery handler: a panic in a sequence handler kills the host application")
			if handler == nil || handler.Decl.Body == nil {
				return true
			}
			hinfo := handler.Pkg.TypesInfo
			direct := false
			inspectNoLit(handler.Decl.Body, func(m ast.Node) bool {
				if call, ok := m.(*ast.CallExpr); ok {
					if id, ok := call.Fun.(*ast.Ident); ok {
						if b, ok := hinfo.Uses[id].(*types.Builtin); ok && b.Name() == "recover" {
							direct = true
						}
					}
				}
				return true
			})
			c.check(direct, "C05.f", handler.Name+"/calls recover() itself", handler.Decl.Pos(), "recover() is called directly by the deferred function", "recover() is not called directly by the deferred function (it has no effect elsewhere)")
			g := c.P.Graph(handler)
			reports := g.Calls(func(fn *types.Func, call *ast.CallExpr) bool {
				if fn == nil {
					// dynamic call of the event handler field
					if sel, ok := call.Fun.(*ast.SelectorExpr); ok && sel.Sel.Name == "eventHandler" {
						return true
					}
					return false
				}
				return repoName(fn) == "widgets/term.Model.postEvent"
			})
			closes := g.Calls(func(fn *types.Func, _ *ast.CallExpr) bool {
				return fn != nil && repoName(fn) == "widgets/term.Model.Close"
			})
			c.check(len(reports) > 0 && len(closes) > 0, "C05.f", handler.Name+"/reports the panic and closes the terminal", handler.Decl.Pos(), "posts an event and calls Close", "the recovery handler no longer reports the panic and closes the terminal")
			return true
		})
	}
	if !found {
		c.undecided("C05.f", "widgets/term/PTY goroutine", 0, "no goroutine that reaches Model.update found")
	}
}

// ---------------------------------------------------------------- C05.h vt.vx only under a nil test

func c05RuleVx(c *Ctx, e *c05Eng) {
	c.expect("C05.h", 1)
	mst, _ := e.model.Underlying().(*types.Struct)
	var vxField *types.Var
	for i := 0; mst != nil && i < mst.NumFields(); i++ {
		if typeName(mst.Field(i).Type()) == modPath+".Vaxis" {
			vxField = mst.Field(i)
		}
	}
	if vxField == nil {
		c.okTrivial("C05.h", "widgets/term.Model/no host handle field", 0, "Model keeps no *vaxis.Vaxis")
		return
	}
	up := c.P.Func("widgets/term.(*Model).update")
	if up == nil {
		c.undecided("C05.h", "widgets/term.(*Model).update", 0, "update not found")
		return
	}
	reach := map[*FuncInfo]bool{up: true}
	c05Reach(c.P, e.pk, up.Decl.Body, reach)
	var fis []*FuncInfo
	for fi := range reach {
		if fi.Pkg == e.pk {
			fis = append(fis, fi)
		}
	}
	sort.Slice(fis, func(i, j int) bool { return fis[i].Name < fis[j].Name })
	for _, fi := range fis {
		info := fi.Pkg.TypesInfo
		g := c.P.Graph(fi)
		parents := c.P.Parents(fi.Pkg)
		hits := g.Find(func(n ast.Node) bool {
			sel, ok := n.(*ast.SelectorExpr)
			if !ok {
				return false
			}
			s, ok := info.Selections[sel]
			return ok && s.Obj() == vxField
		})
		for _, h := range hits {
			sel := h.Node.(*ast.SelectorExpr)
			// a dereference: selector/method call through it
			outer, ok := parents[sel].(*ast.SelectorExpr)
			if !ok || outer.X != sel {
				continue
			}
			facts := g.FactsAt(h.Loc)
			key := fmt.Sprintf("%s/%s used only when non-nil", fi.Name, types.ExprString(outer))
			if impliesNil(facts, termOf(info, sel), false) {
				c.ok("C05.h", key, sel.Pos(), "dominated by a nil test (%s)", atomsString(facts))
			} else {
				c.bad("C05.h", key, sel.Pos(), "%s is dereferenced on child output without a nil test; the host handle is only set by the first Draw, so a sequence arriving earlier panics with a nil pointer", types.ExprString(sel))
			}
		}
	}
}


// ---- C05.k helpers

var c05ForConds = map[*FuncInfo]map[ast.Expr]*ast.ForStmt{}

func c05ForCondOf(fi *FuncInfo, cond ast.Expr) *ast.ForStmt {
	m, ok := c05ForConds[fi]
	if !ok {
		m = map[ast.Expr]*ast.ForStmt{}
		if fi.Decl.Body != nil {
			inspectNoLit(fi.Decl.Body, func(n ast.Node) bool {
				if fs, ok := n.(*ast.ForStmt); ok && fs.Cond != nil {
					m[fs.Cond] = fs
				}
				return true
			})
		}
		c05ForConds[fi] = m
	}
	return m[cond]
}

// c05CountLoop: `for v ...; v < B; v++` (or <=) whose bound B mentions a count parameter of the function.
func c05CountLoop(e *c05Eng, fr *c05Frame, fi *FuncInfo, fs *ast.ForStmt) (string, ast.Expr) {
	be, ok := unparen(fs.Cond).(*ast.BinaryExpr)
	if !ok {
		return "", nil
	}
	var v, b ast.Expr
	switch be.Op {
	case token.LSS, token.LEQ:
		v, b = be.X, be.Y
	case token.GTR, token.GEQ:
		v, b = be.Y, be.X
	default:
		return "", nil
	}
	id, ok := unparen(v).(*ast.Ident)
	if !ok {
		return "", nil
	}
	// the loop variable is stepped upwards by the post statement
	up := false
	switch p := fs.Post.(type) {
	case *ast.IncDecStmt:
		up = p.Tok == token.INC && fr.info.ObjectOf(id) == rootObj(fr.info, p.X)
	case *ast.AssignStmt:
		up = p.Tok == token.ADD_ASSIGN && len(p.Lhs) == 1 && fr.info.ObjectOf(id) == rootObj(fr.info, p.Lhs[0])
	}
	if !up {
		return "", nil
	}
	params := map[types.Object]bool{}
	if fi.Decl.Type.Params != nil {
		for _, f := range fi.Decl.Type.Params.List {
			for _, nm := range f.Names {
				if o := fr.info.Defs[nm]; o != nil && e.isCountType(o.Type()) {
					params[o] = true
				}
			}
		}
	}
	// locals computed from a count parameter (n := row(ps); n := vt.helper(ps)) carry the parameter's range
	mentions := func(x ast.Node) bool {
		return x != nil && containsNode(x, func(m ast.Node) bool {
			i2, ok := m.(*ast.Ident)
			return ok && params[fr.info.ObjectOf(i2)]
		})
	}
	if fi.Decl.Body != nil && len(params) > 0 {
		for changed, round := true, 0; changed && round < 8; round++ {
			changed = false
			inspectNoLit(fi.Decl.Body, func(n ast.Node) bool {
				mark := func(lhs ast.Expr, rhs ast.Expr) {
					li, ok := unparen(lhs).(*ast.Ident)
					if !ok || rhs == nil {
						return
					}
					o := fr.info.ObjectOf(li)
					if o == nil || params[o] || !isIntType(o.Type()) {
						return
					}
					if _, isVar := o.(*types.Var); isVar && mentions(rhs) {
						params[o] = true
						changed = true
					}
				}
				switch t := n.(type) {
				case *ast.AssignStmt:
					if len(t.Lhs) == len(t.Rhs) {
						for i := range t.Lhs {
							mark(t.Lhs[i], t.Rhs[i])
						}
					}
				case *ast.ValueSpec:
					if len(t.Names) == len(t.Values) {
						for i := range t.Names {
							mark(t.Names[i], t.Values[i])
						}
					}
				}
				return true
			})
		}
	}
	tainted := mentions(b)
	if !tainted {
		return "", nil
	}
	return id.Name, b
}

// c05LoopLeavesEarly: the body has a break or return of its own (not inside a nested loop, switch or literal).
func c05LoopLeavesEarly(fs *ast.ForStmt) bool {
	found := false
	var walk func(n ast.Node, inSwitch bool)
	walk = func(n ast.Node, inSwitch bool) {
		ast.Inspect(n, func(m ast.Node) bool {
			if found || m == nil {
				return false
			}
			switch t := m.(type) {
			case *ast.ForStmt, *ast.RangeStmt, *ast.FuncLit:
				if m != n {
					return false
				}
			case *ast.SwitchStmt, *ast.TypeSwitchStmt, *ast.SelectStmt:
				if m != n {
					walk(m, true)
					return false
				}
			case *ast.ReturnStmt:
				found = true
			case *ast.BranchStmt:
				if t.Tok == token.BREAK && (!inSwitch || t.Label != nil) {
					found = true
				}
			}
			return true
		})
	}
	walk(fs.Body, false)
	return found
}
