package main

// C20.s — the record of the placements the terminal holds is never dropped without the deletes.
//
// render deletes exactly the placements it finds in Vaxis.graphicsLast (the dropped ones of an ordinary frame,
// all of them on a full refresh). The list is therefore the ONLY record of what has to be deleted: wherever it
// is emptied (assigned nil, an empty literal, make(_, 0), a [:0] re-slice, or a local that stands for one of
// these) the placements it held at that moment must already have been deleted on that path, otherwise the
// delete that "dropped or full refresh" owes can never be sent - whatever frame comes next has nothing left to
// delete. As a necessary condition of "deleted when dropped or on a full refresh", for EVERY such store in
// package vaxis (in any function, function literals included):
//
//   under the conditions that guard the store (those of them whose operands the function does not assign),
//   every path from the entry of the function to the store
//     - passes a loop over all elements of graphicsLast in which, under the same conditions, no iteration can
//       end without calling deleteFn of the element, with no other store to graphicsLast between the loop and
//       the store; or
//     - passes a call of a function every path of which passes such a loop; or
//     - needs the list to be empty (a guard `len(last) > 0` around the loop).
//
// The rule is about the store, not about render: it is indifferent to which function holds it and to the shape
// of the frame diff (judged by C20.d/C20.r). Stores of other values (the list of the frame just rendered, a
// filtered or shortened copy) are not judged here.

import (
	"go/ast"
	"go/token"
	"go/types"
	"sort"

	"golang.org/x/tools/go/cfg"
)

func init() { registerExtra("C20", c20RecordNotDropped) }

const c20sList = "Vaxis.graphicsLast"

type c20sCtx struct {
	c    *Ctx
	delF *types.Var
	// summary: every path through the function deletes every element of graphicsLast
	delAll map[*types.Func]int // 0 unknown, 1 yes, 2 no / in progress
}

func c20RecordNotDropped(c *Ctx) {
	c.Clauses = append(c.Clauses, "C20.s the last-frame placement list (the record of what the terminal holds) is emptied only where every placement it holds has been deleted on that path")
	c.expect("C20.s", 1)
	_, pst := c20PlacementStruct(c)
	if pst == nil {
		c.undecided("C20.s", "vaxis/placement", 0, "type placement not found")
		return
	}
	sc := &c20sCtx{c: c, delAll: map[*types.Func]int{}}
	for i := 0; i < pst.NumFields(); i++ {
		if pst.Field(i).Name() == "deleteFn" {
			sc.delF = pst.Field(i)
		}
	}
	if sc.delF == nil {
		c.undecided("C20.s", "vaxis/placement", 0, "placement field deleteFn not found")
		return
	}
	saved, savedCur := c20ActiveFlags, c20CurFlagState
	c20ActiveFlags, c20CurFlagState = nil, "" // plain reachability
	defer func() { c20ActiveFlags, c20CurFlagState = saved, savedCur }()

	seen := map[string]int{}
	for _, fi := range c.P.FuncsIn("vaxis") {
		if fi.Decl == nil || fi.Decl.Body == nil {
			continue
		}
		info := fi.Pkg.TypesInfo
		// the stores of this declaration, with the innermost function literal that holds each
		type site struct {
			as  *ast.AssignStmt
			lit *ast.FuncLit
		}
		var sites []site
		var lits []*ast.FuncLit
		var visit func(n ast.Node) bool
		visit = func(n ast.Node) bool {
			switch t := n.(type) {
			case *ast.FuncLit:
				lits = append(lits, t)
				ast.Inspect(t.Body, visit)
				lits = lits[:len(lits)-1]
				return false
			case *ast.AssignStmt:
				if c20sStoreKind(info, t, fi.Decl.Body) == "empty" && !c20sFreshOwner(info, t) {
					var lit *ast.FuncLit
					if len(lits) > 0 {
						lit = lits[len(lits)-1]
					}
					sites = append(sites, site{t, lit})
				}
			}
			return true
		}
		ast.Inspect(fi.Decl.Body, visit)
		for _, s := range sites {
			var g *FG
			var body *ast.BlockStmt
			if s.lit != nil {
				g, body = c.P.GraphOfLit(fi.Pkg, fi.Name+"/lit", s.lit), s.lit.Body
			} else {
				g, body = c.P.Graph(fi), fi.Decl.Body
			}
			key := fi.Name + "/graphicsLast is emptied only after every placement it holds has been deleted"
			seen[key]++
			if seen[key] > 1 {
				key += " #" + string(rune('0'+seen[key]))
			}
			if g == nil {
				c.undecided("C20.s", key, s.as.Pos(), "no control-flow graph for the function that empties graphicsLast")
				continue
			}
			okk, why := sc.judge(g, info, body, s.as)
			c.check(okk, "C20.s", key, s.as.Pos(), why,
				"graphicsLast is emptied on a path on which the placements it holds have not been deleted ("+why+"): render deletes only what it finds in this list, so the delete command for a placement that is on the terminal is never sent - the placement stays on the screen when it is dropped or moved, and a full refresh retransmits it without the delete it owes")
		}
	}
}

// c20sIsList: e denotes Vaxis.graphicsLast (the field, or a local defined once as the field)
func c20sIsList(info *types.Info, e ast.Expr) bool {
	e = unparen(e)
	if canonPath(info, e) == c20sList {
		if _, ok := e.(*ast.SelectorExpr); ok {
			return true
		}
	}
	if id, ok := e.(*ast.Ident); ok {
		if v, ok := info.Uses[id].(*types.Var); ok && !v.IsField() {
			if def := singleDefOf(info, v); def != nil {
				if se, ok := unparen(def).(*ast.SelectorExpr); ok && canonPath(info, se) == c20sList {
					return true
				}
			}
		}
	}
	return false
}

func c20sIsField(info *types.Info, e ast.Expr) bool {
	se, ok := unparen(e).(*ast.SelectorExpr)
	if !ok {
		// *p where p := &vx.graphicsLast
		if st, ok := unparen(e).(*ast.StarExpr); ok {
			if id, ok := unparen(st.X).(*ast.Ident); ok {
				if v, ok := info.Uses[id].(*types.Var); ok && !v.IsField() {
					if def := singleDefOf(info, v); def != nil {
						if u, ok := unparen(def).(*ast.UnaryExpr); ok && u.Op == token.AND {
							return c20sIsField(info, u.X)
						}
					}
				}
			}
		}
		return false
	}
	sel, ok := info.Selections[se]
	return ok && sel.Kind() == types.FieldVal && lhsPath(info, se) == c20sList
}

// c20sEmptyValue: e is an empty list whatever the state: nil, T{}, make(T, 0[, n]), x[:0], or a local defined
// once as one of these (and never appended to: it is defined once)
func c20sEmptyValue(info *types.Info, e ast.Expr, depth int) bool {
	if depth > 3 {
		return false
	}
	switch r := unparen(e).(type) {
	case *ast.CompositeLit:
		return len(r.Elts) == 0
	case *ast.Ident:
		if isNilExpr(info, r) {
			return true
		}
		if v, ok := info.Uses[r].(*types.Var); ok && !v.IsField() {
			if def := singleDefOf(info, v); def != nil {
				return c20sEmptyValue(info, def, depth+1)
			}
		}
	case *ast.SliceExpr:
		if r.High != nil {
			v, ok := constInt(info, r.High)
			return ok && v == 0
		}
	case *ast.CallExpr:
		if id, ok := r.Fun.(*ast.Ident); ok && id.Name == "make" && len(r.Args) >= 2 {
			if _, isB := info.Uses[id].(*types.Builtin); isB {
				v, ok := constInt(info, r.Args[1])
				return ok && v == 0
			}
		}
		// a conversion of an empty value
		if tv, ok := info.Types[r.Fun]; ok && tv.IsType() && len(r.Args) == 1 {
			return c20sEmptyValue(info, r.Args[0], depth+1)
		}
	}
	return false
}

// c20sStoreKind: "" (not a store to graphicsLast), "empty", or "other"
func c20sStoreKind(info *types.Info, as *ast.AssignStmt, _ ast.Node) string {
	if as.Tok != token.ASSIGN && as.Tok != token.DEFINE {
		return ""
	}
	kind := ""
	for i, l := range as.Lhs {
		if !c20sIsField(info, l) {
			continue
		}
		kind = "other"
		if len(as.Lhs) == len(as.Rhs) && c20sEmptyValue(info, as.Rhs[i], 0) {
			return "empty"
		}
	}
	return kind
}

// c20sPure: the expression reads only variables and fields (no calls but len/cap): it has the same value
// wherever the function evaluates it, provided nothing it reads is assigned (checked separately)
func c20sPure(info *types.Info, e ast.Expr) bool {
	pure := true
	ast.Inspect(e, func(n ast.Node) bool {
		switch t := n.(type) {
		case *ast.CallExpr:
			if id, ok := unparen(t.Fun).(*ast.Ident); ok {
				if b, ok := info.Uses[id].(*types.Builtin); ok && (b.Name() == "len" || b.Name() == "cap") {
					return true
				}
			}
			if tv, ok := info.Types[t.Fun]; ok && tv.IsType() {
				return true
			}
			pure = false
		case *ast.FuncLit:
			pure = false
		case *ast.UnaryExpr:
			if t.Op == token.ARROW {
				pure = false
			}
		}
		return pure
	})
	return pure
}

// c20sAssigned: the canonical paths and local objects that the body assigns (or takes the address of) more than
// by their one definition
func c20sAssigned(info *types.Info, body ast.Node) (paths map[string]bool, objs map[types.Object]bool) {
	paths, objs = map[string]bool{}, map[types.Object]bool{}
	var note func(e ast.Expr, define bool)
	note = func(e ast.Expr, define bool) {
		if e == nil {
			return
		}
		e = unparen(e)
		if id, ok := e.(*ast.Ident); ok {
			if define && info.Defs[id] != nil {
				return // the definition itself
			}
			if o := info.ObjectOf(id); o != nil {
				objs[o] = true
			}
			return
		}
		if p := lhsPath(info, e); p != "" {
			paths[p] = true
		}
		if p := canonPath(info, e); p != "" {
			paths[p] = true
		}
		switch t := e.(type) {
		case *ast.IndexExpr:
			note(t.X, false) // an element store changes (what is read through) the container
		case *ast.SliceExpr:
			note(t.X, false)
		case *ast.StarExpr:
			if o := rootObj(info, t.X); o != nil {
				objs[o] = true
			}
		}
	}
	ast.Inspect(body, func(n ast.Node) bool {
		switch t := n.(type) {
		case *ast.AssignStmt:
			for _, l := range t.Lhs {
				note(l, t.Tok == token.DEFINE)
			}
		case *ast.IncDecStmt:
			note(t.X, false)
		case *ast.RangeStmt:
			note(t.Key, false) // a loop variable has a new value in every iteration
			note(t.Value, false)
		case *ast.UnaryExpr:
			if t.Op == token.AND {
				if _, isLit := unparen(t.X).(*ast.CompositeLit); !isLit {
					note(t.X, false)
				}
			}
		}
		return true
	})
	return
}

type c20sFact struct {
	key string
	pol bool
}

// c20sJudge is the per-graph reasoning
type c20sJudge struct {
	sc     *c20sCtx
	g      *FG
	info   *types.Info
	paths  map[string]bool
	objs   map[types.Object]bool
	known  map[string]bool // stable facts in force at the store
	inMemo map[ast.Expr][][]c20Leaf
}

// stable: the leaf expression has one value throughout the function
func (j *c20sJudge) stable(e ast.Expr) bool {
	if e == nil || !c20sPure(j.info, e) {
		return false
	}
	st := true
	ast.Inspect(e, func(n ast.Node) bool {
		switch t := n.(type) {
		case *ast.SelectorExpr:
			if p := canonPath(j.info, t); p != "" && j.paths[p] {
				st = false
			}
			if p := lhsPath(j.info, t); p != "" && j.paths[p] {
				st = false
			}
		case *ast.Ident:
			if o := j.info.Uses[t]; o != nil && j.objs[o] {
				st = false
			}
		}
		return st
	})
	return st
}

// alts: the DNF of e == pol, with locals defined once as a stable boolean expression replaced by it
func (j *c20sJudge) alts(e ast.Expr, pol bool, depth int) [][]c20Leaf {
	base := c20DNF(e, pol)
	if depth > 3 {
		return base
	}
	var out [][]c20Leaf
	for _, alt := range base {
		cur := [][]c20Leaf{{}}
		for _, l := range alt {
			repl := [][]c20Leaf{{l}}
			if id, ok := unparen(l.e).(*ast.Ident); ok && l.e != nil {
				if v, ok := j.info.Uses[id].(*types.Var); ok && !v.IsField() && !j.objs[v] {
					if def := singleDefOf(j.info, v); def != nil && j.stable(def) {
						repl = j.alts(def, l.pol, depth+1)
					}
				}
			}
			var next [][]c20Leaf
			for _, c := range cur {
				for _, r := range repl {
					next = append(next, append(append([]c20Leaf(nil), c...), r...))
				}
			}
			cur = next
			if len(cur) > 64 {
				return base
			}
		}
		out = append(out, cur...)
	}
	return out
}

func (j *c20sJudge) leafFact(l c20Leaf) (c20sFact, bool) {
	if l.e == nil || !j.stable(l.e) {
		return c20sFact{}, false
	}
	e := unparen(l.e)
	pol := l.pol
	// x != y is !(x == y) etc.: one key for a comparison and its negation
	if be, ok := e.(*ast.BinaryExpr); ok {
		switch be.Op {
		case token.NEQ:
			return c20sFact{canonExpr(j.info, be.X) + "==" + canonExpr(j.info, be.Y), !pol}, true
		case token.EQL:
			return c20sFact{canonExpr(j.info, be.X) + "==" + canonExpr(j.info, be.Y), pol}, true
		}
	}
	return c20sFact{canonExpr(j.info, e), pol}, true
}

// edgeAllowed: the edge can be taken while the known facts hold (and, with notEmpty, while the list is not
// empty)
func (j *c20sJudge) edgeAllowed(notEmpty bool) func(b *cfg.Block, si int) bool {
	return func(b *cfg.Block, si int) bool {
		cond := j.g.BranchCond(b)
		if cond == nil || cond.Tag != nil || cond.Alts != nil || cond.Expr == nil {
			return true
		}
		for _, alt := range j.alts(cond.Expr, si == 0, 0) {
			ok := true
			for _, l := range alt {
				if f, has := j.leafFact(l); has {
					if v, kn := j.known[f.key]; kn && v != f.pol {
						ok = false
						break
					}
				}
				if notEmpty && c20NeedsEmpty(j.info, l, func(e ast.Expr) bool { return c20sIsList(j.info, e) }) {
					ok = false
					break
				}
			}
			if ok {
				return true
			}
		}
		return false
	}
}

// factSets: the stable facts in force at loc. A guard with one alternative contributes its facts; a disjunctive
// guard splits the judgement into one case per alternative (at most 8 cases, otherwise only the facts common to
// all alternatives are kept)
func (j *c20sJudge) factSets(loc Loc) []map[string]bool {
	sets := []map[string]bool{{}}
	for _, gd := range j.g.Guards(loc) {
		if gd.Cond == nil || gd.Cond.Tag != nil || gd.Cond.Alts != nil || gd.Cond.Expr == nil {
			continue
		}
		alts := j.alts(gd.Cond.Expr, gd.Pol, 0)
		if len(alts) == 0 {
			continue
		}
		var per [][]c20sFact
		for _, alt := range alts {
			var fs []c20sFact
			for _, l := range alt {
				if f, ok := j.leafFact(l); ok {
					fs = append(fs, f)
				}
			}
			per = append(per, fs)
		}
		if len(per)*len(sets) > 8 {
			// facts common to every alternative
			common := map[c20sFact]int{}
			for _, fs := range per {
				mine := map[c20sFact]bool{}
				for _, f := range fs {
					mine[f] = true
				}
				for f := range mine {
					common[f]++
				}
			}
			var fs []c20sFact
			for f, n := range common {
				if n == len(per) {
					fs = append(fs, f)
				}
			}
			per = [][]c20sFact{fs}
		}
		var next []map[string]bool
		for _, base := range sets {
			for _, fs := range per {
				m := map[string]bool{}
				for k, v := range base {
					m[k] = v
				}
				feasible := true
				for _, f := range fs {
					if v, has := m[f.key]; has && v != f.pol {
						feasible = false
					}
					m[f.key] = f.pol
				}
				if feasible {
					next = append(next, m)
				}
			}
		}
		if len(next) > 0 {
			sets = next
		}
	}
	return sets
}

func (j *c20sJudge) delCall(l *c20Loop) func(ast.Node) bool {
	info := j.info
	v := l.val
	var key types.Object
	if kid, ok := l.rs.Key.(*ast.Ident); ok && kid.Name != "_" {
		key = info.ObjectOf(kid)
	}
	// isElem: e denotes the element of this iteration: the element variable, or list[key]
	isElem := func(e ast.Expr) bool {
		switch t := unparen(e).(type) {
		case *ast.Ident:
			return v != nil && info.Uses[t] == v
		case *ast.IndexExpr:
			id, ok := unparen(t.Index).(*ast.Ident)
			return ok && key != nil && info.Uses[id] == key && c20sIsList(info, t.X)
		}
		return false
	}
	delF := j.sc.delF
	var isDelFn func(e ast.Expr, depth int) bool
	isDelFn = func(e ast.Expr, depth int) bool {
		if depth > 3 {
			return false
		}
		switch t := unparen(e).(type) {
		case *ast.SelectorExpr:
			sel, ok := info.Selections[t]
			if !ok || sel.Obj() != delF {
				return false
			}
			return isElem(t.X)
		case *ast.Ident:
			if lv, ok := info.Uses[t].(*types.Var); ok && !lv.IsField() {
				if def := singleDefOf(info, lv); def != nil {
					return isDelFn(def, depth+1)
				}
			}
		}
		return false
	}
	return func(n ast.Node) bool {
		call, ok := n.(*ast.CallExpr)
		if !ok {
			return false
		}
		if isDelFn(call.Fun, 0) {
			return true
		}
		// a helper that is handed the element and deletes it on every path
		if fn := calleeOf(info, call); fn != nil {
			for i, a := range call.Args {
				if isElem(a) && j.sc.deletesParam(fn, i) {
					return true
				}
			}
		}
		return false
	}
}

// deletesParam: every path through fn calls deleteFn of its i-th parameter
func (sc *c20sCtx) deletesParam(fn *types.Func, i int) bool {
	hf := sc.c.P.FuncOfObj(fn)
	if hf == nil || hf.Decl == nil || hf.Decl.Body == nil {
		return false
	}
	var params []types.Object
	for _, f := range hf.Decl.Type.Params.List {
		for _, nm := range f.Names {
			params = append(params, hf.Pkg.TypesInfo.Defs[nm])
		}
	}
	if i >= len(params) || params[i] == nil {
		return false
	}
	g := sc.c.P.Graph(hf)
	if g == nil {
		return false
	}
	j := &c20sJudge{sc: &c20sCtx{c: sc.c, delF: sc.delF, delAll: sc.delAll}, g: g, info: hf.Pkg.TypesInfo}
	j.paths, j.objs = c20sAssigned(j.info, hf.Decl.Body)
	if j.objs[params[i]] {
		return false
	}
	del := func(n ast.Node) bool {
		call, ok := n.(*ast.CallExpr)
		if !ok {
			return false
		}
		se, ok := unparen(call.Fun).(*ast.SelectorExpr)
		if !ok {
			return false
		}
		sel, ok := j.info.Selections[se]
		if !ok || sel.Obj() != sc.delF {
			return false
		}
		id, ok := unparen(se.X).(*ast.Ident)
		return ok && j.info.Uses[id] == params[i]
	}
	ok, _ := g.MustFollow(Loc{g.Blocks[0], 0}, del)
	if ok {
		return true
	}
	// MustFollow looks behind the start node; the call may be the very first node
	if len(g.Blocks[0].Nodes) > 0 && containsNode(g.Blocks[0].Nodes[0], del) {
		return true
	}
	return false
}

// deleteLoops: the loops over all elements of graphicsLast that hold a deleteFn call on the element
func (j *c20sJudge) deleteLoops() []*c20Loop {
	var out []*c20Loop
	for _, l := range c20ListLoops(j.g, j.info) {
		if !c20sIsList(j.info, l.rs.X) {
			continue
		}
		if containsNode(l.rs.Body, j.delCall(l)) {
			out = append(out, l)
		}
	}
	return out
}

// loopDeletesAll: under the known facts no iteration of l ends (or leaves the loop) without deleteFn
func (j *c20sJudge) loopDeletesAll(l *c20Loop) bool {
	end := func(b *cfg.Block) bool { return b == l.head || b == l.done() }
	return !c20Reach(j.g, l.body(), 0, j.delCall(l), j.edgeAllowed(false), end, nil, nil)
}

func (j *c20sJudge) isOtherStore(except *ast.AssignStmt) func(ast.Node) bool {
	return func(n ast.Node) bool {
		as, ok := n.(*ast.AssignStmt)
		return ok && as != except && c20sStoreKind(j.info, as, nil) != ""
	}
}

func (sc *c20sCtx) judge(g *FG, info *types.Info, body *ast.BlockStmt, store *ast.AssignStmt) (bool, string) {
	j := &c20sJudge{sc: sc, g: g, info: info}
	j.paths, j.objs = c20sAssigned(info, body)
	loc, ok := g.Locate(store)
	if !ok {
		return true, "the store is in unreachable code"
	}
	var okWhy string
	for _, known := range j.factSets(loc) {
		j.known = known
		ok, why := j.judgeUnder(store)
		if !ok {
			return false, why
		}
		if okWhy == "" {
			okWhy = why
		}
	}
	return true, okWhy
}

func (j *c20sJudge) judgeUnder(store *ast.AssignStmt) (bool, string) {
	g, info, sc := j.g, j.info, j.sc
	var facts []string
	for k, v := range j.known {
		if v {
			facts = append(facts, k)
		} else {
			facts = append(facts, "!("+k+")")
		}
	}
	sort.Strings(facts)
	under := "unconditionally"
	if len(facts) > 0 {
		under = "under "
		for i, f := range facts {
			if i > 0 {
				under += " && "
			}
			under += f
		}
	}
	isStore := func(n ast.Node) bool { return n == ast.Node(store) }
	entry := g.Blocks[0]
	// discharging events: a complete delete loop, or a call of a function that deletes everything
	fence := map[*cfg.Block]bool{}
	nLoops := 0
	for _, l := range j.deleteLoops() {
		nLoops++
		if !j.loopDeletesAll(l) {
			continue
		}
		// no other store to the list between the loop and the emptying store
		if c20Reach(g, l.done(), 0, isStore, j.edgeAllowed(false), nil, func(n ast.Node) bool {
			return j.isOtherStore(store)(n) && j.reachesStore(n, store)
		}, map[*cfg.Block]bool{l.head: true}) {
			continue
		}
		fence[l.head] = true
	}
	delAllCall := func(n ast.Node) bool {
		call, ok := n.(*ast.CallExpr)
		if !ok {
			return false
		}
		fn := calleeOf(info, call)
		return fn != nil && sc.deletesAll(fn)
	}
	if !c20Reach(g, entry, 0, delAllCall, j.edgeAllowed(true), nil, isStore, fence) && !fence[entry] {
		if len(fence) > 0 {
			return true, "every path to the store (" + under + ") passes a loop over graphicsLast that calls deleteFn in every iteration"
		}
		return true, "every path to the store (" + under + ") passes a call that deletes every placement of graphicsLast, or needs the list to be empty"
	}
	switch {
	case nLoops == 0:
		return false, under + " the store is reached without any loop over graphicsLast that calls deleteFn"
	case len(fence) == 0:
		return false, under + " an iteration of the loop over graphicsLast can end without deleteFn"
	}
	return false, under + " a path to the store bypasses the loop that deletes the placements of graphicsLast"
}

// reachesStore: from behind node n the store can be reached (n lies between the loop and the store)
func (j *c20sJudge) reachesStore(n ast.Node, store *ast.AssignStmt) bool {
	g := j.g
	loc, ok := g.Locate(n)
	if !ok {
		return false
	}
	return c20Reach(g, loc.B, loc.Idx+1, nil, j.edgeAllowed(false), nil, func(m ast.Node) bool { return m == ast.Node(store) }, nil)
}

// deletesAll: every path through fn passes a loop over graphicsLast that deletes every element (or needs the
// list to be empty), and fn does not store to the list before that
func (sc *c20sCtx) deletesAll(fn *types.Func) bool {
	switch sc.delAll[fn] {
	case 1:
		return true
	case 2:
		return false
	}
	sc.delAll[fn] = 2
	hf := sc.c.P.FuncOfObj(fn)
	if hf == nil || hf.Decl == nil || hf.Decl.Body == nil || hf.Pkg == nil || hf.Pkg != sc.c.P.Pkg("vaxis") {
		return false
	}
	g := sc.c.P.Graph(hf)
	if g == nil {
		return false
	}
	info := hf.Pkg.TypesInfo
	j := &c20sJudge{sc: sc, g: g, info: info, known: map[string]bool{}}
	j.paths, j.objs = c20sAssigned(info, hf.Decl.Body)
	fence := map[*cfg.Block]bool{}
	for _, l := range j.deleteLoops() {
		if j.loopDeletesAll(l) {
			fence[l.head] = true
		}
	}
	if len(fence) == 0 {
		return false
	}
	isExit := func(b *cfg.Block) bool { return len(b.Succs) == 0 }
	anyStore := func(n ast.Node) bool {
		as, ok := n.(*ast.AssignStmt)
		return ok && c20sStoreKind(info, as, nil) != ""
	}
	if isExit(g.Blocks[0]) {
		return false
	}
	if c20Reach(g, g.Blocks[0], 0, nil, j.edgeAllowed(true), isExit, anyStore, fence) {
		return false
	}
	sc.delAll[fn] = 1
	return true
}

// c20sFreshOwner: every graphicsLast the statement stores to belongs to an object the function has just built
// (a local defined once as &T{...}, T{...} or new(T)): there is no terminal state behind its record yet
func c20sFreshOwner(info *types.Info, as *ast.AssignStmt) bool {
	n := 0
	for _, l := range as.Lhs {
		if !c20sIsField(info, l) {
			continue
		}
		n++
		se, ok := unparen(l).(*ast.SelectorExpr)
		if !ok {
			return false
		}
		id, ok := unparen(se.X).(*ast.Ident)
		if !ok {
			return false
		}
		v, ok := info.Uses[id].(*types.Var)
		if !ok || v.IsField() {
			return false
		}
		def := singleDefOf(info, v)
		if def == nil {
			return false
		}
		d := unparen(def)
		if u, ok := d.(*ast.UnaryExpr); ok && u.Op == token.AND {
			d = unparen(u.X)
		}
		switch t := d.(type) {
		case *ast.CompositeLit:
		case *ast.CallExpr:
			fid, ok := t.Fun.(*ast.Ident)
			if !ok || fid.Name != "new" {
				return false
			}
			if _, isB := info.Uses[fid].(*types.Builtin); !isB {
				return false
			}
		default:
			return false
		}
	}
	return n > 0
}
