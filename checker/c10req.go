package main

// C10.l — a resize request is never lost.
//
// The property: "any number of goroutines may ... request resizes ... without ... lost events". A resize is
// requested by raising the atomic flag Vaxis.resize AND waking the application with a Redraw event: Render, run
// by the application when it handles the Redraw, consumes the flag and delivers the new size. The flag alone
// wakes nobody, and it is raised at several sites (Resize, the in-band size report, the SIGWINCH arm, Resume),
// so "the flag is already up" never implies "a Redraw is still queued" (PostEvent also drops on a full queue
// while the flag stays up). Necessary conditions, decided on the control-flow graphs:
//
//   (1) in every function that can run off the application's goroutine (everything except exported API that
//       is not declared thread safe in c10AnyAPI), every site that raises the flag is followed, on every path to
//       the function's return, by a post of a Redraw (PostEvent/PostEventBlocking of a Redraw value, or a call
//       of a function of the package that posts one on every path);
//   (2) in the thread-safe entry point for "request resizes" itself, every path from entry to return raises the
//       flag and posts a Redraw: no early return that skips either (e.g. coalescing on the flag's old value).
//
// Sites are recognised by what they are: an atomic store/swap/compare-and-swap (sync/atomic, or a function of
// the package whose pointer parameter only flows into sync/atomic stores) whose target is the field
// Vaxis.resize and whose stored value is not the constant zero/false.

import (
	"go/ast"
	"go/constant"
	"go/token"
	"go/types"
	"strings"
)

func init() { registerExtra("C10", c10ResizeRequests) }

const c10ResizeFlag = "Vaxis.resize"

func c10ResizeRequests(c *Ctx) {
	c.Clauses = append(c.Clauses, "C10.l a resize request is never lost: wherever the resize flag is raised off the application's goroutine a Redraw is posted on every path afterwards, and Resize raises the flag and posts on every path")
	c.expect("C10.l", 4)
	pk := c.P.Pkg("vaxis")
	if pk == nil {
		c.undecided("C10.l", "package vaxis", 0, "package vaxis not loaded")
		return
	}
	info := pk.TypesInfo
	r := &c10Req{c: c, info: info, posts: map[*types.Func]int{}, raises: map[*types.Func]int{}, wrappers: map[*types.Func]int{}}

	// (2) the entry points that request resizes
	for name, why := range c10AnyAPI {
		if why != "request resizes" {
			continue
		}
		fi := c.P.Func(name)
		if fi == nil || fi.Decl.Body == nil {
			c.undecided("C10.l", name, 0, "thread-safe entry point %s not found", name)
			continue
		}
		g := c.P.Graph(fi)
		okRaise, _ := g.MustFollow(Loc{g.Blocks[0], -1}, r.isRaise)
		okPost, _ := g.MustFollow(Loc{g.Blocks[0], -1}, r.isPost)
		c.check(okRaise, "C10.l", fi.Name+"/every call raises the resize flag", fi.Decl.Pos(), "the flag is raised on every path",
			"some path through "+fi.Name+" returns without raising the resize flag: Render will not pick up the new size for that request")
		c.check(okPost, "C10.l", fi.Name+"/every call posts a Redraw", fi.Decl.Pos(), "a Redraw is posted on every path",
			"some path through "+fi.Name+" returns without posting a Redraw (e.g. because the flag was already up): the flag is also raised by the in-band size report, the SIGWINCH arm and Resume, and a post can be dropped on a full queue, so an already raised flag does not mean a Redraw is queued; the application is never told to render and the resize request is lost")
	}

	// (1) every raise off the application's goroutine is followed by a post
	for _, fi := range c.P.FuncsIn("vaxis") {
		if fi.Decl.Body == nil {
			continue
		}
		mainOnly := fi.Obj != nil && fi.Obj.Exported() && c10AnyAPI[fi.Name] == ""
		if fi.Decl.Recv == nil && fi.Obj != nil && fi.Obj.Exported() {
			mainOnly = true
		}
		type unit struct {
			g       *FG
			key     string
			inScope bool
		}
		units := []unit{{c.P.Graph(fi), fi.Name, !mainOnly}}
		// function literals: a literal started by `go` runs on a goroutine of its own; any other literal runs
		// where the function around it runs
		par := c.P.Parents(fi.Pkg)
		nlit := 0
		var lits func(body ast.Node, scope bool, prefix string)
		lits = func(body ast.Node, scope bool, prefix string) {
			inspectNoLit(body, func(n ast.Node) bool {
				lit, ok := n.(*ast.FuncLit)
				if !ok || n == body {
					return true
				}
				nlit++
				sc, key := scope, prefix+"/literal"
				if call, ok := par[lit].(*ast.CallExpr); ok && call.Fun == ast.Expr(lit) {
					if _, isGo := par[call].(*ast.GoStmt); isGo {
						sc, key = true, prefix+"/goroutine"
					}
				}
				if g := c.P.GraphOfLit(fi.Pkg, key+"#"+strings.Repeat("i", nlit), lit); g != nil {
					units = append(units, unit{g, key, sc})
				}
				lits(lit.Body, sc, key)
				return true
			})
		}
		lits(fi.Decl.Body, !mainOnly, fi.Name)
		for _, u := range units {
			if u.g == nil || !u.inScope {
				continue
			}
			for _, h := range u.g.Find(func(n ast.Node) bool { return r.isRaiseSite(n) }) {
				ok, _ := u.g.MustFollow(h.Loc, r.isPost)
				c.check(ok, "C10.l", u.key+"/a raised resize flag is followed by a Redraw post", h.Node.Pos(),
					"every path from the raise to the return posts a Redraw",
					"the resize flag is raised here, but some path to the return of "+u.key+" posts no Redraw: the flag wakes nobody, so the application is not told to render and the new size is not delivered until an unrelated event arrives (a lost resize)")
			}
		}
	}
}

type c10Req struct {
	c        *Ctx
	info     *types.Info
	posts    map[*types.Func]int // 1 yes 2 no 3 in progress
	raises   map[*types.Func]int
	wrappers map[*types.Func]int
}

// isRaiseSite: a call that atomically writes a value other than the constant zero/false to Vaxis.resize.
func (r *c10Req) isRaiseSite(n ast.Node) bool {
	call, ok := n.(*ast.CallExpr)
	if !ok || len(call.Args) < 2 {
		return false
	}
	fn := calleeOf(r.info, call)
	if fn == nil || fn.Pkg() == nil {
		return false
	}
	valueArg := -1
	switch {
	case fn.Pkg().Path() == "sync/atomic" && (strings.HasPrefix(fn.Name(), "Store") || strings.HasPrefix(fn.Name(), "Swap")):
		valueArg = 1
	case fn.Pkg().Path() == "sync/atomic" && strings.HasPrefix(fn.Name(), "CompareAndSwap") && len(call.Args) == 3:
		valueArg = 2
	case r.isStoreWrapper(fn):
		valueArg = 1
	default:
		return false
	}
	addr, ok := unparen(call.Args[0]).(*ast.UnaryExpr)
	if !ok || addr.Op != token.AND || canonPath(r.info, addr.X) != c10ResizeFlag {
		return false
	}
	if tv, ok := r.info.Types[call.Args[valueArg]]; ok && tv.Value != nil {
		switch tv.Value.Kind() {
		case constant.Bool:
			return constant.BoolVal(tv.Value)
		case constant.Int:
			v, exact := constant.Int64Val(tv.Value)
			return !exact || v != 0
		}
	}
	return true // a computed value may raise the flag
}

// isStoreWrapper: a function of the repository whose first parameter is a pointer that only ever flows into
// the address operand of sync/atomic Store/Swap calls, and that takes the value as its second parameter.
func (r *c10Req) isStoreWrapper(fn *types.Func) bool {
	switch r.wrappers[fn] {
	case 1:
		return true
	case 2:
		return false
	}
	r.wrappers[fn] = 2
	fi := r.c.P.FuncOfObj(fn)
	if fi == nil || fi.Decl.Body == nil || fi.Decl.Recv != nil || fi.Decl.Type.Params == nil {
		return false
	}
	sig := fn.Type().(*types.Signature)
	if sig.Params().Len() != 2 {
		return false
	}
	if _, isPtr := sig.Params().At(0).Type().Underlying().(*types.Pointer); !isPtr {
		return false
	}
	info := fi.Pkg.TypesInfo
	pobj := types.Object(nil)
	for _, f := range fi.Decl.Type.Params.List {
		for _, n := range f.Names {
			if pobj == nil {
				pobj = info.Defs[n]
			}
		}
	}
	if pobj == nil {
		return false
	}
	par := r.c.P.Parents(fi.Pkg)
	uses, clean := 0, true
	ast.Inspect(fi.Decl.Body, func(n ast.Node) bool {
		id, ok := n.(*ast.Ident)
		if !ok || info.Uses[id] != pobj {
			return true
		}
		uses++
		call, ok := par[id].(*ast.CallExpr)
		if !ok || len(call.Args) == 0 || call.Args[0] != ast.Expr(id) {
			clean = false
			return true
		}
		cal := calleeOf(info, call)
		if cal == nil || cal.Pkg() == nil || cal.Pkg().Path() != "sync/atomic" || !(strings.HasPrefix(cal.Name(), "Store") || strings.HasPrefix(cal.Name(), "Swap")) {
			clean = false
		}
		return true
	})
	if uses > 0 && clean {
		r.wrappers[fn] = 1
		return true
	}
	return false
}

// isRaise: a raise site, or a call of a function of the package that raises the flag on every path.
func (r *c10Req) isRaise(n ast.Node) bool {
	if r.isRaiseSite(n) {
		return true
	}
	return r.callAlways(n, r.raises, r.isRaise)
}

// isPost: PostEvent/PostEventBlocking of a Redraw value, or a call of a function of the package that posts
// one on every path.
func (r *c10Req) isPost(n ast.Node) bool {
	call, ok := n.(*ast.CallExpr)
	if !ok {
		return false
	}
	if fn := calleeOf(r.info, call); fn != nil && len(call.Args) == 1 {
		switch repoName(fn) {
		case "vaxis.Vaxis.PostEvent", "vaxis.Vaxis.PostEventBlocking":
			if nt, ok := types.Unalias(r.info.TypeOf(call.Args[0])).(*types.Named); ok && nt.Obj().Name() == "Redraw" && nt.Obj().Pkg() == fn.Pkg() {
				return true
			}
			return false
		}
	}
	return r.callAlways(n, r.posts, r.isPost)
}

// callAlways: n is a static call of a function of package vaxis in whose body every path from entry to
// return passes a node satisfying pred (memoised; recursion is "no").
func (r *c10Req) callAlways(n ast.Node, memo map[*types.Func]int, pred func(ast.Node) bool) bool {
	call, ok := n.(*ast.CallExpr)
	if !ok {
		return false
	}
	fn := calleeOf(r.info, call)
	if fn == nil {
		return false
	}
	switch memo[fn] {
	case 1:
		return true
	case 2, 3:
		return false
	}
	fi := r.c.P.FuncOfObj(fn)
	if fi == nil || fi.Decl.Body == nil || fi.Pkg.TypesInfo != r.info {
		memo[fn] = 2
		return false
	}
	memo[fn] = 3
	g := r.c.P.Graph(fi)
	res := false
	if g != nil && len(g.Blocks) > 0 {
		res, _ = g.MustFollow(Loc{g.Blocks[0], -1}, pred)
	}
	if res {
		memo[fn] = 1
	} else {
		memo[fn] = 2
	}
	return res
}
