package main

// C06.p  frame condition of the alternate-screen switches: CSI ?47/?1047/?1049 h and l leave the scroll margins
//        and the tab stops as they are.
//
// In a VT/xterm the DECSTBM region and the tab stops are state of the TERMINAL, shared by both screen buffers:
// ?1049h saves the cursor (DECSC), selects the alternate buffer and clears it; ?1049l selects the normal buffer
// and restores the cursor (DECRC). Neither touches top/bottom margin or the tab stops (xterm ToAlternate /
// FromAlternate swap buffers only). A switch that resets the region ("for applications that forget to") makes
// every later LF/IND/RI at the old margins, SU/SD, IL/DL and the CUU/CUD margin stops act on the wrong lines.
//
// Two parts:
//
//   - margins (semantic): the DECSET / DECRST dispatcher is analysed by the C05 engine from the terminal
//     invariant with a parameter list ALL of whose entries are the mode number (engine option elemAll: every
//     params[i][0] == 1049, any length), the margins named by ghosts at entry; at every normal exit
//     margin.top == margin.top@entry and margin.bottom == margin.bottom@entry must be provable. Helpers are
//     inlined by the engine, other modes' cases are infeasible under the seeded parameter, value-preserving
//     stores are accepted; the shape of the dispatch (switch, if-chain, helper taking the mode number) is not
//     looked at.
//   - tab stops (structural write set): no statement that can run for the mode (the statements of its case, and
//     transitively the package functions called from them) stores Model.tabStop or one of its elements.
//     Reported once per dispatcher; decided only when the case is found as a clause of the dispatcher's switch.

import (
	"fmt"
	"go/ast"
	"go/token"
	"go/types"
	"strings"
)

func init() { registerExtra("C06", c06RuleAltScreenFrame) }

func c06RuleAltScreenFrame(c *Ctx) {
	c.Clauses = append(c.Clauses, "C06.p CSI ?47/?1047/?1049 h and l leave the scroll margins and the tab stops unchanged (the region and the tab stops are shared by both screens)")
	c.expect("C06.p", 8)
	e := c05Engine(c)
	if e.pk == nil || e.model == nil || e.cellT == nil {
		c.undecided("C06.p", "widgets/term", 0, "package widgets/term, type Model or type cell not found")
		return
	}
	for _, sp := range []struct{ table, letter string }{{"decset", "h"}, {"decrst", "l"}} {
		fi := c.P.Func("widgets/term.(*Model)." + sp.table)
		if fi == nil || fi.Decl.Body == nil {
			continue // C06.b reports the missing dispatcher
		}
		for _, mode := range []int64{47, 1047, 1049} {
			c06FrameMargins(c, e, fi, mode, sp.letter)
		}
		c06FrameTabStops(c, e, fi, sp.table, sp.letter)
	}
}

func c06FrameMargins(c *Ctx, e *c05Eng, fi *FuncInfo, mode int64, letter string) {
	key := fmt.Sprintf("%s/CSI ?%d%s leaves the scroll margins unchanged", fi.Name, mode, letter)
	shape := ""
	prep := func(fr *c05Frame, st *c05State) {
		var params []types.Object
		for _, f := range fi.Decl.Type.Params.List {
			for _, nme := range f.Names {
				params = append(params, fr.info.Defs[nme])
			}
		}
		if len(params) != 1 || params[0] == nil || !isSliceType(params[0].Type()) {
			shape = "the dispatcher does not take the raw parameter list"
			return
		}
		pk := fmt.Sprintf("v%p", params[0])
		e.disp[pk] = params[0].Name()
		e.elemAll = map[string]int64{pk: mode}
		e.elemOf = nil
		e.ghostify(st, c05Top_, g0Top)
		e.ghostify(st, c05Bot, g0Bot)
	}
	_, exit := e.analyse(fi, prep)
	e.elemAll, e.elemOf = nil, nil
	switch {
	case shape != "":
		c.undecided("C06.p", key, fi.Decl.Pos(), "%s; the contract cannot be set up", shape)
		return
	case exit == nil || exit.env == nil:
		c.undecided("C06.p", key, fi.Decl.Pos(), "the dispatcher has no normal exit for this mode")
		return
	}
	var miss []string
	for _, p := range []c06Post{c06Eq("top margin unchanged", c05Top_, 1, g0Top, -1), c06Eq("bottom margin unchanged", c05Bot, 1, g0Bot, -1)} {
		if !(e.prove(exit, p.eq) && e.prove(exit, p.eq.neg())) {
			miss = append(miss, p.what)
		}
	}
	if len(miss) == 0 {
		c.ok("C06.p", key, fi.Decl.Pos(), "proved at every exit for a parameter list of any length whose entries are all %d: margins as at entry", mode)
		return
	}
	c.bad("C06.p", key, fi.Decl.Pos(), "not established: %s (margins %s .. %s at exit): switching screens changes the scroll region, which a VT shares between both screens — later line feeds, scrolls and line insertions act on other lines than the reference's",
		strings.Join(miss, ", "), e.showVal(e.valOf(exit, c05Top_)), e.showVal(e.valOf(exit, c05Bot)))
}

// c06FrameTabStops: the write set of the alternate-screen cases does not contain the tab stops.
func c06FrameTabStops(c *Ctx, e *c05Eng, fi *FuncInfo, table, letter string) {
	key := fmt.Sprintf("%s/CSI ?47/?1047/?1049 %s do not store the tab stops", fi.Name, letter)
	t := c06Dispatch(c, e, "widgets/term.(*Model)."+table)
	var bodies [][]ast.Stmt
	var pos token.Pos
	if t != nil {
		seen := map[*ast.CaseClause]bool{}
		for _, m := range []string{"47", "1047", "1049"} {
			if en := t.entries[m]; en != nil && en.clause != nil && !seen[en.clause] {
				seen[en.clause] = true
				bodies = append(bodies, en.clause.Body)
				if pos == 0 {
					pos = en.clause.Pos()
				}
			}
		}
	}
	if len(bodies) == 0 {
		// the dispatch has another shape (helper, table): judge the whole dispatcher only if that is conclusive,
		// i.e. nothing it can reach stores the tab stops at all
		w := &c06Writes{c: c, e: e, seen: map[*FuncInfo]bool{}}
		w.stmts(fi, fi.Decl.Body.List)
		if len(w.hits) == 0 {
			c.ok("C06.p", key, fi.Decl.Pos(), "nothing reachable from the dispatcher stores Model.tabStop")
		} else {
			c.undecided("C06.p", key, fi.Decl.Pos(), "the alternate-screen case is not a clause of the dispatcher's switch and the dispatcher can store the tab stops (%s): cannot tell for which mode", w.hits[0])
		}
		return
	}
	w := &c06Writes{c: c, e: e, seen: map[*FuncInfo]bool{}}
	for _, b := range bodies {
		w.stmts(fi, b)
	}
	if len(w.hits) > 0 {
		c.bad("C06.p", key, pos, "the alternate-screen switch stores the tab stops (%s): they are shared by both screens in a VT, so HT/CBT after the switch stop at other columns than the reference's", strings.Join(w.hits, "; "))
		return
	}
	c.ok("C06.p", key, pos, "no statement of the case, nor a function of the package it calls, stores Model.tabStop")
}

// c06Writes collects stores to Model.tabStop (the field, an element, a window) in statements and, transitively, in
// the package functions they call.
type c06Writes struct {
	c    *Ctx
	e    *c05Eng
	seen map[*FuncInfo]bool
	hits []string
}

func (w *c06Writes) isTabStop(info *types.Info, x ast.Expr) bool {
	for cur := unparen(x); ; {
		switch t := cur.(type) {
		case *ast.IndexExpr:
			cur = unparen(t.X)
		case *ast.SliceExpr:
			cur = unparen(t.X)
		case *ast.StarExpr:
			cur = unparen(t.X)
		case *ast.SelectorExpr:
			if s, ok := info.Selections[t]; ok && s.Kind() == types.FieldVal && s.Obj().Name() == "tabStop" {
				if n := namedOf(s.Recv()); n != nil && n.Obj() == w.e.model.Obj() {
					return true
				}
			}
			return false
		default:
			return false
		}
	}
}

func namedOf(t types.Type) *types.Named {
	if p, ok := t.(*types.Pointer); ok {
		t = p.Elem()
	}
	n, _ := t.(*types.Named)
	return n
}

func (w *c06Writes) stmts(fi *FuncInfo, list []ast.Stmt) {
	info := fi.Pkg.TypesInfo
	hit := func(n ast.Node) {
		w.hits = append(w.hits, fmt.Sprintf("%s in %s", w.c.P.Pos(n.Pos()), fi.Name))
	}
	for _, s := range list {
		ast.Inspect(s, func(n ast.Node) bool {
			switch t := n.(type) {
			case *ast.AssignStmt:
				for _, l := range t.Lhs {
					if w.isTabStop(info, l) {
						hit(t)
					}
				}
			case *ast.IncDecStmt:
				if w.isTabStop(info, t.X) {
					hit(t)
				}
			case *ast.UnaryExpr:
				// &vt.tabStop escapes: a store through the pointer cannot be excluded
				if t.Op == token.AND && w.isTabStop(info, t.X) {
					hit(t)
				}
			case *ast.CallExpr:
				if id, ok := unparen(t.Fun).(*ast.Ident); ok {
					if b, ok := info.Uses[id].(*types.Builtin); ok && (b.Name() == "copy" || b.Name() == "clear") && len(t.Args) > 0 && w.isTabStop(info, t.Args[0]) {
						hit(t)
					}
				}
				if fn := calleeOf(info, t); fn != nil {
					if cf := w.c.P.FuncOfObj(fn); cf != nil && cf.Pkg == w.e.pk && cf.Decl.Body != nil && !w.seen[cf] {
						w.seen[cf] = true
						w.stmts(cf, cf.Decl.Body.List)
					}
				}
			}
			return true
		})
	}
}
