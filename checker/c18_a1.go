package main

// c18_a1.go — C18.e: the lists for which assumption A1 ("every parameter has at least one sub-parameter") holds.
//
// A1 is an assumption about the VALUE the ansi parser delivers, not about the variable named `params`. It holds
// for every [][]int value that is built from that value without writing an element:
//
//   - the [][]int parameter of the consumer itself,
//   - a literal all of whose elements are non-empty literals (`[][]int{{0}}`, the default list),
//   - a sub-slice X[a:], X[a:b] of such a list (its elements are elements of X),
//   - a local every assignment of which stores such a list (`ps := params`, `rest := params[i:]`, the bound
//     parameter `params_inl1 := params` of an inlined helper, `list := [][]int{{0}}`; `list = params`).
//
// It is withdrawn for the whole function as soon as any element of any [][]int is stored to (`x[i] = ...`,
// `&x[i]`, copy(x, ...)): lists alias each other, so a store through one name may empty an element seen through
// another. The set of locals is the greatest fixpoint of the last clause.

import (
	"go/ast"
	"go/token"
	"go/types"
)

const c18ListType = "[][]int"

// c18A1Lists returns the predicate "the expression e (of type [][]int) denotes a list for which A1 holds".
func c18A1Lists(info *types.Info, body *ast.BlockStmt, paramObj types.Object) func(e ast.Expr) bool {
	isList := func(e ast.Expr) bool {
		t := info.TypeOf(e)
		return t != nil && t.String() == c18ListType
	}
	// nonEmptyLit: [][]int{{..}, {..}} with every element a non-empty literal (no keys: a key leaves nil gaps)
	nonEmptyLit := func(cl *ast.CompositeLit) bool {
		if !isList(cl) {
			return false
		}
		for _, el := range cl.Elts {
			inner, ok := el.(*ast.CompositeLit)
			if !ok || len(inner.Elts) == 0 {
				return false
			}
		}
		return true
	}
	set := map[types.Object]bool{}
	if paramObj != nil {
		set[paramObj] = true
	}
	elemStore := false
	ast.Inspect(body, func(n ast.Node) bool {
		switch t := n.(type) {
		case *ast.ValueSpec:
			// candidates: locals introduced by `var` or `:=` (not parameters of function literals, not range or
			// comm-clause variables)
			for _, nm := range t.Names {
				if v, ok := info.Defs[nm].(*types.Var); ok && v.Type().String() == c18ListType {
					set[v] = true
				}
			}
		case *ast.AssignStmt:
			for _, l := range t.Lhs {
				if id, ok := l.(*ast.Ident); ok && t.Tok == token.DEFINE {
					if v, ok := info.Defs[id].(*types.Var); ok && v.Type().String() == c18ListType {
						set[v] = true
					}
				}
				if ix, ok := unparen(l).(*ast.IndexExpr); ok && isList(ix.X) {
					elemStore = true
				}
			}
		case *ast.UnaryExpr:
			if t.Op == token.AND {
				if ix, ok := unparen(t.X).(*ast.IndexExpr); ok && isList(ix.X) {
					elemStore = true
				}
			}
		case *ast.RangeStmt:
			// for i, list[j] = range ...: an element store
			for _, kv := range []ast.Expr{t.Key, t.Value} {
				if kv == nil {
					continue
				}
				if ix, ok := unparen(kv).(*ast.IndexExpr); ok && isList(ix.X) {
					elemStore = true
				}
			}
		case *ast.CallExpr:
			if id, ok := unparen(t.Fun).(*ast.Ident); ok && id.Name == "copy" && len(t.Args) == 2 && isList(t.Args[0]) {
				if _, isBuiltin := info.ObjectOf(id).(*types.Builtin); isBuiltin {
					elemStore = true
				}
			}
		}
		return true
	})
	var holds func(e ast.Expr) bool
	holds = func(e ast.Expr) bool {
		switch t := unparen(e).(type) {
		case *ast.Ident:
			o := info.ObjectOf(t)
			return o != nil && set[o]
		case *ast.SliceExpr:
			return isList(t.X) && holds(t.X)
		case *ast.CompositeLit:
			return nonEmptyLit(t)
		}
		return false
	}
	if elemStore {
		// only values that no name can reach: the literals themselves
		set = map[types.Object]bool{}
		return holds
	}
	for changed := true; changed; {
		changed = false
		drop := func(o types.Object) {
			if o != nil && set[o] {
				delete(set, o)
				changed = true
			}
		}
		ast.Inspect(body, func(n ast.Node) bool {
			switch t := n.(type) {
			case *ast.AssignStmt:
				for i, l := range t.Lhs {
					id, ok := unparen(l).(*ast.Ident)
					if !ok {
						continue
					}
					o := info.ObjectOf(id)
					if o == nil || !set[o] {
						continue
					}
					if len(t.Rhs) != len(t.Lhs) || (t.Tok != token.ASSIGN && t.Tok != token.DEFINE) || !holds(t.Rhs[i]) {
						drop(o)
					}
				}
			case *ast.ValueSpec:
				for i, nm := range t.Names {
					o := info.Defs[nm]
					if o == nil || !set[o] || len(t.Values) == 0 {
						continue // `var list [][]int`: nil, no elements
					}
					if len(t.Values) != len(t.Names) || !holds(t.Values[i]) {
						drop(o)
					}
				}
			case *ast.RangeStmt:
				for _, kv := range []ast.Expr{t.Key, t.Value} {
					if kv == nil {
						continue
					}
					if id, ok := unparen(kv).(*ast.Ident); ok {
						drop(info.ObjectOf(id))
					}
				}
			case *ast.UnaryExpr:
				// &list: stores through the pointer are not followed
				if t.Op == token.AND {
					if id, ok := unparen(t.X).(*ast.Ident); ok {
						drop(info.ObjectOf(id))
					}
				}
			}
			return true
		})
	}
	return holds
}
