// Copyright (c) vxcheck authors.
//
// c18_frag.go — SGR sequences that are written in pieces.
//
// The encoders of the reference tree write every SGR sequence with one call (fmt.Fprintf with a constant format,
// WriteString of a constant). An equivalent encoder may assemble the same bytes from pieces: the introducer, then
// the decimal parameters (strconv.Itoa / FormatInt / AppendInt) with their separators, then the final byte, written
// with WriteString / WriteByte / WriteRune / Write by a (variadic) helper. The rules of C18 judge the *sequences* an
// encoder writes between two graphemes, not the calls it uses, so
//
//   - c18Coalesce joins the consecutive write events that together form one escape sequence into one event (text =
//     the bytes, template = the pieces with "%d" where a formatted number was written), and
//   - string values remember the template they were built from (c18Val.tm): strconv.Itoa(x) is "%d", a
//     concatenation concatenates the templates, fmt.Sprintf gives its format. A whole-sequence write of
//     intro + strconv.Itoa(x) + "m" is therefore keyed like fmt.Fprintf(w, intro+"%dm", x).
//
// The file also holds the models of the byte-slice and number-formatting functions such code uses.
package main

import (
	"go/ast"
	"go/types"
	"strconv"
	"strings"
)

// c18Tmpl is the template of a string value: the recorded one, or the string itself.
func c18Tmpl(v c18Val) string {
	if v.tm != "" {
		return v.tm
	}
	return v.s
}

// c18NumStr is the string of a formatted number.
func c18NumStr(s string) c18Val { return c18Val{k: c18Str, s: s, tm: "%d"} }

func c18Concat(x, y c18Val) c18Val {
	r := c18StrV(x.s + y.s)
	if x.tm != "" || y.tm != "" {
		r.tm = c18Tmpl(x) + c18Tmpl(y)
	}
	return r
}

func c18Bytes(s string) []c18Val {
	out := make([]c18Val, len(s))
	for i := 0; i < len(s); i++ {
		out[i] = c18IntV(int64(s[i]))
	}
	return out
}

func c18SliceOf(arr []c18Val) c18Val {
	return c18Val{k: c18Slice, ref: &c18SliceV{arr: &arr, lo: 0, hi: len(arr)}}
}

func c18IsByteElem(t types.Type) (isByte, isRune bool) {
	if t == nil {
		return false, false
	}
	var elem types.Type
	switch u := t.Underlying().(type) {
	case *types.Slice:
		elem = u.Elem()
	case *types.Array:
		elem = u.Elem()
	default:
		return false, false
	}
	b, ok := elem.Underlying().(*types.Basic)
	if !ok {
		return false, false
	}
	return b.Kind() == types.Uint8, b.Kind() == types.Int32
}

// fragToString: string(x) for a byte slice, a rune slice or an integer (rune) value.
func (m *c18Machine) fragToString(v c18Val, from types.Type) (c18Val, bool) {
	switch v.k {
	case c18Int:
		return c18StrV(string(rune(v.i))), true
	case c18Nil:
		return c18StrV(""), true
	case c18Slice:
		isByte, isRune := c18IsByteElem(from)
		if !isByte && !isRune {
			return c18Val{}, false
		}
		sl := v.slice()
		var sb strings.Builder
		for _, e := range (*sl.arr)[sl.lo:sl.hi] {
			if e.k != c18Int {
				return c18Val{}, true // an undetermined element: the string is unknown
			}
			if isByte {
				sb.WriteByte(byte(e.i))
			} else {
				sb.WriteRune(rune(e.i))
			}
		}
		return c18StrV(sb.String()), true
	}
	return c18Val{}, false
}

// fragToSlice: []byte(s), []rune(s), and the conversion between slice types with the same element type.
func (m *c18Machine) fragToSlice(v c18Val, to *types.Slice) (c18Val, bool) {
	switch v.k {
	case c18Slice, c18Nil:
		return v, true
	case c18Unknown:
		return v, true
	case c18Str:
		b, ok := to.Elem().Underlying().(*types.Basic)
		if !ok {
			return c18Val{}, false
		}
		switch b.Kind() {
		case types.Uint8:
			return c18SliceOf(c18Bytes(v.s)), true
		case types.Int32:
			var arr []c18Val
			for _, r := range v.s {
				arr = append(arr, c18IntV(int64(r)))
			}
			return c18SliceOf(arr), true
		}
	}
	return c18Val{}, false
}

// fragBytes reads a byte slice value; known=false when an element is undetermined.
func (m *c18Machine) fragBytes(v c18Val, what string) (s string, known bool) {
	switch v.k {
	case c18Nil:
		return "", true
	case c18Slice, c18Array:
		sl := v.slice()
		var sb strings.Builder
		for _, e := range (*sl.arr)[sl.lo:sl.hi] {
			if e.k != c18Int {
				return "", false
			}
			sb.WriteByte(byte(e.i))
		}
		return sb.String(), true
	case c18Unknown:
		return "", false
	}
	m.abort("%s: argument is not a byte slice", what)
	return "", false
}

// fragAppend is append(dst, text...) on a modelled byte slice.
func (m *c18Machine) fragAppend(dst c18Val, text string) c18Val {
	add := c18Bytes(text)
	switch dst.k {
	case c18Nil:
		return c18SliceOf(add)
	case c18Slice:
		sl := dst.slice()
		if sl.hi == len(*sl.arr) {
			*sl.arr = append(*sl.arr, add...)
			return c18Val{k: c18Slice, ref: &c18SliceV{arr: sl.arr, lo: sl.lo, hi: sl.hi + len(add)}}
		}
		// writes into the spare capacity of the backing array, as append does
		arr := *sl.arr
		n := 0
		for sl.hi+n < len(arr) && n < len(add) {
			arr[sl.hi+n] = add[n]
			n++
		}
		if n == len(add) {
			return c18Val{k: c18Slice, ref: &c18SliceV{arr: sl.arr, lo: sl.lo, hi: sl.hi + n}}
		}
		na := append(append([]c18Val{}, arr[sl.lo:sl.hi+n]...), add[n:]...)
		return c18SliceOf(na)
	}
	m.abort("append of formatted bytes to an unknown slice")
	return c18Val{}
}

// fragCall models the number-formatting and byte-writing library functions.
func (m *c18Machine) fragCall(fr *c18Frame, call *ast.CallExpr, full string) c18Val {
	intArg := func(i int) (int64, bool) {
		v := m.eval(fr, call.Args[i])
		return v.i, v.k == c18Int
	}
	switch full {
	case "strconv.FormatInt", "strconv.FormatUint":
		x, ok1 := intArg(0)
		base, ok2 := intArg(1)
		if !ok1 || !ok2 {
			return c18Val{}
		}
		if base < 2 || base > 36 {
			m.gopanic("strconv: illegal AppendInt/FormatInt base")
		}
		var s string
		if full == "strconv.FormatInt" {
			s = strconv.FormatInt(x, int(base))
		} else {
			s = strconv.FormatUint(uint64(x), int(base))
		}
		if base == 10 {
			return c18NumStr(s)
		}
		return c18StrV(s)
	case "strconv.AppendInt", "strconv.AppendUint":
		dst := m.eval(fr, call.Args[0])
		x, ok1 := intArg(1)
		base, ok2 := intArg(2)
		if !ok1 || !ok2 || dst.k == c18Unknown {
			return c18Val{}
		}
		if base < 2 || base > 36 {
			m.gopanic("strconv: illegal AppendInt/FormatInt base")
		}
		var s string
		if full == "strconv.AppendInt" {
			s = strconv.FormatInt(x, int(base))
		} else {
			s = strconv.FormatUint(uint64(x), int(base))
		}
		return m.fragAppend(dst, s)
	case "strings.Repeat":
		sv := m.eval(fr, call.Args[0])
		n, ok := intArg(1)
		if sv.k != c18Str || !ok {
			return c18Val{}
		}
		if n < 0 {
			m.gopanic("strings: negative Repeat count")
		}
		if int64(len(sv.s))*n > 1<<20 {
			m.abort("strings.Repeat result too long")
		}
		r := c18StrV(strings.Repeat(sv.s, int(n)))
		if sv.tm != "" {
			r.tm = strings.Repeat(sv.tm, int(n))
		}
		return r
	case "strings.Join":
		lv := m.eval(fr, call.Args[0])
		sep := m.eval(fr, call.Args[1])
		if sep.k != c18Str {
			return c18Val{}
		}
		var elems []c18Val
		switch lv.k {
		case c18Nil:
		case c18Slice, c18Array:
			sl := lv.slice()
			elems = (*sl.arr)[sl.lo:sl.hi]
		default:
			return c18Val{}
		}
		r := c18StrV("")
		for i, e := range elems {
			if e.k != c18Str {
				return c18Val{}
			}
			if i > 0 {
				r = c18Concat(r, sep)
			}
			r = c18Concat(r, e)
		}
		return r
	case "strings.Builder.Write", "bytes.Buffer.Write":
		sel, _ := unparen(call.Fun).(*ast.SelectorExpr)
		if sel == nil {
			m.abort("builder method value")
		}
		b := m.builderOf(m.eval(fr, sel.X))
		if b == nil {
			m.abort("method Write on an unknown builder")
		}
		text, known := m.fragBytes(m.eval(fr, call.Args[0]), "Write")
		if !known {
			m.abort("Write of unknown bytes")
		}
		tmpl := ""
		if _, computed := unparen(call.Args[0]).(*ast.CallExpr); !computed {
			tmpl = text
		}
		m.emitT(call, b, text, tmpl)
		return c18Val{k: c18Tuple, ref: []c18Val{c18IntV(int64(len(text))), {k: c18Nil}}}
	}
	m.abort("call of %s (no model)", full)
	return c18Val{}
}

// c18OpenEsc: does s end inside an escape sequence that is not finished (a lone ESC, a CSI without its final byte,
// an OSC/DCS/APC string without its terminator)? The scan is the one of c18Tokenise.
func c18OpenEsc(s string) bool {
	i := 0
	for i < len(s) {
		if s[i] != 0x1b {
			i++
			continue
		}
		if i+1 >= len(s) {
			return true
		}
		switch s[i+1] {
		case '[':
			j := i + 2
			for j < len(s) && s[j] >= 0x30 && s[j] <= 0x3f {
				j++
			}
			for j < len(s) && s[j] >= 0x20 && s[j] <= 0x2f {
				j++
			}
			if j >= len(s) {
				return true
			}
			i = j + 1
		case ']', 'P', '_':
			j := i + 2
			closed := false
			for j < len(s) {
				if s[j] == 0x07 {
					j++
					closed = true
					break
				}
				if s[j] == 0x1b && j+1 < len(s) && s[j+1] == '\\' {
					j += 2
					closed = true
					break
				}
				j++
			}
			if !closed {
				return true
			}
			i = j
		default:
			i++
		}
	}
	return false
}

func c18AllDigits(s string) bool {
	if s == "" {
		return false
	}
	for i := 0; i < len(s); i++ {
		if s[i] < '0' || s[i] > '9' {
			return false
		}
	}
	return true
}

// c18Coalesce joins the write events that together form one escape sequence: a run starts at an event whose text ends
// inside an unfinished sequence and extends until the joined text is closed (or the list ends). The joined event
// stands at the call that began the sequence; its template is the concatenation of the templates of the pieces, with
// "%d" for a piece without a template that consists of decimal digits (a number formatted by a call); when a piece
// has neither, the joined event has no template and is keyed by its text. Events that are whole by themselves are
// left as they are, so a tree that writes every sequence with one call is judged exactly as before.
func c18Coalesce(evs []c18Event) []c18Event {
	frag := false
	for _, ev := range evs {
		if c18OpenEsc(ev.text) {
			frag = true
			break
		}
	}
	if !frag {
		return evs
	}
	out := make([]c18Event, 0, len(evs))
	for i := 0; i < len(evs); i++ {
		ev := evs[i]
		if !c18OpenEsc(ev.text) {
			out = append(out, ev)
			continue
		}
		text, tmpl, hasT := ev.text, ev.tmpl, ev.tmpl != ""
		j := i + 1
		for ; j < len(evs) && c18OpenEsc(text); j++ {
			p := evs[j]
			text += p.text
			switch {
			case !hasT:
			case p.tmpl != "":
				tmpl += p.tmpl
			case c18AllDigits(p.text):
				tmpl += "%d"
			default:
				hasT = false
			}
		}
		if !hasT {
			tmpl = ""
		}
		out = append(out, c18Event{ev.call, text, tmpl})
		i = j - 1
	}
	return out
}
