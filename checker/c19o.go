package main

// C19.o — vxfw/list: "lay drawn items out in order": the children of a surface are in list order (top to
// bottom) wherever that order is observed - at every normal return of a layout function, and where a loop
// re-rows them in slice order.
//
// The rule is a typestate over every slice of sub-surfaces a layout function builds (X.Children of a
// surface, or a local slice that is spliced into it later), run as a product with the accumulator typestate
// of C19.i (c19y.go), which says for every placement whether the accumulated row had just been LOWERED by the
// child's height (the child goes above everything placed so far: upward stacking) or not (downward):
//
//   A0  empty                                  S0  exactly one child
//   Ae  as at the entry of the function (in order; empty iff it was empty at entry)
//   A   in list order                          D0  a block appended bottom-up onto an empty slice
//   De  a block appended bottom-up behind the entry content      D1  a bottom-up block behind other children
//   B   out of order for good                  U   not understood (reported as undecided)
//
// An upward child that is committed at the front (slices.Insert(C, 0, x), append([]T{x}, C...)) keeps the
// order; one that is APPENDED starts or extends a bottom-up block, which only a reversal of the whole slice
// brings into list order - and only when the block is all there is (D0; De when every caller hands over a
// surface without children, which is checked at the call sites). Reversals are recognised semantically: the
// two-pointer loop, the mirror loop over the first half, slices.Reverse, and a helper whose body is one of
// these over its parameter (c19ReversalLoop / c19ReverseCall). Error returns (a non-nil error result by the
// facts in force) are not observation points: the caller discards the surface.
//
// The same recogniser discharges the index obligations of C19.c inside a reversal loop: 0 <= lo < hi <= len-1
// (resp. 0 <= i < len/2 and the mirror index len-1-i) is the invariant of a loop of exactly that shape.

import (
	"fmt"
	"go/ast"
	"go/token"
	"go/types"
	"os"
	"sort"
	"strings"

	"golang.org/x/tools/go/cfg"
)

// ---------------------------------------------------------------------------------------------
// reversal loops
// ---------------------------------------------------------------------------------------------

type c19Reversal struct {
	loop   *ast.ForStmt
	slice  ast.Expr
	idx    map[*ast.IndexExpr]bool // index expressions of the swap: within [0,len) by the loop invariant
	anchor ast.Node                // the statement that runs exactly once per execution of the loop (its initialisation)
	outer  []ast.Stmt              // initialisation statements in front of the loop (when the for statement has none)
	form   string
}

var c19RevMemo = map[*ast.ForStmt]*c19Reversal{}
var c19RevSeen = map[*ast.ForStmt]bool{}

func c19LinZero(l *c19Lin) bool { return len(l.ids()) == 0 && l.k == 0 }

func c19LinEq(a, b *c19Lin) bool { return a != nil && b != nil && c19LinZero(a.plus(b, -1)) }

func c19SameSlice(info *types.Info, a, b ast.Expr) bool {
	ta, tb := termOf(info, a).ID, termOf(info, b).ID
	return ta == tb && !strings.HasPrefix(ta, "expr:")
}

// c19IdentVar: e is a plain local variable (through parentheses and integer conversions).
func c19IdentVar(info *types.Info, e ast.Expr) *types.Var {
	return c19PlainVar(info, e)
}

// c19StepOf: the statement adds a constant to plain integer variables (x++, x--, x += k, x = x + k, tuple forms).
func c19StepOf(info *types.Info, st ast.Stmt, out map[*types.Var]int64) bool {
	add := func(v *types.Var, d int64) bool {
		if v == nil || d == 0 {
			return false
		}
		if _, dup := out[v]; dup {
			return false
		}
		out[v] = d
		return true
	}
	switch s := st.(type) {
	case *ast.IncDecStmt:
		id, ok := unparen(s.X).(*ast.Ident)
		if !ok {
			return false
		}
		v, _ := info.ObjectOf(id).(*types.Var)
		if s.Tok == token.INC {
			return add(v, 1)
		}
		return add(v, -1)
	case *ast.AssignStmt:
		if len(s.Lhs) != len(s.Rhs) {
			return false
		}
		for i, lh := range s.Lhs {
			id, ok := unparen(lh).(*ast.Ident)
			if !ok {
				return false
			}
			v, _ := info.ObjectOf(id).(*types.Var)
			if v == nil || !c19IsIntType(v.Type()) {
				return false
			}
			switch s.Tok {
			case token.ADD_ASSIGN, token.SUB_ASSIGN:
				k, isC := constInt(info, s.Rhs[i])
				if !isC || len(s.Lhs) != 1 {
					return false
				}
				if s.Tok == token.SUB_ASSIGN {
					k = -k
				}
				if !add(v, k) {
					return false
				}
			case token.ASSIGN:
				d := c19LinOf(info, s.Rhs[i]).plus(c19LinOf(info, lh), -1)
				if len(d.ids()) != 0 || !add(v, d.k) {
					return false
				}
			default:
				return false
			}
		}
		return true
	}
	return false
}

// c19ReversalLoop: fs reverses a slice in place and does nothing else.
//
//	for lo, hi := 0, len(V)-1; lo < hi; lo, hi = lo+1, hi-1 { V[lo], V[hi] = V[hi], V[lo] }       two-pointer
//	for i := 0; i < len(V)/2; i++ { j := len(V)-1-i; V[i], V[j] = V[j], V[i] }                  mirror
//	for i := len(V)/2 - 1; i >= 0; i-- { ... }                                                  mirror, downward
//
// The counters may be initialised by the statements directly in front of the loop and stepped at the end of
// the body instead of in the post statement; the swap may go through a temporary.
func c19ReversalLoop(info *types.Info, parents map[ast.Node]ast.Node, fs *ast.ForStmt) *c19Reversal {
	if c19RevSeen[fs] {
		return c19RevMemo[fs]
	}
	c19RevSeen[fs] = true
	r := c19ReversalLoop1(info, parents, fs)
	c19RevMemo[fs] = r
	return r
}

func c19ReversalLoop1(info *types.Info, parents map[ast.Node]ast.Node, fs *ast.ForStmt) *c19Reversal {
	if fs.Cond == nil || fs.Body == nil {
		return nil
	}
	// ---- the body: optional definitions of index locals, one swap, optional steps
	defs := map[*types.Var]ast.Expr{}
	steps := map[*types.Var]int64{}
	var V ast.Expr
	var ia, ib ast.Expr
	idx := map[*ast.IndexExpr]bool{}
	elem := func(e ast.Expr) *ast.IndexExpr {
		ie, ok := unparen(e).(*ast.IndexExpr)
		if !ok {
			return nil
		}
		if _, isSlice := info.TypeOf(ie.X).Underlying().(*types.Slice); !isSlice {
			return nil
		}
		if V != nil && !c19SameSlice(info, V, ie.X) {
			return nil
		}
		return ie
	}
	var lin func(e ast.Expr) *c19Lin
	lin = func(e ast.Expr) *c19Lin {
		if v := c19IdentVar(info, e); v != nil {
			if d, ok := defs[v]; ok {
				return c19LinOf(info, d)
			}
		}
		return c19LinOf(info, e)
	}
	phase := 0 // 0 definitions, 1 swapped, 2 steps
	list := fs.Body.List
	for k := 0; k < len(list); k++ {
		st := list[k]
		as, isAs := st.(*ast.AssignStmt)
		switch {
		case phase == 0 && isAs && as.Tok == token.DEFINE && len(as.Lhs) == 1 && len(as.Rhs) == 1 && elem(as.Rhs[0]) == nil:
			// j := len(V)-1-i
			id, ok := as.Lhs[0].(*ast.Ident)
			if !ok || !c19IsIntType(info.TypeOf(as.Rhs[0])) {
				return nil
			}
			v, _ := info.ObjectOf(id).(*types.Var)
			if v == nil {
				return nil
			}
			defs[v] = as.Rhs[0]
		case phase == 0 && isAs && as.Tok == token.ASSIGN && len(as.Lhs) == 2 && len(as.Rhs) == 2:
			// V[a], V[b] = V[b], V[a]
			l0 := elem(as.Lhs[0])
			if l0 == nil {
				return nil
			}
			V = l0.X
			l1, r0, r1 := elem(as.Lhs[1]), elem(as.Rhs[0]), elem(as.Rhs[1])
			if l1 == nil || r0 == nil || r1 == nil {
				return nil
			}
			if !c19LinEq(lin(l0.Index), lin(r1.Index)) || !c19LinEq(lin(l1.Index), lin(r0.Index)) {
				return nil
			}
			ia, ib = l0.Index, l1.Index
			for _, ie := range []*ast.IndexExpr{l0, l1, r0, r1} {
				idx[ie] = true
			}
			phase = 1
		case phase == 0 && isAs && len(as.Lhs) == 1 && len(as.Rhs) == 1 && elem(as.Rhs[0]) != nil && k+2 < len(list):
			// t := V[a]; V[a] = V[b]; V[b] = t
			tv := c19IdentVar(info, as.Lhs[0])
			if tv == nil || (as.Tok != token.DEFINE && as.Tok != token.ASSIGN) {
				return nil
			}
			ra := elem(as.Rhs[0])
			V = ra.X
			s2, ok2 := list[k+1].(*ast.AssignStmt)
			s3, ok3 := list[k+2].(*ast.AssignStmt)
			if !ok2 || !ok3 || s2.Tok != token.ASSIGN || s3.Tok != token.ASSIGN || len(s2.Lhs) != 1 || len(s2.Rhs) != 1 || len(s3.Lhs) != 1 || len(s3.Rhs) != 1 {
				return nil
			}
			la, rb, lb := elem(s2.Lhs[0]), elem(s2.Rhs[0]), elem(s3.Lhs[0])
			if la == nil || rb == nil || lb == nil || c19IdentVar(info, s3.Rhs[0]) != tv {
				return nil
			}
			if !c19LinEq(lin(ra.Index), lin(la.Index)) || !c19LinEq(lin(rb.Index), lin(lb.Index)) {
				return nil
			}
			ia, ib = ra.Index, rb.Index
			for _, ie := range []*ast.IndexExpr{ra, la, rb, lb} {
				idx[ie] = true
			}
			k += 2
			phase = 1
		case phase >= 1:
			if !c19StepOf(info, st, steps) {
				return nil
			}
			phase = 2
		default:
			return nil
		}
	}
	if phase == 0 || V == nil {
		return nil
	}
	bodyDefs := len(defs)
	if _, ok := c19Chain(info, V); !ok {
		return nil
	}
	if fs.Post != nil && !c19StepOf(info, fs.Post, steps) {
		return nil
	}
	// ---- initialisation: the init statement, or the statements directly in front of the loop
	inits := map[*types.Var]ast.Expr{}
	var anchor ast.Node
	var outerInits []ast.Stmt
	lenV := c19LenLin(info, V)
	lenOf := map[*types.Var]bool{} // locals that hold len(V) for the whole loop (n := len(V) in front of it)
	takeInit := func(st ast.Stmt) bool {
		s, ok := st.(*ast.AssignStmt)
		if !ok || (s.Tok != token.DEFINE && s.Tok != token.ASSIGN) || len(s.Lhs) != len(s.Rhs) {
			return false
		}
		type pair struct {
			v   *types.Var
			e   ast.Expr
			len bool
		}
		var got []pair
		for i, lh := range s.Lhs {
			id, ok := lh.(*ast.Ident)
			if !ok {
				return false
			}
			v, _ := info.ObjectOf(id).(*types.Var)
			if v == nil || !c19IsIntType(v.Type()) {
				return false
			}
			if _, dup := inits[v]; dup || lenOf[v] {
				return false
			}
			for _, g := range got {
				if g.v == v {
					return false
				}
			}
			if _, stepped := steps[v]; stepped {
				got = append(got, pair{v, s.Rhs[i], false})
			} else if c19LinEq(c19LinOf(info, s.Rhs[i]), lenV) {
				got = append(got, pair{v, s.Rhs[i], true})
			} else {
				return false
			}
		}
		for _, g := range got {
			if g.len {
				lenOf[g.v] = true
				defs[g.v] = g.e
			} else {
				inits[g.v] = g.e
			}
		}
		return true
	}
	if fs.Init != nil {
		if !takeInit(fs.Init) {
			return nil
		}
		anchor = fs.Init
	}
	{
		// `lo, hi := 0, len(V)-1` / `n := len(V)` (up to three statements) directly before the loop
		var outer ast.Node = fs
		if ls, ok := parents[fs].(*ast.LabeledStmt); ok {
			outer = ls
		}
		if blk, ok := parents[outer].(*ast.BlockStmt); ok {
			at := -1
			for i, st := range blk.List {
				if ast.Node(st) == outer {
					at = i
				}
			}
			for i := at - 1; i >= 0 && at-i <= 3; i-- {
				if !takeInit(blk.List[i]) {
					break
				}
				outerInits = append(outerInits, blk.List[i])
				if anchor == nil {
					anchor = blk.List[i]
				}
			}
		}
	}
	if len(inits) != len(steps) || anchor == nil {
		return nil
	}
	// (the body consists of index definitions, the swap and steps of the counters only, so a local that stands
	// for len(V) is not written in the loop and V is not re-sliced)
	// locals that stand for len(V) or for the mirror index are replaced by what they hold
	subst := func(l *c19Lin) *c19Lin {
		for round := 0; round < 3; round++ {
			changed := false
			for _, id := range l.ids() {
				t := l.tm[id]
				if t == nil || t.ex == nil {
					continue
				}
				tid, isID := unparen(t.ex).(*ast.Ident)
				if !isID {
					continue
				}
				v, _ := info.ObjectOf(tid).(*types.Var)
				d, has := defs[v]
				if v == nil || !has {
					continue
				}
				k := l.coef[id]
				nl := l.clone()
				delete(nl.coef, id)
				delete(nl.tm, id)
				l = nl.plus(c19LinOf(info, d), k)
				changed = true
			}
			if !changed {
				break
			}
		}
		return l
	}
	lin = func(e ast.Expr) *c19Lin { return subst(c19LinOf(info, e)) }
	halfLen := func(e ast.Expr) bool {
		be, ok := unparen(e).(*ast.BinaryExpr)
		if !ok {
			return false
		}
		k, isC := constInt(info, be.Y)
		if !isC || !((be.Op == token.QUO && k == 2) || (be.Op == token.SHR && k == 1)) {
			return false
		}
		return c19LinEq(lin(be.X), lenV)
	}
	one := func(e ast.Expr) *types.Var { // e is exactly one counter
		v := c19IdentVar(info, e)
		if v == nil {
			return nil
		}
		if _, ok := steps[v]; !ok {
			return nil
		}
		return v
	}
	isZero := func(e ast.Expr) bool { k, ok := constInt(info, e); return ok && k == 0 }
	// the condition as  X - Y (< | <=) 0
	be, ok := unparen(fs.Cond).(*ast.BinaryExpr)
	if !ok {
		return nil
	}
	var cx, cy ast.Expr
	strict := false
	switch be.Op {
	case token.LSS:
		cx, cy, strict = be.X, be.Y, true
	case token.LEQ:
		cx, cy = be.X, be.Y
	case token.GTR:
		cx, cy, strict = be.Y, be.X, true
	case token.GEQ:
		cx, cy = be.Y, be.X
	default:
		return nil
	}
	if !isIntegerExpr(info, cx) || !isIntegerExpr(info, cy) {
		return nil
	}
	cd := lin(cx).plus(lin(cy), -1)
	rev := &c19Reversal{loop: fs, slice: V, idx: idx, anchor: anchor, outer: outerInits}
	switch len(steps) {
	case 2:
		// two-pointer
		if bodyDefs != 0 {
			return nil
		}
		lo, hi := one(ia), one(ib)
		if lo == nil || hi == nil || lo == hi {
			return nil
		}
		if steps[lo] != 1 {
			lo, hi = hi, lo
		}
		if steps[lo] != 1 || steps[hi] != -1 {
			return nil
		}
		if !isZero(inits[lo]) || !c19LinEq(lin(inits[hi]), lenV.addK(-1)) {
			return nil
		}
		want := lin(ia).plus(lin(ib), -1) // a - b
		if one(ia) != lo {
			want = want.neg()
		}
		if !c19LinEq(cd, want) { // lo - hi < 0  (or <= 0: the middle element is swapped with itself)
			return nil
		}
		rev.form = "two-pointer"
		return rev
	case 1:
		// mirror: a = i, b = len(V)-1-i (or the other way round)
		var iv *types.Var
		for v := range steps {
			iv = v
		}
		la, lb := lin(ia), lin(ib)
		var il *c19Lin
		switch {
		case one(ia) == iv && c19LinEq(la.plus(lb, 1), lenV.addK(-1)):
			il = la
		case one(ib) == iv && c19LinEq(la.plus(lb, 1), lenV.addK(-1)):
			il = lb
		default:
			return nil
		}
		switch steps[iv] {
		case 1:
			if !isZero(inits[iv]) {
				return nil
			}
			// i < len(V)/2   or   i < len(V)-1-i  (<= : the middle element is swapped with itself)
			half := strict && one(cx) == iv && halfLen(cy)
			mirror := c19LinEq(cd, il.plus(il, 1).plus(lenV, -1).addK(1))
			if !half && !mirror {
				return nil
			}
		case -1:
			// i := len(V)/2 - 1; i >= 0
			ib2, ok := unparen(inits[iv]).(*ast.BinaryExpr)
			if !ok || ib2.Op != token.SUB || !halfLen(ib2.X) {
				return nil
			}
			if k, isC := constInt(info, ib2.Y); !isC || k != 1 {
				return nil
			}
			// 0 <= i  (X - Y <= 0 with X = 0, Y = i)   or   -1 < i
			ge0 := !strict && c19LinEq(cd, il.neg())
			gtm1 := strict && c19LinEq(cd, il.neg().addK(-1))
			if !ge0 && !gtm1 {
				return nil
			}
		default:
			return nil
		}
		rev.form = "mirror"
		return rev
	}
	return nil
}

// c19InReversal: ie is one of the index expressions of the swap of a recognised reversal loop.
func c19InReversal(info *types.Info, parents map[ast.Node]ast.Node, ie *ast.IndexExpr) *c19Reversal {
	for cur := parents[ie]; cur != nil; cur = parents[cur] {
		switch t := cur.(type) {
		case *ast.ForStmt:
			if r := c19ReversalLoop(info, parents, t); r != nil && r.idx[ie] {
				return r
			}
			return nil
		case *ast.FuncDecl, *ast.FuncLit, *ast.RangeStmt:
			return nil
		}
	}
	return nil
}

// c19SliceRef names a slice of sub-surfaces: the children of a surface, or a local slice.
type c19SliceRef struct {
	key      string
	disp     string
	children bool
	root     types.Object
}

func c19IsSubSurfaceSlice(t types.Type) bool {
	if t == nil {
		return false
	}
	sl, ok := t.Underlying().(*types.Slice)
	if !ok {
		return false
	}
	n, ok := sl.Elem().(*types.Named)
	return ok && n.Obj().Name() == "SubSurface" && n.Obj().Pkg() != nil && strings.HasSuffix(n.Obj().Pkg().Path(), "/vxfw")
}

// c19ChildrenOf: the children of the surface expression x (&s, s, *p, p).
func c19ChildrenOf(info *types.Info, x ast.Expr) *c19SliceRef {
	x = unparen(x)
	if u, ok := x.(*ast.UnaryExpr); ok && u.Op == token.AND {
		x = unparen(u.X)
	}
	if !c19IsSurfaceType(info.TypeOf(x)) {
		return nil
	}
	t := termOf(info, x)
	if strings.HasPrefix(t.ID, "expr:") {
		return nil
	}
	return &c19SliceRef{key: t.ID + ".Children", disp: types.ExprString(stripRecv(x)) + ".Children", children: true, root: rootObj(info, x)}
}

// c19SliceRefOf: e is X.Children or a plain variable holding a slice of sub-surfaces.
func c19SliceRefOf(info *types.Info, e ast.Expr) *c19SliceRef {
	e = unparen(e)
	switch t := e.(type) {
	case *ast.SelectorExpr:
		if t.Sel.Name == "Children" && c19IsSurfaceType(info.TypeOf(t.X)) {
			return c19ChildrenOf(info, t.X)
		}
	case *ast.Ident:
		v, ok := info.ObjectOf(t).(*types.Var)
		if ok && !v.IsField() && c19IsSubSurfaceSlice(v.Type()) {
			return &c19SliceRef{key: termOf(info, t).ID, disp: t.Name, root: v}
		}
	}
	return nil
}

// c19ReverseCall: the call reverses a slice in place: slices.Reverse(V), or a repository function whose body
// is nothing but a reversal of its parameter (or of the children of its surface parameter / receiver).
// what: the reversed slice as an expression of the caller (nil with surf != nil: the children of surf).
func c19ReverseCall(c *Ctx, info *types.Info, call *ast.CallExpr, depth int) (what ast.Expr, surf ast.Expr, ok bool) {
	fn := calleeOf(info, call)
	if fn == nil {
		return nil, nil, false
	}
	if fn.Name() == "Reverse" && fn.Pkg() != nil && (fn.Pkg().Path() == "slices" || strings.HasSuffix(fn.Pkg().Path(), "/slices")) && len(call.Args) == 1 {
		return call.Args[0], nil, true
	}
	if depth > 1 {
		return nil, nil, false
	}
	cfi := c.P.FuncOfObj(fn)
	if cfi == nil || cfi.Decl.Body == nil {
		return nil, nil, false
	}
	cinfo := cfi.Pkg.TypesInfo
	list := cfi.Decl.Body.List
	if n := len(list); n > 0 {
		if rs, isRet := list[n-1].(*ast.ReturnStmt); isRet && len(rs.Results) == 0 {
			list = list[:n-1]
		}
	}
	if len(list) == 0 {
		return nil, nil, false
	}
	var V ast.Expr
	switch last := list[len(list)-1].(type) {
	case *ast.ForStmt:
		r := c19ReversalLoop(cinfo, c.P.Parents(cfi.Pkg), last)
		if r == nil {
			return nil, nil, false
		}
		// everything in front of the loop is its initialisation
		if len(list)-1 != len(r.outer) {
			return nil, nil, false
		}
		for _, st := range list[:len(list)-1] {
			isInit := false
			for _, is := range r.outer {
				if is == st {
					isInit = true
				}
			}
			if !isInit {
				return nil, nil, false
			}
		}
		V = r.slice
	case *ast.ExprStmt:
		if len(list) != 1 {
			return nil, nil, false
		}
		inner, isCall := unparen(last.X).(*ast.CallExpr)
		if !isCall {
			return nil, nil, false
		}
		w, s, isRev := c19ReverseCall(c, cinfo, inner, depth+1)
		if !isRev || s != nil {
			return nil, nil, false
		}
		V = w
	default:
		return nil, nil, false
	}
	// V is a parameter, or the children of a parameter / of the receiver
	paramArg := func(o types.Object) ast.Expr {
		if o == nil {
			return nil
		}
		if cfi.Decl.Recv != nil && len(cfi.Decl.Recv.List) == 1 && len(cfi.Decl.Recv.List[0].Names) == 1 && cinfo.Defs[cfi.Decl.Recv.List[0].Names[0]] == o {
			if sel, isSel := unparen(call.Fun).(*ast.SelectorExpr); isSel {
				return sel.X
			}
			return nil
		}
		i := 0
		for _, f := range cfi.Decl.Type.Params.List {
			for _, nm := range f.Names {
				if cinfo.Defs[nm] == o && i < len(call.Args) {
					return call.Args[i]
				}
				i++
			}
			if len(f.Names) == 0 {
				i++
			}
		}
		return nil
	}
	switch t := unparen(V).(type) {
	case *ast.Ident:
		if a := paramArg(cinfo.ObjectOf(t)); a != nil {
			return a, nil, true
		}
	case *ast.SelectorExpr:
		if id, isID := unparen(t.X).(*ast.Ident); isID && t.Sel.Name == "Children" && c19IsSurfaceType(cinfo.TypeOf(t.X)) {
			if a := paramArg(cinfo.ObjectOf(id)); a != nil {
				return nil, a, true
			}
		}
	}
	return nil, nil, false
}

// ---------------------------------------------------------------------------------------------
// the order typestate
// ---------------------------------------------------------------------------------------------

type c19OrdEvent struct {
	kind   string // front, back, at, spliceFront, spliceBack, set, reverse, reflow, shuffle, foreign
	v, w   *c19SliceRef
	val    string // set: the state assigned ("A0", "U", or "=" for a copy of w)
	node   ast.Node
	pos    token.Pos
	callee *types.Func
}

type c19OrdState struct {
	acc string
	dir string // direction of the placement that is not committed yet: "u" upward, "d" downward, "-" none
	ord map[string]string
}

func c19OrdParse(s string) c19OrdState {
	parts := strings.SplitN(s, "\x1f", 3)
	st := c19OrdState{acc: parts[0], dir: parts[1], ord: map[string]string{}}
	if parts[2] != "" {
		for _, kv := range strings.Split(parts[2], ";") {
			i := strings.LastIndex(kv, "=")
			st.ord[kv[:i]] = kv[i+1:]
		}
	}
	return st
}

func (st c19OrdState) String() string {
	var ks []string
	for k := range st.ord {
		ks = append(ks, k)
	}
	sort.Strings(ks)
	var kv []string
	for _, k := range ks {
		kv = append(kv, k+"="+st.ord[k])
	}
	return st.acc + "\x1f" + st.dir + "\x1f" + strings.Join(kv, ";")
}

func c19OrdInOrder(s string) bool  { return s == "A0" || s == "S0" || s == "Ae" || s == "A" }
func c19OrdBottomUp(s string) bool { return s == "D0" || s == "De" || s == "D1" }

type c19OrdFn struct {
	c       *Ctx
	m       *c19AccModel
	fi      *FuncInfo
	info    *types.Info
	g       *FG
	parents map[ast.Node]ast.Node
	revAt   map[ast.Node]*c19Reversal // by anchor
	reflow  map[ast.Node]*c19SliceRef // by anchor (the ranged expression / the init statement)
	reflowL map[ast.Node]ast.Stmt
	refs    map[string]*c19SliceRef

	// results
	upSites   map[ast.Node]string       // upward commits: front / back / at
	upRef     map[ast.Node]*c19SliceRef // the slice they go to
	badReflow map[ast.Node]string       // reflow loops reached with a bottom-up block
	okReflow  map[ast.Node]bool
	needEmpty map[string]token.Pos       // children refs (by key) whose whole-slice reversal needs an empty slice at entry
	callSt    map[*ast.CallExpr][]string // states of the children handed to a layout callee
	callRef   map[*ast.CallExpr]*c19SliceRef
	unknownAt map[string]token.Pos
}

func (o *c19OrdFn) ref(r *c19SliceRef) *c19SliceRef {
	if r == nil {
		return nil
	}
	if old, ok := o.refs[r.key]; ok {
		return old
	}
	o.refs[r.key] = r
	return r
}

// isParamRoot: the root of the reference is a parameter or the receiver of the function.
func (o *c19OrdFn) paramIndex(root types.Object) int {
	fd := o.fi.Decl
	if fd.Recv != nil && len(fd.Recv.List) == 1 && len(fd.Recv.List[0].Names) == 1 && o.info.Defs[fd.Recv.List[0].Names[0]] == root {
		return -1
	}
	i := 0
	for _, f := range fd.Type.Params.List {
		for _, nm := range f.Names {
			if o.info.Defs[nm] == root {
				return i
			}
			i++
		}
		if len(f.Names) == 0 {
			i++
		}
	}
	return -2
}

// get: the state of a slice (the default is its state at the entry of the function).
func (o *c19OrdFn) get(st c19OrdState, r *c19SliceRef) string {
	r = o.resolve(st, r)
	if s, ok := st.ord[r.key]; ok {
		if strings.HasPrefix(s, "@") {
			return "U"
		}
		return s
	}
	if r.children {
		if o.paramIndex(r.root) == -2 {
			return "A0" // a surface made in this function: no children until one is placed
		}
		if o.m.init() == "E" {
			return "A0" // the function starts the layout (accumulator state E: no child can exist yet)
		}
		return "Ae"
	}
	return "U"
}

// emptyValue: e evaluates to an empty slice (nil, T{}, make(T, 0...), x[:0]).
func c19EmptySlice(info *types.Info, e ast.Expr) bool {
	e = unparen(e)
	switch t := e.(type) {
	case *ast.Ident:
		return t.Name == "nil" && info.ObjectOf(t) == types.Universe.Lookup("nil")
	case *ast.CompositeLit:
		return len(t.Elts) == 0
	case *ast.CallExpr:
		if c19IsBuiltin(info, t, "make") != "" && len(t.Args) >= 2 {
			k, ok := constInt(info, t.Args[1])
			return ok && k == 0
		}
		if _, conv := c19IsConversion(info, t); conv {
			return c19EmptySlice(info, t.Args[0])
		}
	case *ast.SliceExpr:
		if t.High != nil {
			k, ok := constInt(info, t.High)
			return ok && k == 0
		}
	}
	return false
}

func (o *c19OrdFn) events(n ast.Node) []c19OrdEvent {
	info := o.info
	var evs []c19OrdEvent
	if r := o.revAt[n]; r != nil {
		if v := o.ref(c19SliceRefOf(info, r.slice)); v != nil {
			evs = append(evs, c19OrdEvent{kind: "reverse", v: v, node: r.loop, pos: r.loop.Pos()})
		}
	}
	if v := o.reflow[n]; v != nil {
		evs = append(evs, c19OrdEvent{kind: "reflow", v: v, node: o.reflowL[n], pos: o.reflowL[n].Pos()})
	}
	// calls, in source order
	inspectNoLit(n, func(m ast.Node) bool {
		call, ok := m.(*ast.CallExpr)
		if !ok {
			return true
		}
		if pc, row, _, viaAdd := c19Placement(info, call); pc != nil {
			if viaAdd {
				if v := c19PlainVar(info, row); v != nil && v == o.m.acc {
					if sel, isSel := unparen(call.Fun).(*ast.SelectorExpr); isSel {
						if r := o.ref(c19ChildrenOf(info, sel.X)); r != nil {
							evs = append(evs, c19OrdEvent{kind: "back", v: r, node: call, pos: call.Pos()})
						}
					}
				}
			}
			return true
		}
		if what, surf, isRev := c19ReverseCall(o.c, info, call, 0); isRev {
			var r *c19SliceRef
			if surf != nil {
				r = c19ChildrenOf(info, surf)
			} else {
				r = c19SliceRefOf(info, what)
			}
			if r = o.ref(r); r != nil {
				evs = append(evs, c19OrdEvent{kind: "reverse", v: r, node: call, pos: call.Pos()})
			}
			return true
		}
		fn := calleeOf(info, call)
		if fn == nil {
			return true
		}
		// sorting: the order afterwards is whatever the comparison says
		if c19IsSortCall(fn) {
			if len(call.Args) > 0 {
				if r := o.ref(c19SliceRefOf(info, call.Args[0])); r != nil {
					evs = append(evs, c19OrdEvent{kind: "shuffle", v: r, node: call, pos: call.Pos()})
				}
			}
			return true
		}
		if _, isLayout := o.m.layout[fn]; isLayout {
			for _, a := range call.Args {
				if c19IsSurfaceType(info.TypeOf(a)) {
					if _, isPtr := info.TypeOf(a).(*types.Pointer); isPtr {
						if r := o.ref(c19ChildrenOf(info, a)); r != nil {
							evs = append(evs, c19OrdEvent{kind: "foreign", v: r, node: call, pos: call.Pos(), callee: fn})
						}
					}
				}
			}
		}
		return true
	})
	assign := func(lh, rhs ast.Expr, pos token.Pos, node ast.Node) {
		// element stores
		if ie, ok := unparen(lh).(*ast.IndexExpr); ok {
			v := o.ref(c19SliceRefOf(info, ie.X))
			if v == nil || rhs == nil {
				return
			}
			if c19InReversal(info, o.parents, ie) != nil {
				return
			}
			// an element of the same slice at another index: a permutation the rule does not follow
			perm := false
			inspectNoLit(rhs, func(x ast.Node) bool {
				if r2, isIdx := x.(*ast.IndexExpr); isIdx && c19SameSlice(info, r2.X, ie.X) && !c19LinEq(c19LinOf(info, r2.Index), c19LinOf(info, ie.Index)) {
					perm = true
				}
				return true
			})
			if perm {
				evs = append(evs, c19OrdEvent{kind: "shuffle", v: v, node: node, pos: pos})
			}
			return
		}
		v := o.ref(c19SliceRefOf(info, lh))
		if v == nil {
			return
		}
		if rhs == nil {
			evs = append(evs, c19OrdEvent{kind: "set", v: v, val: "U", node: node, pos: pos})
			return
		}
		rhs = unparen(rhs)
		if call, ok := rhs.(*ast.CallExpr); ok {
			fn := calleeOf(info, call)
			isAppend := c19IsBuiltin(info, call, "append") != ""
			isInsert := fn != nil && c19IsSlicesInsert(fn)
			spread := call.Ellipsis.IsValid()
			same := func(e ast.Expr) bool {
				r := c19SliceRefOf(info, e)
				return r != nil && r.key == v.key
			}
			switch {
			case isAppend && len(call.Args) >= 1 && same(call.Args[0]):
				if len(call.Args) == 1 {
					return
				}
				if spread {
					if w := o.ref(c19SliceRefOf(info, call.Args[len(call.Args)-1])); w != nil && len(call.Args) == 2 {
						evs = append(evs, c19OrdEvent{kind: "spliceBack", v: v, w: w, node: node, pos: pos})
					} else {
						evs = append(evs, c19OrdEvent{kind: "set", v: v, val: "U", node: node, pos: pos})
					}
					return
				}
				evs = append(evs, c19OrdEvent{kind: "back", v: v, node: node, pos: pos})
				return
			case isAppend && spread && len(call.Args) == 2 && same(call.Args[1]):
				// append(W, V...): W in front of V
				a0 := unparen(call.Args[0])
				if cl, isLit := a0.(*ast.CompositeLit); isLit {
					if len(cl.Elts) > 0 {
						evs = append(evs, c19OrdEvent{kind: "front", v: v, node: node, pos: pos})
					}
					return
				}
				if w := o.ref(c19SliceRefOf(info, a0)); w != nil {
					evs = append(evs, c19OrdEvent{kind: "spliceFront", v: v, w: w, node: node, pos: pos})
					return
				}
			case isInsert && len(call.Args) >= 3 && same(call.Args[0]):
				k, isC := constInt(info, call.Args[1])
				atEnd := !isC && c19LinEq(c19LinOf(info, call.Args[1]), c19LenLin(info, call.Args[0]))
				var w *c19SliceRef
				if spread && len(call.Args) == 3 {
					w = o.ref(c19SliceRefOf(info, call.Args[2]))
				}
				switch {
				case spread && w == nil:
					evs = append(evs, c19OrdEvent{kind: "set", v: v, val: "U", node: node, pos: pos})
				case isC && k == 0 && w != nil:
					evs = append(evs, c19OrdEvent{kind: "spliceFront", v: v, w: w, node: node, pos: pos})
				case isC && k == 0:
					evs = append(evs, c19OrdEvent{kind: "front", v: v, node: node, pos: pos})
				case atEnd && w != nil:
					evs = append(evs, c19OrdEvent{kind: "spliceBack", v: v, w: w, node: node, pos: pos})
				case atEnd:
					evs = append(evs, c19OrdEvent{kind: "back", v: v, node: node, pos: pos})
				default:
					evs = append(evs, c19OrdEvent{kind: "at", v: v, node: call, pos: call.Pos()})
				}
				return
			}
		}
		switch {
		case c19EmptySlice(info, rhs):
			evs = append(evs, c19OrdEvent{kind: "set", v: v, val: "A0", node: node, pos: pos})
		default:
			if w := o.ref(c19SliceRefOf(info, rhs)); w != nil {
				evs = append(evs, c19OrdEvent{kind: "set", v: v, w: w, val: "=", node: node, pos: pos})
			} else {
				evs = append(evs, c19OrdEvent{kind: "set", v: v, val: "U", node: node, pos: pos})
			}
		}
	}
	switch st := n.(type) {
	case *ast.AssignStmt:
		for i, lh := range st.Lhs {
			var rhs ast.Expr
			if len(st.Lhs) == len(st.Rhs) {
				rhs = st.Rhs[i]
			}
			assign(lh, rhs, st.Pos(), st)
		}
	case *ast.ValueSpec:
		for i, nm := range st.Names {
			v := o.ref(c19SliceRefOf(info, nm))
			if v == nil {
				continue
			}
			switch {
			case len(st.Values) == 0:
				evs = append(evs, c19OrdEvent{kind: "set", v: v, val: "A0", node: st, pos: st.Pos()})
			case len(st.Values) == len(st.Names):
				assign(nm, st.Values[i], st.Pos(), st)
			default:
				evs = append(evs, c19OrdEvent{kind: "set", v: v, val: "U", node: st, pos: st.Pos()})
			}
		}
	}
	return evs
}

// resolve follows alias links: a local that was assigned the slice itself (x := p.Children) names the same
// elements as long as neither is re-sliced (an append to either ends the link, see cut).
func (o *c19OrdFn) resolve(st c19OrdState, r *c19SliceRef) *c19SliceRef {
	for i := 0; i < 4 && r != nil; i++ {
		s, ok := st.ord[r.key]
		if !ok || !strings.HasPrefix(s, "@") {
			return r
		}
		t := o.refs[s[1:]]
		if t == nil {
			return r
		}
		r = t
	}
	return r
}

// cut: the slice header of r changes (append, insert, assignment): locals that were copies of it are stale.
func (o *c19OrdFn) cut(st *c19OrdState, r *c19SliceRef) {
	for k, s := range st.ord {
		if s == "@"+r.key {
			st.ord[k] = "U"
		}
	}
}

// step: one order event in one state.
func (o *c19OrdFn) step(st *c19OrdState, ev c19OrdEvent) {
	switch ev.kind {
	case "reverse", "shuffle", "reflow", "foreign":
		ev.v = o.resolve(*st, ev.v)
	default:
		if s, isAlias := st.ord[ev.v.key]; isAlias && strings.HasPrefix(s, "@") {
			// the copy is re-sliced: it no longer names the same elements
			if ev.kind == "set" {
				delete(st.ord, ev.v.key)
			} else {
				st.ord[ev.v.key] = "U"
			}
		}
		o.cut(st, ev.v)
	}
	if ev.w != nil {
		ev.w = o.resolve(*st, ev.w)
	}
	cur := o.get(*st, ev.v)
	set := func(s string) { st.ord[ev.v.key] = s }
	commit := func(kind string) {
		dir := st.dir
		st.dir = "-"
		if dir == "-" {
			return // not the commit of a placement at the accumulated row
		}
		if dir == "u" {
			if old, seen := o.upSites[ev.node]; !seen || old == "front" {
				o.upSites[ev.node] = kind
			}
			o.upRef[ev.node] = ev.v
		}
		if cur == "U" || cur == "B" {
			return
		}
		switch kind + dir {
		case "frontu", "backd":
			switch {
			case cur == "A0":
				set("S0")
			case c19OrdBottomUp(cur):
				set("D1")
			default:
				set("A")
			}
		case "backu":
			switch cur {
			case "A0":
				set("S0")
			case "S0", "D0":
				// the one child that is there is the lowest: with the children appended above it, it forms one bottom-up block
				set("D0")
			case "Ae", "De":
				set("De")
			default:
				set("D1")
			}
		case "frontd":
			if cur == "A0" {
				set("S0")
			} else {
				set("B")
				o.noteBad(ev, "a child stacked downward is inserted in front of the children placed above it")
			}
		case "atu":
			set("B")
		case "atd":
			set("U")
			o.unknownAt[ev.v.key] = ev.pos
		}
	}
	switch ev.kind {
	case "front", "back", "at":
		commit(ev.kind)
	case "reverse":
		switch cur {
		case "A0", "S0", "U", "B":
		case "Ae":
			o.needEmpty[ev.v.key] = ev.pos
		case "A":
			set("U")
			o.unknownAt[ev.v.key] = ev.pos
		case "D0":
			set("A")
		case "De":
			o.needEmpty[ev.v.key] = ev.pos
			set("A")
		case "D1":
			set("B")
			o.noteBad(ev, "the reversal of the whole slice also reverses the children that were in it before the bottom-up block")
		}
	case "spliceFront", "spliceBack":
		ws := o.get(*st, ev.w)
		switch {
		case ws == "A0":
		case cur == "U" || ws == "U":
			set("U")
			o.unknownAt[ev.v.key] = ev.pos
		case cur == "B" || ws == "B":
			set("B")
		case ev.kind == "spliceFront" && c19OrdInOrder(cur) && c19OrdInOrder(ws):
			set("A")
		case ev.kind == "spliceFront":
			set("D1")
		case cur == "A0":
			set(ws)
			if ws == "Ae" {
				set("A")
			}
		default:
			set("U")
			o.unknownAt[ev.v.key] = ev.pos
		}
	case "set":
		switch ev.val {
		case "=":
			if ev.w.key == ev.v.key {
				break
			}
			set("@" + ev.w.key)
		default:
			set(ev.val)
			if ev.val == "U" && ev.v.children {
				o.unknownAt[ev.v.key] = ev.pos
			}
		}
	case "shuffle":
		if cur != "A0" && cur != "S0" && cur != "B" {
			set("U")
			o.unknownAt[ev.v.key] = ev.pos
		}
	case "reflow":
		if c19OrdBottomUp(cur) || cur == "B" {
			o.badReflow[ev.node] = ev.v.disp
		} else {
			o.okReflow[ev.node] = true
		}
	case "foreign":
		if call, ok := ev.node.(*ast.CallExpr); ok {
			o.callSt[call] = append(o.callSt[call], cur)
			o.callRef[call] = ev.v
		}
		switch cur {
		case "A0", "S0", "Ae":
			set("A")
		case "D0", "De":
			set("D1")
		}
	}
}

var c19OrdBadNotes = map[*c19OrdFn][]string{}

func (o *c19OrdFn) noteBad(ev c19OrdEvent, why string) {
	note := fmt.Sprintf("%s (%s)", why, o.c.P.Pos(ev.pos))
	for _, n := range c19OrdBadNotes[o] {
		if n == note {
			return
		}
	}
	c19OrdBadNotes[o] = append(c19OrdBadNotes[o], note)
}

func c19IsSortCall(fn *types.Func) bool {
	if fn.Pkg() == nil {
		return false
	}
	switch path := fn.Pkg().Path(); {
	case path == "sort":
		return fn.Name() == "Slice" || fn.Name() == "SliceStable" || fn.Name() == "Sort" || fn.Name() == "Stable"
	case path == "slices" || strings.HasSuffix(path, "/slices"):
		return strings.HasPrefix(fn.Name(), "Sort")
	}
	return false
}

// c19IsErrorExit: the block returns with an error result that the facts in force make non-nil (the caller gets
// an error and does not use the surface).
func c19IsErrorExit(g *FG, b *cfg.Block) bool {
	if len(b.Nodes) == 0 {
		return false
	}
	rs, ok := b.Nodes[len(b.Nodes)-1].(*ast.ReturnStmt)
	if !ok {
		return false
	}
	info := g.Info
	errT := types.Universe.Lookup("error").Type()
	for _, r := range rs.Results {
		t := info.TypeOf(r)
		if t == nil || !types.Identical(t, errT) {
			continue
		}
		if impliesNil(g.FactsAt(Loc{b, len(b.Nodes) - 1}), termOf(info, r), false) {
			return true
		}
		if call, isCall := unparen(r).(*ast.CallExpr); isCall {
			if fn := calleeOf(info, call); fn != nil && fn.Pkg() != nil && ((fn.Pkg().Path() == "fmt" && fn.Name() == "Errorf") || (fn.Pkg().Path() == "errors" && fn.Name() == "New")) {
				return true
			}
		}
	}
	return false
}

// c19ReflowLoops: loops that walk a slice of sub-surfaces from its first element on and assign every
// element's row (not shift it): what they compute depends on the slice order.
func (o *c19OrdFn) findLoops() {
	info := o.info
	rowAssigned := func(body *ast.BlockStmt) bool {
		found := false
		inspectNoLit(body, func(x ast.Node) bool {
			as, ok := x.(*ast.AssignStmt)
			if !ok || as.Tok != token.ASSIGN {
				return true
			}
			for i, lh := range as.Lhs {
				se, isSel := unparen(lh).(*ast.SelectorExpr)
				if !isSel || se.Sel.Name != "Row" {
					continue
				}
				in, isIn := unparen(se.X).(*ast.SelectorExpr)
				if !isIn || in.Sel.Name != "Origin" {
					continue
				}
				// not a shift of the old row
				shift := false
				if len(as.Lhs) == len(as.Rhs) {
					shift = containsNode(as.Rhs[i], func(y ast.Node) bool {
						s2, ok := y.(*ast.SelectorExpr)
						return ok && s2.Sel.Name == "Row"
					})
				}
				if !shift {
					found = true
				}
			}
			return true
		})
		return found
	}
	inspectNoLit(o.fi.Decl.Body, func(n ast.Node) bool {
		switch lp := n.(type) {
		case *ast.ForStmt:
			if r := c19ReversalLoop(info, o.parents, lp); r != nil {
				o.revAt[r.anchor] = r
				return true
			}
			// for i := 0; i < len(V); i++ { ... V[i].Origin.Row = ... }
			if lp.Init == nil || lp.Cond == nil || !rowAssigned(lp.Body) {
				return true
			}
			as, ok := lp.Init.(*ast.AssignStmt)
			if !ok || len(as.Lhs) != 1 || len(as.Rhs) != 1 {
				return true
			}
			if k, isC := constInt(info, as.Rhs[0]); !isC || k != 0 {
				return true
			}
			be, ok := unparen(lp.Cond).(*ast.BinaryExpr)
			if !ok || be.Op != token.LSS {
				return true
			}
			call, ok := unparen(be.Y).(*ast.CallExpr)
			if !ok || c19IsBuiltin(info, call, "len") == "" || len(call.Args) != 1 {
				return true
			}
			if v := o.ref(c19SliceRefOf(info, call.Args[0])); v != nil {
				o.reflow[lp.Init] = v
				o.reflowL[lp.Init] = lp
			}
		case *ast.RangeStmt:
			if v := o.ref(c19SliceRefOf(info, lp.X)); v != nil && rowAssigned(lp.Body) {
				o.reflow[lp.X] = v
				o.reflowL[lp.X] = lp
			}
		}
		return true
	})
}

type c19OrdResult struct {
	o        *c19OrdFn
	badExit  map[string]token.Pos // children (disp) -> the return reached with them out of order
	badState map[string]string
	undec    map[string]token.Pos
	nExits   int
}

func c19OrderFn(c *Ctx, m *c19AccModel) *c19OrdResult {
	fi := m.fi
	o := &c19OrdFn{c: c, m: m, fi: fi, info: m.info, g: c.P.Graph(fi), parents: c.P.Parents(fi.Pkg),
		revAt: map[ast.Node]*c19Reversal{}, reflow: map[ast.Node]*c19SliceRef{}, reflowL: map[ast.Node]ast.Stmt{}, refs: map[string]*c19SliceRef{},
		upSites: map[ast.Node]string{}, upRef: map[ast.Node]*c19SliceRef{}, badReflow: map[ast.Node]string{}, okReflow: map[ast.Node]bool{},
		needEmpty: map[string]token.Pos{}, callSt: map[*ast.CallExpr][]string{}, callRef: map[*ast.CallExpr]*c19SliceRef{}, unknownAt: map[string]token.Pos{}}
	o.findLoops()
	fl := &tsFlow{g: o.g}
	fl.transfer = func(l Loc, n ast.Node, s string) []string {
		st := c19OrdParse(s)
		for _, ev := range m.events(n) {
			prev := st.acc
			st.acc, _ = m.step(st.acc, ev)
			if ev.kind == "place" {
				if strings.HasPrefix(prev, "R:") {
					st.dir = "u"
				} else {
					st.dir = "d"
				}
			}
		}
		for _, ev := range o.events(n) {
			if os.Getenv("C19DBG") != "" {
				fmt.Fprintf(os.Stderr, "%s %s: order %s %s dir=%s in=%s\n", fi.Name, c.P.Pos(ev.pos), ev.kind, ev.v.disp, st.dir, o.get(st, ev.v))
			}
			o.step(&st, ev)
		}
		return []string{st.String()}
	}
	fl.refine = func(b *cfg.Block, cd *Cond, truth bool, s string) []string {
		empties := m.emptyOnEdge(cd, truth)
		if len(empties) == 0 {
			return []string{s}
		}
		st := c19OrdParse(s)
		st.acc = "E"
		for _, e := range empties {
			if r := o.ref(c19SliceRefOf(o.info, e)); r != nil {
				st.ord[r.key] = "A0"
			}
		}
		return []string{st.String()}
	}
	fl.run(c19OrdState{acc: m.init(), dir: "-", ord: map[string]string{}}.String())
	res := &c19OrdResult{o: o, badExit: map[string]token.Pos{}, badState: map[string]string{}, undec: map[string]token.Pos{}}
	for _, b := range o.g.Blocks {
		if !o.g.isNormalExit(b) || fl.in[b] == nil {
			continue
		}
		if c19IsErrorExit(o.g, b) {
			continue
		}
		pos := fi.Decl.Body.Rbrace
		if len(b.Nodes) > 0 {
			pos = b.Nodes[len(b.Nodes)-1].Pos()
		}
		res.nExits++
		var sts []string
		for s := range fl.through(b, len(b.Nodes)) {
			sts = append(sts, s)
		}
		sort.Strings(sts)
		for _, s := range sts {
			st := c19OrdParse(s)
			for key, val := range st.ord {
				r := o.refs[key]
				if r == nil || !r.children || strings.HasPrefix(val, "@") {
					continue
				}
				switch {
				case c19OrdBottomUp(val) || val == "B":
					if old, seen := res.badExit[r.disp]; !seen || pos < old {
						res.badExit[r.disp] = pos
						res.badState[r.disp] = val
					}
				case val == "U":
					if old, seen := res.undec[r.disp]; !seen || pos < old {
						res.undec[r.disp] = pos
					}
				}
			}
		}
	}
	return res
}

// c19ListOrder runs the order typestate over the layout functions (called from c19Contiguity, which has built
// their accumulator models) and emits C19.o and the front-insertion obligation of C19.i.
func c19ListOrder(c *Ctx, models []*c19AccModel, layout map[*types.Func]*c19LayoutFn) {
	c.Clauses = append(c.Clauses,
		"C19.o vxfw/list: the children of a surface are in list order at every normal return of a layout function and wherever a loop re-rows them in slice order: a child stacked upward (accumulated row lowered first) is committed at the front, or the bottom-up block that appending builds is reversed as a whole on every path before it is observed (two-pointer / mirror loop, slices.Reverse or a helper that is one of these), and such a block starts from an empty slice (at every call site for the children of a surface parameter)")
	c.expect("C19.o", 2)
	c19RevMemo, c19RevSeen = map[*ast.ForStmt]*c19Reversal{}, map[*ast.ForStmt]bool{}
	c19OrdBadNotes = map[*c19OrdFn][]string{}
	results := map[*types.Func]*c19OrdResult{}
	var order []*c19OrdResult
	for _, m := range models {
		if m == nil {
			continue
		}
		res := c19OrderFn(c, m)
		order = append(order, res)
		if m.fi.Obj != nil {
			results[m.fi.Obj] = res
		}
	}
	for _, res := range order {
		o := res.o
		fi := o.fi
		// ---- order at the returns
		key := fi.Name + "/children in list order at every return"
		var disps []string
		for d := range res.badExit {
			disps = append(disps, d)
		}
		sort.Strings(disps)
		notes := strings.Join(c19OrdBadNotes[o], "; ")
		switch {
		case len(disps) > 0:
			d := disps[0]
			why := "a block of children appended bottom-up (each placed above the one before) is not reversed on this path"
			switch res.badState[d] {
			case "D1":
				why = "a block of children appended bottom-up stands behind other children: no reversal of the slice puts both in list order"
			case "B":
				why = "the children were put out of list order"
				if notes != "" {
					why += ": " + notes
				}
			}
			c.bad("C19.o", key, res.badExit[d], "a return is reached with %s out of list order: %s; the frame shows the items in the wrong order, the child index no longer is (item index - top), so the cursor gutter and the scroll anchor computed from it are wrong", d, why)
		case len(res.undec) > 0:
			var ds []string
			for d := range res.undec {
				ds = append(ds, d)
			}
			sort.Strings(ds)
			c.undecided("C19.o", key, res.undec[ds[0]], "the order of %s at this return is not understood (a reversal of children that are already in order, a sort, a permutation, an assignment from an unknown slice or an insertion at a computed index)", ds[0])
		case res.nExits == 0:
			c.okTrivial("C19.o", key, fi.Decl.Pos(), "no normal return")
		default:
			c.ok("C19.o", key, fi.Decl.Pos(), "at all %d normal returns every child list is in list order (upward children committed at the front, or their bottom-up block reversed on every path)", res.nExits)
		}
		// ---- re-flow loops
		var loops []ast.Node
		for n := range o.badReflow {
			loops = append(loops, n)
		}
		for n := range o.okReflow {
			if _, isBad := o.badReflow[n]; !isBad {
				loops = append(loops, n)
			}
		}
		sort.Slice(loops, func(i, j int) bool { return loops[i].Pos() < loops[j].Pos() })
		for _, n := range loops {
			k := fi.Name + "/rows re-assigned in slice order only over children in list order"
			if d, isBad := o.badReflow[n]; isBad {
				c.bad("C19.o", k, n.Pos(), "the loop assigns rows to the elements of %s in slice order while a block appended bottom-up has not been reversed yet: the items get the rows of a list in the opposite order (e.g. items 2,1,0 at rows 0,h,2h)", d)
			} else {
				c.ok("C19.o", k, n.Pos(), "every path to the loop leaves the children in list order")
			}
		}
		// ---- upward commits
		var sites []ast.Node
		for n := range o.upSites {
			sites = append(sites, n)
		}
		sort.Slice(sites, func(i, j int) bool { return sites[i].Pos() < sites[j].Pos() })
		for _, n := range sites {
			k := fi.Name + "/a child stacked upward is inserted at the front of the children"
			switch o.upSites[n] {
			case "front":
				c.ok("C19.i", k, n.Pos(), "slices.Insert(..., 0, child) while the row decreases")
			case "at":
				c.bad("C19.i", k, n.Pos(), "the child that is stacked above the others is not inserted at index 0: the children are no longer in top-to-bottom order (the cursor index and the scroll anchor computed from the child index are wrong)")
			default:
				v := o.upRef[n]
				_, badAtExit := res.badExit[v.disp]
				badLoop := false
				for _, d := range o.badReflow {
					if d == v.disp {
						badLoop = true
					}
				}
				if !v.children {
					// a local block: judged where it is spliced into the children
					badAtExit = len(res.badExit) > 0
				}
				switch {
				case badAtExit || badLoop:
					c.bad("C19.i", k, n.Pos(), "the child that is stacked above the others is appended behind them and the block is not reversed on every path before it is observed (%s): the children are not in top-to-bottom order (the cursor index and the scroll anchor computed from the child index are wrong)", c19FirstBad(c, res, o))
				case len(res.undec) > 0:
					c.undecided("C19.i", k, n.Pos(), "the child that is stacked above the others is appended behind them and what happens to the block afterwards is not understood")
				default:
					c.ok("C19.i", k, n.Pos(), "appended while the row decreases; the bottom-up block is reversed as a whole on every path to a return and to a loop that reads the slice order")
				}
			}
		}
	}
	// ---- a block reversed as a whole behind the entry content: every caller hands over a surface without children
	for _, res := range order {
		o := res.o
		var keys []string
		for k := range o.needEmpty {
			keys = append(keys, k)
		}
		sort.Strings(keys)
		for _, k := range keys {
			v := o.refs[k]
			obKey := o.fi.Name + "/block reversed as a whole starts from an empty child list"
			pi := o.paramIndex(v.root)
			if pi == -2 || o.fi.Obj == nil {
				c.undecided("C19.o", obKey, o.needEmpty[k], "%s is reversed as a whole although it may hold children from before (it does not belong to a parameter whose callers can be checked)", v.disp)
				continue
			}
			nCalls, why, undec := 0, "", ""
			for _, cfi := range c.P.FuncsIn("vxfw/list") {
				if cfi.Decl.Body == nil {
					continue
				}
				cres := results[cfi.Obj]
				ast.Inspect(cfi.Decl.Body, func(x ast.Node) bool {
					call, ok := x.(*ast.CallExpr)
					if !ok || calleeOf(cfi.Pkg.TypesInfo, call) != o.fi.Obj {
						return true
					}
					nCalls++
					if cres == nil {
						undec = fmt.Sprintf("the caller %s is not a layout function the rule follows", cfi.Name)
						return true
					}
					sts, seen := cres.o.callSt[call]
					if !seen {
						undec = fmt.Sprintf("the call in %s was not reached by the typestate", cfi.Name)
						return true
					}
					for _, s := range sts {
						switch s {
						case "A0", "S0":
						case "Ae", "U":
							undec = fmt.Sprintf("%s hands over %s as it received it", cfi.Name, cres.o.callRef[call].disp)
						default:
							why = fmt.Sprintf("%s calls it with children already in %s (%s)", cfi.Name, cres.o.callRef[call].disp, c.P.Pos(call.Pos()))
						}
					}
					return true
				})
			}
			switch {
			case why != "":
				c.bad("C19.o", obKey, o.needEmpty[k], "%s appends a bottom-up block to %s and reverses the whole slice, but %s: the children that were there are reversed as well and end up below the block in the opposite order", o.fi.Name, v.disp, why)
			case undec != "":
				c.undecided("C19.o", obKey, o.needEmpty[k], "%s", undec)
			case nCalls == 0:
				c.undecided("C19.o", obKey, o.needEmpty[k], "no static call of %s found: whether %s is empty at entry cannot be checked", o.fi.Name, v.disp)
			default:
				c.ok("C19.o", obKey, o.needEmpty[k], "all %d call sites hand over a surface that has no children yet", nCalls)
			}
		}
	}
}

func c19FirstBad(c *Ctx, res *c19OrdResult, o *c19OrdFn) string {
	var parts []string
	var ds []string
	for d := range res.badExit {
		ds = append(ds, d)
	}
	sort.Strings(ds)
	for _, d := range ds {
		parts = append(parts, fmt.Sprintf("return at %s", c.P.Pos(res.badExit[d])))
	}
	var ns []ast.Node
	for n := range o.badReflow {
		ns = append(ns, n)
	}
	sort.Slice(ns, func(i, j int) bool { return ns[i].Pos() < ns[j].Pos() })
	for _, n := range ns {
		parts = append(parts, fmt.Sprintf("re-flow loop at %s", c.P.Pos(n.Pos())))
	}
	return strings.Join(parts, ", ")
}
