package main

// Additional C10 / C15 / C16 / C01 rules written by the main author after round-2 seeded regressions.
//
//  C10.h  every write to the terminal through writer.w happens with writer.mut held (the frame flush on the
//         main goroutine and WriteStringLocked from query goroutines are serialised only by that mutex).
//  C15.h  Surface.render sorts s.Children itself (in place): hit testing walks the stored frame's Children in
//         slice order and takes the last hit as the mouse target, so the z-order must be in the slice.
//  C16.h  the text widget measures and draws the same line text (the argument of ctx.Characters is the
//         scanner's line in both findContainerSize and the draw functions).
//  C01.j  an otherwise empty frame re-shows the cursor when its row, column OR style changed.

import (
	"go/ast"
	"go/types"
	"strings"

	"golang.org/x/tools/go/cfg"
)

func init() {
	registerExtra("C10", c10WriterLock)
	registerExtra("C15", c15SortInPlace)
	registerExtra("C16", c16MeasureDrawAgree)
	registerExtra("C01", c01EmptyFrameCursor)
	// C12.g is decided by c12EmptyFrameCursor (c12_resolve.go): same obligation keys, by symbolic execution of Flush
}

// mustHeld computes, for every block of g, whether the mutex at path mu is held at block entry on all paths.
func mustHeld(g *FG, mu string) map[*cfg.Block]bool { return mustHeldFrom(g, mu, false) }

// mustHeldFrom: the same, with the mutex held (or not) when the function is entered.
func mustHeldFrom(g *FG, mu string, entryHeld bool) map[*cfg.Block]bool {
	info := g.Info
	isCall := func(n ast.Node, name string) bool {
		found := false
		inspectNoLit(n, func(m ast.Node) bool {
			if _, isDefer := m.(*ast.DeferStmt); isDefer {
				return false
			}
			call, ok := m.(*ast.CallExpr)
			if !ok {
				return true
			}
			sel, ok := call.Fun.(*ast.SelectorExpr)
			if ok && sel.Sel.Name == name && canonPath(info, sel.X) == mu {
				found = true
			}
			return true
		})
		return found
	}
	out := map[*cfg.Block]bool{}  // held at exit
	in := map[*cfg.Block]bool{}   // held at entry
	known := map[*cfg.Block]bool{}
	for iter := 0; iter < 20; iter++ {
		changed := false
		for i, b := range g.Blocks {
			held := i != 0
			if i == 0 {
				held = entryHeld
			} else {
				any := false
				for _, p := range g.preds[b] {
					if !known[p] {
						continue
					}
					any = true
					if !out[p] {
						held = false
					}
				}
				if !any {
					held = false
				}
			}
			e := held
			for _, n := range b.Nodes {
				if isCall(n, "Lock") {
					e = true
				}
				if isCall(n, "Unlock") {
					e = false
				}
			}
			if !known[b] || in[b] != held || out[b] != e {
				changed = true
			}
			known[b], in[b], out[b] = true, held, e
		}
		if !changed {
			break
		}
	}
	return in
}

// heldAtLoc: lock state at a node = entry state of its block plus the Lock/Unlock nodes before it in the block.
func heldAtLoc(info *types.Info, in map[*cfg.Block]bool, loc Loc, mu string) bool {
	held := in[loc.B]
	for i := 0; i < loc.Idx; i++ {
		n := loc.B.Nodes[i]
		inspectNoLit(n, func(m ast.Node) bool {
			if _, isDefer := m.(*ast.DeferStmt); isDefer {
				return false
			}
			if call, ok := m.(*ast.CallExpr); ok {
				if sel, ok := call.Fun.(*ast.SelectorExpr); ok && canonPath(info, sel.X) == mu {
					if sel.Sel.Name == "Lock" {
						held = true
					}
					if sel.Sel.Name == "Unlock" {
						held = false
					}
				}
			}
			return true
		})
	}
	return held
}

// c10EntryHeld decides whether mutex mu is held whenever fi is entered: fi is unexported, is never used as a
// value (method value, go/defer target through a variable), has at least one static call site, and at every
// call site the mutex is held (locally, or because that caller is itself always entered with it held). A call
// from inside a function literal or a go statement does not count as held. This is the "the mutex must be
// held" contract of a helper split out of a locked function, checked at its callers.
func c10EntryHeld(c *Ctx, fi *FuncInfo, mu string, memo map[*FuncInfo]int, depth int) bool {
	switch memo[fi] {
	case 1:
		return true
	case 2, 3: // 3 = in progress (recursion): not proven
		return false
	}
	memo[fi] = 3
	res := func() bool {
		if depth > 4 || fi.Obj == nil || fi.Obj.Exported() {
			return false
		}
		callers, asValue := c.P.CallersOf(fi)
		if asValue || len(callers) == 0 {
			return false
		}
		for _, cf := range callers {
			if cf.Decl.Body == nil {
				return false
			}
			cinfo := cf.Pkg.TypesInfo
			// every syntactic call of fi in the caller ...
			total := 0
			ast.Inspect(cf.Decl.Body, func(n ast.Node) bool {
				if call, ok := n.(*ast.CallExpr); ok && calleeOf(cinfo, call) == fi.Obj {
					total++
				}
				return true
			})
			// ... must be an ordinary call in the caller's own control flow (not in a literal, not go/defer)
			g := c.P.Graph(cf)
			hits := g.Calls(func(fn *types.Func, call *ast.CallExpr) bool { return fn == fi.Obj })
			if len(hits) != total {
				return false
			}
			var inLocal, inEntry map[*cfg.Block]bool
			for _, h := range hits {
				switch h.Top.(type) {
				case *ast.GoStmt, *ast.DeferStmt:
					return false
				}
				if inLocal == nil {
					inLocal = mustHeldFrom(g, mu, false)
				}
				if heldAtLoc(cinfo, inLocal, h.Loc, mu) {
					continue
				}
				if !c10EntryHeld(c, cf, mu, memo, depth+1) {
					return false
				}
				if inEntry == nil {
					inEntry = mustHeldFrom(g, mu, true)
				}
				if !heldAtLoc(cinfo, inEntry, h.Loc, mu) {
					return false
				}
			}
		}
		return true
	}()
	if res {
		memo[fi] = 1
	} else {
		memo[fi] = 2
	}
	return res
}

func c10WriterLock(c *Ctx) {
	c.Clauses = append(c.Clauses, "C10.h every write to the terminal through writer.w happens with writer.mut held")
	c.expect("C10.h", 3)
	const mu = "writer.mut"
	memo := map[*FuncInfo]int{}
	for _, fi := range c.P.FuncsIn("vaxis") {
		if fi.Decl.Body == nil || fi.Decl.Recv == nil || !strings.HasPrefix(fi.Name, "vaxis.(*writer).") {
			continue
		}
		info := fi.Pkg.TypesInfo
		g := c.P.Graph(fi)
		in := mustHeldFrom(g, mu, false)
		var inEntry map[*cfg.Block]bool
		for _, h := range g.Calls(func(fn *types.Func, call *ast.CallExpr) bool {
			sel, ok := call.Fun.(*ast.SelectorExpr)
			return ok && sel.Sel.Name == "Write" && fieldOwner(info, sel.X) == "writer.w"
		}) {
			held := heldAtLoc(info, in, h.Loc, mu)
			how := "mutex held on every path to the write"
			if !held && c10EntryHeld(c, fi, mu, memo, 0) {
				// not locked here: the function is a helper that is only ever entered with the mutex held
				if inEntry == nil {
					inEntry = mustHeldFrom(g, mu, true)
				}
				held = heldAtLoc(info, inEntry, h.Loc, mu)
				how = "every caller of this unexported helper holds the mutex at the call, and it is not released before the write"
			}
			key := fi.Name + "/terminal write under writer.mut"
			if held {
				c.ok("C10.h", key, h.Node.Pos(), "%s", how)
			} else {
				c.bad("C10.h", key, h.Node.Pos(), "w.w.Write is reachable without writer.mut: a frame flush on the main goroutine and a query written by WriteStringLocked from another goroutine can write to the terminal concurrently (interleaved bytes, data race on the console)")
			}
		}
	}
}

func c15SortInPlace(c *Ctx) {
	c.Clauses = append(c.Clauses, "C15.h Surface.render sorts s.Children in place by ZIndex (hit testing relies on the slice order of the stored frame)")
	c.expect("C15.h", 1)
	fi := c.P.Func("vxfw.Surface.render")
	if fi == nil {
		fi = c.P.Func("vxfw.(*Surface).render")
	}
	if fi == nil {
		c.undecided("C15.h", "vxfw.Surface.render", 0, "render not found")
		return
	}
	info := fi.Pkg.TypesInfo
	ok := false
	var pos = fi.Decl.Pos()
	what := "no sort of Children found"
	ast.Inspect(fi.Decl.Body, func(n ast.Node) bool {
		call, isCall := n.(*ast.CallExpr)
		if !isCall || len(call.Args) < 1 {
			return true
		}
		fn := calleeOf(info, call)
		if fn == nil || fn.Pkg() == nil || (fn.Pkg().Path() != "sort" && !strings.HasSuffix(fn.Pkg().Path(), "slices")) {
			return true
		}
		pos = call.Pos()
		if canonPath(info, c15SortedSlice(info, call.Args[0])) == "Surface.Children" { // (c15x.go: slice conversions and wrapper literals share the backing array)
			ok = true
		} else {
			what = "the sort is applied to " + types.ExprString(call.Args[0]) + ", not to s.Children itself"
		}
		return true
	})
	c.check(ok, "C15.h", fi.Name+"/children sorted in place by z-index", pos, "sort applied to s.Children", what+": the stored frame keeps insertion order, so for overlapping siblings the mouse target is the covered widget, not the top-most one")
}

// c16MeasureDrawAgree (C16.h) lives in c16h.go.

func c01EmptyFrameCursorC12(c *Ctx) { c01EmptyFrameCursorRule(c, "C12.g") }
func c01EmptyFrameCursor(c *Ctx)    { c01EmptyFrameCursorRule(c, "C01.j") }

func c01EmptyFrameCursorRule(c *Ctx, rule string) {
	c.Clauses = append(c.Clauses, rule+" an otherwise empty frame re-shows a visible cursor when its row, column or style changed")
	c.expect(rule, 3)
	fi := c.P.Func("vaxis.(*writer).Flush")
	if fi == nil {
		c.undecided(rule, "vaxis.(*writer).Flush", 0, "Flush not found")
		return
	}
	ems := ExtractEmissions(c.P, []*FuncInfo{fi}, vaxisTerminalSink)
	var shows []*Emission
	for _, e := range ems {
		if e.Resolved && hasSeq(e, isDecMode("25", "h")) && containsStr(e.GuardKeys, "writer.buf.Len()==0") {
			shows = append(shows, e)
		}
	}
	for _, f := range []string{"row", "col", "style"} {
		sigma := map[string]bool{
			"Vaxis.cursorNext.visible": true, "Vaxis.cursorLast.visible": true,
			"writer.buf.Len()==0": true, "writer.buf.Len()!=0": false,
		}
		for _, g := range []string{"row", "col", "style"} {
			sigma["Vaxis.cursorNext."+g+"!=Vaxis.cursorLast."+g] = g == f
			sigma["Vaxis.cursorNext."+g+"==Vaxis.cursorLast."+g] = g != f
			sigma["Vaxis.cursorLast."+g+"!=Vaxis.cursorNext."+g] = g == f
			sigma["Vaxis.cursorLast."+g+"==Vaxis.cursorNext."+g] = g != f
		}
		reach := false
		for _, e := range shows {
			if holds, _ := e.G.reachableUnder(e.Loc, sigma); holds {
				reach = true
			}
		}
		key := "vaxis.(*writer).Flush/empty frame shows the cursor again when only its " + f + " changed"
		if reach {
			c.ok(rule, key, fi.Decl.Pos(), "a cursor-show emission is reachable")
		} else {
			c.bad(rule, key, fi.Decl.Pos(), "with nothing else to write and the cursor visible before and after, a change of the cursor's %s alone writes nothing: the terminal keeps the old cursor %s", f, f)
		}
	}
}

// C01.h — the renderer's SGR deltas, interpreted by a reference SGR interpreter (the library's own parseSGR),
// reproduce the next cell's attributes for every ordered pair of attribute masks and mixed transitions, under
// every rgb/styledUnderlines capability combination. The machinery is C18's (rule C18.b), restricted to the
// producer render; it is run here because a renderer that mis-encodes an attribute transition violates C01 too.
func init() { registerExtra("C01", c01SGRAlgebra) }

func c01SGRAlgebra(c *Ctx) {
	c.Clauses = append(c.Clauses, "C01.h the renderer's SGR deltas decode (parseSGR) to the next cell's style for all 128x128 attribute-mask pairs and mixed transitions, under every rgb/styledUnderlines combination")
	c.expect("C01.h", 4)
	sub := &Ctx{Prop: c.Prop, Tier: c.Tier, P: c.P, counts: map[string]int{}, minima: map[string]int{}, verifDir: c.verifDir}
	w := &c18World{c: sub, p: c.P, pk: c.P.Pkg("vaxis")}
	if w.pk == nil {
		c.undecided("C01.h", "setup", 0, "package vaxis not loaded")
		return
	}
	w.m = newC18Machine(c.P)
	if why := w.setup(); why != "" {
		c.undecided("C01.h", "setup", 0, "%s", why)
		return
	}
	cons, why := w.streamConsumer("vaxis.parseSGR")
	if cons == nil {
		c.undecided("C01.h", "vaxis.parseSGR", 0, "reference consumer not recognised: %s", why)
		return
	}
	var producers []*c18Producer
	for _, caps := range [][2]bool{{true, true}, {false, true}, {true, false}, {false, false}} {
		p, _, why := w.renderProducer("vaxis.(*Vaxis).render", caps[0], caps[1], false)
		if p == nil {
			c.undecided("C01.h", "vaxis.(*Vaxis).render", 0, "producer not recognised: %s", why)
			return
		}
		producers = append(producers, p)
	}
	w.ruleAlgebra(producers, []*c18Consumer{cons})
	for _, o := range sub.Obs {
		key := strings.TrimPrefix(o.Key, o.Rule+"/")
		n := &Obligation{Prop: c.Prop, Rule: "C01.h", Key: "C01.h/" + key, Pos: o.Pos, Status: o.Status, Reason: o.Reason, Nontrivial: o.Nontrivial}
		c.Obs = append(c.Obs, n)
		c.counts["C01.h"]++
	}
}


// C10.k — the hand-off rule of C03.b seen from the shutdown side: in the input goroutine's context every
// channel send is the queue send or a select arm with default/timer, and there is no other blocking receive.
// An input goroutine parked on a hand-off stops draining the parser; the parser then blocks on its
// two-slot channel, never sees the close signal, and Suspend/Close wait for it for ever.
func init() { registerExtra("C10", c10InputNeverParks) }

func c10InputNeverParks(c *Ctx) {
	c.Clauses = append(c.Clauses, "C10.k the input goroutine never parks outside its loop select: every send in its context is the queue send or a select arm with default/timer, no other blocking receive (else the parser it drains blocks and Close/Suspend wait for ever)")
	c.expect("C10.k", 3)
	x := &c03Env{c: c}
	x.pk = c.P.Pkg("vaxis")
	if x.pk == nil {
		c.undecided("C10.k", "setup/package vaxis", 0, "root package not found")
		return
	}
	x.info = x.pk.TypesInfo
	x.par = c.P.Parents(x.pk)
	x.handle = c.P.Func("vaxis.(*Vaxis).handleSequence")
	x.openFi = c.P.Func("vaxis.(*Vaxis).openTty")
	if x.handle == nil || x.openFi == nil {
		c.undecided("C10.k", "setup/handleSequence, openTty", 0, "anchor functions not found")
		return
	}
	x.findInputGoroutine()
	if x.loop == nil {
		c.undecided("C10.k", "vaxis/input goroutine", x.openFi.Decl.Pos(), "input goroutine not found")
		return
	}
	x.buildReach()
	x.ruleBAs("C10.k")
}
