package main

// c08path — a small path-sensitive explorer over go/cfg graphs, shared by the lifecycle rules of C08 and
// the goroutine-exit rule of C10.
//
// The rules it serves are statements about the ORDER of a few events on the paths of a service loop
// ("a read is preceded by a poll of the close request", "taking the quit arm leads out of the loop").
// Written against one text shape they break as soon as the loop is cut differently: the labelled break
// becomes a boolean flag tested by the loop condition, the loop body becomes a helper whose boolean result
// is the loop condition, a switch becomes an if chain. The explorer makes the rules independent of those
// choices:
//
//   * it walks the CFG forward from a location, carrying (a) the values of the function's local boolean
//     variables where they are known (assigned a constant, a negation / conjunction of known values, or the
//     boolean result of an explored callee) and (b) a small set of marks owned by the rule;
//   * a branch whose condition evaluates to a known value is followed one way only (short-circuit && / ||
//     are evaluated operand by operand), any other branch both ways;
//   * a call of a function the rule asks to see through is explored in place (its own CFG, the marks of the
//     call site, fresh locals) and control continues after the call once per distinct (marks, boolean
//     result) it can return with; results are memoised per (function, marks at entry);
//   * states are memoised per block entry, so loops terminate.
//
// Nothing is executed; values other than local booleans are unknown.

import (
	"fmt"
	"go/ast"
	"go/constant"
	"go/token"
	"go/types"
	"sort"
	"strings"

	"golang.org/x/tools/go/cfg"
)

type pxTri int8

const (
	pxU pxTri = iota
	pxT
	pxF
)

func (t pxTri) not() pxTri {
	switch t {
	case pxT:
		return pxF
	case pxF:
		return pxT
	}
	return pxU
}

func pxOf(b bool) pxTri {
	if b {
		return pxT
	}
	return pxF
}

type pxMarks uint32

// pxState: the known local booleans (never mutated in place) and the rule's marks.
type pxState struct {
	env   map[types.Object]pxTri
	marks pxMarks
}

func (s pxState) with(o types.Object, v pxTri) pxState {
	if cur, ok := s.env[o]; ok && cur == v {
		return s
	}
	if !ok2(s.env, o) && v == pxU {
		return s
	}
	n := make(map[types.Object]pxTri, len(s.env)+1)
	for k, x := range s.env {
		n[k] = x
	}
	if v == pxU {
		delete(n, o)
	} else {
		n[o] = v
	}
	return pxState{env: n, marks: s.marks}
}

func ok2(m map[types.Object]pxTri, o types.Object) bool { _, ok := m[o]; return ok }

func (s pxState) key() string {
	if len(s.env) == 0 {
		return fmt.Sprintf("m%d", s.marks)
	}
	parts := make([]string, 0, len(s.env))
	for o, v := range s.env {
		parts = append(parts, fmt.Sprintf("%d=%d", o.Pos(), v))
	}
	sort.Strings(parts)
	return fmt.Sprintf("m%d;%s", s.marks, strings.Join(parts, ","))
}

// pxOutcome: one way a function can return: the marks at the return and its boolean result (pxU when the
// function does not have exactly one boolean result, or the value is not known).
type pxOutcome struct {
	marks pxMarks
	ret   pxTri
}

type pxEval struct {
	v  pxTri
	st pxState
}

type pxHooks struct {
	// onNode is called for each CFG node before its effects; it may change the marks; false prunes the path.
	onNode func(g *FG, b *cfg.Block, idx int, n ast.Node, st *pxState) bool
	// onBlock is called when a block is entered through an edge; false prunes the path.
	onBlock func(g *FG, from, b *cfg.Block, st *pxState) bool
	// onCall is called for every call expression in evaluation order, before a possible descent; false prunes.
	onCall func(g *FG, call *ast.CallExpr, fn *types.Func, st *pxState) bool
	// descend: the function whose body is explored in place of a call of fn (nil: the call is opaque).
	descend func(fn *types.Func) *FuncInfo
}

type pxMemoKey struct {
	fi    *FuncInfo
	marks pxMarks
}

type pxRun struct {
	p        *Program
	h        pxHooks
	memo     map[pxMemoKey][]pxOutcome
	busy     map[pxMemoKey]bool
	steps    int
	overflow bool
	escaped  map[*FG]map[types.Object]bool
}

const pxMaxSteps = 400000
const pxMaxDepth = 4

func newPxRun(p *Program, h pxHooks) *pxRun {
	return &pxRun{p: p, h: h, memo: map[pxMemoKey][]pxOutcome{}, busy: map[pxMemoKey]bool{}, escaped: map[*FG]map[types.Object]bool{}}
}

// trackable: a local boolean variable of g's function that is neither captured by a function literal nor
// has its address taken (so every write to it is a statement of this function).
func (x *pxRun) trackable(g *FG, o types.Object) bool {
	v, ok := o.(*types.Var)
	if !ok || v.IsField() || v.Pkg() == nil || v.Parent() == v.Pkg().Scope() {
		return false
	}
	if b, ok := v.Type().Underlying().(*types.Basic); !ok || b.Info()&types.IsBoolean == 0 {
		return false
	}
	esc, ok := x.escaped[g]
	if !ok {
		esc = map[types.Object]bool{}
		ast.Inspect(g.Body, func(n ast.Node) bool {
			switch t := n.(type) {
			case *ast.FuncLit:
				ast.Inspect(t.Body, func(m ast.Node) bool {
					if id, ok := m.(*ast.Ident); ok {
						if ob := g.Info.ObjectOf(id); ob != nil {
							esc[ob] = true
						}
					}
					return true
				})
				return false
			case *ast.UnaryExpr:
				if t.Op == token.AND {
					if ob := rootObj(g.Info, t.X); ob != nil {
						esc[ob] = true
					}
				}
			}
			return true
		})
		x.escaped[g] = esc
	}
	return !esc[o]
}

// explore walks g forward from start. It returns the distinct outcomes at the function's normal exits.
func (x *pxRun) explore(g *FG, start Loc, st pxState, depth int) []pxOutcome {
	type item struct {
		loc  Loc
		st   pxState
		from *cfg.Block
	}
	seen := map[string]bool{}
	var outs []pxOutcome
	haveOut := map[pxOutcome]bool{}
	addOut := func(o pxOutcome) {
		if !haveOut[o] {
			haveOut[o] = true
			outs = append(outs, o)
		}
	}
	work := []item{{loc: start, st: st}}
	for len(work) > 0 {
		it := work[len(work)-1]
		work = work[:len(work)-1]
		b := it.loc.B
		if it.loc.Idx == 0 {
			k := fmt.Sprintf("%p|%s", b, it.st.key())
			if seen[k] {
				continue
			}
			seen[k] = true
		}
		x.steps++
		if x.steps > pxMaxSteps {
			x.overflow = true
			return outs
		}
		states := []pxState{it.st}
		cd := g.BranchCond(b)
		returned := false
		var branch []pxEval
		branched := false
		for i := it.loc.Idx; i < len(b.Nodes) && len(states) > 0; i++ {
			n := b.Nodes[i]
			last := i == len(b.Nodes)-1
			var next []pxState
			for _, s := range states {
				if x.h.onNode != nil && !x.h.onNode(g, b, i, n, &s) {
					continue
				}
				if last && cd != nil && ast.Node(cd.Expr) == n && len(b.Succs) == 2 {
					if cd.Tag == nil && cd.Alts == nil {
						branch = append(branch, x.eval(g, cd.Expr, s, depth)...)
					} else {
						for _, s2 := range x.effects(g, n, s, depth) {
							branch = append(branch, pxEval{pxU, s2})
						}
					}
					branched = true
					continue
				}
				if rs, ok := n.(*ast.ReturnStmt); ok {
					returned = true
					if len(rs.Results) == 1 && pxIsBool(g.Info.TypeOf(rs.Results[0])) {
						for _, ev := range x.eval(g, rs.Results[0], s, depth) {
							addOut(pxOutcome{ev.st.marks, ev.v})
						}
					} else {
						for _, s2 := range x.effects(g, rs, s, depth) {
							addOut(pxOutcome{s2.marks, pxU})
						}
					}
					continue
				}
				next = append(next, x.exec(g, n, s, depth)...)
			}
			states = next
		}
		push := func(to *cfg.Block, s pxState) {
			if x.h.onBlock != nil && !x.h.onBlock(g, b, to, &s) {
				return
			}
			work = append(work, item{loc: Loc{to, 0}, st: s, from: b})
		}
		if branched {
			for _, ev := range branch {
				if ev.v != pxF {
					push(b.Succs[0], ev.st)
				}
				if ev.v != pxT {
					push(b.Succs[1], ev.st)
				}
			}
			continue
		}
		if returned && len(states) == 0 {
			continue
		}
		if len(b.Succs) == 0 {
			if g.isNormalExit(b) {
				for _, s := range states {
					addOut(pxOutcome{s.marks, pxU})
				}
			}
			continue
		}
		for _, s := range states {
			for _, to := range b.Succs {
				push(to, s)
			}
		}
	}
	return outs
}

func pxIsBool(t types.Type) bool {
	if t == nil {
		return false
	}
	b, ok := t.Underlying().(*types.Basic)
	return ok && b.Info()&types.IsBoolean != 0
}

// exec applies the effects of one CFG node that is neither a branch condition nor a return.
func (x *pxRun) exec(g *FG, n ast.Node, st pxState, depth int) []pxState {
	switch t := n.(type) {
	case *ast.AssignStmt:
		if len(t.Lhs) == len(t.Rhs) {
			states := []pxState{st}
			for i := range t.Lhs {
				var next []pxState
				id, _ := unparen(t.Lhs[i]).(*ast.Ident)
				var obj types.Object
				if id != nil && id.Name != "_" {
					obj = g.Info.ObjectOf(id)
				}
				for _, s := range states {
					if obj != nil && x.trackable(g, obj) {
						if t.Tok == token.ASSIGN || t.Tok == token.DEFINE {
							for _, ev := range x.eval(g, t.Rhs[i], s, depth) {
								next = append(next, ev.st.with(obj, ev.v))
							}
						} else {
							for _, s2 := range x.effects(g, t.Rhs[i], s, depth) {
								next = append(next, s2.with(obj, pxU))
							}
						}
						continue
					}
					s2s := x.effects(g, t.Lhs[i], s, depth)
					for _, s2 := range s2s {
						next = append(next, x.effects(g, t.Rhs[i], s2, depth)...)
					}
				}
				states = next
			}
			return states
		}
		var out []pxState
		for _, s := range x.effects(g, t, st, depth) {
			for _, l := range t.Lhs {
				if id, ok := unparen(l).(*ast.Ident); ok {
					if obj := g.Info.ObjectOf(id); obj != nil && x.trackable(g, obj) {
						s = s.with(obj, pxU)
					}
				}
			}
			out = append(out, s)
		}
		return out
	case *ast.ValueSpec:
		states := []pxState{st}
		for i, name := range t.Names {
			obj := g.Info.ObjectOf(name)
			var next []pxState
			for _, s := range states {
				switch {
				case len(t.Values) == len(t.Names):
					if obj != nil && x.trackable(g, obj) {
						for _, ev := range x.eval(g, t.Values[i], s, depth) {
							next = append(next, ev.st.with(obj, ev.v))
						}
					} else {
						next = append(next, x.effects(g, t.Values[i], s, depth)...)
					}
				case len(t.Values) == 0:
					if obj != nil && x.trackable(g, obj) {
						s = s.with(obj, pxF)
					}
					next = append(next, s)
				default:
					if i == 0 {
						for _, s2 := range x.effects(g, t.Values[0], s, depth) {
							next = append(next, s2)
						}
					} else {
						next = append(next, s)
					}
					for k := range next {
						if obj != nil && x.trackable(g, obj) {
							next[k] = next[k].with(obj, pxU)
						}
					}
				}
			}
			states = next
		}
		return states
	case *ast.RangeStmt:
		// never a CFG node itself (its parts are)
		return []pxState{st}
	}
	out := x.effects(g, n, st, depth)
	// any other statement that writes a tracked local (x++, range key/value) makes it unknown
	switch t := n.(type) {
	case *ast.IncDecStmt:
		_ = t
	case *ast.Ident:
		// key / value of a range statement: assigned by the loop
		if obj := g.Info.ObjectOf(t); obj != nil && x.trackable(g, obj) {
			if _, isRange := x.p.Parents(g.Pkg)[t].(*ast.RangeStmt); isRange {
				for k := range out {
					out[k] = out[k].with(obj, pxU)
				}
			}
		}
	}
	return out
}

// effects runs the calls inside n (innermost first, left to right) for their effect on the marks.
func (x *pxRun) effects(g *FG, n ast.Node, st pxState, depth int) []pxState {
	var calls []*ast.CallExpr
	var collect func(m ast.Node)
	collect = func(m ast.Node) {
		if m == nil {
			return
		}
		switch t := m.(type) {
		case *ast.FuncLit:
			return
		case *ast.CallExpr:
			collect(t.Fun)
			for _, a := range t.Args {
				collect(a)
			}
			calls = append(calls, t)
			return
		}
		ast.Inspect(m, func(k ast.Node) bool {
			if k == nil || k == m {
				return true
			}
			switch k.(type) {
			case *ast.FuncLit:
				return false
			case *ast.CallExpr:
				collect(k)
				return false
			}
			return true
		})
	}
	collect(n)
	states := []pxState{st}
	for _, call := range calls {
		var next []pxState
		for _, s := range states {
			for _, ev := range x.callOnly(g, call, s, depth) {
				next = append(next, ev.st)
			}
		}
		states = next
	}
	return states
}

// callOnly: the call itself (its arguments were evaluated already).
func (x *pxRun) callOnly(g *FG, call *ast.CallExpr, st pxState, depth int) []pxEval {
	if tv, ok := g.Info.Types[call.Fun]; ok && tv.IsType() {
		return []pxEval{{pxU, st}}
	}
	fn := calleeOf(g.Info, call)
	if x.h.onCall != nil && !x.h.onCall(g, call, fn, &st) {
		return nil
	}
	if fn == nil || x.h.descend == nil || depth >= pxMaxDepth {
		return []pxEval{{pxU, st}}
	}
	fi := x.h.descend(fn)
	if fi == nil || fi.Decl == nil || fi.Decl.Body == nil {
		return []pxEval{{pxU, st}}
	}
	boolRes := false
	if sig, _ := fn.Type().(*types.Signature); sig != nil && sig.Results().Len() == 1 && pxIsBool(sig.Results().At(0).Type()) {
		boolRes = true
	}
	var out []pxEval
	for _, o := range x.summary(fi, st.marks, depth+1) {
		v := pxU
		if boolRes {
			v = o.ret
		}
		out = append(out, pxEval{v, pxState{env: st.env, marks: o.marks}})
	}
	return out
}

func (x *pxRun) summary(fi *FuncInfo, marks pxMarks, depth int) []pxOutcome {
	k := pxMemoKey{fi, marks}
	if o, ok := x.memo[k]; ok {
		return o
	}
	if x.busy[k] {
		return []pxOutcome{{marks, pxU}} // recursion: opaque
	}
	g := x.p.Graph(fi)
	if g == nil || len(g.Blocks) == 0 {
		return []pxOutcome{{marks, pxU}}
	}
	x.busy[k] = true
	outs := x.explore(g, g.Entry(), pxState{marks: marks}, depth)
	delete(x.busy, k)
	if len(outs) == 0 {
		// never returns normally (panics / loops forever): no continuation
	}
	x.memo[k] = outs
	return outs
}

// eval evaluates a boolean expression; calls inside it are run for their effects in evaluation order.
func (x *pxRun) eval(g *FG, e ast.Expr, st pxState, depth int) []pxEval {
	if tv, ok := g.Info.Types[e]; ok && tv.Value != nil {
		if tv.Value.Kind() == constant.Bool {
			return []pxEval{{pxOf(constant.BoolVal(tv.Value)), st}}
		}
		return []pxEval{{pxU, st}}
	}
	switch t := e.(type) {
	case *ast.ParenExpr:
		return x.eval(g, t.X, st, depth)
	case *ast.Ident:
		if o := g.Info.ObjectOf(t); o != nil && x.trackable(g, o) {
			return []pxEval{{st.env[o], st}}
		}
		return []pxEval{{pxU, st}}
	case *ast.UnaryExpr:
		if t.Op == token.NOT {
			evs := x.eval(g, t.X, st, depth)
			for i := range evs {
				evs[i].v = evs[i].v.not()
			}
			return evs
		}
	case *ast.BinaryExpr:
		switch t.Op {
		case token.LAND, token.LOR:
			var out []pxEval
			for _, l := range x.eval(g, t.X, st, depth) {
				short := pxF // value of the left operand that decides the result
				if t.Op == token.LOR {
					short = pxT
				}
				if l.v == short {
					out = append(out, l)
					continue
				}
				if l.v == pxU {
					// split on the unknown left operand: it decides alone (right operand not evaluated) ...
					out = append(out, pxEval{short, l.st})
				}
				// ... or it is neutral and the result is the right operand
				out = append(out, x.eval(g, t.Y, l.st, depth)...)
			}
			return out
		case token.EQL, token.NEQ:
			if pxIsBool(g.Info.TypeOf(t.X)) && pxIsBool(g.Info.TypeOf(t.Y)) {
				var out []pxEval
				for _, l := range x.eval(g, t.X, st, depth) {
					for _, r := range x.eval(g, t.Y, l.st, depth) {
						v := pxU
						if l.v != pxU && r.v != pxU {
							v = pxOf((l.v == r.v) == (t.Op == token.EQL))
						}
						out = append(out, pxEval{v, r.st})
					}
				}
				return out
			}
		}
	case *ast.CallExpr:
		var out []pxEval
		states := []pxState{st}
		for _, a := range append([]ast.Expr{t.Fun}, t.Args...) {
			var next []pxState
			for _, s := range states {
				next = append(next, x.effects(g, a, s, depth)...)
			}
			states = next
		}
		for _, s := range states {
			out = append(out, x.callOnly(g, t, s, depth)...)
		}
		return out
	}
	var out []pxEval
	for _, s := range x.effects(g, e, st, depth) {
		out = append(out, pxEval{pxU, s})
	}
	return out
}

// ---------------------------------------------------------------------------
// loop geometry

// pxLoopBlocks: the body / head / done blocks of a for statement in g (nil if not found or dead).
func pxLoopBlocks(g *FG, loop *ast.ForStmt) (body, head, done *cfg.Block) {
	for _, b := range g.Blocks {
		if b.Stmt != ast.Stmt(loop) {
			continue
		}
		switch b.Kind {
		case cfg.KindForBody:
			body = b
		case cfg.KindForLoop:
			head = b
		case cfg.KindForDone:
			done = b
		}
	}
	if head == nil {
		head = body
	}
	return
}

// pxInLoop: does block b belong to the text of loop (its condition, body or post statement)?
func pxInLoop(b *cfg.Block, loop ast.Stmt) bool {
	if b.Stmt == nil {
		return false
	}
	if b.Stmt == loop {
		return b.Kind != cfg.KindForDone && b.Kind != cfg.KindRangeDone
	}
	return loop.Pos() <= b.Stmt.Pos() && b.Stmt.End() <= loop.End()
}

// pxRecvChan: the channel expression received from by a comm statement / expression statement (nil if none).
func pxRecvOf(n ast.Node) ast.Expr {
	var ch ast.Expr
	switch t := n.(type) {
	case *ast.ExprStmt:
		if u, ok := unparen(t.X).(*ast.UnaryExpr); ok && u.Op == token.ARROW {
			ch = u.X
		}
	case *ast.AssignStmt:
		if len(t.Rhs) == 1 {
			if u, ok := unparen(t.Rhs[0]).(*ast.UnaryExpr); ok && u.Op == token.ARROW {
				ch = u.X
			}
		}
	}
	return ch
}
