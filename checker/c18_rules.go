package main

// c18_rules.go — the rules of C18 (see c18.go for the overview).

import (
	"fmt"
	"go/ast"
	"go/constant"
	"go/token"
	"go/types"
	"os"
	"runtime/debug"
	"runtime/pprof"
	"sort"
	"strings"
	"time"

	"golang.org/x/tools/go/cfg"
)

func runC18(c *Ctx) {
	c.Clauses = []string{
		"C18.a every SGR template every producer (render, EncodeCells, StyledString.Encode; base and legacy-sgr variants; every emission site) can emit is decoded by every consumer (parseSGR, NewStyledString, term.sgr) to the style component the producer encoded, for every hole value class; every emission site is exercised",
		"C18.b attribute algebra: for every ordered pair of attribute masks the producer's delta decoded by the consumer from the previous mask gives the next mask (all producer x consumer pairs), plus mixed transitions changing every component at once",
		"C18.c every change of a style component between neighbouring cells makes the producer emit an SGR",
		"C18.d the string encoders leave every stream consumer in the zero style at the end of the string and encoded strings concatenate",
		"C18.e no index or slice expression of parseSGR / NewStyledString / term.sgr can be out of range for any parameter list (dominating length guards), and malformed-list probes through the evaluator do not panic",
	}
	c.NotDec = []string{
		"grapheme clustering and cell widths (uniseg is modelled as one rune = one cluster)",
		"hyperlinks (OSC 8) in the string codecs",
		"RGB colours under !caps.rgb (palette fallback: C07)",
		"that the ansi parser delivers each CSI ... m with the parameter lists assumed here (C02)",
		"pairwise textual equality of the three encoders (not a necessary condition: each is checked against every consumer instead)",
	}
	c.Assume = []string{
		"A1: every parameter delivered by the ansi parser has at least one sub-parameter (csiDispatch appends ps before appending the parameter)",
		"the evaluator's models of strings.Cut/Split/HasPrefix/TrimPrefix, strconv.Atoi and fmt.Sprintf are the Go standard library functions themselves",
	}
	// today: a 114 (30 default templates x 3 consumers + 4 legacy templates x 2 producers x 3 consumers), b 27, c 38, d 6, e 241
	c.expect("C18.a", 90)
	c.expect("C18.b", 27)
	c.expect("C18.c", 28)
	c.expect("C18.d", 6)
	c.expect("C18.e", 200)
	if c.P.Pkg("widgets/term") == nil { // GOOS=windows: the emulator does not build upstream; two consumers remain
		c.expect("C18.a", 60)
		c.expect("C18.b", 18)
		c.expect("C18.d", 4)
		c.expect("C18.e", 120)
	}

	c18Normalise(c)
	w := &c18World{c: c, p: c.P, pk: c.P.Pkg("vaxis")}
	if w.pk == nil {
		c.undecided("C18.a", "setup", 0, "package vaxis not loaded")
		return
	}
	w.m = newC18Machine(c.P)
	if why := w.setup(); why != "" {
		c.undecided("C18.a", "setup", 0, "%s", why)
		return
	}

	// consumers
	var consumers []*c18Consumer
	for _, n := range []string{"vaxis.parseSGR", "widgets/term.(*Model).sgr"} {
		if strings.HasPrefix(n, "widgets/term.") && c.P.Pkg("widgets/term") == nil {
			c.info("package widgets/term is not loaded for this GOOS; its sgr consumer is not checked")
			continue
		}
		cons, why := w.streamConsumer(n)
		if cons == nil {
			c.undecided("C18.a", n, 0, "consumer not recognised: %s", why)
			continue
		}
		consumers = append(consumers, cons)
	}
	if cons, why := w.stringConsumer("vaxis.(*Vaxis).NewStyledString"); cons != nil {
		consumers = append(consumers, cons)
	} else {
		c.undecided("C18.a", "vaxis.(*Vaxis).NewStyledString", 0, "consumer not recognised: %s", why)
	}

	// producers (base variants first)
	var producers []*c18Producer
	for _, n := range []string{"vaxis.EncodeCells", "vaxis.(*StyledString).Encode"} {
		p, why := w.stringEncoder(n)
		if p == nil {
			c.undecided("C18.a", n, 0, "producer not recognised: %s", why)
			continue
		}
		producers = append(producers, p)
		if w.usesLegacy(p) {
			q := *p
			q.variant, q.isLegacy = "legacy-sgr", true
			producers = append(producers, &q)
		}
	}
	const renderName = "vaxis.(*Vaxis).render"
	for _, caps := range [][2]bool{{true, true}, {false, true}, {true, false}, {false, false}} {
		p, _, why := w.renderProducer(renderName, caps[0], caps[1], false)
		if p == nil {
			c.undecided("C18.a", renderName, 0, "producer not recognised: %s", why)
			break
		}
		producers = append(producers, p)
		if caps[0] && caps[1] && w.usesLegacy(p) {
			q, _, _ := w.renderProducer(renderName, true, true, true)
			q.sites = p.sites
			producers = append(producers, q)
		}
	}
	if len(producers) == 0 || len(consumers) == 0 {
		return
	}

	stop := c18Prof()
	defer stop()
	defer debug.SetGCPercent(debug.SetGCPercent(800))
	t0 := time.Now()
	w.ruleUnit(producers, consumers)
	t1 := time.Now()
	w.ruleAlgebra(producers, consumers)
	t2 := time.Now()
	w.ruleEpilogue(producers, consumers)
	w.ruleNoPanic(consumers)
	c.info("evaluator time: unit transitions %.1fs, algebra %.1fs, rest %.1fs", t1.Sub(t0).Seconds(), t2.Sub(t1).Seconds(), time.Since(t2).Seconds())
	if os.Getenv("C18_DUMP") != "" {
		for _, o := range c.Obs {
			fmt.Printf("DUMP %-10s %-22s %s :: %s\n", o.Status, o.Pos, o.Key, o.Reason)
		}
	}
	if os.Getenv("C18_TIMING") != "" {
		fmt.Println(c.Info[len(c.Info)-1])
	}
}

// usesLegacy: does any SGR site of p have more than one template variant?
func (w *c18World) usesLegacy(p *c18Producer) bool {
	if len(w.legacy) == 0 {
		return false
	}
	for _, st := range p.sites {
		if len(st.templates) > 1 {
			return true
		}
	}
	// the templates may reach the sinks through tables, struct fields or parameters of helpers: does any function
	// the producer can (statically) reach mention one of the template variables that have a legacy variant?
	if w.legacyUse == nil {
		w.legacyUse = map[*FuncInfo]bool{}
	}
	if r, ok := w.legacyUse[p.fi]; ok {
		return r
	}
	found := false
	for n := range staticReach(w.p, p.fi) {
		f := w.p.Func(n)
		if f == nil || f.Decl.Body == nil || f.Pkg.PkgPath != p.fi.Pkg.PkgPath {
			continue
		}
		ast.Inspect(f.Decl.Body, func(nd ast.Node) bool {
			if id, ok := nd.(*ast.Ident); ok {
				if o := f.Pkg.TypesInfo.Uses[id]; o != nil {
					if _, isLegacy := w.legacy[o]; isLegacy {
						found = true
					}
				}
			}
			return !found
		})
	}
	w.legacyUse[p.fi] = found
	return found
}

func (w *c18World) setup() string {
	sc := w.pk.Types.Scope()
	st, _ := sc.Lookup("Style").(*types.TypeName)
	ct, _ := sc.Lookup("Cell").(*types.TypeName)
	if st == nil || ct == nil {
		return "types vaxis.Style / vaxis.Cell not found"
	}
	w.styleT, w.cellT = st.Type(), ct.Type()
	sst, ok := w.styleT.Underlying().(*types.Struct)
	if !ok {
		return "vaxis.Style is not a struct"
	}
	have := map[string]types.Type{}
	for i := 0; i < sst.NumFields(); i++ {
		have[sst.Field(i).Name()] = sst.Field(i).Type()
	}
	for _, n := range c18Comps {
		t, ok := have[n]
		if !ok {
			return "vaxis.Style has no field " + n
		}
		if b, ok := t.Underlying().(*types.Basic); !ok || b.Info()&types.IsInteger == 0 {
			return "vaxis.Style." + n + " is not an integer type"
		}
	}
	// attribute bits and underline styles: the package-level constants of the field types
	w.attrName, w.usNames, w.colNames = map[int64]string{}, map[int64]string{}, map[int64]string{0: "default"}
	w.usOff, w.usSingle = -1, -1
	for _, n := range sc.Names() {
		k, ok := sc.Lookup(n).(*types.Const)
		if !ok || k.Val().Kind() != constant.Int {
			continue
		}
		v, _ := constant.Int64Val(k.Val())
		switch {
		case types.Identical(k.Type(), have["Attribute"]):
			if v > 0 && v&(v-1) == 0 {
				w.attrBits = append(w.attrBits, v)
				w.attrName[v] = strings.TrimPrefix(n, "Attr")
			}
		case types.Identical(k.Type(), have["UnderlineStyle"]):
			w.usNames[v] = strings.TrimPrefix(n, "Underline")
			if n == "UnderlineOff" {
				w.usOff = v
			}
			if n == "UnderlineSingle" {
				w.usSingle = v
			}
		}
	}
	sort.Slice(w.attrBits, func(i, j int) bool { return w.attrBits[i] < w.attrBits[j] })
	if len(w.attrBits) == 0 || len(w.attrBits) > 8 {
		return fmt.Sprintf("%d attribute bits found", len(w.attrBits))
	}
	if w.usOff != 0 || w.usSingle < 0 || len(w.usNames) < 2 {
		return "UnderlineOff (zero value) / UnderlineSingle not found"
	}
	// legacy variants of the package-level template variables
	se := newStrEval(w.p, w.pk)
	w.legacy = map[types.Object]string{}
	w.legacyOnly = map[string]bool{}
	for obj, vs := range se.varVariants {
		if len(vs) >= 1 {
			w.legacy[obj] = vs[len(vs)-1]
			isBase := false
			if v, ok := obj.(*types.Var); ok {
				if base, ok := se.varInit(v); ok {
					for _, b := range base {
						if b == vs[len(vs)-1] {
							isBase = true
						}
					}
				}
			}
			if !isBase {
				w.legacyOnly[vs[len(vs)-1]] = true
			}
		}
	}
	return ""
}

func (w *c18World) index(n int64) (int64, string) {
	v, why := w.callPure("vaxis.IndexColor", c18IntV(n))
	if why != "" || v.k != c18Int {
		return 0, "IndexColor: " + why
	}
	w.colNames[v.i] = fmt.Sprintf("idx(%d)", n)
	return v.i, ""
}

func (w *c18World) rgbCol(r, g, b int64) (int64, string) {
	v, why := w.callPure("vaxis.RGBColor", c18IntV(r), c18IntV(g), c18IntV(b))
	if why != "" || v.k != c18Int {
		return 0, "RGBColor: " + why
	}
	w.colNames[v.i] = fmt.Sprintf("rgb(%d,%d,%d)", r, g, b)
	return v.i, ""
}

type c18Agg struct {
	ok, fail int
	pos      token.Pos
	witness  string
	prods    map[string]bool
	undec    string
}

func (a *c18Agg) prodList() string {
	var s []string
	for p := range a.prods {
		s = append(s, p)
	}
	sort.Strings(s)
	return strings.Join(s, ", ")
}

// expected: what a consumer should hold after the producer encoded `next` (capability fallbacks applied).
func (w *c18World) expected(p *c18Producer, next c18Style) (c18Style, [5]bool) {
	cmp := [5]bool{true, true, true, true, true}
	exp := next
	if !p.su {
		cmp[2] = false // underline colour is not transmitted
		if next.us != w.usOff {
			exp.us = w.usSingle
		}
	}
	return exp, cmp
}

func c18Quote(s string) string {
	q := fmt.Sprintf("%q", s)
	if len(q) > 160 {
		q = q[:160] + "…"
	}
	return q
}

func (w *c18World) short(name string) string {
	name = strings.TrimPrefix(name, "vaxis.")
	name = strings.TrimPrefix(name, "widgets/")
	return name
}

// ---------------------------------------------------------------- C18.a + C18.c

type c18Unit struct {
	comp  int
	cells []c18Style
}

func (w *c18World) unitTransitions(p *c18Producer) ([]c18Unit, string) {
	var cols []int64
	for i := int64(0); i < 16; i++ {
		v, why := w.index(i)
		if why != "" {
			return nil, why
		}
		cols = append(cols, v)
	}
	for _, i := range []int64{16, 100, 231, 255} {
		v, why := w.index(i)
		if why != "" {
			return nil, why
		}
		cols = append(cols, v)
	}
	var rgbs []int64
	for _, t := range [][3]int64{{1, 2, 3}, {255, 128, 0}, {0, 0, 0}, {7, 5, 2}} {
		v, why := w.rgbCol(t[0], t[1], t[2])
		if why != "" {
			return nil, why
		}
		rgbs = append(rgbs, v)
	}
	all := append([]int64{0}, cols...)
	prevs := []int64{0, cols[3], cols[17]}
	if p.rgb {
		all = append(all, rgbs...)
		prevs = append(prevs, rgbs[0])
	}
	var out []c18Unit
	for comp := 0; comp < 3; comp++ {
		if comp == 2 && !p.su {
			continue
		}
		for _, a := range prevs {
			for _, b := range all {
				if a == b {
					continue
				}
				var s1, s2 c18Style
				s1.set(comp, a)
				s2.set(comp, b)
				out = append(out, c18Unit{comp, []c18Style{s1, s2}})
			}
		}
	}
	var uss []int64
	for v := range w.usNames {
		uss = append(uss, v)
	}
	sort.Slice(uss, func(i, j int) bool { return uss[i] < uss[j] })
	for _, a := range uss {
		for _, b := range uss {
			if a != b {
				out = append(out, c18Unit{3, []c18Style{{us: a}, {us: b}}})
			}
		}
	}
	// attributes: every single bit on and off, alone and next to every other bit
	for _, b := range w.attrBits {
		out = append(out, c18Unit{4, []c18Style{{attr: b}, {attr: 0}}})
		for _, o := range w.attrBits {
			if o != b {
				out = append(out, c18Unit{4, []c18Style{{attr: o}, {attr: o | b}}})
				out = append(out, c18Unit{4, []c18Style{{attr: o | b}, {attr: o}}})
			}
		}
	}
	return out, ""
}

func (w *c18World) applyVariant(p *c18Producer) {
	if p.isLegacy {
		w.m.setOverrides(w.legacy)
	} else {
		w.m.setOverrides(map[types.Object]string{})
	}
}

func (w *c18World) ruleUnit(producers []*c18Producer, consumers []*c18Consumer) {
	c := w.c
	aggA := map[string]*c18Agg{} // consumer/template
	aggC := map[string]*c18Agg{} // producer/component
	getA := func(m map[string]*c18Agg, k string, pos token.Pos) *c18Agg {
		a := m[k]
		if a == nil {
			a = &c18Agg{pos: pos, prods: map[string]bool{}}
			m[k] = a
		}
		return a
	}
	for _, p := range producers {
		w.applyVariant(p)
		units, why := w.unitTransitions(p)
		if why != "" {
			c.undecided("C18.a", p.label()+"/transitions", p.fi.Decl.Pos(), "%s", why)
			continue
		}
		for _, u := range units {
			enc := p.encode(u.cells)
			if enc.panicMsg != "" || enc.abortMsg != "" {
				a := getA(aggC, w.short(p.label())+"/"+c18Comps[u.comp], p.fi.Decl.Pos())
				if a.undec == "" {
					a.undec = fmt.Sprintf("encoding %s -> %s: %s%s", w.show(u.cells[0]), w.show(u.cells[1]), enc.panicMsg, enc.abortMsg)
				}
				continue
			}
			// C18.c: a changed component must produce an SGR
			type blame struct {
				keys []string
				pos  []token.Pos
			}
			cells, segs, out := u.cells, enc.segments, enc.out
			if p.epilogue {
				// a zero-styled cell appended after the end of the string must decode as zero-styled
				cells = append(append([]c18Style{}, cells...), c18Style{})
				segs = append(append([][]c18Event{}, segs...), enc.tail)
				out += "z"
			}
			bl := make([]blame, len(cells))
			for j := range cells {
				for _, ev := range segs[j] {
					if c18HasSGR(ev.text) {
						k, pos := p.keyOf(ev)
						bl[j].keys = append(bl[j].keys, k)
						bl[j].pos = append(bl[j].pos, pos)
					}
				}
				prev := c18Style{}
				if j > 0 {
					prev = cells[j-1]
				}
				if prev.get(u.comp) != cells[j].get(u.comp) {
					a := getA(aggC, w.short(p.label())+"/"+c18Comps[u.comp], p.fi.Decl.Pos())
					if len(bl[j].keys) == 0 {
						a.fail++
						if a.witness == "" {
							a.witness = fmt.Sprintf("%s -> %s writes no SGR (output %s)", w.show(prev), w.show(cells[j]), c18Quote(enc.out))
						}
					} else {
						a.ok++
					}
				}
			}
			for _, k := range consumers {
				d := k.decode(out)
				if d.abortMsg != "" {
					a := getA(aggA, w.short(k.name)+"/evaluation", k.fi.Decl.Pos())
					if a.undec == "" {
						a.undec = fmt.Sprintf("decoding %s: %s", c18Quote(out), d.abortMsg)
					}
					continue
				}
				okSoFar := true
				for j := range cells {
					exp, cmp := w.expected(p, cells[j])
					good := d.panicMsg == "" && j < len(d.styles)
					if good {
						for ci := 0; ci < 5; ci++ {
							if cmp[ci] && d.styles[j].get(ci) != exp.get(ci) {
								good = false
							}
						}
					}
					for _, key := range bl[j].keys {
						// default templates: one obligation per consumer/template over all producers. Legacy-only
						// variants: one obligation per producer→consumer/template, so that an open finding about one
						// producer's legacy output can never hide another producer starting to emit the same form.
						aggKey := w.short(k.name) + "/" + key
						if strings.HasSuffix(key, c18LegacyTag) {
							aggKey = w.short(p.name) + "→" + w.short(k.name) + "/" + key
						}
						a := getA(aggA, aggKey, k.fi.Decl.Pos())
						a.prods[p.label()] = true
						if good {
							a.ok++
						} else if okSoFar {
							a.fail++
							if a.witness == "" {
								got := "nothing"
								if d.panicMsg != "" {
									got = "PANIC " + d.panicMsg
								} else if j < len(d.styles) {
									got = w.show(d.styles[j])
								}
								prev := c18Style{}
								if j > 0 {
									prev = cells[j-1]
								}
								a.witness = fmt.Sprintf("%s encodes %s -> %s as %s; %s then holds %s, want %s", p.label(), w.show(prev), w.show(cells[j]), c18Quote(out), w.short(k.name), got, w.show(exp))
							}
						}
					}
					if !good {
						okSoFar = false
					}
				}
			}
		}
	}
	w.m.setOverrides(map[types.Object]string{})
	// C18.a verdicts
	keys := make([]string, 0, len(aggA))
	for k := range aggA {
		keys = append(keys, k)
	}
	sort.Strings(keys)
	for _, k := range keys {
		a := aggA[k]
		switch {
		case a.undec != "":
			c.undecided("C18.a", k, a.pos, "%s", a.undec)
		case a.fail > 0:
			c.bad("C18.a", k, a.pos, "%d of %d transitions that emit this template are decoded wrongly; e.g. %s", a.fail, a.fail+a.ok, a.witness)
		default:
			c.ok("C18.a", k, a.pos, "decoded to the encoded component in all %d transitions (emitted by %s)", a.ok, a.prodList())
		}
	}
	// every static SGR site must have been exercised
	seen := map[string]bool{}
	for _, p := range producers {
		for call, st := range p.sites {
			for i, key := range st.keys {
				id := fmt.Sprintf("%s/site %s@%d", p.name, key, call.Pos())
				if seen[id] {
					continue
				}
				fired := false
				for _, q := range producers {
					if q.name == p.name {
						if s2 := q.sites[call]; s2 != nil && s2.fired[i] {
							fired = true
						}
					}
				}
				seen[id] = true
				if !fired {
					c.undecided("C18.a", p.name+"/site "+key+" never exercised", call.Pos(), "the SGR emission site (guards %v) is not reached by any transition class of the check; its decoding by the consumers is not decided", st.em.GuardKeys)
				}
			}
		}
	}
	// C18.c verdicts
	keys = keys[:0]
	for k := range aggC {
		keys = append(keys, k)
	}
	sort.Strings(keys)
	for _, k := range keys {
		a := aggC[k]
		switch {
		case a.undec != "":
			c.undecided("C18.c", k, a.pos, "%s", a.undec)
		case a.fail > 0:
			c.bad("C18.c", k, a.pos, "%d of %d changes of the component are not transmitted: %s", a.fail, a.fail+a.ok, a.witness)
		default:
			c.ok("C18.c", k, a.pos, "all %d changes of the component emit an SGR", a.ok)
		}
	}
}

// ======================================================================
// c18_rules2.go — C18.b (attribute algebra, mixed transitions) and C18.d (end of string, concatenation).

// c18Euler returns a closed walk over the complete digraph (self loops included) on n nodes
// that uses every ordered pair exactly once: n*n+1 nodes, starting and ending at node 0.
func c18Euler(n int) []int {
	next := make([]int, n) // next unused successor of each node
	var stack, circuit []int
	stack = append(stack, 0)
	for len(stack) > 0 {
		v := stack[len(stack)-1]
		if next[v] < n {
			u := next[v]
			next[v]++
			stack = append(stack, u)
		} else {
			circuit = append(circuit, v)
			stack = stack[:len(stack)-1]
		}
	}
	for i, j := 0, len(circuit)-1; i < j; i, j = i+1, j-1 {
		circuit[i], circuit[j] = circuit[j], circuit[i]
	}
	return circuit
}

// compareChain decodes out with k and compares cell by cell; returns the number of wrong cells and the first witness.
func (w *c18World) compareChain(p *c18Producer, k *c18Consumer, cells []c18Style, out string) (wrong int, witness, undec string) {
	d := k.decode(out)
	if d.abortMsg != "" {
		return 0, "", d.abortMsg
	}
	if d.panicMsg != "" {
		return len(cells), "PANIC in " + w.short(k.name) + ": " + d.panicMsg, ""
	}
	if len(d.styles) != len(cells) {
		return len(cells), fmt.Sprintf("%s decodes %d cells from a string of %d cells", w.short(k.name), len(d.styles), len(cells)), ""
	}
	for j := range cells {
		exp, cmp := w.expected(p, cells[j])
		good := true
		for ci := 0; ci < 5; ci++ {
			if cmp[ci] && d.styles[j].get(ci) != exp.get(ci) {
				good = false
			}
		}
		if !good {
			wrong++
			if witness == "" {
				prev := c18Style{}
				if j > 0 {
					prev = cells[j-1]
				}
				witness = fmt.Sprintf("transition %s -> %s (cell %d): %s holds %s, want %s", w.show(prev), w.show(cells[j]), j, w.short(k.name), w.show(d.styles[j]), w.show(exp))
			}
		}
	}
	return
}

func (w *c18World) ruleAlgebra(producers []*c18Producer, consumers []*c18Consumer) {
	c := w.c
	// all attribute masks
	nb := len(w.attrBits)
	masks := make([]int64, 1<<nb)
	for i := range masks {
		for b := 0; b < nb; b++ {
			if i&(1<<b) != 0 {
				masks[i] |= w.attrBits[b]
			}
		}
	}
	walk := c18Euler(len(masks))
	chain := make([]c18Style, 0, len(walk)-1)
	for _, n := range walk[1:] { // the pen starts at mask 0 = walk[0]
		chain = append(chain, c18Style{attr: masks[n]})
	}
	// mixed transitions: every component changes between neighbours (deterministic pseudo-random choice)
	mixed := func(p *c18Producer) ([]c18Style, string) {
		var cols []int64
		for _, i := range []int64{0, 3, 7, 8, 12, 15, 16, 100, 255} {
			v, why := w.index(i)
			if why != "" {
				return nil, why
			}
			cols = append(cols, v)
		}
		if p.rgb {
			for _, t := range [][3]int64{{1, 2, 3}, {200, 100, 50}, {0, 0, 0}} {
				v, why := w.rgbCol(t[0], t[1], t[2])
				if why != "" {
					return nil, why
				}
				cols = append(cols, v)
			}
		}
		cols = append(cols, 0, 0)
		var uss []int64
		for v := range w.usNames {
			uss = append(uss, v)
		}
		for i := 0; i < len(uss); i++ { // sort
			for j := i + 1; j < len(uss); j++ {
				if uss[j] < uss[i] {
					uss[i], uss[j] = uss[j], uss[i]
				}
			}
		}
		seed := uint32(12345)
		rnd := func(n int) int {
			seed = seed*1664525 + 1013904223
			return int((seed >> 8) % uint32(n))
		}
		var out []c18Style
		prev := c18Style{}
		for len(out) < 120 {
			s := c18Style{fg: cols[rnd(len(cols))], bg: cols[rnd(len(cols))], ul: cols[rnd(len(cols))], us: uss[rnd(len(uss))], attr: masks[rnd(len(masks))]}
			if len(out)%3 != 2 { // two out of three steps change every component
				if s.fg == prev.fg || s.bg == prev.bg || s.ul == prev.ul || s.us == prev.us || s.attr == prev.attr {
					continue
				}
			}
			out = append(out, s)
			prev = s
		}
		return out, ""
	}
	for _, p := range producers {
		if p.isLegacy {
			continue // the legacy variant only changes the fg/bg templates, which C18.a decodes one by one
		}
		w.applyVariant(p)
		type job struct {
			what  string
			cells []c18Style
		}
		var jobs []job
		if p.rgb && p.su {
			jobs = append(jobs, job{fmt.Sprintf("attribute masks %dx%d", len(masks), len(masks)), chain})
		}
		mx, why := mixed(p)
		if why != "" {
			c.undecided("C18.b", p.label()+"/mixed transitions", p.fi.Decl.Pos(), "%s", why)
		} else {
			jobs = append(jobs, job{"mixed transitions", mx})
		}
		for _, jb := range jobs {
			w.m.trace = false
			enc := p.encode(jb.cells)
			w.m.trace = true
			for _, k := range consumers {
				key := w.short(p.label()) + "→" + w.short(k.name) + "/" + jb.what
				if enc.panicMsg != "" || enc.abortMsg != "" {
					c.undecided("C18.b", key, p.fi.Decl.Pos(), "encoding: %s%s", enc.panicMsg, enc.abortMsg)
					continue
				}
				wrong, wit, und := w.compareChain(p, k, jb.cells, enc.out)
				switch {
				case und != "":
					c.undecided("C18.b", key, k.fi.Decl.Pos(), "decoding: %s", und)
				case wrong > 0:
					c.bad("C18.b", key, p.fi.Decl.Pos(), "%d of %d transitions are decoded to a different style (later ones may be consequences of the first); first: %s", wrong, len(jb.cells), wit)
				default:
					c.ok("C18.b", key, p.fi.Decl.Pos(), "all %d transitions decode to the encoded style", len(jb.cells))
				}
			}
		}
	}
}

// ======================================================================
// c18_rules3.go — C18.d (end of string, concatenation) and C18.e (parsing never panics).

func (w *c18World) ruleEpilogue(producers []*c18Producer, consumers []*c18Consumer) {
	c := w.c
	for _, p := range producers {
		if !p.epilogue || p.isLegacy {
			continue // the legacy variant changes only fg/bg templates (C18.a); the end of the string is the same code
		}
		w.applyVariant(p)
		i3, _ := w.index(3)
		i12, _ := w.index(12)
		i200, _ := w.index(200)
		rg, why := w.rgbCol(9, 8, 7)
		if why != "" {
			c.undecided("C18.d", w.short(p.label())+"/end of string", p.fi.Decl.Pos(), "%s", why)
			continue
		}
		var styles []c18Style
		for comp := 0; comp < 3; comp++ {
			for _, v := range []int64{i3, i12, i200, rg} {
				var s c18Style
				s.set(comp, v)
				styles = append(styles, s)
			}
		}
		for v := range w.usNames {
			if v != w.usOff {
				styles = append(styles, c18Style{us: v})
			}
		}
		sort.Slice(styles[12:], func(i, j int) bool { return styles[12+i].us < styles[12+j].us })
		all := int64(0)
		for _, b := range w.attrBits {
			styles = append(styles, c18Style{attr: b})
			all |= b
		}
		styles = append(styles, c18Style{fg: i3, bg: rg, ul: i200, us: w.usSingle, attr: all}, c18Style{})
		type res struct {
			n       int
			fail    int
			witness string
			undec   string
		}
		results := map[string]*res{}
		for _, k := range consumers {
			results[k.name] = &res{}
		}
		for si, s := range styles {
			e1 := p.encode([]c18Style{s})
			tt := styles[(si+5)%len(styles)]
			e2 := p.encode([]c18Style{tt})
			for _, k := range consumers {
				r := results[k.name]
				if msg := e1.abortMsg + e1.panicMsg + e2.abortMsg + e2.panicMsg; msg != "" {
					r.undec = "encoding: " + msg
					continue
				}
				if k.stream {
					d := k.decode(e1.out)
					if d.abortMsg != "" {
						r.undec = d.abortMsg
						continue
					}
					r.n++
					if d.panicMsg != "" || d.final == nil || *d.final != (c18Style{}) {
						r.fail++
						if r.witness == "" {
							got := "a panic: " + d.panicMsg
							if d.final != nil {
								got = w.show(*d.final)
							}
							r.witness = fmt.Sprintf("after %s (one cell %s) %s is left with %s", c18Quote(e1.out), w.show(s), w.short(k.name), got)
						}
					}
				}
				// concatenation: the second string starts from the zero style
				out := e1.out + e2.out
				d := k.decode(out)
				if d.abortMsg != "" {
					r.undec = d.abortMsg
					continue
				}
				r.n++
				good := d.panicMsg == "" && len(d.styles) == 2 && d.styles[0] == s && d.styles[1] == tt
				if !good {
					r.fail++
					if r.witness == "" {
						got := "a panic: " + d.panicMsg
						if d.panicMsg == "" {
							var gs []string
							for _, x := range d.styles {
								gs = append(gs, w.show(x))
							}
							got = strings.Join(gs, ", ")
						}
						r.witness = fmt.Sprintf("%s + %s = %s is decoded by %s as [%s], want [%s, %s]", w.show(s), w.show(tt), c18Quote(out), w.short(k.name), got, w.show(s), w.show(tt))
					}
				}
			}
		}
		for _, k := range consumers {
			r := results[k.name]
			key := w.short(p.label()) + "→" + w.short(k.name) + "/end of string"
			switch {
			case r.undec != "":
				c.undecided("C18.d", key, p.fi.Decl.Pos(), "%s", r.undec)
			case r.fail > 0:
				c.bad("C18.d", key, p.fi.Decl.Pos(), "%d of %d end-of-string checks fail: %s", r.fail, r.n, r.witness)
			default:
				c.ok("C18.d", key, p.fi.Decl.Pos(), "the consumer is back in the zero style after every one of %d encoded strings and concatenations decode cell for cell", r.n)
			}
		}
	}
	w.m.setOverrides(map[types.Object]string{})
}

// ---------------------------------------------------------------- C18.e

var c18Probes = []string{
	"", "0", "38", "48", "58", "38;5", "38;2", "38;2;1", "38;2;1;2", "38;2;1;2;3", "38;5;1", "38;9", "38;9;1;2;3",
	"48;5", "48;2", "48;2;1;2", "58;5", "58;2", "58;2;1", "58;2;1;2", "38:5", "38:2", "38:2:1", "38:2:1:2", "38:2:1:2:3", "38:2::1:2:3",
	"38:2:1:2:3:4:5", "38:9:1", "38:5:300", "38;5;300", "48:5", "48:2:1:2", "58:5", "58:2:1", "58:2::1:2:3", "4:", "4:9", "4:1:2", ":", ";", ";;",
	"38;", "38;;", "38;5;", "1;38", "0;38;5", "1;2;3;38;2", "1;48;2;9", "99999999999999999999", "38:99999999999:1", "107;38", "4;58", "58;5;1;38",
}

func (w *c18World) ruleNoPanic(consumers []*c18Consumer) {
	c := w.c
	for _, k := range consumers {
		// probes through the evaluator
		fail, und, wit := 0, "", ""
		for _, pr := range c18Probes {
			d := k.decode("a\x1b[" + pr + "mb\x1b[" + pr + "m")
			if d.abortMsg != "" {
				und = fmt.Sprintf("probe %q: %s", pr, d.abortMsg)
				continue
			}
			if d.panicMsg != "" {
				fail++
				if wit == "" {
					wit = fmt.Sprintf("CSI %s m: %s", pr, d.panicMsg)
				}
			}
		}
		key := k.name + "/malformed parameter lists"
		switch {
		case und != "":
			c.undecided("C18.e", key, k.fi.Decl.Pos(), "%s", und)
		case fail > 0:
			c.bad("C18.e", key, k.fi.Decl.Pos(), "%d of %d malformed lists panic, e.g. %s", fail, len(c18Probes), wit)
		default:
			c.ok("C18.e", key, k.fi.Decl.Pos(), "none of %d malformed or truncated lists panics in the evaluator", len(c18Probes))
		}
		w.lengthGuards(k.fi)
	}
}

// c18Facts: atoms of the guards in force at l. A guard is dropped if one of its variables is assigned
// on a path from the guard edge to l that does not pass through the guard's own block again
// (a path that does re-evaluates the guard).
func c18Facts(g *FG, l Loc, guards []Guard) []Atom {
	var out []Atom
	for _, gd := range guards {
		atoms := condAtoms(g.Info, gd.Cond, gd.Pol)
		atoms = append(atoms, c18LinAtoms(g.Info, gd.Cond, gd.Pol)...)
		if len(atoms) == 0 {
			continue
		}
		objs := objsIn(g.Info, gd.Cond.Expr)
		if gd.Cond.Tag != nil {
			for o := range objsIn(g.Info, gd.Cond.Tag) {
				objs[o] = true
			}
		}
		if len(objs) > 0 && c18Killed(g, gd, l, objs) {
			continue
		}
		out = append(out, atoms...)
	}
	return out
}

func c18Killed(g *FG, gd Guard, l Loc, objs map[types.Object]bool) bool {
	succ := gd.From.Succs[1]
	if gd.Pol {
		succ = gd.From.Succs[0]
	}
	fwd := map[*cfg.Block]bool{}
	var st []*cfg.Block
	if succ != gd.From {
		fwd[succ] = true
		st = append(st, succ)
	}
	for len(st) > 0 {
		b := st[len(st)-1]
		st = st[:len(st)-1]
		for _, s := range b.Succs {
			if s != gd.From && !fwd[s] {
				fwd[s] = true
				st = append(st, s)
			}
		}
	}
	bwd := map[*cfg.Block]bool{l.B: true}
	st = append(st[:0], l.B)
	for len(st) > 0 {
		b := st[len(st)-1]
		st = st[:len(st)-1]
		for _, pr := range g.preds[b] {
			if pr != gd.From && !bwd[pr] {
				bwd[pr] = true
				st = append(st, pr)
			}
		}
	}
	// is l.B on a cycle that avoids the guard block?
	cyc := false
	seen := map[*cfg.Block]bool{}
	st = append(st[:0], l.B.Succs...)
	for len(st) > 0 {
		b := st[len(st)-1]
		st = st[:len(st)-1]
		if b == gd.From || seen[b] {
			continue
		}
		if b == l.B {
			cyc = true
			break
		}
		seen[b] = true
		st = append(st, b.Succs...)
	}
	for b := range fwd {
		if !bwd[b] {
			continue
		}
		for i, n := range b.Nodes {
			if b == l.B && i >= l.Idx && !cyc {
				break
			}
			if assignsAny(g.Info, n, objs) {
				return true
			}
		}
	}
	return false
}

// c18NonNegExtra (optional, set by c05sgr.go): shows that a non-constant right-hand side of an update of an index
// variable is >= 0 where it is evaluated (a dominating guard, or a callee all of whose returns are constants >= 0).
var c18NonNegExtra func(c *Ctx, fi *FuncInfo, stmt *ast.AssignStmt, rhs ast.Expr) bool

// lengthGuards: every index / slice expression of fi is within bounds on every path.
func (w *c18World) lengthGuards(fi *FuncInfo) {
	c := w.c
	g := c.P.Graph(fi)
	info := fi.Pkg.TypesInfo
	if g == nil {
		c.undecided("C18.e", fi.Name+"/body", fi.Decl.Pos(), "no body")
		return
	}
	hasLit := false
	ast.Inspect(fi.Decl.Body, func(n ast.Node) bool {
		if _, ok := n.(*ast.FuncLit); ok {
			hasLit = true
		}
		return true
	})
	if hasLit {
		c.undecided("C18.e", fi.Name+"/function literal", fi.Decl.Pos(), "the consumer contains a function literal; its index expressions are not analysed")
	}
	// [][]int parameter (the parsed parameter list) and A1
	var paramObj types.Object
	for _, f := range fi.Decl.Type.Params.List {
		for _, n := range f.Names {
			if o := info.Defs[n]; o != nil && o.Type().String() == "[][]int" {
				paramObj = o
			}
		}
	}
	// A1 holds for the parameter list and for every list derived from it without touching its elements: local
	// aliases, sub-slices, and literals all of whose elements are non-empty literals (c18_a1.go)
	isA1List := c18A1Lists(info, fi.Decl.Body, paramObj)
	// non-negative variables: every assignment is `= e`/`:= e`/`+= e` with e >= 0, `++`, or a range key, where e >= 0 is
	// shown by: e is a constant >= 0; e is v + c with c >= 0 and v itself such a variable; or the guards in force at
	// the assignment imply v + c >= 0 (`if n > 0 { i += n - 1 }`).
	nonNegMemo := map[types.Object]int{} // 1 = being decided, 2 = yes, 3 = no
	var nonNeg func(o types.Object) bool
	nonNegExpr := func(o types.Object, at ast.Node, e ast.Expr) bool {
		if v, isConst := constInt(info, e); isConst {
			return v >= 0
		}
		if !isIntegerExpr(info, e) {
			return false
		}
		lf := c18Lin(info, e)
		if !lf.ok {
			return false
		}
		if len(lf.terms) == 0 {
			return lf.k >= 0
		}
		if len(lf.terms) != 1 {
			return false
		}
		for _, tm := range lf.terms {
			if tm.coef != 1 {
				return false
			}
			id, isId := unparen(tm.e).(*ast.Ident)
			if !isId {
				return false
			}
			vo, isVar := info.ObjectOf(id).(*types.Var)
			if !isVar || vo.IsField() || vo.Pkg() == nil || vo.Parent() == vo.Pkg().Scope() {
				return false
			}
			if lf.k >= 0 && (vo == o || nonNeg(vo)) {
				return true
			}
			if l, found := g.Locate(at); found {
				facts := c18Facts(g, l, g.Guards(l))
				if impliesLin(facts, Term{}, tm.t, lf.k) { // 0 - v <= k  <=>  v + k >= 0
					return true
				}
				// v - 1 >= 0 from v != 0 (guard in force: `if v == 0 { break }`) and v >= 0 (v is itself a
				// non-negative variable: all its definitions are constants >= 0 / non-negative forms)
				if lf.k == -1 && vo != o && c18ImpliesNonZero(facts, tm.t) && nonNeg(vo) {
					return true
				}
			}
		}
		return false
	}
	nonNeg = func(o types.Object) bool {
		if o == nil {
			return false
		}
		switch nonNegMemo[o] {
		case 1, 3:
			return false
		case 2:
			return true
		}
		nonNegMemo[o] = 1
		ok := true
		found := false
		ast.Inspect(fi.Decl.Body, func(n ast.Node) bool {
			switch t := n.(type) {
			case *ast.AssignStmt:
				for i, l := range t.Lhs {
					id, isId := unparen(l).(*ast.Ident)
					if !isId || info.ObjectOf(id) != o {
						if rootObj(info, l) == o {
							ok = false
						}
						continue
					}
					found = true
					if len(t.Rhs) != len(t.Lhs) {
						// a, n, ok := helper(...): n >= 0 when every return of the helper gives a constant >= 0 there
						if min, known := c18CallResultMin(c, info, t, i); !known || min < 0 || (t.Tok != token.ASSIGN && t.Tok != token.DEFINE) {
							ok = false
						}
						continue
					}
					switch t.Tok {
					case token.ASSIGN, token.DEFINE, token.ADD_ASSIGN:
						if !nonNegExpr(o, t, t.Rhs[i]) {
							if c18NonNegExtra == nil || !c18NonNegExtra(c, fi, t, t.Rhs[i]) {
								ok = false
							}
						}
					default:
						ok = false
					}
				}
			case *ast.ValueSpec:
				for i, nm := range t.Names {
					if info.Defs[nm] != o {
						continue
					}
					found = true
					if len(t.Values) == 0 {
						continue // zero value
					}
					if len(t.Values) != len(t.Names) || !nonNegExpr(o, t, t.Values[i]) {
						ok = false
					}
				}
			case *ast.IncDecStmt:
				if rootObj(info, t.X) == o {
					found = true
					if t.Tok != token.INC {
						ok = false
					}
				}
			case *ast.RangeStmt:
				if t.Value != nil && rootObj(info, t.Value) == o {
					ok = false
				}
				if t.Key != nil && rootObj(info, t.Key) == o {
					found = true
				}
			case *ast.UnaryExpr:
				if t.Op == token.AND && rootObj(info, t.X) == o {
					ok = false
				}
			}
			return true
		})
		if ok && found {
			nonNegMemo[o] = 2
			return true
		}
		nonNegMemo[o] = 3
		return false
	}
	// slices of the form X[t+k0:] anywhere in the function (their length facts bound X)
	var tails []*ast.SliceExpr
	ast.Inspect(fi.Decl.Body, func(n ast.Node) bool {
		if se, ok := n.(*ast.SliceExpr); ok && se.High == nil && se.Max == nil && se.Low != nil {
			tails = append(tails, se)
		}
		return true
	})
	// a local whose only definition is strings.Split(_, nonEmptyConst) has length >= 1
	splitLen1 := func(e ast.Expr) bool {
		id, ok := unparen(e).(*ast.Ident)
		if !ok {
			return false
		}
		o := info.ObjectOf(id)
		defs, good := 0, false
		ast.Inspect(fi.Decl.Body, func(n ast.Node) bool {
			switch t := n.(type) {
			case *ast.AssignStmt:
				for i, l := range t.Lhs {
					if lid, ok := unparen(l).(*ast.Ident); ok && info.ObjectOf(lid) == o {
						defs++
						if len(t.Rhs) == len(t.Lhs) {
							if call, ok := unparen(t.Rhs[i]).(*ast.CallExpr); ok {
								if fn := calleeOf(info, call); fn != nil && fullName(fn) == "strings.Split" && len(call.Args) == 2 {
									if s, ok := constString(info, call.Args[1]); ok && s != "" {
										good = true
									}
								}
							}
						}
					} else if rootObj(info, l) == o {
						defs += 2
					}
				}
			case *ast.RangeStmt:
				if (t.Key != nil && rootObj(info, t.Key) == o) || (t.Value != nil && rootObj(info, t.Value) == o) {
					defs += 2
				}
			case *ast.UnaryExpr:
				if t.Op == token.AND && rootObj(info, t.X) == o {
					defs += 2
				}
			}
			return true
		})
		return defs == 1 && good
	}

	// singleDef returns the right-hand side of the only assignment to a local variable (nil if it has several,
	// is a range variable, or has its address taken).
	singleDef := func(o types.Object) ast.Expr {
		var rhs ast.Expr
		defs := 0
		ast.Inspect(fi.Decl.Body, func(n ast.Node) bool {
			switch t := n.(type) {
			case *ast.AssignStmt:
				for i, l := range t.Lhs {
					if lid, ok := unparen(l).(*ast.Ident); ok && info.ObjectOf(lid) == o {
						defs++
						if len(t.Rhs) == len(t.Lhs) && (t.Tok == token.DEFINE || t.Tok == token.ASSIGN) {
							rhs = t.Rhs[i]
						} else {
							defs++
						}
					} else if rootObj(info, l) == o {
						defs += 2
					}
				}
			case *ast.ValueSpec:
				for i, nm := range t.Names {
					if info.Defs[nm] == o {
						defs++
						if i < len(t.Values) && len(t.Values) == len(t.Names) {
							rhs = t.Values[i]
						} else {
							defs++
						}
					}
				}
			case *ast.RangeStmt:
				if (t.Key != nil && rootObj(info, t.Key) == o) || (t.Value != nil && rootObj(info, t.Value) == o) {
					defs += 2
				}
			case *ast.IncDecStmt:
				if rootObj(info, t.X) == o {
					defs += 2
				}
			case *ast.UnaryExpr:
				if t.Op == token.AND && rootObj(info, t.X) == o {
					defs += 2
				}
			}
			return true
		})
		if defs == 1 {
			return rhs
		}
		return nil
	}
	// elemOfParam: e denotes one parameter (a []int) of the parsed parameter list, directly or through a
	// local that is defined once as such, or is the value variable of a range over the list.
	var elemOfParam func(e ast.Expr, depth int) bool
	elemOfParam = func(e ast.Expr, depth int) bool {
		if depth > 3 {
			return false
		}
		switch t := unparen(e).(type) {
		case *ast.IndexExpr:
			return info.TypeOf(t.X).String() == "[][]int" && isA1List(t.X)
		case *ast.Ident:
			o := info.ObjectOf(t)
			if o == nil || o == paramObj {
				return false
			}
			if rhs := singleDef(o); rhs != nil {
				return elemOfParam(rhs, depth+1)
			}
			// range value variable over the list (never otherwise assigned)
			isRangeVal, other := false, false
			ast.Inspect(fi.Decl.Body, func(n ast.Node) bool {
				switch r := n.(type) {
				case *ast.RangeStmt:
					if id, ok := r.Value.(*ast.Ident); ok && info.ObjectOf(id) == o && r.Tok == token.DEFINE {
						if info.TypeOf(r.X).String() == "[][]int" && isA1List(r.X) {
							isRangeVal = true
						} else {
							other = true
						}
					}
				case *ast.AssignStmt:
					for _, l := range r.Lhs {
						if rootObj(info, l) == o {
							other = true
						}
					}
				}
				return true
			})
			return isRangeVal && !other
		}
		return false
	}

	hits := g.Find(func(n ast.Node) bool {
		switch t := n.(type) {
		case *ast.IndexExpr:
			tv, ok := info.Types[t.X]
			return ok && tv.IsValue()
		case *ast.SliceExpr:
			return true
		}
		return false
	})
	done := map[ast.Node]bool{}
	guardCache := map[*cfg.Block][]Guard{}
	for _, h := range hits {
		if done[h.Node] {
			continue
		}
		done[h.Node] = true
		var X, idx ast.Expr
		isSlice := false
		switch t := h.Node.(type) {
		case *ast.IndexExpr:
			X, idx = t.X, t.Index
		case *ast.SliceExpr:
			X, idx, isSlice = t.X, t.Low, true
			if t.High != nil || t.Max != nil || t.Low == nil {
				if t.High == nil && t.Low == nil {
					continue // x[:] cannot fail
				}
				c.undecided("C18.e", fi.Name+"/"+types.ExprString(t), t.Pos(), "slice expression with an upper bound: not analysed")
				continue
			}
		}
		staticLen := int64(-1) // length of X when it is fixed by the program text (arrays, constant tables)
		switch u := info.TypeOf(X).Underlying().(type) {
		case *types.Map:
			continue
		case *types.Slice:
		case *types.Array:
			staticLen = u.Len()
		case *types.Basic:
			if u.Info()&types.IsString == 0 {
				continue
			}
		default:
			if pt, isPtr := u.(*types.Pointer); isPtr {
				if arr, isArr := pt.Elem().Underlying().(*types.Array); isArr {
					// p[i] on a pointer to an array: the length is that of the array (a nil pointer is not a bounds question)
					staticLen = arr.Len()
					break
				}
			}
			c.undecided("C18.e", fi.Name+"/"+types.ExprString(h.Node.(ast.Expr)), h.Node.Pos(), "index of a %s: not analysed", info.TypeOf(X))
			continue
		}
		guards, cached := guardCache[h.Loc.B]
		if !cached {
			guards = g.Guards(h.Loc) // depends on the block only
			guardCache[h.Loc.B] = guards
		}
		var ctx []string
		seenKey := map[string]bool{}
		for _, gd := range guards {
			for _, gk := range condKeys(info, gd.Cond, gd.Pol) {
				if (strings.Contains(gk, "==") || strings.Contains(gk, "∈")) && !seenKey[gk] {
					seenKey[gk] = true
					ctx = append(ctx, gk)
				}
			}
		}
		sort.Strings(ctx)
		key := fi.Name + "/" + types.ExprString(h.Node.(ast.Expr))
		if len(ctx) > 0 {
			key += " when " + strings.Join(ctx, " ")
		}
		// X[a:][b] is X[a+b] (the slice expression X[a:] is an obligation of its own)
		origX := X
		lf := c18Lin(info, idx)
		for {
			se, isTail := unparen(X).(*ast.SliceExpr)
			if !isTail || se.High != nil || se.Max != nil {
				break
			}
			if _, isSl := info.TypeOf(se.X).Underlying().(*types.Slice); !isSl {
				break
			}
			if se.Low != nil {
				lf = c18LinAdd(lf, c18Lin(info, se.Low), 1)
			}
			X = se.X
		}
		if staticLen < 0 {
			staticLen = c18TableLen(c, fi, X, singleDef)
		}
		// lower bound
		var t Term
		k := lf.k
		facts := c18Facts(g, h.Loc, guards)
		lowOK := lf.ok && len(lf.terms) <= 1
		if len(lf.terms) == 0 {
			lowOK = lowOK && k >= 0
		}
		for _, tm := range lf.terms {
			t = tm.t
			if !lowOK || tm.coef != 1 {
				lowOK = false
				break
			}
			id, isId := unparen(tm.e).(*ast.Ident)
			switch {
			case k >= 0 && isId && nonNeg(info.ObjectOf(id)):
				// a non-negative variable plus a constant >= 0
			case k >= 0 && strings.HasPrefix(tm.t.ID, "len("):
				// a length plus a constant >= 0
			case impliesLin(facts, Term{}, tm.t, k):
				// 0 - t <= k: the guards in force give t + k >= 0 (`len(x) - 3` under `len(x) >= 5`)
			default:
				lowOK = false
			}
		}
		if !lowOK {
			c.undecided("C18.e", key, h.Node.Pos(), "cannot show the index %s is non-negative", types.ExprString(idx))
			continue
		}
		need := k + 1 // len(X) - t >= need
		if isSlice {
			need = k
		}
		xt := termOf(info, X)
		lx := Term{ID: "len(" + xt.ID + ")"}
		why := ""
		if staticLen >= 0 {
			// len(X) == staticLen: need t + need <= staticLen, i.e. a constant index below the length, or a guard
			// in force that bounds t from above (the hull of a multi-value case, `if p < 30`, ...)
			if bound := staticLen - need; (t.ID == "" && bound >= 0) || (t.ID != "" && impliesLin(facts, t, Term{}, bound)) {
				why = fmt.Sprintf("len(%s) is fixed at %d and the guards in force bound the index", types.ExprString(X), staticLen)
			}
		}
		switch {
		case why != "":
		case need <= 0 && t.ID == "":
			why = "constant bound"
		case need <= 0 && t.ID == lx.ID:
			why = "index counted back from len(" + xt.Disp + ")"
		case impliesLin(facts, t, lx, -need):
			why = "dominating guard on len(" + xt.Disp + ")"
		}
		if why == "" {
			// len(X[t+k0:]) >= N  =>  len(X) - t >= N + k0
			for _, se := range tails {
				if termOf(info, se.X).ID != xt.ID {
					continue
				}
				t0, k0 := linForm(info, se.Low)
				if t0.ID != t.ID {
					continue
				}
				ls := Term{ID: "len(expr:" + types.ExprString(se) + ")"}
				for _, f := range facts {
					if f.Kind == "lin" && f.A.ID == "" && f.B.ID == ls.ID && -f.K+k0 >= need {
						why = "dominating guard on len(" + types.ExprString(se) + ")"
					}
				}
			}
		}
		if why == "" && need == 1 && t.ID == "" && splitLen1(X) {
			why = "strings.Split with a non-empty separator returns at least one element"
		}
		if why == "" && need == 1 && t.ID == "" && info.TypeOf(X).String() == "[]int" && elemOfParam(X, 0) {
			why = "assumption A1 (every parameter has at least one sub-parameter)"
		}
		if why != "" {
			c.ok("C18.e", key, h.Node.Pos(), "in bounds: %s", why)
		} else {
			c.bad("C18.e", key, h.Node.Pos(), "no dominating guard establishes len(%s) > %s; facts in force: %s", types.ExprString(origX), types.ExprString(idx), atomsString(facts))
		}
	}
}

// c18LinForm: a linear form  sum coef*term + k  over access-path terms (facts.go), with
// len(X[a:]) = len(X) - a  (valid wherever X[a:] itself does not panic, which is an obligation of its own).
type c18LinTerm struct {
	t    Term
	coef int64
	e    ast.Expr
}

type c18LinForm struct {
	terms map[string]*c18LinTerm
	k     int64
	ok    bool
}

func c18LinAdd(a, b c18LinForm, sign int64) c18LinForm {
	out := c18LinForm{terms: map[string]*c18LinTerm{}, k: a.k + sign*b.k, ok: a.ok && b.ok}
	for id, tm := range a.terms {
		cp := *tm
		out.terms[id] = &cp
	}
	for id, tm := range b.terms {
		if have := out.terms[id]; have != nil {
			have.coef += sign * tm.coef
			if have.coef == 0 {
				delete(out.terms, id)
			}
		} else {
			cp := *tm
			cp.coef *= sign
			out.terms[id] = &cp
		}
	}
	return out
}

func c18Lin(info *types.Info, e ast.Expr) c18LinForm {
	e = unparen(e)
	if v, ok := constInt(info, e); ok {
		return c18LinForm{terms: map[string]*c18LinTerm{}, k: v, ok: true}
	}
	switch t := e.(type) {
	case *ast.BinaryExpr:
		if (t.Op == token.ADD || t.Op == token.SUB) && isIntegerExpr(info, t.X) && isIntegerExpr(info, t.Y) {
			sign := int64(1)
			if t.Op == token.SUB {
				sign = -1
			}
			return c18LinAdd(c18Lin(info, t.X), c18Lin(info, t.Y), sign)
		}
	case *ast.CallExpr:
		if id, ok := t.Fun.(*ast.Ident); ok && len(t.Args) == 1 {
			if b, isB := info.Uses[id].(*types.Builtin); isB && b.Name() == "len" {
				if se, ok := unparen(t.Args[0]).(*ast.SliceExpr); ok && se.High == nil && se.Max == nil {
					if _, isSl := info.TypeOf(se.X).Underlying().(*types.Slice); isSl {
						inner := c18Lin(info, &ast.CallExpr{Fun: t.Fun, Args: []ast.Expr{se.X}})
						if se.Low == nil {
							return inner
						}
						return c18LinAdd(inner, c18Lin(info, se.Low), -1)
					}
				}
			}
		}
	}
	tm := termOf(info, e)
	return c18LinForm{terms: map[string]*c18LinTerm{tm.ID: {t: tm, coef: 1, e: e}}, ok: tm.ID != ""}
}

// c18LinAtoms: the difference atoms (A - B <= K) of a guard whose sides are general linear forms
// (`len(params)-i < 3`, `len(params[i:]) < 3`, `i+3 > len(params)`), which condAtoms (one term per side) does not see.
func c18LinAtoms(info *types.Info, c *Cond, pol bool) []Atom {
	if c.Alts != nil {
		// `case 5, 6:` of a tagged switch: the tag lies between the least and the greatest alternative
		if c.Tag == nil || !pol || !isIntegerExpr(info, c.Tag) {
			return nil
		}
		var minE, maxE ast.Expr
		var minV, maxV int64
		for _, a := range c.Alts {
			v, isConst := constInt(info, a)
			if !isConst {
				return nil
			}
			if minE == nil || v < minV {
				minE, minV = a, v
			}
			if maxE == nil || v > maxV {
				maxE, maxV = a, v
			}
		}
		if minE == nil {
			return nil
		}
		out := append(c18CmpLin(info, c.Tag, token.GEQ, minE, true), c18CmpLin(info, c.Tag, token.LEQ, maxE, true)...)
		return out
	}
	if c.Tag != nil {
		return c18CmpLin(info, c.Tag, token.EQL, c.Expr, pol)
	}
	return c18ExprLin(info, c.Expr, pol)
}

func c18ExprLin(info *types.Info, e ast.Expr, pol bool) []Atom {
	e = unparen(e)
	switch t := e.(type) {
	case *ast.UnaryExpr:
		if t.Op == token.NOT {
			return c18ExprLin(info, t.X, !pol)
		}
	case *ast.BinaryExpr:
		switch t.Op {
		case token.LAND:
			if pol {
				return append(c18ExprLin(info, t.X, true), c18ExprLin(info, t.Y, true)...)
			}
		case token.LOR:
			if !pol {
				return append(c18ExprLin(info, t.X, false), c18ExprLin(info, t.Y, false)...)
			}
		case token.EQL, token.NEQ, token.LSS, token.LEQ, token.GTR, token.GEQ:
			return c18CmpLin(info, t.X, t.Op, t.Y, pol)
		}
	}
	return nil
}

func c18CmpLin(info *types.Info, x ast.Expr, op token.Token, y ast.Expr, pol bool) []Atom {
	if !isIntegerExpr(info, x) || !isIntegerExpr(info, y) {
		return nil
	}
	if !pol {
		op = negOp(op)
	}
	// only forms condAtoms does not already decompose: a side with two terms or a len of a tail slice
	d := c18LinAdd(c18Lin(info, x), c18Lin(info, y), -1) // x - y = d.terms + d.k
	if !d.ok || len(d.terms) > 2 {
		return nil
	}
	var pos, neg Term
	np, nn := 0, 0
	for _, tm := range d.terms {
		switch tm.coef {
		case 1:
			pos = tm.t
			np++
		case -1:
			neg = tm.t
			nn++
		default:
			return nil
		}
	}
	if np > 1 || nn > 1 {
		return nil
	}
	// pos - neg + k OP 0
	k := d.k
	switch op {
	case token.LSS: // pos - neg <= -k-1
		return []Atom{{Kind: "lin", A: pos, B: neg, K: -k - 1}}
	case token.LEQ:
		return []Atom{{Kind: "lin", A: pos, B: neg, K: -k}}
	case token.GTR: // neg - pos <= k-1
		return []Atom{{Kind: "lin", A: neg, B: pos, K: k - 1}}
	case token.GEQ:
		return []Atom{{Kind: "lin", A: neg, B: pos, K: k}}
	case token.EQL:
		return []Atom{{Kind: "lin", A: pos, B: neg, K: -k}, {Kind: "lin", A: neg, B: pos, K: k}}
	}
	return nil
}

// c18StripAdd removes `+ const` / `- const` wrappers: i+2 -> i.
func c18StripAdd(e ast.Expr) ast.Expr {
	for {
		e = unparen(e)
		b, ok := e.(*ast.BinaryExpr)
		if !ok || (b.Op != token.ADD && b.Op != token.SUB) {
			return e
		}
		if _, isConst := b.Y.(*ast.BasicLit); isConst {
			e = b.X
			continue
		}
		if _, isConst := b.X.(*ast.BasicLit); isConst && b.Op == token.ADD {
			e = b.Y
			continue
		}
		return e
	}
}

// ======================================================================

func c18Prof() func() {
	if p := os.Getenv("C18_PROF"); p != "" {
		f, _ := os.Create(p)
		pprof.StartCPUProfile(f)
		return func() { pprof.StopCPUProfile(); f.Close() }
	}
	return func() {}
}

// c18ImpliesNonZero: do the atoms in force contain t != 0 ?
func c18ImpliesNonZero(known []Atom, t Term) bool {
	if t.ID == "" {
		return false
	}
	for _, f := range known {
		if f.Kind == "ne" && f.K == 0 && ((f.A.ID == t.ID && f.B.ID == "") || (f.B.ID == t.ID && f.A.ID == "")) {
			return true
		}
	}
	return false
}

// c18CallResultMin: stmt is `x0, x1, .. = f(..)` with f a repository function whose every return statement lists its
// results and gives an integer constant for result idx; returns the least of these constants.
func c18CallResultMin(c *Ctx, info *types.Info, stmt *ast.AssignStmt, idx int) (int64, bool) {
	if len(stmt.Rhs) != 1 {
		return 0, false
	}
	call, ok := unparen(stmt.Rhs[0]).(*ast.CallExpr)
	if !ok {
		return 0, false
	}
	fn := calleeOf(info, call)
	if fn == nil {
		return 0, false
	}
	cf := c.P.FuncOfObj(fn)
	sig, _ := fn.Type().(*types.Signature)
	if cf == nil || cf.Decl.Body == nil || sig == nil || idx >= sig.Results().Len() || sig.Results().Len() != len(stmt.Lhs) {
		return 0, false
	}
	var min int64
	n, good := 0, true
	inspectNoLit(cf.Decl.Body, func(m ast.Node) bool {
		rs, ok := m.(*ast.ReturnStmt)
		if !ok {
			return true
		}
		if len(rs.Results) != sig.Results().Len() {
			good = false // bare return of named results, or a forwarded call
			return true
		}
		cv, isConst := constInt(cf.Pkg.TypesInfo, rs.Results[idx])
		if !isConst {
			good = false
			return true
		}
		if n == 0 || cv < min {
			min = cv
		}
		n++
		return true
	})
	if !good || n == 0 {
		return 0, false
	}
	return min, true
}
