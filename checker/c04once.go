package main

// C04 — the once-guard of the exit sequence.
//
// Suspend may begin with "already suspended? then there is nothing to undo": an early return under a flag F.
// That early return is no hole in the exit path when F is a ONCE-GUARD of the exit sequence:
//
//   (a) the guard is a test-and-set of F in Suspend itself: evaluated with F unset it continues and leaves F set
//       (atomic.CompareAndSwap, or a plain test followed by the store before anything else happens); evaluated
//       with F set it returns without doing anything (no call into the package, nothing written);
//   (b) nothing else sets F, and F is cleared only in Resume, after the tty was reopened (openTty precedes the
//       clear) and together with the re-establishment of the modes (enableModes follows on every path, or
//       precedes): F set therefore means "restored, and not resumed since".
//
// Then the obligations of C04.a / C04.b apply to the paths that latch F — "every path through Suspend" starts at
// the latch — the guard is not a capability condition of the restoring sequences (C04.a, C04.l) and F is not
// "state a pairing guard reads" (C04.h). Whether every history really runs the sequence exactly once is decided
// by C04.m (a guard that is never cleared, cleared by Suspend itself, or tested the wrong way round fails there
// as well as here). A guard that has the shape but fails (a) or (b) is reported, and nothing is relaxed.

import (
	"fmt"
	"go/ast"
	"go/types"
	"sort"

	"golang.org/x/tools/go/cfg"
)

type c04Once struct {
	flag  string
	pos   tokenPos
	valid bool
	why   string     // valid: how it was recognised; invalid: what fails
	keys  []string   // guard atoms of the continuing edge (as guardKeys prints them)
	start Loc        // "after this location" is the start of the latched paths (MustFollow convention)
	block *cfg.Block // the branch
}

var c04OnceCache = map[*Program]*c04Once{}

// c04OnceGuard returns the once-guard candidate of Suspend (nil: Suspend has no early return under a flag).
func c04OnceGuard(c *Ctx) *c04Once {
	if o, ok := c04OnceCache[c.P]; ok {
		return o
	}
	o := c04FindOnce(c)
	c04OnceCache[c.P] = o
	return o
}

func c04FindOnce(c *Ctx) *c04Once {
	suspend := c.P.Func("vaxis.(*Vaxis).Suspend")
	resume := c.P.Func("vaxis.(*Vaxis).Resume")
	pk := c.P.Pkg("vaxis")
	if suspend == nil || resume == nil || pk == nil {
		return nil
	}
	g := c.P.Graph(suspend)
	if g == nil {
		return nil
	}
	info := pk.TypesInfo
	// a node that does something: a call into the repository, a write to the terminal, a send, a go statement
	doesSomething := func(n ast.Node) bool {
		found := false
		inspectNoLit(n, func(m ast.Node) bool {
			switch t := m.(type) {
			case *ast.CallExpr:
				if c04FlagOpOf(c.P, info, t) != nil {
					return false
				}
				if fn := calleeOf(info, t); fn != nil {
					if fi := c.P.FuncOfObj(fn); fi != nil {
						found = true
					}
					if _, _, _, ok := vaxisTerminalSink(pk, t, fn); ok {
						found = true
					}
				} else if _, isConv := info.Types[t.Fun]; !isConv || !info.Types[t.Fun].IsType() {
					if id, ok := unparen(t.Fun).(*ast.Ident); !ok || info.Uses[id] == nil || info.Uses[id].Pkg() != nil {
						found = true // a dynamic call
					}
				}
			case *ast.SendStmt, *ast.GoStmt:
				found = true
			case *ast.AssignStmt:
				for _, l := range t.Lhs {
					if lhsPath(info, l) != "" {
						found = true
					}
				}
			}
			return !found
		})
		return found
	}
	for _, b := range g.Blocks {
		cd := g.BranchCond(b)
		if cd == nil || cd.Tag != nil || cd.Alts != nil || len(b.Succs) != 2 {
			continue
		}
		// the flags the condition reads
		reads := map[string]bool{}
		c04kBoolReads(c.P, info, cd.Expr, 0, reads)
		if len(reads) != 1 {
			continue
		}
		flag := ""
		for r := range reads {
			flag = r
		}
		flow := &c04Flow{p: c.P, g: g, fields: map[string]bool{flag: true}, refine: true}
		v0, k0 := flow.eval(info, cd.Expr, c04Env{flag: false}, 0)
		v1, k1 := flow.eval(info, cd.Expr, c04Env{flag: true}, 0)
		if !k0 || !k1 || v0 == v1 {
			continue
		}
		edge := func(v bool) *cfg.Block {
			if v {
				return b.Succs[0]
			}
			return b.Succs[1]
		}
		// one of the two edges returns without doing anything
		idle := func(from *cfg.Block) bool {
			ok, exits := true, 0
			g.walk(Loc{from, 0}, func(l Loc, n ast.Node) bool {
				if doesSomething(n) {
					ok = false
				}
				return ok
			}, func(*cfg.Block) { exits++ })
			return ok && exits > 0
		}
		// nothing happens in Suspend before the guard
		quietBefore := true
		for _, pb := range g.Blocks {
			for i, n := range pb.Nodes {
				if pb == b && i == len(pb.Nodes)-1 {
					continue
				}
				if doesSomething(n) && g.ReachesAvoiding(Loc{pb, i}, Loc{b, len(b.Nodes) - 1}, func(ast.Node) bool { return false }) {
					// (a node of the continuing region never reaches the guard again unless Suspend loops)
					quietBefore = false
				}
			}
		}
		idleSet, idleUnset := idle(edge(v1)), idle(edge(v0))
		if !idleSet && !idleUnset {
			continue // not an early return
		}
		o := &c04Once{flag: flag, pos: cd.Expr.Pos(), block: b}
		fail := func(format string, args ...any) *c04Once {
			o.valid, o.why = false, fmt.Sprintf(format, args...)
			return o
		}
		if !idleSet {
			return fail("Suspend returns early when %s is NOT set and runs the exit sequence when it is set: the first Suspend restores nothing", flag)
		}
		if idleUnset {
			continue // both edges idle: not a guard of anything
		}
		if !quietBefore {
			return fail("a part of the exit sequence runs before the test of %s: it runs again on every later Suspend/Close", flag)
		}
		cont := edge(v0)
		o.keys = condKeys(info, cd, v0)
		// (a) the continuing edge leaves F set before anything happens
		post := flow.assume(info, cd.Expr, v0, c04Env{flag: false}, 0)
		if post[flag] {
			o.start = Loc{cont, -1}
			o.why = "test-and-set of " + flag
		} else {
			var latch *Loc
			bad := false
			g.walk(Loc{cont, 0}, func(l Loc, n ast.Node) bool {
				if latch != nil || bad {
					return false
				}
				env := flow.transfer(info, n, c04Env{flag: false}, nil)
				if env[flag] {
					ll := l
					latch = &ll
					return false
				}
				if doesSomething(n) {
					bad = true
				}
				return !bad
			}, nil)
			if latch == nil || bad {
				return fail("the path that continues past the test of %s does not set it before the exit sequence begins: a second Suspend/Close runs the sequence again", flag)
			}
			// the store must be on every continuing path
			if okAll, _ := g.MustFollow(Loc{cont, -1}, func(n ast.Node) bool {
				return flow.transfer(info, n, c04Env{flag: false}, nil)[flag]
			}); !okAll {
				return fail("some path past the test of %s does not set it", flag)
			}
			o.start = *latch
			o.why = "test of " + flag + " followed by the store that sets it"
		}
		// (b) the other writers
		isOpenTty := func(n ast.Node) bool { return isCallTo(info, n, "vaxis.Vaxis.openTty") }
		isEnable := func(n ast.Node) bool { return isCallTo(info, n, "vaxis.Vaxis.enableModes") }
		clears := 0
		var problems []string
		for _, fi := range c.P.FuncsIn("vaxis") {
			if fi.Decl.Body == nil {
				continue
			}
			fg := c.P.Graph(fi)
			inGuard := func(n ast.Node) bool {
				if fi != suspend {
					return false
				}
				if containsNode(cd.Expr, func(x ast.Node) bool { return x == n }) {
					return true
				}
				if l, ok := g.Locate(n); ok && o.start.Idx >= 0 && l.B == o.start.B && l.Idx == o.start.Idx {
					return true
				}
				return false
			}
			handled := map[ast.Node]bool{}
			var stack []ast.Node
			ast.Inspect(fi.Decl.Body, func(n ast.Node) bool {
				if n == nil {
					stack = stack[:len(stack)-1]
					return true
				}
				stack = append(stack, n)
				lits := 0
				for _, a := range stack {
					if _, ok := a.(*ast.FuncLit); ok {
						lits++
					}
				}
				note := func(node ast.Node, val bool, known bool, what string) {
					switch {
					case inGuard(node):
					case !known:
						problems = append(problems, fmt.Sprintf("%s %s with a value the rule cannot follow", fi.Name, what))
					case val:
						problems = append(problems, fmt.Sprintf("%s sets it outside the guard", fi.Name))
					case fi != resume || lits > 0:
						problems = append(problems, fmt.Sprintf("%s clears it (only Resume may: set means restored and not resumed since)", fi.Name))
					default:
						loc, ok := fg.Locate(node)
						switch {
						case !ok:
							problems = append(problems, "the clear in Resume could not be located")
						case !fg.MustPrecede(isOpenTty, loc):
							problems = append(problems, "Resume clears it before the tty is reopened")
						default:
							follows, _ := fg.MustFollow(loc, isEnable)
							if !follows && !fg.MustPrecede(isEnable, loc) {
								problems = append(problems, "Resume clears it on a path that does not re-establish the modes")
							} else {
								clears++
							}
						}
					}
				}
				switch t := n.(type) {
				case *ast.CallExpr:
					if op := c04FlagOpOf(c.P, info, t); op != nil && op.path == flag {
						handled[op.target] = true
						switch op.kind {
						case "store", "swap":
							v, k := c04ConstFlag(info, op.val)
							note(t, v, k, "stores it")
						case "cas":
							v, k := c04ConstFlag(info, op.val)
							note(t, v, k, "swaps it")
						}
					}
				case *ast.AssignStmt:
					for i, l := range t.Lhs {
						if lhsPath(info, l) == flag {
							var v, k bool
							if len(t.Rhs) == len(t.Lhs) {
								v, k = c04ConstFlag(info, t.Rhs[i])
							}
							note(t, v, k, "assigns it")
						}
					}
				case *ast.IncDecStmt:
					if lhsPath(info, t.X) == flag {
						note(t, false, false, "counts it")
					}
				case *ast.UnaryExpr:
					if t.Op.String() == "&" && lhsPath(info, t.X) == flag && !handled[unparen(t.X)] {
						// the operand of an atomic operation is visited after the call: handled then
						if len(stack) >= 2 {
							if call, ok := stack[len(stack)-2].(*ast.CallExpr); ok {
								if op := c04FlagOpOf(c.P, info, call); op != nil && op.path == flag {
									return true
								}
							}
						}
						note(t, false, false, "takes its address")
					}
				}
				return true
			})
		}
		if clears == 0 && len(problems) == 0 {
			problems = append(problems, "nothing clears it: after the first cycle every Suspend returns early with the modes set")
		}
		if len(problems) > 0 {
			sort.Strings(problems)
			uniq := problems[:0]
			for i, p := range problems {
				if i == 0 || p != problems[i-1] {
					uniq = append(uniq, p)
				}
			}
			msg := uniq[0]
			for _, p := range uniq[1:] {
				msg += "; " + p
			}
			return fail("%s guards the exit sequence of Suspend, but %s", flag, msg)
		}
		o.valid = true
		return o
	}
	return nil
}

// c04OnceKeys: the guard atoms that a valid once-guard contributes to the emissions of Suspend.
func c04OnceKeys(c *Ctx, em *Emission) map[string]bool {
	o := c04OnceGuard(c)
	if o == nil || !o.valid || em == nil || em.FnName != "vaxis.(*Vaxis).Suspend" {
		return nil
	}
	m := map[string]bool{}
	for _, k := range o.keys {
		m[k] = true
	}
	return m
}

var _ = types.ExprString
