// C18 evaluator: map values (round 3 of the robustness work).
//
// A Go map is modelled as an insertion-ordered association list with reference semantics (like the real thing: copying the
// map value shares the entries). Keys are compared with c18Equal (Go's == on the modelled values); a key comparison the
// evaluator cannot decide aborts the evaluation (UNDECIDED), it never guesses. What is modelled:
//
//	map[K]V{k1: v1, ...}     composite literal (keys are evaluated like any expression; duplicate constant keys do not compile)
//	m[k]                     the stored value, or the zero value of V for a missing key or a nil map
//	v, ok := m[k]            comma-ok form (also "v, ok = m[k]" and "var v, ok = m[k]")
//	m[k] = v, m[k] op= v     insert or overwrite; a nil map panics as in Go
//	len(m), delete(m, k), make(map[K]V[, n]), m == nil
//	for k, v := range m      only for maps with at most one entry: Go's iteration order is unspecified, so any longer
//	                         iteration is not decided (abort) rather than evaluated in an order the program cannot rely on
package main

import (
	"go/ast"
	"go/types"

	"golang.org/x/tools/go/packages"
)

type c18MapV struct {
	elem types.Type
	keys []c18Val
	vals []*c18Val
}

func c18NewMap(t *types.Map) c18Val {
	return c18Val{k: c18Map, ref: &c18MapV{elem: t.Elem()}}
}

func (v c18Val) mp() *c18MapV { p, _ := v.ref.(*c18MapV); return p }

// c18MapTypeOf: the map type of expression e (nil when e is not of a map type).
func c18MapTypeOf(info *types.Info, e ast.Expr) *types.Map {
	t := info.TypeOf(e)
	if t == nil {
		return nil
	}
	mt, _ := t.Underlying().(*types.Map)
	return mt
}

// find returns the position of key in the map (-1 when absent). A comparison that cannot be decided aborts.
func (m *c18Machine) mapFind(mv *c18MapV, key c18Val, what string) int {
	for i := range mv.keys {
		eq, ok := c18Equal(mv.keys[i], key)
		if !ok {
			m.abort("map key comparison the evaluator cannot decide in %s", what)
		}
		if eq {
			return i
		}
	}
	return -1
}

// mapKeyOK: the key is a value the evaluator can compare (scalars, and structs/arrays of them).
func c18MapKeyDecided(k c18Val) bool {
	switch k.k {
	case c18Int, c18Bool, c18Str, c18Ptr, c18Struct, c18Array:
		return true
	}
	return false
}

// mapIndex evaluates x[key] for a map-typed x: (value, present, decided).
func (m *c18Machine) mapIndex(fr *c18Frame, e *ast.IndexExpr, mt *types.Map) (c18Val, bool, bool) {
	x := m.eval(fr, e.X)
	key := m.eval(fr, e.Index)
	if x.k == c18Unknown || key.k == c18Unknown {
		return c18Val{}, false, false
	}
	if !c18MapKeyDecided(key) {
		m.abort("map index with a key the evaluator does not model: %s", types.ExprString(e))
	}
	switch x.k {
	case c18Nil:
		return c18Zero(mt.Elem()), false, true
	case c18Map:
		mv := x.mp()
		if i := m.mapFind(mv, key, types.ExprString(e)); i >= 0 {
			return *mv.vals[i], true, true
		}
		return c18Zero(mt.Elem()), false, true
	}
	m.abort("index of a non-map value %s", types.ExprString(e))
	return c18Val{}, false, false
}

// mapCommaOk evaluates the right-hand side of "v, ok := m[k]" as a 2-tuple; ok=false when rhs is not that form.
func (m *c18Machine) mapCommaOk(fr *c18Frame, rhs ast.Expr) (c18Val, bool) {
	ix, ok := unparen(rhs).(*ast.IndexExpr)
	if !ok {
		return c18Val{}, false
	}
	mt := c18MapTypeOf(fr.info, ix.X)
	if mt == nil {
		return c18Val{}, false
	}
	v, present, decided := m.mapIndex(fr, ix, mt)
	if !decided {
		return c18Val{}, true // unknown: the caller binds unknown values to both variables
	}
	return c18Val{k: c18Tuple, ref: []c18Val{c18Copy(v), c18BoolV(present)}}, true
}

// mapSlot returns the storage of x[key], inserting a zero entry for a missing key (the caller stores into it).
func (m *c18Machine) mapSlot(fr *c18Frame, e *ast.IndexExpr, mt *types.Map) *c18Val {
	x := m.eval(fr, e.X)
	key := m.eval(fr, e.Index)
	if x.k == c18Nil {
		m.gopanic("assignment to entry in nil map in %s", types.ExprString(e))
	}
	if x.k != c18Map {
		m.abort("store into a map the evaluator does not know: %s", types.ExprString(e))
	}
	if !c18MapKeyDecided(key) {
		m.abort("store at a map key the evaluator does not know: %s", types.ExprString(e))
	}
	mv := x.mp()
	if i := m.mapFind(mv, key, types.ExprString(e)); i >= 0 {
		return mv.vals[i]
	}
	z := c18Zero(mt.Elem())
	mv.keys = append(mv.keys, c18Copy(key))
	mv.vals = append(mv.vals, &z)
	return &z
}

func (m *c18Machine) mapDelete(fr *c18Frame, call *ast.CallExpr) {
	x := m.eval(fr, call.Args[0])
	key := m.eval(fr, call.Args[1])
	switch x.k {
	case c18Nil:
		return
	case c18Map:
	default:
		m.abort("delete from a map the evaluator does not know")
	}
	if !c18MapKeyDecided(key) {
		m.abort("delete of a map key the evaluator does not know")
	}
	mv := x.mp()
	if i := m.mapFind(mv, key, "delete"); i >= 0 {
		mv.keys = append(mv.keys[:i:i], mv.keys[i+1:]...)
		mv.vals = append(mv.vals[:i:i], mv.vals[i+1:]...)
	}
}

// mapLiteral evaluates map[K]V{...}.
func (m *c18Machine) mapLiteral(fr *c18Frame, e *ast.CompositeLit, t types.Type, mt *types.Map) c18Val {
	out := c18NewMap(mt)
	mv := out.mp()
	elt := func(x ast.Expr, et types.Type) c18Val {
		if cl, ok := x.(*ast.CompositeLit); ok && cl.Type == nil {
			// elided type ({...} for T, or for *T meaning &T{...})
			if pt, isPtr := et.Underlying().(*types.Pointer); isPtr {
				inner := m.compositeOf(fr, cl, pt.Elem())
				return c18PtrV(&inner)
			}
			return m.compositeOf(fr, cl, et)
		}
		return c18Copy(m.eval(fr, x))
	}
	for _, el := range e.Elts {
		kv, ok := el.(*ast.KeyValueExpr)
		if !ok {
			m.abort("map literal element without a key")
		}
		key := elt(kv.Key, mt.Key())
		if !c18MapKeyDecided(key) {
			m.abort("map literal of %s with a key the evaluator cannot decide: %s", t, types.ExprString(kv.Key))
		}
		val := elt(kv.Value, mt.Elem())
		if i := m.mapFind(mv, key, "map literal"); i >= 0 {
			// two non-constant keys that are equal at run time: the later element wins (constant duplicates do not compile)
			mv.vals[i] = &val
			continue
		}
		mv.keys = append(mv.keys, key)
		mv.vals = append(mv.vals, &val)
	}
	return out
}

// runInits: a package-level variable that an init() function of its package mentions (a table filled in init()) gets its
// value from the declaration and then from those init() bodies, in source order, when it is first used. An init() the
// evaluator cannot run leaves the variable poisoned: every use aborts (UNDECIDED) instead of reading a half-built table.
func (m *c18Machine) runInits(pk *packages.Package, obj types.Object) {
	info := pk.TypesInfo
	for _, f := range pk.Syntax {
		for _, d := range f.Decls {
			fd, ok := d.(*ast.FuncDecl)
			if !ok || fd.Recv != nil || fd.Name.Name != "init" || fd.Body == nil {
				continue
			}
			mentions := false
			ast.Inspect(fd.Body, func(n ast.Node) bool {
				if id, ok := n.(*ast.Ident); ok && info.Uses[id] == obj {
					mentions = true
				}
				return !mentions
			})
			if !mentions {
				continue
			}
			sig, _ := info.Defs[fd.Name].Type().(*types.Signature)
			if sig == nil {
				m.abort("init() of %s without a signature", pk.PkgPath)
			}
			if m.globalBad == nil {
				m.globalBad = map[types.Object]string{}
			}
			what := "package-level variable " + obj.Name() + " is set up by an init() function"
			func() {
				tr, depth := m.trace, m.depth
				m.trace = false
				defer func() {
					m.trace, m.depth = tr, depth
					if r := recover(); r != nil {
						switch t := r.(type) {
						case c18AbortT:
							m.globalBad[obj] = what + " the evaluator could not run: " + t.msg
						case c18PanicT:
							m.globalBad[obj] = what + " that panics: " + t.msg
						}
						panic(r)
					}
				}()
				m.invoke(pk.PkgPath+".init", pk, nil, fd.Type, fd.Body, sig, nil, nil, nil, false)
			}()
		}
	}
}
