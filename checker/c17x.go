package main

// Additional C17 rules written after the fifth round of seeded regressions. Both are decided by the AST
// interpreter of c17.go (nothing of /repo is compiled or run); they extend the bounded domain of the semantic
// clauses by the two kinds of state the earlier domain did not contain.
//
//  C17.i  TextField, deletions that let the neighbours of the deleted grapheme join. Removing one grapheme does
//         not always lower the grapheme count by one: two regional indicators separated by a letter become one
//         flag, a combining mark separated from its base by a zero-width control joins the base. From such states
//         every binding of HandleEvent and every exported method that can be driven with string / integer
//         arguments must leave n == graphemes(Value) and 0 <= cursor <= n, and a deletion must leave exactly the
//         text without the addressed grapheme. (An incrementally maintained count, n -= 1, is right on ASCII
//         and wrong here; End / Right / the deletion guards then use a count that is one too large.)
//
//  C17.j  textinput.Model.Draw after the line was scrolled. The horizontal scroll position is state kept
//         between two Draw calls; the property speaks about every history, so Draw has to give the right picture
//         from whatever scroll position an earlier frame left behind. The rule interprets two-frame histories:
//         frame 1 draws a long line in the same window (the view scrolls), then content and cursor are replaced
//         (what SetContent, Ctrl+u, Ctrl+w, Ctrl+k do) by a text that fits the window with the scroll margin,
//         frame 2 draws it. Frame 2 must return and
//           (1) show the cursor with its left context: the drawn cursor column lies between prompt + width of
//               the min(cursor, scrolloff) graphemes before the cursor and prompt + width of all the text before
//               the cursor (the scroll-back towards the start of the line is applied on every Draw);
//           (2) show the cursor exactly at prompt + width of the text before the cursor (the clause of the
//               property itself: the text fits, so nothing may be scrolled out).
//         (1) is implied by (2); it is kept as an obligation of its own because it is the part that names the
//         scroll-back bookkeeping, and it does not depend on how a stale offset is finally resolved.
//         The histories are built by interpreting Draw itself, not by writing the offset field: the rule does
//         not depend on how the scroll position is represented.

import (
	"fmt"
	"go/token"
	"go/types"
	"strings"
)

func init() {
	registerExtra("C17", c17JoinOnDelete)
	registerExtra("C17", c17DrawAfterScroll)
}

// c17ExtraMachine builds an interpreter with the library models of c17.go.
func c17ExtraMachine(c *Ctx) (*c17M, *c17Types) {
	vx := c.P.Pkg("vaxis")
	if vx == nil {
		return nil, nil
	}
	ty := &c17Types{vx: vx, keyT: c17Named(vx, "Key"), charT: c17Named(vx, "Character"), windowT: c17Named(vx, "Window"), pasteEndT: c17Named(vx, "PasteEndEvent")}
	if ty.keyT == nil || ty.charT == nil {
		return nil, nil
	}
	kf, cf := c17FieldNames(ty.keyT), c17FieldNames(ty.charT)
	if !kf["Keycode"] || !kf["Modifiers"] || !kf["Text"] || !kf["EventType"] || !cf["Grapheme"] || !cf["Width"] {
		return nil, nil
	}
	m := c17NewMachine(c)
	m.installModels(ty)
	m.keys = c17NewKeys(m, ty)
	return m, ty
}

// c17JoinStates: texts in which one grapheme separates two code points that form ONE grapheme cluster once they
// are adjacent (within the alphabet the models of c17.go segment: regional-indicator pairs, U+0301 after a base,
// zero-width controls as clusters of their own).
var c17JoinStates = []string{
	"\U0001F1E9x\U0001F1EA",   // RI x RI -> delete x: one flag
	"a\U0001F1E9世\U0001F1EAb", // the same with context and a wide separator
	"e\u200b\u0301",           // base, ZWSP, combining mark (a cluster of its own behind a control) -> delete ZWSP: e + U+0301
	"xe\u00ad\u0301y",         // the same with context (soft hyphen)
}

func c17JoinOnDelete(c *Ctx) {
	const rule = "C17.i"
	const pkgName = "vxfw/textfield"
	c.Clauses = append(c.Clauses, "C17.i TextField (interpreted, states in which deleting one grapheme joins its neighbours into one cluster: regional indicators around a separator, a combining mark behind a zero-width control): every HandleEvent binding and every exported method leaves n == graphemes(Value) and the cursor within the text; a deletion leaves exactly the text without the addressed grapheme")
	// minima: the five deletion bindings + the other bindings + at least the three exported deletion methods are
	// driven by the reference table below, not by the shape of the code
	c.expect(rule, 6)
	m, ty := c17ExtraMachine(c)
	pk := c.P.Pkg(pkgName)
	tfT := c17Named(pk, "TextField")
	he := c.P.Func(pkgName + ".(*TextField).HandleEvent")
	fields := c17FieldNames(tfT)
	if m == nil || tfT == nil || he == nil || !fields["Value"] || !fields["cursor"] || !fields["n"] {
		c.undecided(rule, pkgName+".TextField", token.NoPos, "vaxis.Key / TextField, its fields Value/cursor/n or HandleEvent not found")
		return
	}
	newTF := func(val string, cur int) c17V {
		obj := m.zero(tfT, 0)
		*obj.st.f["Value"] = c17S(val)
		*obj.st.f["cursor"] = c17I(int64(cur))
		*obj.st.f["n"] = c17I(int64(len(c17Clusters(val))))
		return c17V{k: c17Ptr, ptr: &obj}
	}
	// inv: n coherent and the cursor within the text; wantText != nil: Value must be exactly that text
	inv := func(p c17V, wantText *string) string {
		o := p.ptr.st.f
		val, cur, n := o["Value"], o["cursor"], o["n"]
		if val.k != c17Str || cur.k != c17Int || n.k != c17Int {
			return fmt.Sprintf("state is not computable: Value=%s cursor=%s n=%s", val, cur, n)
		}
		cnt := int64(len(c17Clusters(val.s)))
		switch {
		case wantText != nil && val.s != *wantText:
			return fmt.Sprintf("got Value=%q, the ideal editor has %q", val.s, *wantText)
		case n.i != cnt:
			return fmt.Sprintf("cached count n=%d but Value %q has %d graphemes (the neighbours of the deleted grapheme joined into one cluster): End / Right / the deletion guards now use a count that is too large", n.i, val.s, cnt)
		case cur.i < 0 || cur.i > cnt:
			return fmt.Sprintf("cursor=%d outside the text (Value %q has %d graphemes)", cur.i, val.s, cnt)
		}
		return ""
	}
	eachState := func(f func(val string, cls []string, cur int)) {
		for _, val := range c17JoinStates {
			cls := c17Clusters(val)
			for cur := 0; cur <= len(cls); cur++ {
				f(val, cls, cur)
			}
		}
	}
	// the text an ideal editor holds after a deletion op
	after := func(cls []string, cur int, op string) *string {
		switch op {
		case "delRight", "delLeft", "killEnd":
			s := c17Ed{cl: cls, cur: cur}.apply(op, "").text()
			return &s
		}
		return nil
	}
	vx := ty.vx
	kc := func(n string) int64 { v, _ := c17Const(vx, n); return v }
	ctrl := kc("ModCtrl")
	press, _ := c17Const(vx, "EventPress")
	dels := []c17Binding{{'d', ctrl, "delRight"}, {kc("KeyDelete"), 0, "delRight"}, {'h', ctrl, "delLeft"}, {kc("KeyBackspace"), 0, "delLeft"}, {'k', ctrl, "killEnd"}}
	others := []c17Binding{{'a', ctrl, ""}, {kc("KeyHome"), 0, ""}, {'e', ctrl, ""}, {kc("KeyEnd"), 0, ""}, {'f', ctrl, ""}, {kc("KeyRight"), 0, ""},
		{'b', ctrl, ""}, {kc("KeyLeft"), 0, ""}, {kc("KeyEnter"), 0, ""}}
	runKey := func(v *c17Verdict, b c17Binding) {
		name := m.keys.format(b.code, b.mods)
		eachState(func(val string, cls []string, cur int) {
			p := newTF(val, cur)
			ctx := fmt.Sprintf("Value=%q cursor=%d, key %s", val, cur, name)
			_, _, ab := m.c17Call(he, p, m.keys.mk(b.code, b.mods, "", press), c17I(0))
			v.runs++
			if v.abort(ab, ctx) {
				return
			}
			if d := inv(p, after(cls, cur, b.op)); d != "" {
				v.fail("%s: %s", ctx, d)
			}
		})
	}
	for _, b := range dels {
		v := &c17Verdict{}
		runKey(v, b)
		name := m.keys.format(b.code, b.mods)
		v.record(c, rule, fmt.Sprintf("%s/%s where the neighbours join: n recounted, cursor within the text", he.Name, name), he.Decl.Pos(),
			name+" leaves the text without the addressed grapheme, n == graphemes(Value) and the cursor within the text")
	}
	{
		v := &c17Verdict{}
		for _, b := range others {
			runKey(v, b)
		}
		v.record(c, rule, he.Name+"/motions and Enter from the joining states keep n and the cursor within the text", he.Decl.Pos(), "n == graphemes(Value) and 0 <= cursor <= n after every other binding")
	}
	// every exported method that can be driven with string / integer arguments (whatever it is called)
	ops := map[string]string{"DeleteCharRightOfCursor": "delRight", "DeleteCharLeftOfCursor": "delLeft", "DeleteCursorToEndOfLine": "killEnd"}
	for _, fi := range c.P.FuncsIn(pkgName) {
		if fi.Decl.Body == nil || !fi.Obj.Exported() || fi == he {
			continue
		}
		sig := fi.Obj.Type().(*types.Signature)
		if sig.Recv() == nil || sig.Variadic() {
			continue
		}
		rt := sig.Recv().Type()
		if p, ok := rt.(*types.Pointer); ok {
			rt = p.Elem()
		} else {
			continue // a value receiver cannot change the editor
		}
		if !types.Identical(rt, tfT) {
			continue
		}
		tuples, drivable := [][]c17V{nil}, true
		for i := 0; i < sig.Params().Len() && drivable; i++ {
			bt, ok := sig.Params().At(i).Type().Underlying().(*types.Basic)
			var opts []c17V
			switch {
			case ok && bt.Info()&types.IsString != 0:
				opts = []c17V{c17S(""), c17S("x"), c17S("世"), c17S("e\u0301")}
			case ok && bt.Info()&types.IsInteger != 0:
				opts = []c17V{c17I(0), c17I(1), c17I(2), c17I(9)}
			default:
				drivable = false
			}
			var next [][]c17V
			for _, t := range tuples {
				for _, o := range opts {
					next = append(next, append(append([]c17V{}, t...), o))
				}
			}
			tuples = next
		}
		if !drivable {
			continue // Draw and the like: C17.g
		}
		v := &c17Verdict{}
		eachState(func(val string, cls []string, cur int) {
			for _, args := range tuples {
				p := newTF(val, cur)
				ctx := fmt.Sprintf("Value=%q cursor=%d, %s%s", val, cur, fi.Obj.Name(), c17V{k: c17Tup, tup: args}.String())
				_, _, ab := m.c17Call(fi, p, args...)
				v.runs++
				if v.abort(ab, ctx) {
					continue
				}
				if d := inv(p, after(cls, cur, ops[fi.Obj.Name()])); d != "" {
					v.fail("%s: %s", ctx, d)
				}
			}
		})
		v.record(c, rule, fi.Name+"/from the joining states: n == graphemes(Value), cursor within the text", fi.Decl.Pos(),
			fi.Obj.Name()+" keeps n == graphemes(Value) and 0 <= cursor <= n where a deletion joins two clusters")
	}
}

func c17DrawAfterScroll(c *Ctx) {
	const rule = "C17.j"
	const pkgName = "widgets/textinput"
	c.Clauses = append(c.Clauses, "C17.j textinput.Draw after the line was scrolled (interpreted two-frame histories: a long line is drawn, content and cursor are replaced by a text that fits the same window, it is drawn again): the second Draw returns, shows the cursor with min(cursor, scrolloff) graphemes of left context, and draws the cursor at prompt width + width of the text before the cursor")
	c.expect(rule, 2)
	m, ty := c17ExtraMachine(c)
	pk := c.P.Pkg(pkgName)
	mT := c17Named(pk, "Model")
	dr := c.P.Func(pkgName + ".(*Model).Draw")
	fields := c17FieldNames(mT)
	if m == nil || mT == nil || dr == nil || ty.windowT == nil || !fields["content"] || !fields["cursor"] || !fields["prompt"] {
		c.undecided(rule, pkgName+".(*Model).Draw", token.NoPos, "Model.Draw or the fields content/cursor/prompt not found")
		return
	}
	margin := 4
	if v, ok := c17Const(pk, "scrolloff"); ok && v >= 0 && v < 64 {
		margin = int(v)
	}
	long := "abcdefghijklmnopqrstuvwxyz0123456789"
	longCls := c17Clusters(long)
	shorts := []string{"", "ab", "abcdef", "a世c", "he\u0301世llo", "abcdefgh", "a\u200bbcdef", "世世世"}
	maxW := 20
	if c.Tier == "thorough" {
		shorts = append(shorts, "abcdefghijkl", "e\u0301e\u0301e\u0301e\u0301e\u0301e\u0301", "\u0301abcdef")
		maxW = 32
	}
	mkWin := func(w int) c17V {
		win := m.zero(ty.windowT, 0)
		*win.st.f["Width"] = c17I(int64(w))
		*win.st.f["Height"] = c17I(1)
		return win
	}
	frame1, ctxv, exact := &c17Verdict{}, &c17Verdict{}, &c17Verdict{}
	for _, prompt := range []string{"", "> "} {
		pw := c17WidthOf(c17Clusters(prompt))
		for w := pw + margin + 2; w <= maxW; w++ {
			for _, cur1 := range []int{len(longCls), len(longCls) / 2} {
				// frame 1: the long line in this window; the view scrolls to keep the cursor visible
				obj := m.zero(mT, 0)
				*obj.st.f["content"] = m.mkChars(ty, long)
				*obj.st.f["prompt"] = m.mkChars(ty, prompt)
				*obj.st.f["cursor"] = c17I(int64(cur1))
				_, _, ab := m.c17Call(dr, c17V{k: c17Ptr, ptr: &obj}, mkWin(w))
				frame1.runs++
				if ab != nil {
					// termination and the supported constructs of a first frame are C17.g's; nothing to build on here
					frame1.abort(ab, fmt.Sprintf("prompt=%q cursor=%d of a %d-grapheme line, Draw on a window %d columns wide", prompt, cur1, len(longCls), w))
					continue
				}
				for _, ct := range shorts {
					cls := c17Clusters(ct)
					if pw+c17WidthOf(cls)+margin >= w {
						continue // does not fit with the scroll margin: scrolling is legitimate
					}
					for cur := 0; cur <= len(cls); cur++ {
						o2 := obj.clone()
						*o2.st.f["content"] = m.mkChars(ty, ct)
						*o2.st.f["cursor"] = c17I(int64(cur))
						ctx := fmt.Sprintf("prompt=%q: a %d-grapheme line with the cursor at %d was drawn on a window %d columns wide, then content=%q cursor=%d replaced it, Draw on the same window", prompt, len(longCls), cur1, w, ct, cur)
						_, log, ab := m.c17Call(dr, c17V{k: c17Ptr, ptr: &o2}, mkWin(w))
						ctxv.runs++
						exact.runs++
						if ab != nil {
							if ab.kind == "steps" {
								ctxv.fail("%s: Draw does not return (%s)", ctx, ab.msg)
							} else {
								ctxv.abort(ab, ctx)
							}
							continue
						}
						lo := cur - margin
						if lo < 0 {
							lo = 0
						}
						least, full := pw+c17WidthOf(cls[lo:cur]), pw+c17WidthOf(cls[:cur])
						var x, y int
						if len(log) != 1 {
							ctxv.fail("%s: drawn %v, expected exactly one cursor", ctx, log)
							continue
						}
						if n, err := fmt.Sscanf(log[0], "cursor %d,%d", &x, &y); n != 2 || err != nil {
							ctxv.fail("%s: drawn %v, expected a cursor", ctx, log)
							continue
						}
						if y != 0 || x < least || x > full {
							ctxv.fail("%s: cursor drawn at column %d; with the %d graphemes before the cursor that must stay visible it belongs between %d and %d: the scroll position left by the earlier frame was not pulled back", ctx, x, cur-lo, least, full)
						}
						if y != 0 || x != full {
							exact.fail("%s: cursor drawn at column %d, expected %d (prompt width plus the width of the text before the cursor): the text fits the window but is drawn from the scroll position of the earlier frame (%s)", ctx, x, full, strings.Join(log, ";"))
						}
					}
				}
			}
		}
	}
	if frame1.witness != "" || frame1.undec != "" {
		frame1.record(c, rule, dr.Name+"/first frame of the scrolled histories", dr.Decl.Pos(), "")
	}
	ctxv.record(c, rule, dr.Name+"/after a longer line was scrolled: the cursor is drawn with its left context", dr.Decl.Pos(), "the second frame returns and shows min(cursor, scrolloff) graphemes before the cursor")
	exact.record(c, rule, dr.Name+"/after a longer line was scrolled: cursor column when the text fits", dr.Decl.Pos(), "cursor drawn at prompt width + width of the text before the cursor")
}
