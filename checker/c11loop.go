package main

// c11loop — loops in the symbolic evaluation of c11sym.go, judged by induction instead of unrolling.
//
// A path that reaches a loop head ends there (its state is recorded as an "arrival"). Every arrival is then
// continued from the head in a GENERIC state: whatever the loop body assigns is unknown (fresh symbols), except
// for designated variables that the caller of this file replaces by symbols of its own (C11.c: the window
// walker w, the coordinates; text helpers: the cursor). A path that comes back to the same head ends there too;
// the caller compares the state at that point with the generic state it started from (the induction step).
// Since the generic state stands for the state at the start of ANY iteration, what is proved for the paths
// that start in it holds for every iteration.

import (
	"go/ast"
	"go/types"

	"golang.org/x/tools/go/cfg"
)

// c11LoopHeads: targets of back edges of g (depth-first search from the entry block).
func c11LoopHeads(g *FG) map[*cfg.Block]bool {
	heads := map[*cfg.Block]bool{}
	if len(g.Blocks) == 0 {
		return heads
	}
	const (
		white = iota
		grey
		black
	)
	colour := map[*cfg.Block]int{}
	var dfs func(b *cfg.Block)
	dfs = func(b *cfg.Block) {
		colour[b] = grey
		for _, s := range b.Succs {
			switch colour[s] {
			case white:
				dfs(s)
			case grey:
				heads[s] = true
			}
		}
		colour[b] = black
	}
	dfs(g.Blocks[0])
	return heads
}

// c11LoopBody: the blocks that lie on a cycle through h (h reaches b and b reaches h).
func c11LoopBody(g *FG, h *cfg.Block) map[*cfg.Block]bool {
	fwd := map[*cfg.Block]bool{}
	var walk func(b *cfg.Block)
	walk = func(b *cfg.Block) {
		for _, s := range b.Succs {
			if !fwd[s] {
				fwd[s] = true
				walk(s)
			}
		}
	}
	walk(h)
	// blocks that reach h
	preds := map[*cfg.Block][]*cfg.Block{}
	for _, b := range g.Blocks {
		for _, s := range b.Succs {
			preds[s] = append(preds[s], b)
		}
	}
	back := map[*cfg.Block]bool{h: true}
	work := []*cfg.Block{h}
	for len(work) > 0 {
		b := work[len(work)-1]
		work = work[:len(work)-1]
		for _, p := range preds[b] {
			if !back[p] {
				back[p] = true
				work = append(work, p)
			}
		}
	}
	body := map[*cfg.Block]bool{}
	for b := range fwd {
		if back[b] {
			body[b] = true
		}
	}
	if fwd[h] {
		body[h] = true
	}
	return body
}

// c11LoopAssigned: the variables assigned in the blocks of a loop body (range keys/values included: go/cfg keeps
// them outside the loop blocks although they are assigned on every iteration).
func c11LoopAssigned(info *types.Info, body map[*cfg.Block]bool) map[types.Object]bool {
	out := map[types.Object]bool{}
	for b := range body {
		for _, n := range b.Nodes {
			for o := range c11Assigned(info, n) {
				out[o] = true
			}
		}
		if rs, ok := b.Stmt.(*ast.RangeStmt); ok && b.Kind == cfg.KindRangeLoop {
			for _, e := range []ast.Expr{rs.Key, rs.Value} {
				if e == nil {
					continue
				}
				if o := rootObj(info, e); o != nil {
					if v, ok := o.(*types.Var); ok && !v.IsField() {
						out[o] = true
					}
				}
			}
		}
	}
	return out
}

// c11Arrival is the state of a path when it first enters a loop head.
type c11Arrival struct {
	head *cfg.Block
	st   *c11State
}

// c11GenericState: the arrival state with everything the loop assigns made unknown.
func (x *c11Exec) c11GenericState(fr *c11Frame, a c11Arrival) (*c11State, map[types.Object]bool) {
	body := c11LoopBody(fr.g, a.head)
	assigned := c11LoopAssigned(x.info, body)
	gs := a.st.clone()
	for o := range assigned {
		x.havocObj(gs, o)
	}
	x.havocAddrTaken(gs, fr)
	return gs, assigned
}
