package main

// c16norm — source normalisation for C16 that complements c15norm.go (helper inlining, propagation of named
// locals). Three behaviour-preserving rewrites undo refactorings the inliner cannot see through; each produces
// ordinary Go that is printed, re-parsed and re-type-checked (c15Recheck), and the rules then read the normal form:
//
//   A0 function values that are only called: a local with ONE definition that is a method value `f := X.M` bound to the
//      live X (pointer receiver on an addressable local, or a pointer/interface local that is never reassigned), or a
//      literal whose body is a single `return E`, is replaced at every call by X.M(args) / E[args] (arguments that
//      are plain locals or constants only; E is evaluated where the call stood, against the same variables).
//   A  closure lifting: a local function variable with ONE definition `f := func(params) results { body }` that is
//      only ever called (never stored, passed, reassigned, recursive) becomes a package-level function whose extra
//      leading parameters are the variables the literal captures; every call passes their current values. A captured
//      variable is only read by the literal (no assignment, no address, no pointer-receiver method on a value), so
//      "read the variable when the body runs" and "pass its value when the call is made" are the same thing.
//      The inliner of c15norm.go then treats the lifted function like any other new helper.
//   B  scalar replacement of a local struct: `var v T` / `v := T{k: e, ...}` whose every use is a field selection
//      v.f / (&v).f becomes one local per field. A field that is first mentioned by a plain assignment at the level
//      of the declaration is declared by that assignment (`v.f, v.g = h()` => `v_f, v_g := h()`), the others by
//      `var v_f T` immediately before the first statement that mentions them.
//   C  copy coalescing: `x := y` of a local y that is dead after the copy (never mentioned again on the way out of
//      its scope, not captured, address never taken) is removed and x is renamed to y.
//   D  tuple assignments (c16tuple.go): `var a T; a, x.f = call()` becomes `a, f1 := call(); x.f = f1`.
//   E  named results of new helpers become locals (c16tuple.go), so that the inliner accepts the helper.
//   F  a labelled one-shot switch (the inliner's form of `return` inside a helper's loop) whose last statement is the
//      loop all its `break L` sit in becomes a block with plain breaks (c16unswitch.go).
//
// Nothing is executed; anything the passes are not sure about is left as it is. If the rewritten program does not
// type-check, the program is loaded again and analysed with the c15 normalisation only.

import (
	"fmt"
	"go/ast"
	"go/parser"
	"go/token"
	"go/types"
	"os"
	"strings"

	"golang.org/x/tools/go/ast/astutil"
	"golang.org/x/tools/go/packages"
)

var c16NormShorts = []string{"vxfw/text", "vxfw/richtext"}

func c16Normalise(c *Ctx) {
	c15Normalise(c, c16NormShorts, c15Anchors)
	if os.Getenv("VX_NO_NORMALISE") != "" || os.Getenv("VX_C16_NO_NORM") != "" {
		return
	}
	failed := false
	func() {
		defer func() {
			if r := recover(); r != nil {
				failed = true
			}
		}()
		counter := 0
		for round := 0; round < 12; round++ {
			changed := map[*packages.Package]map[*ast.File]bool{}
			kind := ""
			for _, pass := range []struct {
				name string
				f    func(c *Ctx, pk *packages.Package, file *ast.File, fd *ast.FuncDecl, counter *int) bool
			}{{"beta", c16ReduceFuncValues}, {"lift", c16LiftClosures}, {"sroa", c16SplitStructs}, {"coalesce", c16CoalesceCopies}, {"tuple", c16SplitTupleStores}, {"unname", c16UnnameResults}, {"unswitch", c16UnswitchLoops}} {
				for _, sh := range c16NormShorts {
					pk := c.P.Pkg(sh)
					if pk == nil {
						continue
					}
					for _, f := range pk.Syntax {
						decls := append([]ast.Decl{}, f.Decls...)
						for _, d := range decls {
							fd, ok := d.(*ast.FuncDecl)
							if !ok || fd.Body == nil {
								continue
							}
							if pass.f(c, pk, f, fd, &counter) {
								if changed[pk] == nil {
									changed[pk] = map[*ast.File]bool{}
								}
								changed[pk][f] = true
							}
						}
					}
				}
				if len(changed) > 0 {
					kind = pass.name
					break
				}
			}
			if len(changed) == 0 {
				return
			}
			if os.Getenv("VX_C16_NORM_FAIL") != "" { // test hook: exercise the fallback
				failed = true
				return
			}
			if err := c15Recheck(c, c16NormShorts, changed); err != nil {
				if os.Getenv("VXCHECK_DUMPSRC") != "" {
					fmt.Printf("c16norm: pass %s produced code that does not type-check: %v\n", kind, err)
				}
				failed = true
				return
			}
			c15Normalise(c, c16NormShorts, c15Anchors)
		}
	}()
	if failed {
		// the trees may be half rewritten: start again from the text and do without the extra passes
		p, err := Load(c.P.Repo, c.P.GOOS, loadNeedSSA)
		if err != nil {
			c.undecided("LOAD", "normalise", 0, "C16 normalisation failed and the program could not be reloaded: %v", err)
			return
		}
		c.P = p
		installAccessorResolver(p)
		globalNormalise(c)
		c15Normalise(c, c16NormShorts, c15Anchors)
		c.info("C16 normalisation (closures, local structs, copies) abandoned: the rewritten program did not type-check")
	}
}

// ---------------------------------------------------------------------------
// helpers

// c16TypeExpr renders t as a type expression that is valid in file.
func c16TypeExpr(pk *packages.Package, file *ast.File, t types.Type) (ast.Expr, bool) {
	ok := true
	s := types.TypeString(t, func(p *types.Package) string {
		if p == pk.Types {
			return ""
		}
		for _, imp := range file.Imports {
			if strings.Trim(imp.Path.Value, `"`) == p.Path() {
				if imp.Name != nil {
					if imp.Name.Name == "_" || imp.Name.Name == "." {
						ok = false
					}
					return imp.Name.Name
				}
				return p.Name()
			}
		}
		ok = false
		return p.Name()
	})
	if !ok {
		return nil, false
	}
	e, err := parser.ParseExpr(s)
	if err != nil {
		return nil, false
	}
	return c16StripPos(e).(ast.Expr), true
}

// c16StripPos returns a position-free deep copy.
func c16StripPos(n ast.Node) ast.Node { return c15Copy(n, nil) }

func c16IsLocalVar(pk *packages.Package, o types.Object) (*types.Var, bool) {
	v, ok := o.(*types.Var)
	if !ok || v.IsField() || v.Pkg() == nil || v.Parent() == nil || v.Parent() == pk.Types.Scope() || v.Parent() == types.Universe {
		return nil, false
	}
	return v, true
}

// c16NamesIn: every identifier name that occurs in the package (fresh names must avoid all of them).
func c16NamesIn(pk *packages.Package) map[string]bool {
	names := map[string]bool{}
	for _, f := range pk.Syntax {
		ast.Inspect(f, func(n ast.Node) bool {
			if id, ok := n.(*ast.Ident); ok {
				names[id.Name] = true
			}
			return true
		})
	}
	return names
}

func c16Fresh(names map[string]bool, base string, counter *int) string {
	if !names[base] {
		names[base] = true
		return base
	}
	for {
		*counter++
		n := fmt.Sprintf("%s_n%d", base, *counter)
		if !names[n] {
			names[n] = true
			return n
		}
	}
}

// c16Visible: does name resolve to obj at pos?
func c16Visible(pk *packages.Package, pos token.Pos, obj types.Object) bool {
	sc := pk.Types.Scope().Innermost(pos)
	if sc == nil {
		return false
	}
	_, o := sc.LookupParent(obj.Name(), pos)
	return o == obj
}

// c16StmtLists calls f for every statement list of body (blocks, case clauses, comm clauses).
func c16StmtLists(body ast.Node, f func(owner ast.Node, list *[]ast.Stmt)) {
	ast.Inspect(body, func(n ast.Node) bool {
		switch t := n.(type) {
		case *ast.BlockStmt:
			f(t, &t.List)
		case *ast.CaseClause:
			f(t, &t.Body)
		case *ast.CommClause:
			f(t, &t.Body)
		}
		return true
	})
}

func c16Mentions(info *types.Info, n ast.Node, o types.Object) bool {
	found := false
	ast.Inspect(n, func(m ast.Node) bool {
		if id, ok := m.(*ast.Ident); ok && (info.Uses[id] == o || info.Defs[id] == o) {
			found = true
		}
		return !found
	})
	return found
}

func c16MentionsName(n ast.Node, name string) bool {
	found := false
	ast.Inspect(n, func(m ast.Node) bool {
		if id, ok := m.(*ast.Ident); ok && id.Name == name {
			found = true
		}
		return !found
	})
	return found
}

// ---------------------------------------------------------------------------
// A0. function values that are only called

// c16OnlyCalled lists the calls of the function variable obj in fd; ok is false when obj is used in any other way
// (or inside the range excl, the defining literal itself).
func c16OnlyCalled(info *types.Info, par map[ast.Node]ast.Node, fd *ast.FuncDecl, obj types.Object, excl ast.Node) ([]*ast.CallExpr, bool) {
	var calls []*ast.CallExpr
	okUses := true
	ast.Inspect(fd.Body, func(n ast.Node) bool {
		id, ok := n.(*ast.Ident)
		if !ok || info.Uses[id] != obj {
			return true
		}
		if excl != nil && excl.Pos() <= id.Pos() && id.End() <= excl.End() {
			okUses = false
			return false
		}
		var p ast.Node = par[id]
		var child ast.Node = id
		for {
			if pe, isP := p.(*ast.ParenExpr); isP {
				child, p = pe, par[pe]
				continue
			}
			break
		}
		call, isCall := p.(*ast.CallExpr)
		if !isCall || call.Fun != child || call.Ellipsis.IsValid() {
			okUses = false
			return false
		}
		calls = append(calls, call)
		return true
	})
	return calls, okUses && len(calls) > 0
}

func c16ReduceFuncValues(c *Ctx, pk *packages.Package, file *ast.File, fd *ast.FuncDecl, counter *int) bool {
	info := pk.TypesInfo
	par := c.P.Parents(pk)
	defs := c15DefsOf(info, fd.Body)
	// function variables a closure assigns are out of reach of the definition count
	done := false
	c16StmtLists(fd.Body, func(_ ast.Node, owner *[]ast.Stmt) {
		if done {
			return
		}
		for i, st := range *owner {
			var id *ast.Ident
			var val ast.Expr
			switch t := st.(type) {
			case *ast.AssignStmt:
				if t.Tok == token.DEFINE && len(t.Lhs) == 1 && len(t.Rhs) == 1 {
					id, _ = t.Lhs[0].(*ast.Ident)
					val = t.Rhs[0]
				}
			case *ast.DeclStmt:
				if gd, ok := t.Decl.(*ast.GenDecl); ok && gd.Tok == token.VAR && len(gd.Specs) == 1 {
					vs := gd.Specs[0].(*ast.ValueSpec)
					if len(vs.Names) == 1 && len(vs.Values) == 1 && vs.Type == nil {
						id, val = vs.Names[0], vs.Values[0]
					}
				}
			}
			if id == nil || id.Name == "_" || val == nil {
				continue
			}
			f, isLocal := c16IsLocalVar(pk, info.Defs[id])
			if !isLocal || defs.count[f] != 1 {
				continue
			}
			if _, isFunc := f.Type().Underlying().(*types.Signature); !isFunc {
				continue
			}
			val = unparen(val)
			var rewrite func(call *ast.CallExpr) bool // checks (apply == false) or performs the replacement
			var apply bool
			switch t := val.(type) {
			case *ast.SelectorExpr:
				sl := info.Selections[t]
				if sl == nil || sl.Kind() != types.MethodVal {
					continue
				}
				xid, isID := unparen(t.X).(*ast.Ident)
				if !isID {
					continue
				}
				x, okX := c16IsLocalVar(pk, info.Uses[xid])
				if !okX {
					continue
				}
				fn, _ := sl.Obj().(*types.Func)
				if fn == nil {
					continue
				}
				live := false
				switch x.Type().Underlying().(type) {
				case *types.Pointer, *types.Interface:
					// the value of x is bound: x must never change afterwards
					live = defs.count[x] <= 1
				default:
					// an addressable value: a pointer-receiver method binds &x, a value receiver copies x
					if r := fn.Type().(*types.Signature).Recv(); r != nil {
						_, live = r.Type().(*types.Pointer)
					}
				}
				if !live {
					continue
				}
				rewrite = func(call *ast.CallExpr) bool {
					if !c16Visible(pk, call.Pos(), x) {
						return false
					}
					if apply {
						call.Fun = c16StripPos(t).(ast.Expr)
					}
					return true
				}
			case *ast.FuncLit:
				if len(t.Body.List) != 1 || t.Type.TypeParams != nil || t.Type.Results == nil || len(t.Type.Results.List) != 1 || len(t.Type.Results.List[0].Names) > 1 {
					continue
				}
				if len(t.Type.Results.List[0].Names) == 1 {
					continue // a named result
				}
				rs, isRet := t.Body.List[0].(*ast.ReturnStmt)
				if !isRet || len(rs.Results) != 1 {
					continue
				}
				e := rs.Results[0]
				if containsNode(e, func(n ast.Node) bool { _, isLit := n.(*ast.FuncLit); return isLit }) {
					continue
				}
				// parameters, in order
				var params []types.Object
				var ptypes []ast.Expr
				okP := true
				for _, fld := range t.Type.Params.List {
					if len(fld.Names) == 0 {
						okP = false
					}
					if _, variadic := fld.Type.(*ast.Ellipsis); variadic {
						okP = false
					}
					for _, nm := range fld.Names {
						params = append(params, info.Defs[nm])
						ptypes = append(ptypes, fld.Type)
					}
				}
				if !okP {
					continue
				}
				// the variables E mentions that are not parameters
				var free []*types.Var
				ast.Inspect(e, func(n ast.Node) bool {
					if fid, ok := n.(*ast.Ident); ok {
						if v, isLoc := c16IsLocalVar(pk, info.Uses[fid]); isLoc && !(t.Pos() <= v.Pos() && v.Pos() < t.End()) {
							free = append(free, v)
						}
					}
					return true
				})
				// a parameter read after a call inside E has completed: the argument's value could have changed by then
				var realCalls []*ast.CallExpr
				ast.Inspect(e, func(n ast.Node) bool {
					if cl, ok := n.(*ast.CallExpr); ok {
						if tv, has := info.Types[cl.Fun]; has && tv.IsType() {
							return true
						}
						if bid, ok := unparen(cl.Fun).(*ast.Ident); ok {
							if _, isB := info.Uses[bid].(*types.Builtin); isB {
								return true
							}
						}
						realCalls = append(realCalls, cl)
					}
					return true
				})
				lateParam := map[types.Object]bool{}
				ast.Inspect(e, func(n ast.Node) bool {
					if pid, ok := n.(*ast.Ident); ok {
						for _, po := range params {
							if info.Uses[pid] == po {
								for _, cl := range realCalls {
									if cl.End() <= pid.Pos() {
										lateParam[po] = true
									}
								}
							}
						}
					}
					return true
				})
				resType := t.Type.Results.List[0].Type
				etv := info.Types[e]
				needConv := etv.Value != nil || etv.Type == nil || !types.Identical(etv.Type, info.TypeOf(resType))
				rewrite = func(call *ast.CallExpr) bool {
					if len(call.Args) != len(params) {
						return false
					}
					for _, v := range free {
						if !c16Visible(pk, call.Pos(), v) {
							return false
						}
					}
					subst := map[types.Object]ast.Expr{}
					for k, a := range call.Args {
						a = unparen(a)
						tv := info.Types[a]
						switch at := a.(type) {
						case *ast.Ident:
							if _, isLoc := c16IsLocalVar(pk, info.Uses[at]); !isLoc && tv.Value == nil {
								return false
							}
						case *ast.BasicLit:
						default:
							if tv.Value == nil {
								return false
							}
						}
						if lateParam[params[k]] && tv.Value == nil {
							return false
						}
						var rep ast.Expr = c16StripPos(a).(ast.Expr)
						if tv.Value != nil || tv.Type == nil || !types.Identical(tv.Type, info.TypeOf(ptypes[k])) {
							rep = &ast.CallExpr{Fun: &ast.ParenExpr{X: c16StripPos(ptypes[k]).(ast.Expr)}, Args: []ast.Expr{rep}}
						}
						subst[params[k]] = rep
					}
					if !apply {
						return true
					}
					var body ast.Expr = c15Copy(e, func(fid *ast.Ident) ast.Node {
						if o := info.Uses[fid]; o != nil {
							if rep, hit := subst[o]; hit {
								return c16StripPos(rep)
							}
						}
						return nil
					}).(ast.Expr)
					if needConv {
						body = &ast.CallExpr{Fun: &ast.ParenExpr{X: c16StripPos(resType).(ast.Expr)}, Args: []ast.Expr{body}}
					} else {
						body = &ast.ParenExpr{X: body}
					}
					// put it where the call stood
					replaced := false
					astutil.Apply(fd.Body, func(cur *astutil.Cursor) bool {
						if cur.Node() == ast.Node(call) {
							cur.Replace(body)
							replaced = true
							return false
						}
						return !replaced
					}, nil)
					return replaced
				}
			default:
				continue
			}
			var excl ast.Node
			if lit, isLit := val.(*ast.FuncLit); isLit {
				excl = lit
			}
			calls, ok := c16OnlyCalled(info, par, fd, f, excl)
			if !ok {
				continue
			}
			okAll := true
			for _, call := range calls {
				if !rewrite(call) {
					okAll = false
				}
			}
			if !okAll {
				continue
			}
			apply = true
			for _, call := range calls {
				if !rewrite(call) {
					panic("c16norm: replacement failed after it was checked")
				}
			}
			*owner = append(append([]ast.Stmt{}, (*owner)[:i]...), (*owner)[i+1:]...)
			c.info("normalised: function value %s of %s replaced by what it stands for at its %d call(s)", f.Name(), fd.Name.Name, len(calls))
			done = true
			return
		}
	})
	return done
}

// ---------------------------------------------------------------------------
// A. closure lifting

func c16LiftClosures(c *Ctx, pk *packages.Package, file *ast.File, fd *ast.FuncDecl, counter *int) bool {
	info := pk.TypesInfo
	if fd.Type.TypeParams != nil {
		return false
	}
	par := c.P.Parents(pk)
	type cand struct {
		obj   types.Object
		lit   *ast.FuncLit
		stmt  ast.Stmt
		owner *[]ast.Stmt
	}
	var cands []cand
	c16StmtLists(fd.Body, func(_ ast.Node, list *[]ast.Stmt) {
		for _, st := range *list {
			switch t := st.(type) {
			case *ast.AssignStmt:
				if t.Tok == token.DEFINE && len(t.Lhs) == 1 && len(t.Rhs) == 1 {
					if id, ok := t.Lhs[0].(*ast.Ident); ok && id.Name != "_" {
						if lit, ok := unparen(t.Rhs[0]).(*ast.FuncLit); ok && info.Defs[id] != nil {
							cands = append(cands, cand{info.Defs[id], lit, st, list})
						}
					}
				}
			case *ast.DeclStmt:
				if gd, ok := t.Decl.(*ast.GenDecl); ok && gd.Tok == token.VAR && len(gd.Specs) == 1 {
					vs := gd.Specs[0].(*ast.ValueSpec)
					if len(vs.Names) == 1 && len(vs.Values) == 1 && vs.Type == nil && vs.Names[0].Name != "_" {
						if lit, ok := unparen(vs.Values[0]).(*ast.FuncLit); ok && info.Defs[vs.Names[0]] != nil {
							cands = append(cands, cand{info.Defs[vs.Names[0]], lit, st, list})
						}
					}
				}
			}
		}
	})
	for _, cd := range cands {
		lit := cd.lit
		// shape of the literal: what the inliner accepts anyway
		okShape := c15CountNodes(lit.Body) <= c15MaxInlineNodes
		if lit.Type.TypeParams != nil {
			okShape = false
		}
		for _, f := range lit.Type.Params.List {
			if len(f.Names) == 0 {
				okShape = false
			}
			if _, variadic := f.Type.(*ast.Ellipsis); variadic {
				okShape = false
			}
		}
		if lit.Type.Results != nil {
			for _, f := range lit.Type.Results.List {
				if len(f.Names) > 0 {
					okShape = false
				}
			}
		}
		ast.Inspect(lit.Body, func(n ast.Node) bool {
			switch t := n.(type) {
			case *ast.FuncLit, *ast.DeferStmt, *ast.GoStmt, *ast.SelectStmt:
				okShape = false
			case *ast.BranchStmt:
				if t.Tok == token.GOTO || t.Tok == token.FALLTHROUGH {
					okShape = false
				}
			case *ast.CallExpr:
				if id, isID := t.Fun.(*ast.Ident); isID && id.Name == "recover" {
					okShape = false
				}
			}
			return okShape
		})
		if !okShape {
			continue
		}
		// uses of the function variable: calls only, outside the literal
		var calls []*ast.CallExpr
		okUses := true
		ast.Inspect(fd.Body, func(n ast.Node) bool {
			id, ok := n.(*ast.Ident)
			if !ok || info.Uses[id] != cd.obj {
				return true
			}
			if lit.Pos() <= id.Pos() && id.End() <= lit.End() {
				okUses = false
				return false
			}
			var p ast.Node = par[id]
			var child ast.Node = id
			for {
				if pe, isP := p.(*ast.ParenExpr); isP {
					child, p = pe, par[pe]
					continue
				}
				break
			}
			call, isCall := p.(*ast.CallExpr)
			if !isCall || call.Fun != child || call.Ellipsis.IsValid() {
				okUses = false
				return false
			}
			calls = append(calls, call)
			return true
		})
		if !okUses || len(calls) == 0 {
			continue
		}
		// captured variables, in order of first occurrence
		var caps []*types.Var
		seen := map[*types.Var]bool{}
		okCap := true
		ast.Inspect(lit.Body, func(n ast.Node) bool {
			id, ok := n.(*ast.Ident)
			if !ok {
				return true
			}
			v, isLocal := c16IsLocalVar(pk, info.Uses[id])
			if !isLocal || (lit.Pos() <= v.Pos() && v.Pos() < lit.End()) {
				return true
			}
			if !seen[v] {
				seen[v] = true
				caps = append(caps, v)
			}
			return true
		})
		// labels of the enclosing function cannot be targets (the compiler rejects that already)
		written := func(e ast.Expr) {
			e = unparen(e)
			if o := rootObj(info, e); o != nil {
				if v, ok := o.(*types.Var); ok && seen[v] {
					if _, bare := e.(*ast.Ident); bare {
						okCap = false
						return
					}
					if _, isPtr := v.Type().Underlying().(*types.Pointer); !isPtr {
						okCap = false
					}
				}
			}
		}
		ast.Inspect(lit.Body, func(n ast.Node) bool {
			switch t := n.(type) {
			case *ast.AssignStmt:
				if t.Tok != token.DEFINE {
					for _, l := range t.Lhs {
						written(l)
					}
				}
			case *ast.IncDecStmt:
				written(t.X)
			case *ast.RangeStmt:
				if t.Tok == token.ASSIGN {
					if t.Key != nil {
						written(t.Key)
					}
					if t.Value != nil {
						written(t.Value)
					}
				}
			case *ast.UnaryExpr:
				if t.Op == token.AND {
					if o := rootObj(info, t.X); o != nil {
						if v, ok := o.(*types.Var); ok && seen[v] {
							if _, isPtr := v.Type().Underlying().(*types.Pointer); !isPtr {
								okCap = false
							}
						}
					}
				}
			case *ast.SelectorExpr:
				// a pointer-receiver method on a captured value takes its address
				if sel := info.Selections[t]; sel != nil && sel.Kind() == types.MethodVal {
					if o := rootObj(info, t.X); o != nil {
						if v, ok := o.(*types.Var); ok && seen[v] {
							if _, isPtr := v.Type().Underlying().(*types.Pointer); !isPtr {
								if fn, ok := sel.Obj().(*types.Func); ok {
									if r := fn.Type().(*types.Signature).Recv(); r != nil {
										if _, ptrRecv := r.Type().(*types.Pointer); ptrRecv {
											okCap = false
										}
									}
								}
							}
						}
					}
				}
			}
			return okCap
		})
		if !okCap {
			continue
		}
		// every captured variable means the same thing at every call, and no argument can change one
		for _, call := range calls {
			for _, v := range caps {
				if !c16Visible(pk, call.Pos(), v) {
					okCap = false
				}
			}
			for _, a := range call.Args {
				ast.Inspect(a, func(n ast.Node) bool {
					switch t := n.(type) {
					case *ast.CallExpr:
						if tv, ok := info.Types[t.Fun]; ok && tv.IsType() {
							return true
						}
						if id, ok := unparen(t.Fun).(*ast.Ident); ok {
							if b, ok := info.Uses[id].(*types.Builtin); ok && (b.Name() == "len" || b.Name() == "cap") {
								return true
							}
						}
						if len(caps) > 0 {
							okCap = false
						}
					case *ast.FuncLit:
						okCap = false
					case *ast.UnaryExpr:
						if t.Op == token.ARROW {
							okCap = false
						}
					}
					return okCap
				})
			}
		}
		if !okCap {
			continue
		}
		names := c16NamesIn(pk)
		var extra []*ast.Field
		for _, v := range caps {
			te, ok := c16TypeExpr(pk, file, v.Type())
			if !ok {
				okCap = false
				break
			}
			extra = append(extra, &ast.Field{Names: []*ast.Ident{ast.NewIdent(v.Name())}, Type: te})
		}
		if !okCap {
			continue
		}
		// a parameter of the literal may not hide a captured variable (it cannot: the body then would not capture it)
		*counter++
		name := c16Fresh(names, fmt.Sprintf("%s_lift%d", cd.obj.Name(), *counter), counter)
		ft := c16StripPos(lit.Type).(*ast.FuncType)
		ft.Params.List = append(extra, ft.Params.List...)
		nd := &ast.FuncDecl{Name: ast.NewIdent(name), Type: ft, Body: c16StripPos(lit.Body).(*ast.BlockStmt)}
		file.Decls = append(file.Decls, nd)
		for _, call := range calls {
			call.Fun = ast.NewIdent(name)
			var pre []ast.Expr
			for _, v := range caps {
				pre = append(pre, ast.NewIdent(v.Name()))
			}
			call.Args = append(pre, call.Args...)
		}
		// drop the definition
		for i, st := range *cd.owner {
			if st == cd.stmt {
				*cd.owner = append(append([]ast.Stmt{}, (*cd.owner)[:i]...), (*cd.owner)[i+1:]...)
				break
			}
		}
		c.info("normalised: closure %s of %s lifted to %s(%d captured)", cd.obj.Name(), fd.Name.Name, name, len(caps))
		return true // one at a time: positions and uses are stale now
	}
	return false
}

// ---------------------------------------------------------------------------
// B. scalar replacement of local structs

func c16SplitStructs(c *Ctx, pk *packages.Package, file *ast.File, fd *ast.FuncDecl, counter *int) bool {
	info := pk.TypesInfo
	par := c.P.Parents(pk)
	type cand struct {
		v     *types.Var
		st    *types.Struct
		stmt  ast.Stmt
		owner *[]ast.Stmt
		lit   *ast.CompositeLit
	}
	var cands []cand
	c16StmtLists(fd.Body, func(_ ast.Node, list *[]ast.Stmt) {
		for _, s := range *list {
			var id *ast.Ident
			var lit *ast.CompositeLit
			switch t := s.(type) {
			case *ast.DeclStmt:
				gd, ok := t.Decl.(*ast.GenDecl)
				if !ok || gd.Tok != token.VAR || len(gd.Specs) != 1 {
					continue
				}
				vs := gd.Specs[0].(*ast.ValueSpec)
				if len(vs.Names) != 1 {
					continue
				}
				switch len(vs.Values) {
				case 0:
					id = vs.Names[0]
				case 1:
					if cl, ok := unparen(vs.Values[0]).(*ast.CompositeLit); ok && vs.Type == nil {
						id, lit = vs.Names[0], cl
					}
				}
			case *ast.AssignStmt:
				if t.Tok == token.DEFINE && len(t.Lhs) == 1 && len(t.Rhs) == 1 {
					if cl, ok := unparen(t.Rhs[0]).(*ast.CompositeLit); ok {
						id, _ = t.Lhs[0].(*ast.Ident)
						lit = cl
					}
				}
			}
			if id == nil || id.Name == "_" {
				continue
			}
			v, ok := c16IsLocalVar(pk, info.Defs[id])
			if !ok {
				continue
			}
			st, ok := v.Type().Underlying().(*types.Struct)
			if !ok {
				continue
			}
			if lit != nil && !types.Identical(info.TypeOf(lit), v.Type()) {
				continue
			}
			cands = append(cands, cand{v, st, s, list, lit})
		}
	})
next:
	for _, cd := range cands {
		// literal: keyed by field name only
		litVal := map[string]ast.Expr{}
		var litOrder []string
		if cd.lit != nil {
			for _, el := range cd.lit.Elts {
				kv, ok := el.(*ast.KeyValueExpr)
				if !ok {
					continue next
				}
				k, ok := kv.Key.(*ast.Ident)
				if !ok || c16Mentions(info, kv.Value, cd.v) {
					continue next
				}
				litVal[k.Name] = kv.Value
				litOrder = append(litOrder, k.Name)
			}
		}
		// every use is a field selection
		sels := map[*ast.SelectorExpr]*types.Var{}
		outer := map[*ast.SelectorExpr]ast.Expr{} // the expression to replace (the selector itself)
		okUses := true
		ast.Inspect(fd.Body, func(n ast.Node) bool {
			id, ok := n.(*ast.Ident)
			if !ok || info.Uses[id] != types.Object(cd.v) {
				return true
			}
			var child ast.Node = id
			p := par[id]
			for {
				if pe, isP := p.(*ast.ParenExpr); isP {
					child, p = pe, par[pe]
					continue
				}
				break
			}
			if u, isU := p.(*ast.UnaryExpr); isU && u.Op == token.AND && u.X == child {
				child, p = u, par[u]
				for {
					if pe, isP := p.(*ast.ParenExpr); isP {
						child, p = pe, par[pe]
						continue
					}
					break
				}
			}
			sel, isSel := p.(*ast.SelectorExpr)
			if !isSel || sel.X != child {
				okUses = false
				return false
			}
			s := info.Selections[sel]
			if s == nil || s.Kind() != types.FieldVal || len(s.Index()) != 1 {
				okUses = false
				return false
			}
			fv, _ := s.Obj().(*types.Var)
			if fv == nil || fv.Name() == "_" {
				okUses = false
				return false
			}
			sels[sel] = fv
			outer[sel] = sel
			return true
		})
		if !okUses || len(sels) == 0 {
			continue
		}
		// is a field read anywhere (anything but the target of a plain assignment)?
		read := map[string]bool{}
		for sel, fv := range sels {
			isTarget := false
			if as, ok := par[sel].(*ast.AssignStmt); ok && as.Tok == token.ASSIGN {
				for _, l := range as.Lhs {
					if l == ast.Expr(sel) {
						isTarget = true
					}
				}
			}
			if !isTarget {
				read[fv.Name()] = true
			}
		}
		names := c16NamesIn(pk)
		local := map[string]string{}
		ftype := map[string]types.Type{}
		var order []string // fields in declaration order of the struct
		for i := 0; i < cd.st.NumFields(); i++ {
			f := cd.st.Field(i)
			used := false
			for _, fv := range sels {
				if fv == f {
					used = true
				}
			}
			if _, inLit := litVal[f.Name()]; inLit || used {
				order = append(order, f.Name())
				ftype[f.Name()] = f.Type()
				local[f.Name()] = c16Fresh(names, cd.v.Name()+"_"+f.Name(), counter)
			}
		}
		typeExpr := map[string]ast.Expr{}
		for _, fn := range order {
			te, ok := c16TypeExpr(pk, file, ftype[fn])
			if !ok {
				continue next
			}
			typeExpr[fn] = te
		}
		// replace the selections
		astutil.Apply(fd.Body, func(cur *astutil.Cursor) bool {
			if sel, ok := cur.Node().(*ast.SelectorExpr); ok {
				if fv, hit := sels[sel]; hit {
					cur.Replace(ast.NewIdent(local[fv.Name()]))
					return false
				}
			}
			return true
		}, nil)
		// rebuild the statement list that held the declaration
		list := *cd.owner
		idx := -1
		for i, s := range list {
			if s == cd.stmt {
				idx = i
			}
		}
		if idx < 0 {
			panic("c16norm: declaration not found in its list")
		}
		varDecl := func(fn string, val ast.Expr) ast.Stmt {
			vs := &ast.ValueSpec{Names: []*ast.Ident{ast.NewIdent(local[fn])}, Type: typeExpr[fn]}
			if val != nil {
				vs.Values = []ast.Expr{val}
			}
			return &ast.DeclStmt{Decl: &ast.GenDecl{Tok: token.VAR, Specs: []ast.Spec{vs}}}
		}
		keep := func(fn string) ast.Stmt {
			return &ast.AssignStmt{Lhs: []ast.Expr{ast.NewIdent("_")}, Tok: token.ASSIGN, Rhs: []ast.Expr{ast.NewIdent(local[fn])}}
		}
		out := append([]ast.Stmt{}, list[:idx]...)
		pending := map[string]bool{}
		// fields given by the literal are evaluated where the literal stood, in its order
		for _, fn := range litOrder {
			out = append(out, varDecl(fn, litVal[fn]))
			if !read[fn] {
				out = append(out, keep(fn))
			}
		}
		for _, fn := range order {
			if _, inLit := litVal[fn]; !inLit {
				pending[fn] = true
			}
		}
		byLocal := map[string]string{}
		for fn, ln := range local {
			byLocal[ln] = fn
		}
		for _, s := range list[idx+1:] {
			// the fields this statement mentions first
			var first []string
			for _, fn := range order {
				if pending[fn] && c16MentionsName(s, local[fn]) {
					first = append(first, fn)
				}
			}
			if len(first) == 0 {
				out = append(out, s)
				continue
			}
			// `a, b = e` with every target a field that is first mentioned here: declare them by it
			defined := false
			if as, ok := s.(*ast.AssignStmt); ok && as.Tok == token.ASSIGN {
				okDef := true
				targets := map[string]bool{}
				for _, l := range as.Lhs {
					id, isID := l.(*ast.Ident)
					if !isID {
						okDef = false
						break
					}
					if id.Name == "_" {
						continue
					}
					fn, isField := byLocal[id.Name]
					if !isField || !pending[fn] || targets[fn] {
						okDef = false
						break
					}
					targets[fn] = true
				}
				for _, fn := range first {
					if !targets[fn] {
						okDef = false
					}
				}
				for _, r := range as.Rhs {
					for fn := range targets {
						if c16MentionsName(r, local[fn]) {
							okDef = false
						}
					}
				}
				// the declared type must be the type of the value
				if okDef {
					var rt []types.Type
					if len(as.Rhs) == len(as.Lhs) {
						for _, r := range as.Rhs {
							tv, has := info.Types[r]
							if !has || tv.Type == nil {
								okDef = false
								break
							}
							rt = append(rt, tv.Type)
						}
					} else if len(as.Rhs) == 1 {
						if tup, isT := info.TypeOf(as.Rhs[0]).(*types.Tuple); isT && tup.Len() == len(as.Lhs) {
							for k := 0; k < tup.Len(); k++ {
								rt = append(rt, tup.At(k).Type())
							}
						} else {
							okDef = false
						}
					} else {
						okDef = false
					}
					if okDef {
						for k, l := range as.Lhs {
							id := l.(*ast.Ident)
							if id.Name == "_" {
								continue
							}
							if !types.Identical(rt[k], ftype[byLocal[id.Name]]) {
								okDef = false
							}
						}
					}
				}
				if okDef && len(targets) > 0 {
					as.Tok = token.DEFINE
					out = append(out, as)
					for _, l := range as.Lhs {
						if id := l.(*ast.Ident); id.Name != "_" && !read[byLocal[id.Name]] {
							out = append(out, keep(byLocal[id.Name]))
						}
					}
					defined = true
				}
			}
			if !defined {
				for _, fn := range first {
					out = append(out, varDecl(fn, nil))
					if !read[fn] {
						out = append(out, keep(fn))
					}
				}
				out = append(out, s)
			}
			for _, fn := range first {
				delete(pending, fn)
			}
		}
		*cd.owner = out
		c.info("normalised: local struct %s of %s replaced by one local per field", cd.v.Name(), fd.Name.Name)
		return true
	}
	return false
}

// ---------------------------------------------------------------------------
// C. copy coalescing

func c16CoalesceCopies(c *Ctx, pk *packages.Package, file *ast.File, fd *ast.FuncDecl, counter *int) bool {
	info := pk.TypesInfo
	par := c.P.Parents(pk)
	// variables whose address is taken or that a closure mentions
	pinned := map[types.Object]bool{}
	ast.Inspect(fd.Body, func(n ast.Node) bool {
		switch t := n.(type) {
		case *ast.UnaryExpr:
			if t.Op == token.AND {
				if o := rootObj(info, t.X); o != nil {
					pinned[o] = true
				}
			}
		case *ast.FuncLit:
			ast.Inspect(t.Body, func(m ast.Node) bool {
				if id, ok := m.(*ast.Ident); ok {
					if o := info.Uses[id]; o != nil {
						pinned[o] = true
					}
				}
				return true
			})
		}
		return true
	})
	plain := func(t types.Type) bool {
		if n, ok := t.(*types.Named); ok && n.NumMethods() > 0 {
			return false
		}
		switch t.Underlying().(type) {
		case *types.Slice, *types.Basic, *types.Pointer, *types.Map:
			return true
		}
		return false
	}
	// the statement list a statement belongs to
	listOf := func(st ast.Stmt) []ast.Stmt {
		switch p := par[st].(type) {
		case *ast.BlockStmt:
			return p.List
		case *ast.CaseClause:
			return p.Body
		case *ast.CommClause:
			return p.Body
		}
		return nil
	}
	// a goto can take control anywhere; named results are read by every return
	hasGoto := false
	ast.Inspect(fd.Body, func(n ast.Node) bool {
		if b, ok := n.(*ast.BranchStmt); ok && b.Tok == token.GOTO {
			hasGoto = true
		}
		return true
	})
	if hasGoto {
		return false
	}
	if fd.Type.Results != nil {
		for _, f := range fd.Type.Results.List {
			for _, nm := range f.Names {
				if o := info.Defs[nm]; o != nil {
					pinned[o] = true
				}
			}
		}
	}
	// isDead: after statement st (element i of *owner), y is not mentioned again on the way out of its scope
	isDead := func(owner *[]ast.Stmt, i int, st ast.Stmt, y types.Object) bool {
		var after []ast.Stmt // everything that can still run inside y's scope, level by level
		for _, later := range (*owner)[i+1:] {
			if c16Mentions(info, later, y) {
				return false
			}
			after = append(after, later)
		}
		curList := *owner
		var holder ast.Node = par[st]
		for {
			declaredHere := holder == ast.Node(fd.Body)
			for _, s := range curList {
				if c16Declares(info, s, y) {
					declaredHere = true
				}
			}
			if declaredHere {
				return true
			}
			if c16Leaves(curList) {
				// the function is left from here, unless a break/continue takes another way out
				for _, s := range after {
					if c16EscapingBranch(s) {
						return false
					}
				}
				return true
			}
			// the statement (in a list) that encloses this list; no loop or closure may be crossed on the way
			var encl ast.Stmt
			for n := par[holder]; n != nil; n = par[n] {
				switch n.(type) {
				case *ast.ForStmt, *ast.RangeStmt, *ast.FuncLit, *ast.FuncDecl:
					return false
				}
				if s, isStmt := n.(ast.Stmt); isStmt && listOf(s) != nil {
					encl = s
					break
				}
			}
			if encl == nil {
				return false
			}
			curList = listOf(encl)
			holder = par[encl]
			seen := false
			for _, s := range curList {
				if seen {
					if c16Mentions(info, s, y) {
						return false
					}
					after = append(after, s)
				}
				if s == encl {
					seen = true
				}
			}
		}
	}
	done := false
	c16StmtLists(fd.Body, func(_ ast.Node, owner *[]ast.Stmt) {
		if done {
			return
		}
		for i, st := range *owner {
			as, ok := st.(*ast.AssignStmt)
			if !ok || as.Tok != token.DEFINE || len(as.Lhs) != len(as.Rhs) {
				continue
			}
			// x1, x2 := y1, y2 with distinct locals on the right (a blank target just discards)
			type pair struct{ x, y *types.Var }
			var pairs []pair
			okAll := true
			seenY := map[*types.Var]bool{}
			for k := range as.Lhs {
				xid, ok1 := as.Lhs[k].(*ast.Ident)
				yid, ok2 := unparen(as.Rhs[k]).(*ast.Ident)
				if !ok1 || !ok2 {
					okAll = false
					break
				}
				y, oky := c16IsLocalVar(pk, info.Uses[yid])
				if !oky || seenY[y] {
					okAll = false
					break
				}
				seenY[y] = true
				if xid.Name == "_" {
					continue
				}
				x, okx := c16IsLocalVar(pk, info.Defs[xid]) // (nil for a variable that := merely assigns)
				if !okx || x == y || pinned[x] || pinned[y] || !types.Identical(x.Type(), y.Type()) || !plain(y.Type()) {
					okAll = false
					break
				}
				pairs = append(pairs, pair{x, y})
			}
			if !okAll || len(pairs) == 0 {
				continue
			}
			for _, pr := range pairs {
				if !isDead(owner, i, st, pr.y) {
					okAll = false
				}
			}
			if !okAll {
				continue
			}
			// every use of x can see y
			var uses []*ast.Ident
			var to []string
			ast.Inspect(fd.Body, func(n ast.Node) bool {
				if id, ok := n.(*ast.Ident); ok {
					for _, pr := range pairs {
						if info.Uses[id] == types.Object(pr.x) {
							uses = append(uses, id)
							to = append(to, pr.y.Name())
							if !c16Visible(pk, id.Pos(), pr.y) {
								okAll = false
							}
						}
					}
				}
				return true
			})
			if !okAll {
				continue
			}
			for k, id := range uses {
				id.Name = to[k]
			}
			*owner = append(append([]ast.Stmt{}, (*owner)[:i]...), (*owner)[i+1:]...)
			c.info("normalised: copy %s in %s coalesced", types.ExprString(as.Lhs[0]), fd.Name.Name)
			done = true
			return
		}
	})
	return done
}

// c16Leaves: control cannot fall out of the end of the list, and does not continue anywhere in the function either
// (return / panic at the end, possibly on both arms of an if).
func c16Leaves(list []ast.Stmt) bool {
	if len(list) == 0 {
		return false
	}
	switch t := list[len(list)-1].(type) {
	case *ast.ReturnStmt:
		return true
	case *ast.BlockStmt:
		return c16Leaves(t.List)
	case *ast.ExprStmt:
		if call, ok := t.X.(*ast.CallExpr); ok {
			if id, ok := call.Fun.(*ast.Ident); ok && id.Name == "panic" {
				return true
			}
		}
	case *ast.IfStmt:
		if t.Else == nil {
			return false
		}
		return c16Leaves(t.Body.List) && c16Leaves([]ast.Stmt{t.Else})
	}
	return false
}

// c16EscapingBranch: does s contain a break/continue that leaves s (or any labelled branch)?
func c16EscapingBranch(s ast.Stmt) bool {
	found := false
	var visit func(n ast.Node, inLoop, inBreakable bool)
	visit = func(n ast.Node, inLoop, inBreakable bool) {
		ast.Inspect(n, func(m ast.Node) bool {
			if m == nil || found {
				return false
			}
			if m == n {
				return true
			}
			switch t := m.(type) {
			case *ast.FuncLit:
				return false
			case *ast.ForStmt, *ast.RangeStmt:
				visit(m, true, true)
				return false
			case *ast.SwitchStmt, *ast.TypeSwitchStmt, *ast.SelectStmt:
				visit(m, inLoop, true)
				return false
			case *ast.BranchStmt:
				switch {
				case t.Label != nil:
					found = true
				case t.Tok == token.BREAK && !inBreakable:
					found = true
				case t.Tok == token.CONTINUE && !inLoop:
					found = true
				case t.Tok == token.GOTO:
					found = true
				}
			}
			return true
		})
	}
	switch s.(type) {
	case *ast.ForStmt, *ast.RangeStmt:
		visit(s, true, true)
	case *ast.SwitchStmt, *ast.TypeSwitchStmt, *ast.SelectStmt:
		visit(s, false, true)
	case *ast.BranchStmt:
		return true
	default:
		visit(s, false, false)
	}
	return found
}

// c16Declares: does statement s itself (not a nested scope) declare o?
func c16Declares(info *types.Info, s ast.Stmt, o types.Object) bool {
	switch t := s.(type) {
	case *ast.AssignStmt:
		if t.Tok == token.DEFINE {
			for _, l := range t.Lhs {
				if id, ok := l.(*ast.Ident); ok && info.Defs[id] == o {
					return true
				}
			}
		}
	case *ast.DeclStmt:
		if gd, ok := t.Decl.(*ast.GenDecl); ok {
			for _, sp := range gd.Specs {
				if vs, ok := sp.(*ast.ValueSpec); ok {
					for _, nm := range vs.Names {
						if info.Defs[nm] == o {
							return true
						}
					}
				}
			}
		}
	case *ast.LabeledStmt:
		return c16Declares(info, t.Stmt, o)
	}
	return false
}
