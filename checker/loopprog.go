package main

// Loop progress (a structural necessary condition of "never hangs"): in a `for` loop with a
// condition, every path from the start of the body back to the condition must write something the
// condition reads — a variable of the condition is assigned / incremented, a field path of the condition
// is assigned, or a call is made that may change it (a method call on, or a call that is handed, the
// root object of a field path of the condition; conservative: such a call counts as progress). A path
// that returns to the condition with everything the condition reads untouched repeats forever, because
// the condition held at the start of the iteration and nothing it depends on has changed.
// (Conditions that read a channel, call a function with side effects, or read package-level state are
// left alone: the rule says nothing about them.)

import (
	"go/ast"
	"go/token"
	"go/types"

	"golang.org/x/tools/go/cfg"
)

// loopProgConsumesInput (optional, set by a property's own file): does CFG node n consume external input, so that
// the iteration has made progress although nothing the condition reads was written? (service loops)
var loopProgConsumesInput func(c *Ctx, fi *FuncInfo, n ast.Node) bool

type loopProgResult struct {
	loops, skipped, trivial int
}

func loopProgress(c *Ctx, rule string, funcs []*FuncInfo) loopProgResult {
	var res loopProgResult
	for _, fi := range funcs {
		if fi == nil || fi.Decl == nil || fi.Decl.Body == nil {
			continue
		}
		res.add(loopProgressBody(c, rule, fi, fi.Name, fi.Decl.Body, c.P.Graph(fi)))
		// function literals have their own graphs
		n := 0
		ast.Inspect(fi.Decl.Body, func(m ast.Node) bool {
			if lit, ok := m.(*ast.FuncLit); ok {
				n++
				name := fi.Name + "$" + itoa(n)
				res.add(loopProgressBody(c, rule, fi, name, lit.Body, c.P.GraphOfLit(fi.Pkg, name, lit)))
			}
			return true
		})
	}
	return res
}

func (r *loopProgResult) add(o loopProgResult) {
	r.loops += o.loops
	r.skipped += o.skipped
	r.trivial += o.trivial
}

func itoa(n int) string {
	if n == 0 {
		return "0"
	}
	s := ""
	for n > 0 {
		s = string(rune('0'+n%10)) + s
		n /= 10
	}
	return s
}

func loopProgressBody(c *Ctx, rule string, fi *FuncInfo, name string, body *ast.BlockStmt, g *FG) loopProgResult {
	var res loopProgResult
	if g == nil {
		return res
	}
	info := fi.Pkg.TypesInfo
	idx := 0
	inspectNoLit(body, func(m ast.Node) bool {
		fs, ok := m.(*ast.ForStmt)
		if !ok || fs.Cond == nil {
			return true
		}
		idx++
		// what the condition reads
		vars := map[types.Object]bool{}  // local variables read directly
		roots := map[types.Object]bool{} // root objects of field paths / indexed values
		opaque := false
		inspectNoLit(fs.Cond, func(x ast.Node) bool {
			switch t := x.(type) {
			case *ast.CallExpr:
				if c19IsBuiltin(info, t, "len", "cap", "min", "max") != "" {
					return true
				}
				if _, conv := c19IsConversion(info, t); conv {
					return true
				}
				fn := calleeOf(info, t)
				if fn == nil {
					opaque = true
					return false
				}
				// a call in the condition that may change state (scanner.Scan(), a channel-like Next()) is the
				// loop's own progress: only provable accessors (vt.width()) are looked through
				if mods, known := c19ModSet(c, fn, map[*types.Func]bool{}); !known || len(mods) != 0 {
					opaque = true
					return false
				}
				if sel, ok := t.Fun.(*ast.SelectorExpr); ok {
					if r := rootObj(info, sel.X); r != nil {
						roots[r] = true
					}
				}
				for _, a := range t.Args {
					if r := rootObj(info, a); r != nil {
						roots[r] = true
					}
				}
				return false
			case *ast.UnaryExpr:
				if t.Op == token.ARROW {
					opaque = true
					return false
				}
			case *ast.SelectorExpr:
				if _, isSel := info.Selections[t]; isSel {
					if r := rootObj(info, t); r != nil {
						roots[r] = true
					}
					return false
				}
			case *ast.IndexExpr:
				if r := rootObj(info, t.X); r != nil {
					roots[r] = true
				}
			case *ast.Ident:
				if v, ok := info.ObjectOf(t).(*types.Var); ok && !v.IsField() {
					if v.Parent() == fi.Pkg.Types.Scope() {
						opaque = true // package-level state: other goroutines / callees may change it
						return false
					}
					vars[v] = true
				}
			}
			return true
		})
		key := name + "/loop#" + itoa(idx) + " (" + types.ExprString(fs.Cond) + ") makes progress on every path"
		if opaque || (len(vars) == 0 && len(roots) == 0) {
			res.skipped++
			return true
		}
		writes := func(n ast.Node) bool {
			if loopProgConsumesInput != nil && loopProgConsumesInput(c, fi, n) {
				return true
			}
			return containsNode(n, func(x ast.Node) bool {
				switch t := x.(type) {
				case *ast.AssignStmt:
					for _, lh := range t.Lhs {
						if r := rootObj(info, lh); r != nil && (vars[r] || roots[r]) {
							// a := ... that declares a NEW variable of the same name is a different object; rootObj resolves objects, so this is a real write
							return true
						}
					}
				case *ast.IncDecStmt:
					if r := rootObj(info, t.X); r != nil && (vars[r] || roots[r]) {
						return true
					}
				case *ast.RangeStmt:
					for _, e := range []ast.Expr{t.Key, t.Value} {
						if e != nil {
							if r := rootObj(info, e); r != nil && (vars[r] || roots[r]) {
								return true
							}
						}
					}
				case *ast.UnaryExpr:
					if t.Op == token.AND {
						if r := rootObj(info, t.X); r != nil && (vars[r] || roots[r]) {
							return true // address taken: may be written through the pointer
						}
					}
				case *ast.CallExpr:
					if c19IsBuiltin(info, t, "len", "cap", "min", "max", "append", "copy", "delete") != "" {
						if c19IsBuiltin(info, t, "copy", "delete") != "" && len(t.Args) > 0 {
							if r := rootObj(info, t.Args[0]); r != nil && roots[r] {
								return true
							}
						}
						return false
					}
					if _, conv := c19IsConversion(info, t); conv {
						return false
					}
					// a call on / with a root object of the condition may change what the condition reads
					if sel, ok := t.Fun.(*ast.SelectorExpr); ok {
						if _, isSel := info.Selections[sel]; isSel {
							if r := rootObj(info, sel.X); r != nil && roots[r] {
								// an accessor (a repository method that provably writes nothing of its receiver) is not a write
								if fn := calleeOf(info, t); fn != nil {
									if mods, known := c19ModSet(c, fn, map[*types.Func]bool{}); known && len(mods) == 0 {
										return false
									}
								}
								return true
							}
						}
					}
					for _, a := range t.Args {
						if r := rootObj(info, a); r != nil && roots[r] {
							if _, isPtr := info.TypeOf(a).Underlying().(*types.Pointer); isPtr {
								return true
							}
							if _, isSl := info.TypeOf(a).Underlying().(*types.Slice); isSl {
								return true
							}
							if _, isMap := info.TypeOf(a).Underlying().(*types.Map); isMap {
								return true
							}
						}
					}
					// closures that capture a variable of the condition
					if lit, ok := t.Fun.(*ast.FuncLit); ok {
						_ = lit
						return true
					}
				case *ast.FuncLit:
					// a literal that mentions a condition variable may assign it when called
					hit := false
					ast.Inspect(t.Body, func(y ast.Node) bool {
						if id, ok := y.(*ast.Ident); ok {
							if o := info.ObjectOf(id); o != nil && (vars[o] || roots[o]) {
								hit = true
							}
						}
						return !hit
					})
					return hit
				}
				return false
			})
		}
		// blocks of this loop
		var bodyB, loopB *cfg.Block
		for _, b := range g.Blocks {
			if b.Stmt == ast.Stmt(fs) {
				switch b.Kind {
				case cfg.KindForBody:
					bodyB = b
				case cfg.KindForLoop:
					loopB = b
				}
			}
		}
		if bodyB == nil || loopB == nil {
			// `for cond {}` whose body never completes normally, or an unreachable loop
			c.okTrivial(rule, key, fs.Pos(), "the loop body never returns to the condition")
			res.trivial++
			return true
		}
		res.loops++
		// search: from the body entry to the condition block avoiding writes
		seen := map[*cfg.Block]bool{}
		var offending token.Pos
		var dfs func(b *cfg.Block) bool
		dfs = func(b *cfg.Block) bool {
			if b == loopB {
				return true
			}
			if seen[b] {
				return false
			}
			seen[b] = true
			for _, n := range b.Nodes {
				if writes(n) {
					return false
				}
			}
			for _, s := range b.Succs {
				if dfs(s) {
					if offending == token.NoPos && len(b.Nodes) > 0 {
						offending = b.Nodes[len(b.Nodes)-1].Pos()
					}
					return true
				}
			}
			return false
		}
		stuck := dfs(bodyB)
		where := ""
		if stuck && offending != token.NoPos {
			where = " (path through " + c.P.Pos(offending) + ")"
		}
		c.check(!stuck, rule, key, fs.Pos(), "every path from the body back to the condition writes something the condition reads",
			"there is a path from the start of the loop body back to the loop condition on which nothing the condition reads is written"+where+": once taken, the iteration repeats forever (the caller hangs, holding whatever locks it holds)")
		return true
	})
	return res
}

func init() {
	reg := func(prop, rule, clause string, min int, pkgs []string, only func(*FuncInfo) bool) {
		registerExtra(prop, func(c *Ctx) {
			c.Clauses = append(c.Clauses, rule+" "+clause)
			var fns []*FuncInfo
			for _, p := range pkgs {
				for _, fi := range c.P.FuncsIn(p) {
					if only == nil || only(fi) {
						fns = append(fns, fi)
					}
				}
			}
			r := loopProgress(c, rule, fns)
			c.expect(rule, min)
			// Non-vacuity of a rule that quantifies over EVERY conditional loop is "no loop was lost", not "as many
			// loops as the day the rule was written": merging duplicated loop nests into one parametrised loop
			// lowers the count without changing behaviour. The conditional `for` statements of the examined
			// functions are counted again, independently (over the declarations' syntax, function literals
			// included), and must all have been examined or explicitly left alone.
			total := 0
			for _, fi := range fns {
				if fi == nil || fi.Decl == nil || fi.Decl.Body == nil {
					continue
				}
				ast.Inspect(fi.Decl.Body, func(m ast.Node) bool {
					if fs, ok := m.(*ast.ForStmt); ok && fs.Cond != nil {
						total++
					}
					return true
				})
			}
			if got := r.loops + r.skipped + r.trivial; got != total {
				c.undecided(rule, "all conditional loops examined", 0, "%d conditional loops in the syntax, %d examined or left alone: the recogniser lost some", total, got)
			}
			c.info("%s: %d conditional loops examined, %d left alone (condition reads a channel, an opaque call or package-level state)", rule, r.loops, r.skipped)
		})
	}
	const what = "every conditional loop writes, on every path back to its condition, something the condition reads (no iteration can repeat forever)"
	reg("C05", "C05.j", "widgets/term: "+what, 1, []string{"widgets/term"}, nil)
	reg("C08", "C08.h", "ansi: "+what, 1, []string{"ansi"}, nil)
	reg("C16", "C16.j", "vxfw/text, vxfw/richtext: "+what, 1, []string{"vxfw/text", "vxfw/richtext"}, nil)
	reg("C17", "C17.i", "vxfw/textfield, widgets/textinput: "+what, 1, []string{"vxfw/textfield", "widgets/textinput"}, nil)
	reg("C19", "C19.k", "vxfw/list, widgets/list, widgets/pager, widgets/scrollbar: "+what, 1, []string{"vxfw/list", "widgets/list", "widgets/pager", "widgets/scrollbar"}, nil)
	reg("C14", "C14.e", "vxfw and its built-in widgets: "+what, 1, []string{"vxfw", "vxfw/text", "vxfw/richtext", "vxfw/center", "vxfw/button", "vxfw/list", "vxfw/textfield"}, nil)
	reg("C11", "C11.j", "window.go, screen.go, character.go: "+what, 1, []string{"vaxis"}, func(fi *FuncInfo) bool {
		f := fi.Pkg.Fset.Position(fi.Decl.Pos()).Filename
		for _, s := range []string{"/window.go", "/screen.go", "/character.go"} {
			if len(f) >= len(s) && f[len(f)-len(s):] == s {
				return true
			}
		}
		return false
	})
	reg("C20", "C20.q", "image.go: "+what, 1, []string{"vaxis"}, func(fi *FuncInfo) bool {
		f := fi.Pkg.Fset.Position(fi.Decl.Pos()).Filename
		s := "/image.go"
		return len(f) >= len(s) && f[len(f)-len(s):] == s
	})
}
