package main

// c11n — rule C11.n: Characters hands the segmenter the state that belongs to the string it passes.
//
// The text helpers place the Characters that vaxis.Characters cuts out of a string; "never splitting a cluster across
// cells" and "advance by each cluster's display width" therefore hold only if Characters returns whole grapheme
// clusters with their widths. Characters obtains them from uniseg, which is a resumable segmenter: a call returns
// (cluster, rest, width, state) and the state encodes what the segmenter already knows about the FIRST rune of that
// very rest. uniseg's contract: the state passed with a string is -1 (start afresh at a cluster boundary) or the state
// that was returned together with exactly this string. A state that belongs to another string (a state that was not
// advanced on some path through the loop, a state kept while the string was cut by hand) makes uniseg treat the next
// rune as something it is not: it is cut off as a cluster of its own with the wrong width and the combining marks that
// should join it become clusters of their own — one cluster ends up in two cells.
//
// Necessary conditions, for every input string:
//
//	n1 pairing   every segmenter call is given -1 or the state that the call which returned exactly this string returned
//	             with it (on every path from one segmenter call to the next the state variable is advanced together with
//	             the remaining input, continue paths included)
//	n2 clusters  the result is the sequence of the grapheme clusters of the input, in order, none lost, none cut, each
//	             with its display width; a tab contributes only blanks of width 1 (never a control character in a cell)
//	n3 progress  no panic, and the input is used up (the number of segmenter calls is bounded by the input length)
//
// How it is decided: nothing of /repo is built or run. The type-checked AST of Characters is evaluated by the checker's
// own evaluator (c18_interp.go) on every string of up to c11nMaxLen tokens over the alphabet of the property's
// quantifier — two narrow letters, a wide character, a combining mark, tab, LF and CR LF — with the uniseg functions
// replaced by their definition on that alphabet (UAX #29: GB3 CR x LF, GB4/5 break around controls, GB9 x Extend, break
// everywhere else; width of a cluster = width of its first rune). The model's states are tickets: each call returns a
// fresh one and remembers which string it came with; a call that presents a ticket together with another string is the
// violation of n1. The verdict does not depend on how Characters is written (loop form, loop-local or outer variables,
// table-driven tab expansion, helper functions, early continue or else), only on what it passes to the segmenter and
// what it returns; a construct the evaluator cannot follow is reported as undecided.

import (
	"fmt"
	"go/ast"
	"go/token"
	"go/types"
	"strconv"
	"strings"
)

func init() { registerExtra("C11", c11SegmenterState) }

const c11nMaxLen = 4

var c11nAlphabet = []string{"a", "b", "世", "\u0301", "\t", "\n", "\r\n"}

// c11nTokens splits s into tokens of the alphabet; ok=false if it contains anything else.
func c11nTokens(s string) (out []string, ok bool) {
	for len(s) > 0 {
		found := false
		// "\r\n" before anything shorter
		// (c, d and the space are not in the alphabet of C11.n; C11.o, which shares this model, uses them)
		for _, t := range []string{"\r\n", "a", "b", "c", "d", " ", "世", "\u0301", "\t", "\n"} {
			if strings.HasPrefix(s, t) {
				out, s, found = append(out, t), s[len(t):], true
				break
			}
		}
		if !found {
			return nil, false
		}
	}
	return out, true
}

func c11nIsControl(t string) bool { return t == "\t" || t == "\n" || t == "\r\n" }

func c11nTokWidth(t string) int {
	switch t {
	case "a", "b", "c", "d", " ":
		return 1
	case "世":
		return 2
	}
	return 0
}

// c11nFirstCluster: number of tokens in the first grapheme cluster of toks (len(toks) > 0) and its width.
func c11nFirstCluster(toks []string) (n, width int) {
	n, width = 1, c11nTokWidth(toks[0])
	if c11nIsControl(toks[0]) {
		return
	}
	for n < len(toks) && toks[n] == "\u0301" {
		n++
	}
	return
}

type c11nChar struct {
	g string
	w int
}

// c11nExpected: the clusters of s with their widths.
func c11nExpected(toks []string) []c11nChar {
	var out []c11nChar
	for len(toks) > 0 {
		n, w := c11nFirstCluster(toks)
		out = append(out, c11nChar{strings.Join(toks[:n], ""), w})
		toks = toks[n:]
	}
	return out
}

// c11nModel is the uniseg model of one run.
type c11nModel struct {
	tickets  map[int64]string // state -> the rest it was returned with
	next     int64
	calls    int
	limit    int
	pairing  string // first violation of n1
	runaway  bool
	lastCall token.Pos
	iters    map[*c18Val]*c11nIter
}

func (u *c11nModel) reset(limit int) {
	u.tickets = map[int64]string{}
	u.next = 1
	u.calls = 0
	u.limit = limit
	u.pairing = ""
	u.runaway = false
	u.iters = nil
}

func (u *c11nModel) ext(m *c18Machine, fr *c18Frame, full string, call *ast.CallExpr) (c18Val, bool) {
	const pkg = "github.com/rivo/uniseg."
	if !strings.HasPrefix(full, pkg) {
		return c18Val{}, false
	}
	name := strings.TrimPrefix(full, pkg)
	str := func(i int) string {
		v := m.eval(fr, call.Args[i])
		if v.k != c18Str {
			m.abort("%s on a string the evaluator does not know", full)
		}
		return v.s
	}
	switch name {
	case "StringWidth":
		toks, ok := c11nTokens(str(0))
		if !ok {
			// blanks (the tab expansion) and other printable ASCII: one cell each
			s := str(0)
			for i := 0; i < len(s); i++ {
				if s[i] < 0x20 || s[i] >= 0x7f {
					m.abort("uniseg.StringWidth(%q): not a text over the modelled alphabet", s)
				}
			}
			return c18IntV(int64(len(s))), true
		}
		w := 0
		for _, ch := range c11nExpected(toks) {
			w += ch.w
		}
		return c18IntV(int64(w)), true
	case "FirstGraphemeClusterInString", "StepString":
		s := str(0)
		st := m.eval(fr, call.Args[1])
		if st.k != c18Int {
			m.abort("%s with a state the evaluator does not know", full)
		}
		u.calls++
		u.lastCall = call.Pos()
		if u.calls > u.limit {
			u.runaway = true
			m.abort("segmenter called %d times", u.calls)
		}
		if s == "" {
			// uniseg: an empty string yields empty results
			return c18Val{k: c18Tuple, ref: []c18Val{c18StrV(""), c18StrV(""), c18IntV(0), c18IntV(-1)}}, true
		}
		toks, ok := c11nTokens(s)
		if !ok {
			m.abort("%s(%q): not a text over the modelled alphabet", full, s)
		}
		if st.i >= 0 && u.pairing == "" {
			if with, known := u.tickets[st.i]; !known {
				u.pairing = fmt.Sprintf("call %d is given %s with a state that no earlier call returned", u.calls, strconv.Quote(s))
			} else if with != s {
				u.pairing = fmt.Sprintf("call %d is given %s with the state that was returned together with %s", u.calls, strconv.Quote(s), strconv.Quote(with))
			}
		}
		n, w := c11nFirstCluster(toks)
		cluster, rest := strings.Join(toks[:n], ""), strings.Join(toks[n:], "")
		ticket := u.next
		u.next++
		u.tickets[ticket] = rest
		third := int64(w)
		if name == "StepString" {
			// boundaries: the width above uniseg.ShiftWidth (4); the low bits (line/word/sentence) are not modelled
			third = int64(w) << 4
		}
		return c18Val{k: c18Tuple, ref: []c18Val{c18StrV(cluster), c18StrV(rest), c18IntV(third), c18IntV(ticket)}}, true
	}
	// the iterator form: g := uniseg.NewGraphemes(s); for g.Next() { g.Str(), g.Width() } (the state lives inside
	// uniseg, there is nothing to pair)
	recvIter := func() *c11nIter {
		sel, ok := unparen(call.Fun).(*ast.SelectorExpr)
		if !ok {
			m.abort("%s: method value", full)
		}
		v := m.eval(fr, sel.X)
		if v.k != c18Ptr || u.iters[v.ptr()] == nil {
			m.abort("%s on an iterator the evaluator does not know", full)
		}
		return u.iters[v.ptr()]
	}
	switch name {
	case "NewGraphemes":
		s := str(0)
		toks, ok := c11nTokens(s)
		if !ok {
			m.abort("%s(%q): not a text over the modelled alphabet", full, s)
		}
		pt, isPtr := fr.info.TypeOf(call).(*types.Pointer)
		if !isPtr {
			return c18Val{}, false
		}
		target := c18Zero(pt.Elem())
		if u.iters == nil {
			u.iters = map[*c18Val]*c11nIter{}
		}
		u.iters[&target] = &c11nIter{all: toks, rest: toks}
		return c18PtrV(&target), true
	case "Graphemes.Next":
		it := recvIter()
		u.calls++
		u.lastCall = call.Pos()
		if u.calls > u.limit {
			u.runaway = true
			m.abort("segmenter called %d times", u.calls)
		}
		if len(it.rest) == 0 {
			it.cur = nil
			return c18BoolV(false), true
		}
		n, w := c11nFirstCluster(it.rest)
		it.cur = &c11nChar{strings.Join(it.rest[:n], ""), w}
		it.rest = it.rest[n:]
		return c18BoolV(true), true
	case "Graphemes.Str", "Graphemes.Width":
		it := recvIter()
		cur := c11nChar{}
		if it.cur != nil {
			cur = *it.cur
		}
		if name == "Graphemes.Str" {
			return c18StrV(cur.g), true
		}
		return c18IntV(int64(cur.w)), true
	case "Graphemes.Reset":
		it := recvIter()
		it.rest, it.cur = it.all, nil
		return c18Val{}, true
	}
	return c18Val{}, false
}

// c11nIter is the model of a *uniseg.Graphemes.
type c11nIter struct {
	all, rest []string
	cur       *c11nChar
}

type c11nFail struct {
	input string
	what  string
}

func c11SegmenterState(c *Ctx) {
	c.Clauses = append(c.Clauses, "C11.n Characters, evaluated on every string of up to 4 tokens over {two letters, wide character, combining mark, tab, LF, CR LF} with uniseg replaced by its definition on that alphabet: every segmenter call is given -1 or the state that was returned together with exactly the string it is given (the state is advanced with the remaining input on every path, continue paths included); the result is the sequence of whole clusters with their widths, a tab contributing only blanks of width 1; no panic and the input is used up")
	c.expect("C11.n", 3)
	fi := c.P.Func("vaxis.Characters")
	if fi == nil {
		c.undecided("C11.n", "vaxis.Characters", 0, "Characters not found")
		return
	}
	name := fi.Name
	u := &c11nModel{}
	m := newC18Machine(c.P)
	m.trace = false
	m.ext = u.ext
	m.extSegmenter = true

	rules := []struct{ id, what string }{
		{"n1", "every segmenter call is given -1 or the state returned together with the string it is given"},
		{"n2", "the result is the sequence of whole grapheme clusters with their widths (a tab gives blanks of width 1)"},
		{"n3", "no panic and the input is used up"},
	}
	fails := map[string]*c11nFail{}
	fail := func(id, input, format string, a ...any) {
		if fails[id] == nil {
			fails[id] = &c11nFail{input, fmt.Sprintf(format, a...)}
		}
	}
	var texts [][]string
	var gen func(cur []string, n int)
	gen = func(cur []string, n int) {
		if len(cur) == n {
			texts = append(texts, append([]string{}, cur...))
			return
		}
		for _, g := range c11nAlphabet {
			gen(append(cur, g), n)
		}
	}
	for n := 0; n <= c11nMaxLen; n++ {
		gen(nil, n)
	}
	undecided := ""
	runs, segCalls := 0, 0
	show := func(chs []c11nChar) string {
		var parts []string
		for _, ch := range chs {
			parts = append(parts, fmt.Sprintf("{%s %d}", strconv.Quote(ch.g), ch.w))
		}
		return "[" + strings.Join(parts, " ") + "]"
	}
	for _, toks := range texts {
		text := strings.Join(toks, "")
		input := strconv.Quote(text)
		// (two adjacent tokens "\r" "\n" cannot arise: CR only occurs inside the CR LF token)
		norm, _ := c11nTokens(text)
		want := c11nExpected(norm)
		u.reset(4*len(text) + 16)
		var ret []c18Val
		pmsg, amsg := m.protect(func() { ret = m.callFunc(fi, nil, []c18Val{c18StrV(text)}, false) })
		runs++
		segCalls += u.calls
		if u.pairing != "" {
			fail("n1", input, "%s [%s]: uniseg takes the first rune of the string for what the state says it is, so it is cut off as a cluster of its own with the wrong width and the marks that should join it become separate clusters", u.pairing, c.P.Pos(u.lastCall))
		}
		if u.runaway {
			fail("n3", input, "the segmenter is called more than %d times: the remaining input is not advanced by the calls", u.limit)
			continue
		}
		if amsg != "" {
			undecided = "on input " + input + ": " + amsg
			break
		}
		if pmsg != "" {
			fail("n3", input, "panics (%s)", pmsg)
			continue
		}
		if len(ret) != 1 {
			undecided = "on input " + input + ": not one result"
			break
		}
		var got []c11nChar
		switch ret[0].k {
		case c18Nil:
		case c18Slice:
			sl := ret[0].slice()
			for i := sl.lo; i < sl.hi && undecided == ""; i++ {
				el := (*sl.arr)[i]
				if el.k != c18Struct {
					undecided = "on input " + input + ": an element of the result is not a Character the evaluator knows"
					break
				}
				gf, wf := el.strct().fieldByName("Grapheme"), el.strct().fieldByName("Width")
				if gf == nil || wf == nil || gf.k != c18Str || wf.k != c18Int {
					undecided = "on input " + input + ": Grapheme or Width of a returned Character is not known to the evaluator"
					break
				}
				got = append(got, c11nChar{gf.s, int(wf.i)})
			}
		default:
			undecided = "on input " + input + ": the result is not a slice the evaluator knows"
		}
		if undecided != "" {
			break
		}
		// align: a tab cluster stands for a run of blanks of width 1
		j := 0
		mismatch := ""
		for _, w := range want {
			if w.g == "\t" {
				for j < len(got) && got[j] == (c11nChar{" ", 1}) {
					j++
				}
				continue
			}
			if j >= len(got) {
				mismatch = fmt.Sprintf("the cluster %s is missing", strconv.Quote(w.g))
				break
			}
			if got[j] != w {
				mismatch = fmt.Sprintf("Character %d is {%s %d} where the cluster {%s %d} is due", j, strconv.Quote(got[j].g), got[j].w, strconv.Quote(w.g), w.w)
				break
			}
			j++
		}
		if mismatch == "" && j < len(got) {
			mismatch = fmt.Sprintf("Character %d, {%s %d}, is no cluster of the input", j, strconv.Quote(got[j].g), got[j].w)
		}
		if mismatch != "" {
			fail("n2", input, "returns %s: %s (clusters of the input: %s)", show(got), mismatch, show(want))
		}
	}
	if undecided != "" {
		c.undecided("C11.n", name+"/evaluation", fi.Decl.Pos(), "Characters could not be evaluated %s", undecided)
		return
	}
	if segCalls == 0 {
		c.undecided("C11.n", name+"/segmenter", fi.Decl.Pos(), "no call of a modelled uniseg segmenter (FirstGraphemeClusterInString, StepString, Graphemes.Next) was evaluated: the rule cannot see how Characters finds cluster boundaries")
		return
	}
	for _, r := range rules {
		key := name + "/" + r.id + " " + r.what
		if f := fails[r.id]; f != nil {
			c.bad("C11.n", key, fi.Decl.Pos(), "on the input %s: %s", f.input, f.what)
		} else {
			c.ok("C11.n", key, fi.Decl.Pos(), "holds on all %d strings of up to %d tokens over {a, b, 世, U+0301, TAB, LF, CR LF} (%d segmenter calls)", runs, c11nMaxLen, segCalls)
		}
	}
}
