package main

// C20 — loop forms. A loop over all elements of a list may be written
//     for i, v := range X { ... }
//     for i := range X { v := X[i]; ... }
//     for i := 0; i < len(X); i++ { v := X[i]; ... }
// The rules are written for the first form; the other two are brought to it: an index loop is described by a
// synthetic *ast.RangeStmt (Key = the induction variable, X = the list, Body = the loop body; it is not part of
// the syntax tree), and a local defined once as X[i] at the top of the body is the element variable.

import (
	"fmt"
	"go/ast"
	"go/token"
	"go/types"
	"strings"

	"golang.org/x/tools/go/cfg"
)

var c20IndexLoopCache = map[*ast.ForStmt]*ast.RangeStmt{}

// c20AssignsIn: does body assign (or take the address of) the variable obj, or the access path id (or a prefix of it)?
func c20AssignsIn(info *types.Info, body ast.Node, obj types.Object, id string) bool {
	found := false
	hit := func(l ast.Expr) {
		l = unparen(l)
		if ident, ok := l.(*ast.Ident); ok && obj != nil && info.ObjectOf(ident) == obj {
			found = true
		}
		if id != "" {
			if t := termOf(info, l); t.ID == id || strings.HasPrefix(id, t.ID+".") {
				found = true
			}
		}
	}
	ast.Inspect(body, func(n ast.Node) bool {
		switch t := n.(type) {
		case *ast.AssignStmt:
			for _, l := range t.Lhs {
				hit(l)
			}
		case *ast.IncDecStmt:
			hit(t.X)
		case *ast.RangeStmt:
			if t.Tok == token.ASSIGN {
				if t.Key != nil {
					hit(t.Key)
				}
				if t.Value != nil {
					hit(t.Value)
				}
			}
		case *ast.UnaryExpr:
			if t.Op == token.AND {
				hit(t.X)
			}
		}
		return !found
	})
	return found
}

// c20IndexLoop: fs is `for i := 0; i < len(X); i++ { body }` with i and X not assigned in the body: the
// equivalent range statement (synthetic), or nil.
func c20IndexLoop(info *types.Info, fs *ast.ForStmt) *ast.RangeStmt {
	if rs, ok := c20IndexLoopCache[fs]; ok {
		return rs
	}
	c20IndexLoopCache[fs] = nil
	init, ok := fs.Init.(*ast.AssignStmt)
	if !ok || init.Tok != token.DEFINE || len(init.Lhs) != 1 || len(init.Rhs) != 1 {
		return nil
	}
	iid, ok := init.Lhs[0].(*ast.Ident)
	if !ok {
		return nil
	}
	if v, ok := constInt(info, init.Rhs[0]); !ok || v != 0 {
		return nil
	}
	iobj := info.Defs[iid]
	if iobj == nil {
		return nil
	}
	isI := func(e ast.Expr) bool {
		id, ok := unparen(e).(*ast.Ident)
		return ok && info.ObjectOf(id) == iobj
	}
	lenOf := func(e ast.Expr) ast.Expr {
		call, ok := unparen(e).(*ast.CallExpr)
		if !ok || len(call.Args) != 1 {
			return nil
		}
		if id, ok := call.Fun.(*ast.Ident); ok {
			if b, ok := info.Uses[id].(*types.Builtin); ok && b.Name() == "len" {
				return call.Args[0]
			}
		}
		return nil
	}
	cond, ok := unparen(fs.Cond).(*ast.BinaryExpr)
	if fs.Cond == nil || !ok {
		return nil
	}
	var X ast.Expr
	switch {
	case (cond.Op == token.LSS || cond.Op == token.NEQ) && isI(cond.X):
		X = lenOf(cond.Y)
	case (cond.Op == token.GTR || cond.Op == token.NEQ) && isI(cond.Y):
		X = lenOf(cond.X)
	}
	if X == nil {
		return nil
	}
	switch p := fs.Post.(type) {
	case *ast.IncDecStmt:
		if p.Tok != token.INC || !isI(p.X) {
			return nil
		}
	case *ast.AssignStmt:
		if p.Tok != token.ADD_ASSIGN || len(p.Lhs) != 1 || len(p.Rhs) != 1 || !isI(p.Lhs[0]) {
			return nil
		}
		if v, ok := constInt(info, p.Rhs[0]); !ok || v != 1 {
			return nil
		}
	default:
		return nil
	}
	xt := termOf(info, X)
	if strings.HasPrefix(xt.ID, "expr:") || strings.ContainsAny(xt.ID, "[(") {
		return nil
	}
	if _, isSlice := info.TypeOf(X).Underlying().(*types.Slice); !isSlice {
		return nil
	}
	if c20AssignsIn(info, fs.Body, iobj, xt.ID) {
		return nil
	}
	rs := &ast.RangeStmt{For: fs.For, Key: iid, Tok: token.DEFINE, X: X, Body: fs.Body}
	c20IndexLoopCache[fs] = rs
	return rs
}

// c20ElemLocal: the local variable defined once, at the top level of body, as X[key] (and never assigned again).
func c20ElemLocal(info *types.Info, body *ast.BlockStmt, X ast.Expr, key types.Object) types.Object {
	if key == nil || body == nil {
		return nil
	}
	xt := termOf(info, X)
	if strings.HasPrefix(xt.ID, "expr:") {
		return nil
	}
	isElem := func(e ast.Expr) bool {
		ix, ok := unparen(e).(*ast.IndexExpr)
		if !ok {
			return false
		}
		id, ok := unparen(ix.Index).(*ast.Ident)
		return ok && info.ObjectOf(id) == key && termOf(info, ix.X).ID == xt.ID
	}
	for _, s := range body.List {
		var name *ast.Ident
		switch t := s.(type) {
		case *ast.AssignStmt:
			if t.Tok == token.DEFINE && len(t.Lhs) == 1 && len(t.Rhs) == 1 && isElem(t.Rhs[0]) {
				name, _ = t.Lhs[0].(*ast.Ident)
			}
		case *ast.DeclStmt:
			if gd, ok := t.Decl.(*ast.GenDecl); ok && gd.Tok == token.VAR && len(gd.Specs) == 1 {
				if vs, ok := gd.Specs[0].(*ast.ValueSpec); ok && len(vs.Names) == 1 && len(vs.Values) == 1 && isElem(vs.Values[0]) {
					name = vs.Names[0]
				}
			}
		}
		if name == nil || name.Name == "_" {
			continue
		}
		obj := info.Defs[name]
		if obj == nil {
			continue
		}
		// assigned only by its definition
		n := 0
		ast.Inspect(body, func(m ast.Node) bool {
			switch t := m.(type) {
			case *ast.AssignStmt:
				for _, l := range t.Lhs {
					if id, ok := unparen(l).(*ast.Ident); ok && info.ObjectOf(id) == obj {
						n++
					}
				}
			case *ast.IncDecStmt:
				if id, ok := unparen(t.X).(*ast.Ident); ok && info.ObjectOf(id) == obj {
					n += 2
				}
			case *ast.UnaryExpr:
				if id, ok := unparen(t.X).(*ast.Ident); ok && t.Op == token.AND && info.ObjectOf(id) == obj {
					n += 2
				}
			}
			return true
		})
		if _, isDecl := s.(*ast.DeclStmt); (isDecl && n == 0) || (!isDecl && n == 1) {
			return obj
		}
	}
	return nil
}

// c20ListLoops: the loops of g over all elements of a list, in any of the three forms.
func c20ListLoops(g *FG, info *types.Info) []*c20Loop {
	var loops []*c20Loop
	for _, b := range g.Blocks {
		if len(b.Succs) != 2 {
			continue
		}
		switch b.Kind {
		case cfg.KindRangeLoop:
			rs, ok := b.Stmt.(*ast.RangeStmt)
			if !ok {
				continue
			}
			l := &c20Loop{head: b, rs: rs}
			if id, ok := rs.Value.(*ast.Ident); ok && id.Name != "_" {
				l.val = info.ObjectOf(id)
			} else if kid, ok := rs.Key.(*ast.Ident); ok && kid.Name != "_" {
				if key := info.ObjectOf(kid); key != nil && !c20AssignsIn(info, rs.Body, key, termOf(info, rs.X).ID) {
					l.val = c20ElemLocal(info, rs.Body, rs.X, key)
				}
			}
			loops = append(loops, l)
		case cfg.KindForLoop:
			fs, ok := b.Stmt.(*ast.ForStmt)
			if !ok {
				continue
			}
			if rs := c20IndexLoop(info, fs); rs != nil {
				l := &c20Loop{head: b, rs: rs}
				l.val = c20ElemLocal(info, fs.Body, rs.X, info.ObjectOf(rs.Key.(*ast.Ident)))
				loops = append(loops, l)
			}
		}
	}
	return loops
}

// registerIndexLoops: the index loops of g, by their init statement (the executor binds the induction variable
// to a range key there).
func (x *c20Exec) registerIndexLoops(g *FG) {
	if x.indexInit == nil {
		x.indexInit = map[ast.Node]*ast.RangeStmt{}
	}
	inspectNoLit(g.Body, func(n ast.Node) bool {
		if fs, ok := n.(*ast.ForStmt); ok {
			if rs := c20IndexLoop(x.info, fs); rs != nil {
				x.indexInit[fs.Init] = rs
			}
		}
		return true
	})
}

// elemOf: X[i] where i is the key of a loop over X is the element of that loop.
func (x *c20Exec) elemOf(st *c20State, t *ast.IndexExpr) *c20Val {
	idx := x.eval(st, t.Index)
	if idx.kind != "rangevar" || !idx.isKey || idx.rs == nil {
		return nil
	}
	a, b := x.pathTerm(idx.rs.X), x.pathTerm(t.X)
	if a.ID != b.ID || strings.HasPrefix(a.ID, "expr:") {
		return nil
	}
	ck := fmt.Sprintf("elem:%d", idx.id)
	if v, ok := st.memo[ck]; ok {
		return v
	}
	v := x.newVal(st, &c20Val{kind: "rangevar", disp: types.ExprString(t), rs: idx.rs, isKey: false, args: []*c20Val{idx}})
	st.memo[ck] = v
	return v
}
