package main

// C04.n — a critical section the recovering goroutine runs over a mutex of the shutdown path is panic-free
// or released by defer.
//
// "… back at its prior value once Close or Suspend returns … when the library's own input goroutine panics":
// the input goroutine recovers a panic and calls Close, which runs Suspend. The exit path takes mutexes
// (Suspend reads the user's cursor style under Vaxis.mu, the writer flushes under writer.mut, the parser is
// stopped under its own mutex). A panic unwinds the stack of the input goroutine; a mutex that was locked
// with an explicit Lock()…Unlock() pair (no defer) stays locked, and the recover handler — running on the
// very goroutine that owns it — blocks on it for good: the cursor style is not restored, console.Reset() is
// never reached, and every later Close returns at once because the closed flag is already set
// (seed C04_a_r10: `if len(seq.Parameters) > 3 { … seq.Parameters[4][0] }` between vx.mu.Lock() and
// vx.mu.Unlock() in the in-band resize report).
//
// Necessary condition decided here. Let G be a function body started with `go` that defers a handler which
// calls recover() itself and reaches Vaxis.Close / Vaxis.Suspend by static calls; let M be the mutexes
// (sync.Mutex / sync.RWMutex, identified by the field or variable that holds them) locked by anything the
// handler reaches; let S be every function body G reaches by static calls (function literals that are not
// started with `go` included). For every Lock()/RLock() of a mutex of M in S:
//   - walk the control-flow graph from the lock up to the first Unlock()/RUnlock() of that mutex or a
//     `defer …Unlock()` of it (after the defer a panic releases the mutex) — the section;
//   - every operation of the section that can panic is proven not to:
//       index / slice of a slice, string or array   → the length analysis of C03.a (engine E7, run here on a
//                                                     private collector, with the call-site facts of the
//                                                     decoding path) discharges it;
//       type assertion without the ok form           → never accepted;
//       integer division / remainder                 → constant non-zero divisor, or a dominating guard that
//                                                     excludes zero;
//       an explicit panic(...)                       → never accepted;
//       a static call into the repository            → the callee's whole body (and what it calls) is part of
//                                                     the section.
// A lock whose unlock is deferred before anything can panic discharges trivially (counted, so that turning the
// sections into defer-unlocked closures leaves the rule non-vacuous).
//
// Not decided: nil-pointer dereferences, writes to nil maps, close of a closed channel, panics inside
// external or dynamically dispatched callees, a Lock()/Unlock() hidden in a wrapper function (new wrappers are
// inlined by the global pre-pass).

import (
	"fmt"
	"go/ast"
	"go/token"
	"go/types"
	"sort"
	"strings"

	"golang.org/x/tools/go/packages"
)

func init() { registerExtra("C04", c04PanicFreeSections) }

type c04pUnit struct {
	pk   *packages.Package
	name string
	body *ast.BlockStmt
	g    *FG
	fi   *FuncInfo // nil for a function literal
}

type c04pWorld struct {
	c     *Ctx
	units []*c04pUnit
	seen  map[*ast.BlockStmt]*c04pUnit
	byFn  map[*types.Func]*c04pUnit

	exitMu map[types.Object]string // mutex identity -> who takes it on the exit path

	c03        *c03Env
	c03verdict map[string]*Obligation // pos|key -> C03.a obligation
	c03local   map[*ast.BlockStmt]map[string]*Obligation
}

// c04pMutexOp: call is X.Lock/RLock/Unlock/RUnlock of a sync mutex; obj identifies the mutex (field or variable).
func c04pMutexOp(info *types.Info, call *ast.CallExpr) (obj types.Object, op, disp string) {
	sel, ok := unparen(call.Fun).(*ast.SelectorExpr)
	if !ok {
		return nil, "", ""
	}
	fn := calleeOf(info, call)
	if fn == nil || fn.Pkg() == nil || fn.Pkg().Path() != "sync" {
		return nil, "", ""
	}
	sig, _ := fn.Type().(*types.Signature)
	if sig == nil || sig.Recv() == nil {
		return nil, "", ""
	}
	rn := typeName(sig.Recv().Type())
	if !strings.HasSuffix(rn, "Mutex") {
		return nil, "", ""
	}
	switch fn.Name() {
	case "Lock", "RLock", "Unlock", "RUnlock":
	default:
		return nil, "", ""
	}
	// embedded mutex: the selection goes through the embedded field
	if s, ok := info.Selections[sel]; ok && len(s.Index()) > 1 {
		t := s.Recv()
		var fld *types.Var
		for _, i := range s.Index()[:len(s.Index())-1] {
			if p, ok := t.Underlying().(*types.Pointer); ok {
				t = p.Elem()
			}
			st, ok := t.Underlying().(*types.Struct)
			if !ok || i >= st.NumFields() {
				fld = nil
				break
			}
			fld = st.Field(i)
			t = fld.Type()
		}
		if fld != nil {
			return fld, fn.Name(), typeName(s.Recv()) + "." + fld.Name()
		}
	}
	o, d := c04pMutexIdent(info, sel.X, 0)
	if o == nil {
		return nil, "", ""
	}
	return o, fn.Name(), d
}

func c04pMutexIdent(info *types.Info, e ast.Expr, depth int) (types.Object, string) {
	e = unparen(e)
	if depth > 4 {
		return nil, ""
	}
	switch t := e.(type) {
	case *ast.StarExpr:
		return c04pMutexIdent(info, t.X, depth+1)
	case *ast.UnaryExpr:
		if t.Op == token.AND {
			return c04pMutexIdent(info, t.X, depth+1)
		}
	case *ast.SelectorExpr:
		if o := info.Uses[t.Sel]; o != nil {
			d := canonPath(info, t)
			if d == "" {
				d = types.ExprString(t)
			}
			return o, d
		}
	case *ast.Ident:
		o := info.ObjectOf(t)
		v, ok := o.(*types.Var)
		if !ok {
			return nil, ""
		}
		if v.Pkg() != nil && v.Parent() != v.Pkg().Scope() && !v.IsField() {
			if def := singleDefOf(info, v); def != nil {
				if oo, d := c04pMutexIdent(info, def, depth+1); oo != nil {
					return oo, d
				}
			}
		}
		return v, v.Name()
	}
	return nil, ""
}

func c04pIsRecover(info *types.Info, call *ast.CallExpr) bool {
	id, ok := unparen(call.Fun).(*ast.Ident)
	if !ok {
		return false
	}
	b, ok := info.Uses[id].(*types.Builtin)
	return ok && b.Name() == "recover"
}

func c04pIsPanic(info *types.Info, call *ast.CallExpr) bool {
	id, ok := unparen(call.Fun).(*ast.Ident)
	if !ok {
		return false
	}
	b, ok := info.Uses[id].(*types.Builtin)
	return ok && b.Name() == "panic"
}

// c04pBodyOf: the body a go / defer statement runs (literal or repository function).
func (w *c04pWorld) bodyOf(pk *packages.Package, call *ast.CallExpr) (*packages.Package, *ast.BlockStmt, *ast.FuncLit, *FuncInfo) {
	if lit, ok := unparen(call.Fun).(*ast.FuncLit); ok {
		return pk, lit.Body, lit, nil
	}
	if fn := calleeOf(pk.TypesInfo, call); fn != nil {
		if fi := w.c.P.FuncOfObj(fn); fi != nil && fi.Decl.Body != nil {
			return fi.Pkg, fi.Decl.Body, nil, fi
		}
	}
	return nil, nil, nil, nil
}

// handlerReach: functions reached by static calls from a body.
func (w *c04pWorld) reachFrom(pk *packages.Package, body *ast.BlockStmt) map[string]bool {
	out := map[string]bool{}
	ast.Inspect(body, func(n ast.Node) bool {
		if call, ok := n.(*ast.CallExpr); ok {
			if fn := calleeOf(pk.TypesInfo, call); fn != nil {
				if fi := w.c.P.FuncOfObj(fn); fi != nil {
					for k := range staticReach(w.c.P, fi) {
						out[k] = true
					}
				}
			}
		}
		return true
	})
	return out
}

func (w *c04pWorld) addUnit(pk *packages.Package, name string, body *ast.BlockStmt, lit *ast.FuncLit, fi *FuncInfo) {
	if body == nil || w.seen[body] != nil {
		return
	}
	u := &c04pUnit{pk: pk, name: name, body: body, fi: fi}
	if fi != nil {
		u.g = w.c.P.Graph(fi)
		w.byFn[fi.Obj] = u
	} else {
		u.g = w.c.P.GraphOfLit(pk, name, lit)
	}
	w.seen[body] = u
	w.units = append(w.units, u)
	nlit := 0
	ast.Inspect(body, func(n ast.Node) bool {
		switch t := n.(type) {
		case *ast.GoStmt:
			// another goroutine: its panics are not this handler's; the arguments are evaluated here
			for _, a := range t.Call.Args {
				ast.Inspect(a, func(m ast.Node) bool {
					if call, ok := m.(*ast.CallExpr); ok {
						if fn := calleeOf(pk.TypesInfo, call); fn != nil {
							if cf := w.c.P.FuncOfObj(fn); cf != nil && cf.Decl.Body != nil {
								w.addUnit(cf.Pkg, cf.Name, cf.Decl.Body, nil, cf)
							}
						}
					}
					return true
				})
			}
			return false
		case *ast.FuncLit:
			nlit++
			w.addUnit(pk, fmt.Sprintf("%s$%d", name, nlit), t.Body, t, nil)
			return false
		case *ast.CallExpr:
			if fn := calleeOf(pk.TypesInfo, t); fn != nil {
				if cf := w.c.P.FuncOfObj(fn); cf != nil && cf.Decl.Body != nil {
					w.addUnit(cf.Pkg, cf.Name, cf.Decl.Body, nil, cf)
				}
			}
		}
		return true
	})
}

// c03 verdicts -----------------------------------------------------------------------------------------------

func (w *c04pWorld) shadow() *Ctx {
	return &Ctx{Prop: "C04", P: w.c.P, counts: map[string]int{}, minima: map[string]int{}}
}

func (w *c04pWorld) setupC03() {
	sc := w.shadow()
	x := &c03Env{c: sc}
	x.pk = w.c.P.Pkg("vaxis")
	if x.pk == nil {
		return
	}
	x.info = x.pk.TypesInfo
	x.par = w.c.P.Parents(x.pk)
	x.handle = w.c.P.Func("vaxis.(*Vaxis).handleSequence")
	x.openFi = w.c.P.Func("vaxis.(*Vaxis).openTty")
	if ap := w.c.P.Pkg("ansi"); ap != nil {
		if tn, ok := ap.Types.Scope().Lookup("CSI").(*types.TypeName); ok {
			if st, ok := tn.Type().Underlying().(*types.Struct); ok {
				for i := 0; i < st.NumFields(); i++ {
					if st.Field(i).Name() == "Parameters" {
						x.csiParams = st.Field(i)
					}
				}
			}
		}
	}
	w.c03 = x
	w.c03verdict = map[string]*Obligation{}
	if x.handle != nil {
		x.ruleA()
		for _, o := range sc.Obs {
			if o.Rule == "C03.a" {
				c04pWorse(w.c03verdict, o)
			}
		}
	}
}

func c04pWorse(m map[string]*Obligation, o *Obligation) {
	k := o.Pos + "|" + o.Key
	if old, ok := m[k]; ok {
		rank := map[Status]int{Discharged: 0, Undecided: 1, Violated: 2}
		if rank[old.Status] >= rank[o.Status] {
			return
		}
	}
	m[k] = o
}

// seqVerdict: the C03.a verdict for an index / slice expression of unit u.
func (w *c04pWorld) seqVerdict(u *c04pUnit, e ast.Expr) *Obligation {
	ctx := ""
	if w.c03 != nil {
		ctx = w.c03.ctxOf(u.pk)(e)
	}
	if ctx != "" {
		ctx = "[" + ctx + "] "
	}
	k := w.c.P.Pos(e.Pos()) + "|C03.a/" + u.name + "/" + ctx + types.ExprString(e)
	if w.c03verdict != nil {
		if o := w.c03verdict[k]; o != nil {
			return o
		}
	}
	// the unit is not part of the decoding path C03.a covers: run the engine on this body alone
	loc := w.c03local[u.body]
	if loc == nil {
		loc = map[string]*Obligation{}
		w.c03local[u.body] = loc
		sc := w.shadow()
		var csi *types.Var
		if w.c03 != nil {
			csi = w.c03.csiParams
		}
		a := newC03Len(sc, u.pk, u.name, u.body, u.g, csi)
		a.wantIndex = true
		if w.c03 != nil {
			a.ctxOf = w.c03.ctxOf(u.pk)
		}
		a.run()
		for _, o := range sc.Obs {
			if o.Rule == "C03.a" {
				c04pWorse(loc, o)
			}
		}
	}
	return loc[k]
}

// operations -------------------------------------------------------------------------------------------------

type c04pFinding struct {
	pos    token.Pos
	what   string
	status Status
	why    string
}

// commaOK: the type assertion is the sole right-hand side of a two-value assignment / declaration.
func c04pCommaOK(par map[ast.Node]ast.Node, ta *ast.TypeAssertExpr) bool {
	var n ast.Node = ta
	for {
		p := par[n]
		if pe, ok := p.(*ast.ParenExpr); ok {
			n = pe
			continue
		}
		switch t := p.(type) {
		case *ast.AssignStmt:
			return len(t.Lhs) == 2 && len(t.Rhs) == 1
		case *ast.ValueSpec:
			return len(t.Names) == 2 && len(t.Values) == 1
		}
		return false
	}
}

// opsOfNode appends what can panic in the CFG node n of unit u (function literals are their own units; they
// run only when called).
func (w *c04pWorld) opsOfNode(u *c04pUnit, loc Loc, n ast.Node, active map[*ast.BlockStmt]bool, depth int, out *[]c04pFinding) {
	info := u.pk.TypesInfo
	par := w.c.P.Parents(u.pk)
	inspectNoLit(n, func(m ast.Node) bool {
		switch t := m.(type) {
		case *ast.IndexExpr:
			kind, _ := c03SeqLike(info.TypeOf(t.X))
			if kind == "" {
				return true
			}
			if kind == "array" {
				if _, ok := constInt(info, t.Index); ok {
					return true
				}
			}
			w.seqFinding(u, t, out)
		case *ast.SliceExpr:
			if kind, _ := c03SeqLike(info.TypeOf(t.X)); kind != "" {
				w.seqFinding(u, t, out)
			}
		case *ast.TypeAssertExpr:
			if t.Type == nil || c04pCommaOK(par, t) {
				return true
			}
			*out = append(*out, c04pFinding{t.Pos(), types.ExprString(t), Violated, "a type assertion without the ok form panics when the dynamic type differs"})
		case *ast.BinaryExpr:
			if t.Op == token.QUO || t.Op == token.REM {
				w.divFinding(u, loc, t.Y, t, out)
			}
		case *ast.AssignStmt:
			if (t.Tok == token.QUO_ASSIGN || t.Tok == token.REM_ASSIGN) && len(t.Rhs) == 1 {
				w.divFinding(u, loc, t.Rhs[0], t, out)
			}
		case *ast.CallExpr:
			if c04pIsPanic(info, t) {
				*out = append(*out, c04pFinding{t.Pos(), "panic(…)", Violated, "an explicit panic"})
				return true
			}
			fn := calleeOf(info, t)
			if fn == nil {
				return true
			}
			cf := w.c.P.FuncOfObj(fn)
			if cf == nil || cf.Decl.Body == nil || active[cf.Decl.Body] {
				return true
			}
			if depth >= 6 {
				*out = append(*out, c04pFinding{t.Pos(), "call of " + cf.Name, Undecided, "call depth exceeded while following the section into callees"})
				return true
			}
			w.opsOfCallee(cf, active, depth+1, t.Pos(), out)
		}
		return true
	})
}

func (w *c04pWorld) seqFinding(u *c04pUnit, e ast.Expr, out *[]c04pFinding) {
	o := w.seqVerdict(u, e)
	what := types.ExprString(e)
	switch {
	case o == nil:
		*out = append(*out, c04pFinding{e.Pos(), what, Undecided, "the length analysis has no verdict for this expression"})
	case o.Status == Discharged:
		*out = append(*out, c04pFinding{e.Pos(), what, Discharged, o.Reason})
	default:
		*out = append(*out, c04pFinding{e.Pos(), what, o.Status, o.Reason})
	}
}

func (w *c04pWorld) divFinding(u *c04pUnit, loc Loc, y ast.Expr, whole ast.Node, out *[]c04pFinding) {
	info := u.pk.TypesInfo
	if !isIntegerExpr(info, y) {
		return // floating point division does not panic
	}
	what := "division by " + types.ExprString(y)
	if tv, ok := info.Types[y]; ok && tv.Value != nil {
		*out = append(*out, c04pFinding{whole.Pos(), what, Discharged, "constant non-zero divisor"})
		return
	}
	if loc.B != nil {
		facts := u.g.FactsAt(loc)
		t, k := linForm(info, y)
		// y = t + k; y >= 1  <=>  0 - t <= k-1 ; y <= -1 <=> t - 0 <= -1-k
		if impliesLin(facts, Term{}, t, k-1) || impliesLin(facts, t, Term{}, -1-k) {
			*out = append(*out, c04pFinding{whole.Pos(), what, Discharged, "a dominating guard excludes zero"})
			return
		}
		for _, f := range facts {
			if f.Kind == "ne" && f.A.ID == t.ID && f.B.ID == "" && f.K == -k {
				*out = append(*out, c04pFinding{whole.Pos(), what, Discharged, "a dominating guard excludes zero"})
				return
			}
		}
	}
	*out = append(*out, c04pFinding{whole.Pos(), what, Violated, "an integer division whose divisor is not shown to be non-zero panics on zero"})
}

// opsOfCallee: the whole body of a callee runs inside the caller's section.
func (w *c04pWorld) opsOfCallee(cf *FuncInfo, active map[*ast.BlockStmt]bool, depth int, at token.Pos, out *[]c04pFinding) {
	w.addUnit(cf.Pkg, cf.Name, cf.Decl.Body, nil, cf)
	u := w.seen[cf.Decl.Body]
	if u == nil || u.g == nil {
		return
	}
	active[cf.Decl.Body] = true
	defer delete(active, cf.Decl.Body)
	var sub []c04pFinding
	for _, b := range u.g.Blocks {
		for i, n := range b.Nodes {
			w.opsOfNode(u, Loc{b, i}, n, active, depth, &sub)
		}
	}
	for _, f := range sub {
		if f.status == Discharged {
			*out = append(*out, f)
			continue
		}
		f.what = f.what + " in " + cf.Name
		*out = append(*out, f)
	}
}

// rule -------------------------------------------------------------------------------------------------------

func c04PanicFreeSections(c *Ctx) {
	c.Clauses = append(c.Clauses, "C04.n every Lock()…Unlock() section that the recovering input goroutine runs over a mutex the shutdown path (recover handler → Close → Suspend …) takes is either released by a deferred Unlock or free of operations that can panic: index/slice expressions are discharged by the length analysis of C03.a, type assertions use the ok form, integer divisors are shown non-zero, no explicit panic, callees included (a panic there leaves the mutex locked and Close blocks on it: nothing is restored)")
	c.NotDec = append(c.NotDec, "C04.n: nil-pointer dereferences, writes to nil maps, channel close/send panics, panics inside external or dynamically dispatched callees within a critical section")
	c.expect("C04.n", 2)
	w := &c04pWorld{c: c, seen: map[*ast.BlockStmt]*c04pUnit{}, byFn: map[*types.Func]*c04pUnit{}, exitMu: map[types.Object]string{}, c03local: map[*ast.BlockStmt]map[string]*Obligation{}}

	// 1. recovering goroutines whose handler reaches Close / Suspend
	type root struct {
		pk    *packages.Package
		name  string
		body  *ast.BlockStmt
		lit   *ast.FuncLit
		fi    *FuncInfo
		reach map[string]bool
		pos   token.Pos
	}
	var roots []root
	// a body is a root when it defers the handler itself: whatever it runs is recovered there (the body started
	// with `go`, or a loop function that body calls)
	consider := func(pk *packages.Package, name string, body *ast.BlockStmt, lit *ast.FuncLit, bfi *FuncInfo) {
		var reach map[string]bool
		inspectNoLit(body, func(m ast.Node) bool {
			ds, ok := m.(*ast.DeferStmt)
			if !ok {
				return true
			}
			hpk, hbody, _, _ := w.bodyOf(pk, ds.Call)
			if hbody == nil {
				return true
			}
			rec := false
			inspectNoLit(hbody, func(k ast.Node) bool {
				if call, ok := k.(*ast.CallExpr); ok && c04pIsRecover(hpk.TypesInfo, call) {
					rec = true
				}
				return true
			})
			if !rec {
				return true
			}
			r := w.reachFrom(hpk, hbody)
			if r["vaxis.(*Vaxis).Close"] || r["vaxis.(*Vaxis).Suspend"] {
				if reach == nil {
					reach = map[string]bool{}
				}
				for k := range r {
					reach[k] = true
				}
			}
			return true
		})
		if reach != nil {
			roots = append(roots, root{pk, name, body, lit, bfi, reach, body.Pos()})
		}
	}
	for _, fi := range c.P.AllFuncs() {
		if fi.Decl.Body == nil {
			continue
		}
		consider(fi.Pkg, fi.Name, fi.Decl.Body, nil, fi)
		nlit := 0
		var lits func(n ast.Node, prefix string)
		lits = func(n ast.Node, prefix string) {
			ast.Inspect(n, func(m ast.Node) bool {
				if fl, ok := m.(*ast.FuncLit); ok && m != n {
					nlit++
					name := fmt.Sprintf("%s$%d", prefix, nlit)
					consider(fi.Pkg, name, fl.Body, fl, nil)
					lits(fl.Body, name)
					return false
				}
				return true
			})
		}
		lits(fi.Decl.Body, fi.Name)
	}
	if len(roots) == 0 {
		c.undecided("C04.n", "vaxis/recovering goroutine", 0, "no goroutine with a deferred recover handler that reaches Close or Suspend was found: the clause `restored when the input goroutine panics` has no anchor")
		return
	}

	// 2. mutexes of the exit path
	for _, r := range roots {
		var names []string
		for n := range r.reach {
			names = append(names, n)
		}
		sort.Strings(names)
		for _, n := range names {
			fi := c.P.Func(n)
			if fi == nil || fi.Decl.Body == nil {
				continue
			}
			info := fi.Pkg.TypesInfo
			ast.Inspect(fi.Decl.Body, func(m ast.Node) bool {
				if call, ok := m.(*ast.CallExpr); ok {
					if o, op, _ := c04pMutexOp(info, call); o != nil && (op == "Lock" || op == "RLock") {
						if _, ok := w.exitMu[o]; !ok {
							w.exitMu[o] = fi.Name
						}
					}
				}
				return true
			})
		}
	}
	if len(w.exitMu) == 0 {
		c.okTrivial("C04.n", "vaxis/exit path takes no mutex", 0, "nothing reached from the recover handler locks a mutex")
		return
	}

	// 3. what the goroutine runs
	for _, r := range roots {
		w.addUnit(r.pk, r.name, r.body, r.lit, r.fi)
	}
	w.setupC03()

	// 4. sections
	type obl struct {
		pos    token.Pos
		status Status
		why    []string
	}
	obs := map[string]*obl{}
	var order []string
	put := func(key string, pos token.Pos, st Status, why string) {
		o := obs[key]
		if o == nil {
			o = &obl{pos: pos, status: Discharged}
			obs[key] = o
			order = append(order, key)
		}
		rank := map[Status]int{Discharged: 0, Undecided: 1, Violated: 2}
		if rank[st] > rank[o.status] {
			o.status = st
			o.pos = pos
			o.why = nil
		}
		if st == o.status && why != "" {
			o.why = append(o.why, why)
		}
	}
	for ui := 0; ui < len(w.units); ui++ { // units may grow while callees are followed
		u := w.units[ui]
		if u.g == nil {
			continue
		}
		info := u.pk.TypesInfo
		ctxOf := func(n ast.Node) string { return "" }
		if w.c03 != nil {
			ctxOf = w.c03.ctxOf(u.pk)
		}
		hits := u.g.Find(func(n ast.Node) bool {
			call, ok := n.(*ast.CallExpr)
			if !ok {
				return false
			}
			o, op, _ := c04pMutexOp(info, call)
			return o != nil && (op == "Lock" || op == "RLock") && w.exitMu[o] != ""
		})
		for _, h := range hits {
			switch h.Top.(type) {
			case *ast.DeferStmt, *ast.GoStmt:
				continue
			}
			mu, _, disp := c04pMutexOp(info, h.Node.(*ast.CallExpr))
			ctx := ctxOf(h.Node)
			if ctx != "" {
				ctx = "[" + ctx + "] "
			}
			key := u.name + "/" + ctx + disp + " section"
			isUnlock := func(n ast.Node) (plain, deferred bool) {
				if ds, ok := n.(*ast.DeferStmt); ok {
					found := false
					ast.Inspect(ds, func(m ast.Node) bool {
						if call, ok := m.(*ast.CallExpr); ok {
							if o, op, _ := c04pMutexOp(info, call); o == mu && (op == "Unlock" || op == "RUnlock") {
								found = true
							}
						}
						return true
					})
					return false, found
				}
				if _, ok := n.(*ast.GoStmt); ok {
					return false, false
				}
				found := false
				inspectNoLit(n, func(m ast.Node) bool {
					if call, ok := m.(*ast.CallExpr); ok {
						if o, op, _ := c04pMutexOp(info, call); o == mu && (op == "Unlock" || op == "RUnlock") {
							found = true
						}
					}
					return true
				})
				return found, false
			}
			var finds []c04pFinding
			nodes, sawDefer, sawPlain := 0, false, false
			active := map[*ast.BlockStmt]bool{u.body: true}
			u.g.walk(Loc{h.B, h.Idx + 1}, func(l Loc, n ast.Node) bool {
				plain, deferred := isUnlock(n)
				if deferred {
					sawDefer = true
					return false
				}
				if plain {
					sawPlain = true
					return false
				}
				nodes++
				w.opsOfNode(u, l, n, active, 0, &finds)
				return true
			}, nil)
			nOK := 0
			for _, f := range finds {
				switch f.status {
				case Discharged:
					nOK++
				case Violated:
					put(key, f.pos, Violated, fmt.Sprintf("%s can panic between %s.Lock() and its Unlock() (%s); the unlock is not deferred, so the input goroutine's recover handler calls Close → %s with %s still held by the panicking goroutine itself and blocks for good: the terminal is not restored and later Close calls return at once", f.what, disp, f.why, w.exitMu[mu], disp))
				default:
					put(key, f.pos, Undecided, fmt.Sprintf("%s lies between %s.Lock() and its Unlock() (unlock not deferred) and is not shown to be panic-free: %s", f.what, disp, f.why))
				}
			}
			switch {
			case nodes == 0 && sawDefer && !sawPlain:
				put(key, h.Node.Pos(), Discharged, "the unlock is deferred right after the lock: a panic releases "+disp)
			default:
				put(key, h.Node.Pos(), Discharged, fmt.Sprintf("%d statement(s) in the section, %d operation(s) that could panic, all shown safe", nodes, nOK))
			}
		}
	}
	sort.Strings(order)
	for _, k := range order {
		o := obs[k]
		why := strings.Join(o.why, "; ")
		switch o.status {
		case Discharged:
			c.ok("C04.n", k, o.pos, "%s", why)
		case Violated:
			c.bad("C04.n", k, o.pos, "%s", why)
		default:
			c.undecided("C04.n", k, o.pos, "%s", why)
		}
	}
}
