package main

// C12 — writes whose bytes are a field of a read-only struct of sequences in the writing function itself.
//
// When a helper `writeColor(c, seqs colorSequences)` driven by a small table of sequences is inlined into its
// caller (gnorm.go), the caller is left with
//
//	seqs := fgSequences            // package-level struct of sequences, or a local struct literal
//	… vx.tw.Printf(seqs.brightSet, ps[0]-8) …
//
// The bytes of such a write are the field of the struct literal the base denotes (structLit: local literal,
// read-only package-level struct variable, or a copy of one), evaluated with the extractor's string evaluator;
// guards that test constant fields of the same struct (`seqs.short && ps[0] < 8`) are partially evaluated with
// them, as for a helper instantiated at a call site (c12_sites.go).

import (
	"go/ast"
	"go/constant"
	"go/types"
)

// c12GuardOverride: own guards of an emission after partial evaluation with the constant fields of its struct.
var c12GuardOverride map[*Emission][]Guard

// resolveStructField resolves e in place; dropped=true when its guards are constantly false under the struct's
// constant fields (the write cannot execute).
func (st *c12State) resolveStructField(e *Emission) (resolved, dropped bool) {
	if e.Resolved || e.FnName != e.Fn.Name {
		return false, false
	}
	fi := e.Fn
	info := fi.Pkg.TypesInfo
	sel, ok := c12StripConv(info, e.ArgExpr).(*ast.SelectorExpr)
	if !ok {
		return false, false
	}
	s, has := info.Selections[sel]
	if !has || s.Kind() != types.FieldVal || len(s.Index()) != 1 {
		return false, false
	}
	base := unparen(sel.X)
	if star, isStar := base.(*ast.StarExpr); isStar {
		base = unparen(star.X)
	}
	id, ok := base.(*ast.Ident)
	if !ok {
		return false, false
	}
	obj := info.ObjectOf(id)
	if obj == nil {
		return false, false
	}
	// receiver and parameters are bound per call site (expandSites)
	recv, params := c12ParamsOf(fi)
	if obj == recv {
		return false, false
	}
	for _, p := range params {
		if p == obj {
			return false, false
		}
	}
	cl := st.structLit(fi, id)
	if cl == nil {
		return false, false
	}
	// the literal may live in another file of the same package (package-level variable): same types.Info
	v, zero, okf := c12LitField(info, cl, sel.Sel.Name)
	if !okf {
		return false, false
	}
	var tmpls []string
	if zero {
		tmpls = []string{""}
	} else {
		vals, okv := st.strEvalOf(fi.Pkg).eval(v, nil)
		if !okv {
			return false, false
		}
		tmpls = vals
	}
	argIdx, isFmt, _, isSink := vaxisTerminalSink(fi.Pkg, e.Call, calleeOf(info, e.Call))
	if !isSink {
		return false, false
	}
	if isFmt {
		fse := st.strEvalOf(fi.Pkg)
		var all []string
		for _, t := range tmpls {
			all = append(all, fse.applyFormatAll(t, e.Call.Args[argIdx+1:], e.Call.Ellipsis.IsValid(), nil)...)
		}
		tmpls = all
	}
	// constant fields of the struct decide guards that test them
	site := &c12Site{caller: fi, g: e.G, loc: e.Loc, call: e.Call, params: map[types.Object]constant.Value{}, fields: map[c12FieldKey]constant.Value{}}
	if stt, isS := info.TypeOf(cl).Underlying().(*types.Struct); isS {
		for i := 0; i < stt.NumFields(); i++ {
			f := stt.Field(i)
			b, isB := f.Type().Underlying().(*types.Basic)
			if !isB {
				continue
			}
			fv, fzero, fok := c12LitField(info, cl, f.Name())
			if !fok {
				continue
			}
			if fzero {
				switch {
				case b.Info()&types.IsBoolean != 0:
					site.fields[c12FieldKey{obj, f.Name()}] = constant.MakeBool(false)
				case b.Info()&types.IsInteger != 0:
					site.fields[c12FieldKey{obj, f.Name()}] = constant.MakeInt64(0)
				case b.Info()&types.IsString != 0:
					site.fields[c12FieldKey{obj, f.Name()}] = constant.MakeString("")
				}
				continue
			}
			if tv, hasV := info.Types[fv]; hasV && tv.Value != nil {
				site.fields[c12FieldKey{obj, f.Name()}] = tv.Value
			}
		}
	}
	guards, reachable := site.simplifyGuards(e)
	if !reachable {
		return true, true
	}
	e.Templates, e.Resolved, e.Why = tmpls, true, ""
	if c12GuardOverride == nil {
		c12GuardOverride = map[*Emission][]Guard{}
	}
	c12GuardOverride[e] = guards
	return true, false
}
