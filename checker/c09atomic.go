package main

// sync/atomic on scalar struct fields for the concrete interpreter (c09vm): the interpreter is single-threaded, so the
// operations are their sequential meaning on the field the pointer names.

func init() {
	ptr := func(vm *c09vm, v any) *c09fieldptr {
		p, ok := v.(*c09fieldptr)
		if !ok || p == nil {
			vm.abort("atomic operand %T", v)
		}
		return p
	}
	for _, t := range []string{"Int32", "Int64", "Uint32", "Uint64"} {
		c09natives["sync/atomic.Load"+t] = func(vm *c09vm, _ any, a []any) []any {
			p := ptr(vm, a[0])
			return []any{p.s.f[p.name]}
		}
		c09natives["sync/atomic.Store"+t] = func(vm *c09vm, _ any, a []any) []any {
			p := ptr(vm, a[0])
			p.s.f[p.name] = a[1]
			return nil
		}
		c09natives["sync/atomic.Swap"+t] = func(vm *c09vm, _ any, a []any) []any {
			p := ptr(vm, a[0])
			old := p.s.f[p.name]
			p.s.f[p.name] = a[1]
			return []any{old}
		}
		c09natives["sync/atomic.CompareAndSwap"+t] = func(vm *c09vm, _ any, a []any) []any {
			p := ptr(vm, a[0])
			if vm.asInt(p.s.f[p.name], nil) == vm.asInt(a[1], nil) {
				p.s.f[p.name] = a[2]
				return []any{true}
			}
			return []any{false}
		}
		c09natives["sync/atomic.Add"+t] = func(vm *c09vm, _ any, a []any) []any {
			p := ptr(vm, a[0])
			n := vm.asInt(p.s.f[p.name], nil) + vm.asInt(a[1], nil)
			p.s.f[p.name] = n
			return []any{n}
		}
	}
}
