package main

// C05.i support: the index variable of the SGR loop may be advanced by a computed amount
// (`i += consumed`, `i += consumed - 1` under `consumed > 0`) after the duplicated colour blocks were
// extracted into a helper that returns how many parameters it consumed. The amount is shown to be >= 0
//   - by the guards in force where the update is executed, or
//   - because the variable is defined once, as a result of a repository function every return of which
//     gives a constant for that result (the minimum of the constants is used).

import (
	"go/ast"
	"go/token"
	"go/types"
)

func init() { c18NonNegExtra = c05NonNegAmount }

func c05NonNegAmount(c *Ctx, fi *FuncInfo, stmt *ast.AssignStmt, rhs ast.Expr) bool {
	info := fi.Pkg.TypesInfo
	t, k := linForm(info, rhs)
	if t.ID == "" {
		return k >= 0
	}
	// guards in force at the statement: 0 - t <= k
	if g := c.P.Graph(fi); g != nil {
		if loc, ok := g.Locate(stmt); ok {
			facts := c18Facts(g, loc, g.Guards(loc))
			if impliesLin(facts, Term{}, t, k) {
				return true
			}
		}
	}
	id, ok := unparen(c18StripAdd(rhs)).(*ast.Ident)
	if !ok {
		return false
	}
	v, ok := info.ObjectOf(id).(*types.Var)
	if !ok || v.IsField() {
		return false
	}
	vals, ok := c05ResultConsts(c, fi, v)
	if !ok {
		return false
	}
	// the constants the guards in force rule out (`if used == 0 { break }` before `i += used - 1`)
	var facts []Atom
	if g := c.P.Graph(fi); g != nil {
		if loc, ok := g.Locate(stmt); ok {
			facts = c18Facts(g, loc, g.Guards(loc))
		}
	}
	vt := termOf(info, id)
	n := 0
	for _, cv := range vals {
		if cv+k >= 0 {
			n++
			continue
		}
		if c05ConstExcluded(facts, vt, cv) {
			continue
		}
		n++
		if cv+k < 0 {
			return false
		}
	}
	return n > 0
}

// c05ConstExcluded: the facts (about t alone) are false when t has the value v.
func c05ConstExcluded(facts []Atom, t Term, v int64) bool {
	for _, a := range facts {
		var x int64
		switch {
		case a.A.ID == t.ID && a.B.ID == "":
			x = v
		case a.A.ID == "" && a.B.ID == t.ID:
			x = -v
		default:
			continue
		}
		switch a.Kind {
		case "lin":
			if !(x <= a.K) {
				return true
			}
		case "eq":
			if x != a.K {
				return true
			}
		case "ne":
			if x == a.K {
				return true
			}
		}
	}
	return false
}

// c05ResultConsts: v is a local defined exactly once, as the j-th result of a call of a repository function whose
// every return statement gives an integer constant for result j; returns those constants.
func c05ResultConsts(c *Ctx, fi *FuncInfo, v *types.Var) ([]int64, bool) {
	info := fi.Pkg.TypesInfo
	var call *ast.CallExpr
	idx, defs := -1, 0
	ast.Inspect(fi.Decl.Body, func(n ast.Node) bool {
		switch t := n.(type) {
		case *ast.AssignStmt:
			for i, l := range t.Lhs {
				lid, isId := unparen(l).(*ast.Ident)
				if isId && info.ObjectOf(lid) == v {
					defs++
					if (t.Tok == token.DEFINE || t.Tok == token.ASSIGN) && len(t.Rhs) == 1 && len(t.Lhs) > 1 {
						if cl, ok := unparen(t.Rhs[0]).(*ast.CallExpr); ok {
							call, idx = cl, i
						}
					} else if (t.Tok == token.DEFINE || t.Tok == token.ASSIGN) && len(t.Rhs) == len(t.Lhs) {
						if cl, ok := unparen(t.Rhs[i]).(*ast.CallExpr); ok {
							call, idx = cl, 0
						}
					} else {
						defs++
					}
				} else if !isId && rootObj(info, l) == v {
					defs += 2
				}
			}
		case *ast.ValueSpec:
			for _, nm := range t.Names {
				if info.Defs[nm] == v {
					defs += 2
				}
			}
		case *ast.IncDecStmt:
			if rootObj(info, t.X) == v {
				defs += 2
			}
		case *ast.RangeStmt:
			if (t.Key != nil && rootObj(info, t.Key) == v) || (t.Value != nil && rootObj(info, t.Value) == v) {
				defs += 2
			}
		case *ast.UnaryExpr:
			if t.Op == token.AND && rootObj(info, t.X) == v {
				defs += 2
			}
		}
		return true
	})
	if defs != 1 || call == nil {
		return nil, false
	}
	fn := calleeOf(info, call)
	if fn == nil {
		return nil, false
	}
	cf := c.P.FuncOfObj(fn)
	if cf == nil || cf.Decl.Body == nil {
		return nil, false
	}
	sig, _ := fn.Type().(*types.Signature)
	if sig == nil || idx >= sig.Results().Len() {
		return nil, false
	}
	cinfo := cf.Pkg.TypesInfo
	var vals []int64
	good := true
	inspectNoLit(cf.Decl.Body, func(m ast.Node) bool {
		rs, ok := m.(*ast.ReturnStmt)
		if !ok {
			return true
		}
		if len(rs.Results) != sig.Results().Len() {
			good = false // bare return of named results, or a forwarded call
			return true
		}
		cv, isConst := constInt(cinfo, rs.Results[idx])
		if !isConst {
			good = false
			return true
		}
		vals = append(vals, cv)
		return true
	})
	if !good || len(vals) == 0 {
		return nil, false
	}
	return vals, true
}
