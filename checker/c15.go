package main

// C15 — vxfw routing, focus and hover.
//
// Decided clauses (each a necessary condition visible on every path):
//   a  three-phase dispatch in focusHandler.handleEvent and mouseHandler.handleEvent:
//      capture loop ranges forward over the path / hit list and calls CaptureEvent on the ranged
//      element; one TargetPhase call on the focused widget / last hit, outside any loop, after
//      the capture loop; bubble loop runs i = len-2 .. 0 with BubblePhase; strict phase order;
//      every dispatch happens with consumeEvent known false (entry reset, consume test after each
//      handleCommand whose true edge never dispatches again); no early exit from the loops
//   b  command interpreter: every type of the Command declaration group has its own case in
//      App.handleCommand with the documented effect and no other flag; batches recurse
//      element-wise exactly once
//   c  focus change: unchanged => nothing; one FocusOut to the old widget, then focused = w,
//      then one FocusIn to w
//   d  hover ledger: MouseEnter/MouseLeave are sent only by mouseHandler methods that update
//      lastHits afterwards; update sends Leave to lastHits\hits, Enter to hits\lastHits and stores
//      hits; mouseExit closes every entry and empties the ledger; terminal FocusOut closes all
//   e  pending-command flags: every flag set by handleCommand is tested, and cleared before it is
//      tested again; quit is tested after every event before the loop blocks again
//   f  every command returned by a handler is passed to handleCommand exactly once before the
//      next dispatch / normal return
//   g  hit testing: containsPoint is the half-open rectangle test; hitTest records the widget
//      before its descendants, recurses only into children containing the point, with
//      child-relative coordinates (col with Col, row with Row)

import (
	"fmt"
	"go/ast"
	"go/token"
	"go/types"
	"os"
	"sort"
	"strings"

	"golang.org/x/tools/go/cfg"
	"golang.org/x/tools/go/packages"
)

func init() { register("C15", false, runC15) }

// ---------------------------------------------------------------------------
// shared helpers (also used by c16.go)

// c15Lin is a linear form  sum(co[t]*t) + k  over canonical terms (termOf IDs).
type c15Lin struct {
	co map[string]int64
	k  int64
}

var c15Disp = map[string]string{} // term id -> display
var c15NonNeg = map[string]bool{} // term id -> value is known >= 0 (unsigned type, len())

func c15Const(k int64) c15Lin { return c15Lin{co: map[string]int64{}, k: k} }
func c15TermLin(id, disp string, nonneg bool) c15Lin {
	c15Disp[id] = disp
	if nonneg {
		c15NonNeg[id] = true
	}
	return c15Lin{co: map[string]int64{id: 1}}
}

func (a c15Lin) add(b c15Lin, sign int64) c15Lin {
	out := c15Lin{co: map[string]int64{}, k: a.k + sign*b.k}
	for t, v := range a.co {
		out.co[t] = v
	}
	for t, v := range b.co {
		out.co[t] += sign * v
		if out.co[t] == 0 {
			delete(out.co, t)
		}
	}
	return out
}
func (a c15Lin) plus(k int64) c15Lin { return a.add(c15Const(k), 1) }
func (a c15Lin) neg() c15Lin         { return c15Const(0).add(a, -1) }

func (a c15Lin) vec() string {
	var ks []string
	for t, v := range a.co {
		ks = append(ks, fmt.Sprintf("%d*%s", v, t))
	}
	sort.Strings(ks)
	return strings.Join(ks, "+")
}
func (a c15Lin) canon() string { return fmt.Sprintf("%s%+d", a.vec(), a.k) }
func (a c15Lin) String() string {
	var ks []string
	for t, v := range a.co {
		d := c15Disp[t]
		if d == "" {
			d = t
		}
		switch v {
		case 1:
			ks = append(ks, "+"+d)
		case -1:
			ks = append(ks, "-"+d)
		default:
			ks = append(ks, fmt.Sprintf("%+d*%s", v, d))
		}
	}
	sort.Strings(ks)
	s := strings.TrimPrefix(strings.Join(ks, ""), "+")
	if a.k != 0 || s == "" {
		s += fmt.Sprintf("%+d", a.k)
	}
	return s
}

func c15IsUnsigned(t types.Type) bool {
	if t == nil {
		return false
	}
	b, ok := t.Underlying().(*types.Basic)
	return ok && b.Info()&types.IsUnsigned != 0
}

// c15LinOf decomposes an integer expression (+, -, unary -, constants,
// integer conversions, parentheses); anything else is one canonical term.
func c15LinOf(info *types.Info, e ast.Expr) c15Lin {
	e = unparen(e)
	if v, ok := constInt(info, e); ok {
		return c15Const(v)
	}
	switch t := e.(type) {
	case *ast.BinaryExpr:
		if t.Op == token.ADD {
			return c15LinOf(info, t.X).add(c15LinOf(info, t.Y), 1)
		}
		if t.Op == token.SUB {
			return c15LinOf(info, t.X).add(c15LinOf(info, t.Y), -1)
		}
	case *ast.UnaryExpr:
		if t.Op == token.SUB {
			return c15LinOf(info, t.X).neg()
		}
		if t.Op == token.ADD {
			return c15LinOf(info, t.X)
		}
	case *ast.CallExpr:
		if tv, ok := info.Types[t.Fun]; ok && tv.IsType() && len(t.Args) == 1 {
			if isIntegerExpr(info, t.Args[0]) {
				if b, ok := tv.Type.Underlying().(*types.Basic); ok && b.Info()&types.IsInteger != 0 {
					return c15LinOf(info, t.Args[0])
				}
			}
		}
	}
	tm := termOf(info, e)
	nonneg := c15IsUnsigned(info.TypeOf(e)) || strings.HasPrefix(tm.ID, "len(")
	return c15TermLin(tm.ID, tm.Disp, nonneg)
}

// c15F is a condition: and/or/not over atoms "lin <= 0" and opaque booleans.
type c15F struct {
	op   string // and | or | not | le | opaque | const
	a, b *c15F
	lin  c15Lin
	id   string
	val  bool
}

func c15Le(l c15Lin) *c15F { return &c15F{op: "le", lin: l} }

func c15Formula(info *types.Info, e ast.Expr) *c15F {
	e = unparen(e)
	if tv, ok := info.Types[e]; ok && tv.Value != nil {
		if b, ok := tv.Type.Underlying().(*types.Basic); ok && b.Info()&types.IsBoolean != 0 {
			return &c15F{op: "const", val: tv.Value.String() == "true"}
		}
	}
	switch t := e.(type) {
	case *ast.UnaryExpr:
		if t.Op == token.NOT {
			return &c15F{op: "not", a: c15Formula(info, t.X)}
		}
	case *ast.BinaryExpr:
		switch t.Op {
		case token.LAND:
			return &c15F{op: "and", a: c15Formula(info, t.X), b: c15Formula(info, t.Y)}
		case token.LOR:
			return &c15F{op: "or", a: c15Formula(info, t.X), b: c15Formula(info, t.Y)}
		case token.LSS, token.LEQ, token.GTR, token.GEQ, token.EQL, token.NEQ:
			if isIntegerExpr(info, t.X) && isIntegerExpr(info, t.Y) {
				x, y := c15LinOf(info, t.X), c15LinOf(info, t.Y)
				d := x.add(y, -1) // x - y
				switch t.Op {
				case token.LSS:
					return c15Le(d.plus(1))
				case token.LEQ:
					return c15Le(d)
				case token.GTR:
					return c15Le(d.neg().plus(1))
				case token.GEQ:
					return c15Le(d.neg())
				case token.EQL:
					return &c15F{op: "and", a: c15Le(d), b: c15Le(d.neg())}
				case token.NEQ:
					return &c15F{op: "or", a: c15Le(d.plus(1)), b: c15Le(d.neg().plus(1))}
				}
			}
			if t.Op == token.EQL || t.Op == token.NEQ {
				// b == true, false != b ...
				for _, pr := range [][2]ast.Expr{{t.X, t.Y}, {t.Y, t.X}} {
					if tv, ok := info.Types[pr[1]]; ok && tv.Value != nil {
						if bt, ok := tv.Type.Underlying().(*types.Basic); ok && bt.Info()&types.IsBoolean != 0 {
							f := c15Formula(info, pr[0])
							if (tv.Value.String() == "true") != (t.Op == token.EQL) {
								f = &c15F{op: "not", a: f}
							}
							return f
						}
					}
				}
				ids := []string{termOf(info, t.X).ID, termOf(info, t.Y).ID}
				sort.Strings(ids)
				f := &c15F{op: "opaque", id: "eq:" + ids[0] + "|" + ids[1]}
				if t.Op == token.NEQ {
					return &c15F{op: "not", a: f}
				}
				return f
			}
		}
	}
	return &c15F{op: "opaque", id: termOf(info, e).ID}
}

// c15Implied: do the assumptions (each "lin <= 0") imply l <= 0 ?
func c15Implied(l c15Lin, assume []c15Lin) bool {
	if len(l.co) == 0 {
		return l.k <= 0
	}
	v := l.vec()
	for _, a := range assume {
		if a.vec() == v && l.k <= a.k {
			return true
		}
	}
	// a single non-negative term: -t + k <= 0 holds for k <= 0
	if len(l.co) == 1 {
		for t, c := range l.co {
			if c == -1 && c15NonNeg[t] && l.k <= 0 {
				return true
			}
		}
	}
	// sum of two assumptions
	for i, a := range assume {
		for _, b := range assume[i+1:] {
			s := a.add(b, 1)
			if s.vec() == v && l.k <= s.k {
				return true
			}
		}
	}
	return false
}

// c15Eval: three-valued truth of f under the assumptions: +1 true, -1 false, 0 unknown.
func c15Eval(f *c15F, assume []c15Lin, opaque map[string]bool) int {
	switch f.op {
	case "const":
		if f.val {
			return 1
		}
		return -1
	case "le":
		if c15Implied(f.lin, assume) {
			return 1
		}
		if c15Implied(f.lin.neg().plus(1), assume) {
			return -1
		}
		return 0
	case "opaque":
		if v, ok := opaque[f.id]; ok {
			if v {
				return 1
			}
			return -1
		}
		return 0
	case "not":
		return -c15Eval(f.a, assume, opaque)
	case "and":
		x, y := c15Eval(f.a, assume, opaque), c15Eval(f.b, assume, opaque)
		if x == -1 || y == -1 {
			return -1
		}
		if x == 1 && y == 1 {
			return 1
		}
		return 0
	case "or":
		x, y := c15Eval(f.a, assume, opaque), c15Eval(f.b, assume, opaque)
		if x == 1 || y == 1 {
			return 1
		}
		if x == -1 && y == -1 {
			return -1
		}
		return 0
	}
	return 0
}

// c15Conj flattens a conjunction of "le" atoms; ok=false if f is anything else.
func c15Conj(f *c15F) ([]c15Lin, bool) { return c15ConjPol(f, true) }

func c15ConjPol(f *c15F, pol bool) ([]c15Lin, bool) {
	switch f.op {
	case "le":
		if pol {
			return []c15Lin{f.lin}, true
		}
		return []c15Lin{f.lin.neg().plus(1)}, true
	case "not":
		return c15ConjPol(f.a, !pol)
	case "and", "or":
		if (f.op == "and") == pol {
			a, ok1 := c15ConjPol(f.a, pol)
			b, ok2 := c15ConjPol(f.b, pol)
			return append(a, b...), ok1 && ok2
		}
	}
	return nil, false
}

// c15Guard is a branch condition that holds (pol) on every path to a location
// and whose operands are not modified between the branch and the location.
type c15Guard struct {
	f    *c15F
	pol  bool
	expr ast.Expr
}

// c15Paths lists the access paths (termOf IDs) read by e.
func c15Paths(info *types.Info, e ast.Node) []string {
	var out []string
	ast.Inspect(e, func(n ast.Node) bool {
		switch t := n.(type) {
		case *ast.SelectorExpr:
			if _, ok := info.Selections[t]; ok {
				out = append(out, termOf(info, t).ID)
				return false
			}
		case *ast.Ident:
			if v, ok := info.ObjectOf(t).(*types.Var); ok && !v.IsField() {
				out = append(out, termOf(info, t).ID)
			}
		}
		return true
	})
	return out
}

func c15Overlap(a, b string) bool {
	return a == b || strings.HasPrefix(a, b+".") || strings.HasPrefix(b, a+".") ||
		strings.HasPrefix(a, b+"[") || strings.HasPrefix(b, a+"[")
}

// c15Modifies: may CFG node n modify one of the access paths? Assignments are
// compared field-sensitively; a call that receives the root object of a path
// (as receiver or by address) is assumed to modify it.
func c15Modifies(info *types.Info, n ast.Node, paths []string, roots map[types.Object]bool) bool {
	hit := false
	touch := func(l ast.Expr) {
		id := termOf(info, l).ID
		for _, p := range paths {
			if c15Overlap(id, p) {
				hit = true
			}
		}
	}
	inspectNoLit(n, func(m ast.Node) bool {
		switch s := m.(type) {
		case *ast.AssignStmt:
			for _, l := range s.Lhs {
				touch(l)
			}
		case *ast.IncDecStmt:
			touch(s.X)
		case *ast.RangeStmt:
			if s.Key != nil {
				touch(s.Key)
			}
			if s.Value != nil {
				touch(s.Value)
			}
		case *ast.CallExpr:
			if tv, ok := info.Types[s.Fun]; ok && tv.IsType() {
				return true
			}
			if sel, ok := s.Fun.(*ast.SelectorExpr); ok {
				if selInfo, ok := info.Selections[sel]; ok && selInfo.Kind() == types.MethodVal {
					if o := rootObj(info, sel.X); o != nil && roots[o] {
						// a method on the root object: pointer receivers may modify its fields
						if _, isPtr := selInfo.Recv().(*types.Pointer); isPtr || c15PtrRecv(selInfo) {
							for _, p := range paths {
								if strings.Contains(p, ".") && strings.HasPrefix(p, fmt.Sprintf("%p", o)) {
									hit = true
								}
							}
						}
					}
				}
			}
			for _, a := range s.Args {
				if u, ok := unparen(a).(*ast.UnaryExpr); ok && u.Op == token.AND {
					touch(u.X)
				}
			}
		}
		return !hit
	})
	return hit
}

func c15PtrRecv(s *types.Selection) bool {
	fn, ok := s.Obj().(*types.Func)
	if !ok {
		return false
	}
	sig := fn.Type().(*types.Signature)
	if sig.Recv() == nil {
		return false
	}
	_, isPtr := sig.Recv().Type().(*types.Pointer)
	return isPtr
}

// c15GuardsAt: the guards of l that survive the (field-sensitive) kill test.
func c15GuardsAt(g *FG, l Loc) []c15Guard {
	var out []c15Guard
	for _, gd := range g.Guards(l) {
		var e ast.Expr = gd.Cond.Expr
		var f *c15F
		if gd.Cond.Tag != nil {
			f = c15Formula(g.Info, &ast.BinaryExpr{X: gd.Cond.Tag, Op: token.EQL, Y: gd.Cond.Expr})
			if tv, ok := g.Info.Types[gd.Cond.Expr]; ok && tv.Value != nil && (tv.Value.String() == "true" || tv.Value.String() == "false") {
				f = c15Formula(g.Info, gd.Cond.Tag)
				if tv.Value.String() == "false" {
					f = &c15F{op: "not", a: f}
				}
			}
		} else {
			f = c15Formula(g.Info, e)
		}
		paths := c15Paths(g.Info, gd.Cond.Expr)
		if gd.Cond.Tag != nil {
			paths = append(paths, c15Paths(g.Info, gd.Cond.Tag)...)
		}
		roots := objsIn(g.Info, gd.Cond.Expr)
		if gd.Cond.Tag != nil {
			for o := range objsIn(g.Info, gd.Cond.Tag) {
				roots[o] = true
			}
		}
		succ := gd.From.Succs[1]
		if gd.Pol {
			succ = gd.From.Succs[0]
		}
		killed := false
		// blocks on a path from the guard edge to l that does not re-evaluate the guard
		fwd := map[*cfg.Block]bool{succ: true}
		st := []*cfg.Block{succ}
		for len(st) > 0 {
			b := st[len(st)-1]
			st = st[:len(st)-1]
			if b == l.B {
				continue
			}
			for _, sx := range b.Succs {
				if !fwd[sx] && sx != gd.From {
					fwd[sx] = true
					st = append(st, sx)
				}
			}
		}
		bwd := map[*cfg.Block]bool{l.B: true}
		st = append(st[:0], l.B)
		for len(st) > 0 {
			b := st[len(st)-1]
			st = st[:len(st)-1]
			for _, pr := range g.preds[b] {
				if !bwd[pr] && pr != gd.From {
					bwd[pr] = true
					st = append(st, pr)
				}
			}
		}
		// can l.B reach itself again without passing the guard?
		selfLoop := false
		{
			seen := map[*cfg.Block]bool{}
			st2 := append([]*cfg.Block{}, l.B.Succs...)
			for len(st2) > 0 {
				b := st2[len(st2)-1]
				st2 = st2[:len(st2)-1]
				if b == gd.From || seen[b] {
					continue
				}
				seen[b] = true
				if b == l.B {
					selfLoop = true
					break
				}
				st2 = append(st2, b.Succs...)
			}
		}
		for b := range fwd {
			if !bwd[b] {
				continue
			}
			for i, n := range b.Nodes {
				if b == l.B && i >= l.Idx && !selfLoop {
					break
				}
				if c15Modifies(g.Info, n, paths, roots) {
					killed = true
				}
			}
		}
		if !killed {
			out = append(out, c15Guard{f: f, pol: gd.Pol, expr: e})
		}
	}
	return out
}

// c15Refuted: assuming the negated goal (a conjunction of "lin <= 0"), is some
// guard contradicted? Then the guards imply the goal.
func c15Refuted(gs []c15Guard, negGoal []c15Lin) bool {
	for _, gd := range gs {
		v := c15Eval(gd.f, negGoal, nil)
		if (gd.pol && v == -1) || (!gd.pol && v == 1) {
			return true
		}
	}
	return false
}

func c15GuardsString(gs []c15Guard) string {
	var s []string
	for _, gd := range gs {
		x := types.ExprString(gd.expr)
		if !gd.pol {
			x = "!(" + x + ")"
		}
		s = append(s, x)
	}
	if len(s) == 0 {
		return "none"
	}
	return strings.Join(s, " ∧ ")
}

// c15Defs indexes the single definitions of local variables of a function body.
type c15Defs struct {
	info  *types.Info
	def   map[types.Object]ast.Expr // the defining right-hand side (single definition, never reassigned)
	count map[types.Object]int
}

func c15DefsOf(info *types.Info, body ast.Node) *c15Defs {
	d := &c15Defs{info: info, def: map[types.Object]ast.Expr{}, count: map[types.Object]int{}}
	ast.Inspect(body, func(n ast.Node) bool {
		switch s := n.(type) {
		case *ast.AssignStmt:
			for i, l := range s.Lhs {
				id, ok := unparen(l).(*ast.Ident)
				if !ok {
					if o := rootObj(info, l); o != nil {
						// x.f = ..., x[i] = ...: not a redefinition of x itself
						_ = o
					}
					continue
				}
				o := info.ObjectOf(id)
				if o == nil {
					continue
				}
				d.count[o]++
				if s.Tok == token.DEFINE || s.Tok == token.ASSIGN {
					if len(s.Rhs) == len(s.Lhs) {
						d.def[o] = s.Rhs[i]
					} else if len(s.Rhs) == 1 && i == 0 {
						d.def[o] = s.Rhs[0]
					} else {
						d.def[o] = nil
					}
				} else {
					d.count[o]++ // op-assign: never a single definition
				}
			}
		case *ast.IncDecStmt:
			if o := rootObj(info, s.X); o != nil {
				if _, ok := unparen(s.X).(*ast.Ident); ok {
					d.count[o] += 2
				}
			}
		case *ast.ValueSpec:
			for i, nm := range s.Names {
				o := info.ObjectOf(nm)
				d.count[o]++
				if i < len(s.Values) {
					d.def[o] = s.Values[i]
				}
			}
		case *ast.RangeStmt:
			for _, l := range []ast.Expr{s.Key, s.Value} {
				if id, ok := l.(*ast.Ident); ok {
					if o := info.ObjectOf(id); o != nil {
						d.count[o] += 2
					}
				}
			}
		case *ast.UnaryExpr:
			if s.Op == token.AND {
				if id, ok := unparen(s.X).(*ast.Ident); ok {
					if o := info.ObjectOf(id); o != nil {
						d.count[o] += 2
					}
				}
			}
		}
		return true
	})
	return d
}

// resolve follows single-definition locals: target := m.lastHits[n-1]; target.w  ->  m.lastHits[n-1].w
func (d *c15Defs) resolve(e ast.Expr) ast.Expr {
	for depth := 0; depth < 4; depth++ {
		e = unparen(e)
		id, ok := e.(*ast.Ident)
		if !ok {
			return e
		}
		o := d.info.ObjectOf(id)
		if o == nil || d.count[o] != 1 || d.def[o] == nil {
			return e
		}
		e = d.def[o]
	}
	return e
}

// c15Field returns the field object selected by e (x.f), or nil.
func c15Field(info *types.Info, e ast.Expr) *types.Var {
	sel, ok := unparen(e).(*ast.SelectorExpr)
	if !ok {
		return nil
	}
	s, ok := info.Selections[sel]
	if !ok || s.Kind() != types.FieldVal {
		return nil
	}
	v, _ := s.Obj().(*types.Var)
	return v
}

func c15StructFields(pk *packages.Package, typeName string) map[string]*types.Var {
	out := map[string]*types.Var{}
	tn, _ := pk.Types.Scope().Lookup(typeName).(*types.TypeName)
	if tn == nil {
		return out
	}
	st, _ := tn.Type().Underlying().(*types.Struct)
	for i := 0; st != nil && i < st.NumFields(); i++ {
		out[st.Field(i).Name()] = st.Field(i)
	}
	return out
}

func c15IsNamed(t types.Type, pkgPath, name string) bool {
	if t == nil {
		return false
	}
	if p, ok := t.(*types.Pointer); ok {
		t = p.Elem()
	}
	n, ok := t.(*types.Named)
	return ok && n.Obj().Name() == name && n.Obj().Pkg() != nil && n.Obj().Pkg().Path() == pkgPath
}

// c15EnclosingLoops lists the for/range statements enclosing n (innermost first), up to the function.
func c15EnclosingLoops(parents map[ast.Node]ast.Node, n ast.Node) []ast.Stmt {
	var out []ast.Stmt
	for cur := parents[n]; cur != nil; cur = parents[cur] {
		switch t := cur.(type) {
		case *ast.ForStmt:
			out = append(out, t)
		case *ast.RangeStmt:
			out = append(out, t)
		case *ast.FuncDecl, *ast.FuncLit:
			return out
		}
	}
	return out
}

func c15EnclosingFunc(parents map[ast.Node]ast.Node, pk *packages.Package, n ast.Node) string {
	for cur := n; cur != nil; cur = parents[cur] {
		if fd, ok := cur.(*ast.FuncDecl); ok {
			return shortPkg(pk.PkgPath) + "." + funcDeclName(fd)
		}
	}
	return shortPkg(pk.PkgPath) + ".<package level>"
}

// c15Flow is a forward may-analysis over the CFG with an integer lattice
// (join = max). transfer is applied per CFG node, edge per successor edge.
func c15Flow(g *FG, entry int, transfer func(n ast.Node, st int) int, edge func(b *cfg.Block, succ int, st int) int) (in map[*cfg.Block]int) {
	in = map[*cfg.Block]int{}
	for _, b := range g.Blocks {
		in[b] = -1
	}
	in[g.Blocks[0]] = entry
	work := []*cfg.Block{g.Blocks[0]}
	for len(work) > 0 {
		b := work[len(work)-1]
		work = work[:len(work)-1]
		st := in[b]
		for _, n := range b.Nodes {
			st = transfer(n, st)
		}
		for i, s := range b.Succs {
			v := st
			if edge != nil {
				v = edge(b, i, st)
			}
			if v > in[s] {
				in[s] = v
				work = append(work, s)
			}
		}
	}
	return in
}

// c15ErrExit: does the exit block return a non-nil error expression (error path)?
func c15ErrExit(info *types.Info, b *cfg.Block) bool {
	if len(b.Nodes) == 0 {
		return false
	}
	rs, ok := b.Nodes[len(b.Nodes)-1].(*ast.ReturnStmt)
	if !ok || len(rs.Results) == 0 {
		return false
	}
	last := unparen(rs.Results[len(rs.Results)-1])
	if isNilExpr(info, last) {
		return false
	}
	t := info.TypeOf(last)
	return t != nil && types.Identical(t, types.Universe.Lookup("error").Type())
}

// ---------------------------------------------------------------------------
// C15 environment

type c15Env struct {
	c       *Ctx
	pk      *packages.Package
	info    *types.Info
	parents map[ast.Node]ast.Node

	widgetIface   *types.Interface
	capturerNamed types.Type
	captureEvent  *types.Func
	phaseVal      map[string]string // "CapturePhase" -> constant value
	phaseType     types.Type
	app, fh, mh   map[string]*types.Var
	hit           map[string]*types.Var
	handleCommand *types.Func
	mayCommand    map[*types.Func]bool
	decls         map[*types.Func]*ast.FuncDecl
	hm            *c15HitModel // c15g.go
}

const c15VxfwPath = modPath + "/vxfw"

func (e *c15Env) isHandleEvent(fn *types.Func) bool {
	if fn == nil || fn.Name() != "HandleEvent" {
		return false
	}
	sig := fn.Type().(*types.Signature)
	if sig.Recv() == nil {
		return false
	}
	rt := sig.Recv().Type()
	return types.Implements(rt, e.widgetIface) || types.Implements(types.NewPointer(rt), e.widgetIface) || types.Identical(rt.Underlying(), e.widgetIface)
}

// dispatch classifies a call: "capture", "handle" or "".
func (e *c15Env) dispatch(info *types.Info, call *ast.CallExpr) string {
	fn := calleeOf(info, call)
	if fn == nil {
		return ""
	}
	if fn == e.captureEvent || (fn.Name() == "CaptureEvent" && fn.Pkg() != nil && fn.Pkg().Path() == c15VxfwPath) {
		return "capture"
	}
	if e.isHandleEvent(fn) {
		return "handle"
	}
	return ""
}

// phaseOf returns the name of the EventPhase constant passed as the phase argument.
func (e *c15Env) phaseOf(info *types.Info, call *ast.CallExpr) string {
	if len(call.Args) < 2 {
		return ""
	}
	tv, ok := info.Types[call.Args[1]]
	if !ok || tv.Value == nil {
		return ""
	}
	for name, v := range e.phaseVal {
		if tv.Value.ExactString() == v {
			return name
		}
	}
	return ""
}

// eventKind names the (struct) event type passed as first argument: "MouseEnter", "vaxis.FocusIn", ...
func (e *c15Env) eventKind(info *types.Info, call *ast.CallExpr) string {
	if len(call.Args) < 1 {
		return ""
	}
	n, ok := info.TypeOf(c16StripConv(info, call.Args[0])).(*types.Named)
	if !ok || n.Obj().Pkg() == nil {
		return ""
	}
	switch n.Obj().Pkg().Path() {
	case c15VxfwPath:
		return n.Obj().Name()
	case modPath:
		return "vaxis." + n.Obj().Name()
	}
	return ""
}

func (e *c15Env) isHandleCommandCall(info *types.Info, n ast.Node) *ast.CallExpr {
	call, ok := n.(*ast.CallExpr)
	if !ok {
		return nil
	}
	if fn := calleeOf(info, call); fn != nil && fn == e.handleCommand {
		return call
	}
	return nil
}

func runC15(c *Ctx) {
	c.Clauses = []string{
		"C15.a capture->target->bubble order in both handlers; capture ranges forward over the path/hit list; target is the focused widget / last hit; bubble runs len-2..0; every dispatch happens with consumeEvent known false and the consume test's true edge never dispatches again",
		"C15.b every type of the Command group has its own reachable case in App.handleCommand with its documented effect and no other; batches recurse element-wise exactly once",
		"C15.c focusWidget: nothing when unchanged; one FocusOut to the old widget, then focused = w, then one FocusIn to w",
		"C15.d MouseEnter/MouseLeave are sent only by mouseHandler methods that update lastHits afterwards; update diffs lastHits against hits in the right direction and stores hits; mouseExit closes all; terminal FocusOut clears the pointer and calls mouseExit",
		"C15.e every flag set by handleCommand is tested and cleared before it is tested again; quit is tested after every event before the loop blocks again",
		"C15.f every command returned by a handler reaches handleCommand exactly once before the next dispatch or normal return",
		"C15.g containsPoint is the half-open rectangle test; hitTest lists a widget before its descendants, recurses only into children containing the point with child-relative coordinates",
		"C15.i focus path: childHasFocus appends the widget of every surface on the way back from the focused one; updatePath appends the application's root widget unless the path already ends in it (f.root == root.Widget and the path is non-empty), never twice, and reverses the path to root-first order afterwards",
	}
	c.NotDec = []string{
		"routing over arbitrary trees and histories (focus changed by a command in mid-dispatch, path recomputation after a frame, overlapping siblings in the hit list)",
		"whether widgets themselves honour the phase they are called with",
	}
	// minima: the obligations that exist whatever way the code is cut (one per mandatory check of each rule), not today's instance counts
	c.expect("C15.a", 46)
	c.expect("C15.b", 13)
	c.expect("C15.c", 11)
	c.expect("C15.d", 15)
	c.expect("C15.e", 12)
	c.expect("C15.f", 11)
	c.expect("C15.g", 12)
	c.expect("C15.i", 7)

	// helper extraction is undone first: the rules below look at the named functions with their helpers inlined
	c15InlineClosures = true // local closures introduced for a repeated tail are undone as well (c15norm3.go)
	c15Normalise(c, []string{"vxfw"}, c15Anchors)
	c15InlineClosures = false
	// the package may have been re-type-checked: the side tables derived from the old syntax trees and types.Info
	// (single-definition local aliases used by canonPath, accessor summaries) are rebuilt, as after the global pass
	installAccessorResolver(c.P)
	pk := c.P.Pkg("vxfw")
	if pk == nil {
		c.undecided("C15.a", "vxfw", 0, "package vxfw not found")
		return
	}
	e := &c15Env{c: c, pk: pk, info: pk.TypesInfo, parents: c.P.Parents(pk), phaseVal: map[string]string{},
		mayCommand: map[*types.Func]bool{}, decls: map[*types.Func]*ast.FuncDecl{}}
	scope := pk.Types.Scope()
	if tn, ok := scope.Lookup("Widget").(*types.TypeName); ok {
		e.widgetIface, _ = tn.Type().Underlying().(*types.Interface)
	}
	if tn, ok := scope.Lookup("EventCapturer").(*types.TypeName); ok {
		e.capturerNamed = tn.Type()
		if it, ok := tn.Type().Underlying().(*types.Interface); ok {
			for i := 0; i < it.NumMethods(); i++ {
				if it.Method(i).Name() == "CaptureEvent" {
					e.captureEvent = it.Method(i)
				}
			}
		}
	}
	for _, n := range []string{"CapturePhase", "TargetPhase", "BubblePhase"} {
		if k, ok := scope.Lookup(n).(*types.Const); ok {
			e.phaseVal[n] = k.Val().ExactString()
			e.phaseType = k.Type()
		}
	}
	e.app, e.fh, e.mh, e.hit = c15StructFields(pk, "App"), c15StructFields(pk, "focusHandler"), c15StructFields(pk, "mouseHandler"), c15StructFields(pk, "hitResult")
	if hc := c15Func(c, "vxfw.(*App).handleCommand"); hc != nil {
		e.handleCommand = hc.Obj
	}
	missing := []string{}
	if e.widgetIface == nil {
		missing = append(missing, "Widget")
	}
	if e.captureEvent == nil {
		missing = append(missing, "EventCapturer.CaptureEvent")
	}
	if len(e.phaseVal) != 3 {
		missing = append(missing, "EventPhase constants")
	}
	if e.handleCommand == nil {
		missing = append(missing, "(*App).handleCommand")
	}
	for _, f := range []string{"consumeEvent", "fh"} {
		if e.app[f] == nil {
			missing = append(missing, "App."+f)
		}
	}
	for _, f := range []string{"focused", "path"} {
		if e.fh[f] == nil {
			missing = append(missing, "focusHandler."+f)
		}
	}
	for _, f := range []string{"lastHits", "mouse", "lastFrame"} {
		if e.mh[f] == nil {
			missing = append(missing, "mouseHandler."+f)
		}
	}
	if e.hit["w"] == nil {
		missing = append(missing, "hitResult.w")
	}
	if len(missing) > 0 {
		c.undecided("C15.a", "vxfw/vocabulary", 0, "the routing vocabulary is not what the recogniser expects; missing: %s", strings.Join(missing, ", "))
		return
	}
	// functions that may (transitively) interpret a command or touch consumeEvent
	for _, fi := range c.P.FuncsIn("vxfw") {
		e.decls[fi.Obj] = fi.Decl
	}
	e.mayCommand[e.handleCommand] = true
	for changed := true; changed; {
		changed = false
		for fn, fd := range e.decls {
			if e.mayCommand[fn] || fd.Body == nil {
				continue
			}
			ast.Inspect(fd.Body, func(n ast.Node) bool {
				switch t := n.(type) {
				case *ast.CallExpr:
					if cal := calleeOf(e.info, t); cal != nil && e.mayCommand[cal] {
						e.mayCommand[fn] = true
					}
				case *ast.AssignStmt:
					for _, l := range t.Lhs {
						if c15Field(e.info, l) == e.app["consumeEvent"] {
							e.mayCommand[fn] = true
						}
					}
				}
				return true
			})
			if e.mayCommand[fn] {
				changed = true
			}
		}
	}

	e.ruleA("vxfw.(*focusHandler).handleEvent", e.fh["path"], false)
	e.ruleA("vxfw.(*mouseHandler).handleEvent", e.mh["lastHits"], true)
	e.ruleB()
	e.ruleC()
	e.ruleD()
	e.ruleE()
	e.ruleF()
	e.ruleG()
	e.ruleI()
	c15Dump(c)
}

// c15Anchors: functions the C15/C16 rules (and the extra rules of the main author) look up by name; they are
// analysed as units and never inlined into their callers.
var c15Anchors = map[string]bool{
	"handleEvent": true, "handleCommand": true, "focusWidget": true, "update": true, "mouseExit": true, "hitTest": true,
	"containsPoint": true, "updatePath": true, "childHasFocus": true, "layout": true, "render": true, "debugPrintWidget": true,
	"drawSoftwrap": true, "findContainerSize": true, "firstLineSegment": true,
}

// c15Dump lists every obligation when VXCHECK_DUMP is set (for confirming instance counts by reading).
func c15Dump(c *Ctx) {
	if os.Getenv("VXCHECK_DUMP") == "" {
		return
	}
	for _, o := range c.Obs {
		fmt.Printf("DUMP %-10s %-22s %s — %s\n", o.Status, o.Pos, o.Key, o.Reason)
	}
}

// ---------------------------------------------------------------------------
// C15.a

const (
	c15Clean = 0
	c15Dirty = 1
	c15Stop  = 2
)

// consumeTest: is cond a test of App.consumeEvent? returns the successor index on which the flag is true.
func (e *c15Env) flagTest(g *FG, b *cfg.Block, flag *types.Var) (trueSucc int, ok bool, odd bool) {
	cnd := g.BranchCond(b)
	if cnd == nil {
		return 0, false, false
	}
	var fieldExpr ast.Expr
	find := func(root ast.Node) {
		if root == nil {
			return
		}
		ast.Inspect(root, func(n ast.Node) bool {
			if x, ok := n.(ast.Expr); ok && c15Field(g.Info, x) == flag {
				fieldExpr = x
			}
			return fieldExpr == nil
		})
	}
	find(cnd.Expr)
	if cnd.Tag != nil {
		find(cnd.Tag)
	}
	if fieldExpr == nil {
		return 0, false, false
	}
	var f *c15F
	if cnd.Tag != nil {
		f = c15Formula(g.Info, &ast.BinaryExpr{X: cnd.Tag, Op: token.EQL, Y: cnd.Expr})
	} else {
		f = c15Formula(g.Info, cnd.Expr)
	}
	id := termOf(g.Info, fieldExpr).ID
	vt := c15Eval(f, nil, map[string]bool{id: true})
	vf := c15Eval(f, nil, map[string]bool{id: false})
	switch {
	case vt == 1 && vf == -1:
		return 0, true, false
	case vt == -1 && vf == 1:
		return 1, true, false
	}
	return 0, false, true
}

func (e *c15Env) ruleA(name string, list *types.Var, mouse bool) {
	c := e.c
	fi := c15Func(c, name)
	if fi == nil {
		c.undecided("C15.a", name, 0, "function not found")
		return
	}
	g := c.P.Graph(fi)
	info := e.info
	fd := fi.Decl
	defs := c15DefsOf(info, fd.Body)
	var recvObj types.Object
	if fd.Recv != nil && len(fd.Recv.List) == 1 && len(fd.Recv.List[0].Names) == 1 {
		recvObj = info.Defs[fd.Recv.List[0].Names[0]]
	}
	var evObj types.Object
	for _, f := range fd.Type.Params.List {
		for _, n := range f.Names {
			t := info.TypeOf(n)
			if c15IsNamed(t, modPath, "Mouse") || (t != nil && types.IsInterface(t) && !c15IsNamed(t, c15VxfwPath, "App")) {
				evObj = info.Defs[n]
			}
		}
	}
	if recvObj == nil || evObj == nil {
		c.undecided("C15.a", name+"/signature", fd.Pos(), "receiver or event parameter not recognised")
		return
	}
	isList := func(x ast.Expr) bool {
		x = unparen(x)
		return c15Field(info, x) == list && rootObj(info, x) == recvObj
	}
	listLen := c15TermLin("len("+fmt.Sprintf("%p", recvObj)+"."+list.Name()+")", "len("+recvObj.Name()+"."+list.Name()+")", true)
	// elemOf: strip the optional ".w" and return the underlying element expression
	elemOf := func(x ast.Expr) ast.Expr {
		x = defs.resolve(x)
		if mouse {
			if c15Field(info, x) != e.hit["w"] {
				return nil
			}
			return defs.resolve(unparen(x).(*ast.SelectorExpr).X)
		}
		return x
	}

	type site struct {
		h    Hit
		call *ast.CallExpr
	}
	sites := map[string][]site{}
	for _, h := range g.Find(func(n ast.Node) bool {
		call, ok := n.(*ast.CallExpr)
		return ok && e.dispatch(info, call) != ""
	}) {
		call := h.Node.(*ast.CallExpr)
		kind := e.dispatch(info, call)
		if kind == "handle" {
			switch e.phaseOf(info, call) {
			case "TargetPhase":
				kind = "target"
			case "BubblePhase":
				kind = "bubble"
			default:
				kind = "other"
			}
		}
		sites[kind] = append(sites[kind], site{h, call})
	}
	for _, s := range sites["other"] {
		c.bad("C15.a", name+"/dispatch with a phase other than Target/Bubble", s.call.Pos(), "HandleEvent is called with phase %s: handlers are offered the event in a phase the routing contract does not have", types.ExprString(s.call.Args[1]))
	}
	okCount := true
	for _, k := range []string{"capture", "target", "bubble"} {
		if len(sites[k]) != 1 {
			okCount = false
			c.bad("C15.a", name+"/exactly one "+k+" dispatch", fd.Pos(), "expected exactly one reachable %s-phase dispatch, found %d: the event is offered %s in that phase", k, len(sites[k]), map[bool]string{true: "never", false: "more than once"}[len(sites[k]) == 0])
		} else {
			c.ok("C15.a", name+"/exactly one "+k+" dispatch", sites[k][0].call.Pos(), "one reachable %s dispatch", k)
		}
	}
	if !okCount {
		return
	}
	capS, tgtS, bubS := sites["capture"][0], sites["target"][0], sites["bubble"][0]
	evArg := func(s site, what string) {
		id, ok := unparen(s.call.Args[0]).(*ast.Ident)
		c.check(ok && info.Uses[id] == evObj, "C15.a", name+"/"+what+" receives the routed event", s.call.Pos(), "first argument is the event parameter", "the "+what+" dispatch does not pass the event being routed ("+types.ExprString(s.call.Args[0])+")")
	}
	evArg(capS, "capture")
	evArg(tgtS, "target")
	evArg(bubS, "bubble")

	// --- capture loop shape
	var capLoop ast.Stmt // the capture loop (range or index form)
	var capAnchor ast.Node
	{
		loops := c15EnclosingLoops(e.parents, capS.call)
		var it *c15Iter
		if len(loops) == 1 {
			it = c15IterOf(info, defs, loops[0])
		}
		if it == nil || !it.full {
			c.undecided("C15.a", name+"/capture loop", capS.call.Pos(), "the CaptureEvent call is not inside exactly one loop that visits every element of a list front to back")
		} else {
			capLoop, capAnchor = it.stmt, it.anchor
			c.check(isList(it.x), "C15.a", name+"/capture ranges forward over "+list.Name(), it.stmt.Pos(),
				"iterates "+recvObj.Name()+"."+list.Name()+" front to back (root first)", "the capture loop iterates over "+types.ExprString(it.x)+", not over the root-to-target list "+list.Name()+": capturers are offered the event in the wrong order or not at all")
			// receiver: <elem>.(EventCapturer), bound by an assertion, an if-init or a type switch clause
			okRecv := false
			why := "receiver not recognised"
			if sel, ok := capS.call.Fun.(*ast.SelectorExpr); ok {
				var asserted ast.Expr
				x := defs.resolve(sel.X)
				if ta, ok := unparen(x).(*ast.TypeAssertExpr); ok && ta.Type != nil {
					asserted = ta.X
				} else if id, ok := unparen(sel.X).(*ast.Ident); ok {
					// the per-clause variable of `switch c := <elem>.(type) { case EventCapturer: ... }`
					obj := info.ObjectOf(id)
					ast.Inspect(it.body, func(n ast.Node) bool {
						ts, ok := n.(*ast.TypeSwitchStmt)
						if !ok {
							return true
						}
						for _, cc := range ts.Body.List {
							cl := cc.(*ast.CaseClause)
							if info.Implicits[cl] != obj || len(cl.List) != 1 {
								continue
							}
							if tv, ok := info.Types[cl.List[0]]; !ok || !tv.IsType() || !types.Identical(tv.Type, e.capturerNamed) {
								continue
							}
							if as, ok := ts.Assign.(*ast.AssignStmt); ok && len(as.Rhs) == 1 {
								if ta, ok := unparen(as.Rhs[0]).(*ast.TypeAssertExpr); ok {
									asserted = ta.X
								}
							}
						}
						return true
					})
				}
				if asserted != nil {
					el := elemOf(asserted)
					if el != nil && it.isElem(el) {
						okRecv = true
					} else {
						why = "the capturer is obtained from " + types.ExprString(asserted) + ", not from the element being visited"
					}
				}
			}
			c.check(okRecv, "C15.a", name+"/capture is called on the ranged element", capS.call.Pos(), "receiver is the visited element asserted to EventCapturer", why)
		}
	}
	// --- target shape
	{
		loops := c15EnclosingLoops(e.parents, tgtS.call)
		c.check(len(loops) == 0, "C15.a", name+"/target dispatch is outside any loop", tgtS.call.Pos(), "exactly one target delivery per event", "the target dispatch sits in a loop: the target may receive the event more than once")
		sel, _ := tgtS.call.Fun.(*ast.SelectorExpr)
		if sel == nil {
			c.undecided("C15.a", name+"/target receiver", tgtS.call.Pos(), "call form not recognised")
		} else if !mouse {
			okT := c15Field(info, sel.X) == e.fh["focused"] && rootObj(info, sel.X) == recvObj
			c.check(okT, "C15.a", name+"/target is the focused widget", tgtS.call.Pos(), "receiver is "+recvObj.Name()+".focused", "the target-phase call goes to "+types.ExprString(sel.X)+", not to the focused widget")
		} else {
			el := elemOf(sel.X)
			ix, _ := el.(*ast.IndexExpr)
			okT := ix != nil && isList(ix.X) && c15LinOf(info, ix.Index).canon() == listLen.plus(-1).canon()
			c.check(okT, "C15.a", name+"/target is the last (deepest) hit", tgtS.call.Pos(), "receiver is lastHits[len(lastHits)-1].w", "the target-phase call goes to "+types.ExprString(defs.resolve(sel.X))+", not to the deepest widget under the pointer (lastHits[len-1].w)")
			if okT {
				loc, found := g.Locate(ix)
				if !found {
					c.undecided("C15.a", name+"/target index guarded by len > 0", ix.Pos(), "index expression not located in the CFG")
				} else {
					gs := c15GuardsAt(g, loc)
					c.check(c15Refuted(gs, []c15Lin{listLen}), "C15.a", name+"/target index guarded by len > 0", ix.Pos(),
						"guards: "+c15GuardsString(gs), "lastHits[len-1] is evaluated without a guard excluding an empty hit list (pointer outside every surface): guards in force: "+c15GuardsString(gs))
				}
			}
		}
	}
	// --- bubble loop shape
	var bubFor *ast.ForStmt
	{
		loops := c15EnclosingLoops(e.parents, bubS.call)
		if len(loops) == 1 {
			bubFor, _ = loops[0].(*ast.ForStmt)
		}
		if bubFor == nil || bubFor.Init == nil || bubFor.Cond == nil || bubFor.Post == nil {
			c.undecided("C15.a", name+"/bubble loop", bubS.call.Pos(), "the BubblePhase call is not inside exactly one three-clause for loop")
		} else {
			var iObj types.Object
			var initE ast.Expr
			if as, ok := bubFor.Init.(*ast.AssignStmt); ok && len(as.Lhs) == 1 && len(as.Rhs) == 1 {
				if id, ok := as.Lhs[0].(*ast.Ident); ok {
					iObj, initE = info.ObjectOf(id), as.Rhs[0]
				}
			}
			if iObj == nil {
				c.undecided("C15.a", name+"/bubble loop", bubFor.Pos(), "loop variable not recognised")
			} else {
				iT := c15LinOf(info, bubFor.Init.(*ast.AssignStmt).Lhs[0])
				// The element visited is list[idx] with idx = s*i + r (s = +1/-1, r a constant): `for i := len-2; i >= 0; i--`
				// with list[i], `for next := len-1; next > 0; next--` with list[next-1], ... The three loop clauses are
				// judged on idx, which is what the routing contract speaks about: idx starts at len-2, the loop runs
				// exactly while idx >= 0, and idx goes down by one per iteration.
				sgn, rest := int64(1), c15Const(0)
				mod := assignsAny(info, bubFor.Body, map[types.Object]bool{iObj: true})
				okRecv := false
				if sel, ok := bubS.call.Fun.(*ast.SelectorExpr); ok {
					if el := elemOf(sel.X); el != nil {
						if ix, ok := el.(*ast.IndexExpr); ok && isList(ix.X) {
							idx := c15LinRes(info, defs, ix.Index)
							for t, v := range iT.co {
								if v == 1 && (idx.co[t] == 1 || idx.co[t] == -1) {
									s := idx.co[t]
									r := idx.add(iT, -s)
									if len(r.co) == 0 {
										sgn, rest, okRecv = s, r, true
									}
								}
							}
						}
					}
				}
				idxOf := func(l c15Lin) c15Lin { // idx as a function of the loop variable's value
					if sgn < 0 {
						return l.neg().add(rest, 1)
					}
					return l.add(rest, 1)
				}
				got := idxOf(c15LinOf(info, initE))
				c.check(got.canon() == listLen.plus(-2).canon(), "C15.a", name+"/bubble starts at len-2", initE.Pos(),
					"starts at the parent of the target", "the bubble loop starts at "+got.String()+" instead of len("+list.Name()+")-2: "+map[bool]string{true: "the target receives the event a second time in the bubble phase", false: "the nearest ancestors are skipped"}[got.add(listLen, -1).k > -2])
				// cond  <=>  idx >= 0
				cf := c15Formula(info, bubFor.Cond)
				geq0 := idxOf(iT).neg() // -idx <= 0
				atoms, isConj := c15Conj(cf)
				okCond := isConj && len(atoms) == 1 && atoms[0].canon() == geq0.canon()
				c.check(okCond, "C15.a", name+"/bubble runs down to index 0", bubFor.Cond.Pos(), "continues while the index is >= 0 (the root is the last to be offered the event)",
					"the bubble loop condition "+types.ExprString(bubFor.Cond)+" is not index >= 0: the root (or more) is not offered the event, or the index leaves the list")
				// post: idx goes down by one, i.e. i changes by -s
				okPost := false
				switch p := bubFor.Post.(type) {
				case *ast.IncDecStmt:
					okPost = rootObj(info, p.X) == iObj && ((p.Tok == token.DEC && sgn > 0) || (p.Tok == token.INC && sgn < 0))
				case *ast.AssignStmt:
					if len(p.Lhs) == 1 && len(p.Rhs) == 1 && rootObj(info, p.Lhs[0]) == iObj {
						switch p.Tok {
						case token.SUB_ASSIGN:
							v, ok := constInt(info, p.Rhs[0])
							okPost = ok && v == sgn
						case token.ADD_ASSIGN:
							v, ok := constInt(info, p.Rhs[0])
							okPost = ok && v == -sgn
						case token.ASSIGN:
							okPost = c15LinOf(info, p.Rhs[0]).canon() == iT.plus(-sgn).canon()
						}
					}
				}
				c.check(okPost, "C15.a", name+"/bubble steps by -1", bubFor.Post.Pos(), "visits every ancestor, nearest first", "the bubble loop post statement does not move the index down by one: ancestors are skipped or visited in the wrong order")
				c.check(okRecv && !mod, "C15.a", name+"/bubble is called on "+list.Name()+"[i]", bubS.call.Pos(), "receiver is the i-th element of the list", "the bubble-phase call does not go to "+list.Name()+"[i] (or i is modified in the body)")
			}
		}
	}
	// --- phase order
	if capLoop != nil {
		xNode := capAnchor
		c.check(g.MustPrecede(func(n ast.Node) bool { return n == xNode }, tgtS.h.Loc), "C15.a", name+"/capture loop precedes target", tgtS.call.Pos(),
			"every path to the target dispatch runs the capture loop first", "the target dispatch is reachable without running the capture loop")
	}
	c.check(g.MustPrecede(func(n ast.Node) bool { return n == ast.Node(tgtS.call) }, bubS.h.Loc), "C15.a", name+"/target precedes bubble", bubS.call.Pos(),
		"every path to a bubble dispatch passes the target dispatch", "a bubble dispatch is reachable without the target having been offered the event")
	back := g.ReachesAvoiding(tgtS.h.Loc, capS.h.Loc, nil) || g.ReachesAvoiding(bubS.h.Loc, capS.h.Loc, nil) || g.ReachesAvoiding(bubS.h.Loc, tgtS.h.Loc, nil)
	c.check(!back, "C15.a", name+"/phases never run backwards", fd.Pos(), "no path from a later phase to an earlier one", "a capture/target dispatch is reachable after a later phase has started")

	// --- consume discipline (dataflow)
	flag := e.app["consumeEvent"]
	oddTest := false
	transfer := func(n ast.Node, st int) int {
		if st == c15Stop || st < 0 {
			return st
		}
		inspectNoLit(n, func(m ast.Node) bool {
			switch t := m.(type) {
			case *ast.CallExpr:
				if fn := calleeOf(info, t); fn != nil && e.mayCommand[fn] {
					st = c15Dirty
				}
			case *ast.AssignStmt:
				for i, l := range t.Lhs {
					if c15Field(info, l) == flag {
						st = c15Dirty
						if len(t.Rhs) == len(t.Lhs) && t.Tok == token.ASSIGN {
							if tv, ok := info.Types[t.Rhs[i]]; ok && tv.Value != nil && tv.Value.String() == "false" {
								st = c15Clean
							}
						}
					}
				}
			}
			return true
		})
		return st
	}
	edge := func(b *cfg.Block, succ int, st int) int {
		ts, ok, odd := e.flagTest(g, b, flag)
		if odd {
			oddTest = true
		}
		if !ok || st < 0 {
			return st
		}
		if succ == ts {
			return c15Stop
		}
		if st == c15Stop {
			return st
		}
		return c15Clean
	}
	pf := c15NewPFlow(g, transfer, edge)
	// `consumed := app.consumeEvent` is the consume test taken early: from here on the local says which edge of the
	// test the path is on (consumed: the path of a consumed event, as on the true edge; not consumed: the flag is known
	// false). The later `if consumed` is followed along the feasible edge only.
	pf.split = func(n ast.Node, env string, st int) []c15Out {
		var lhs, rhs ast.Expr
		switch t := n.(type) {
		case *ast.AssignStmt:
			if len(t.Lhs) == 1 && len(t.Rhs) == 1 && (t.Tok == token.DEFINE || t.Tok == token.ASSIGN) {
				lhs, rhs = t.Lhs[0], t.Rhs[0]
			}
		case *ast.ValueSpec:
			if len(t.Names) == 1 && len(t.Values) == 1 {
				lhs, rhs = t.Names[0], t.Values[0]
			}
		}
		if lhs == nil || c15Field(info, rhs) != flag {
			return nil
		}
		id, ok := unparen(lhs).(*ast.Ident)
		if !ok {
			return nil
		}
		o := info.ObjectOf(id)
		if o == nil || !pf.tracked[o] {
			return nil
		}
		if st == c15Stop || st < 0 {
			return []c15Out{{c15EnvSet(env, o, "t"), st}, {c15EnvSet(env, o, "f"), st}}
		}
		return []c15Out{{c15EnvSet(env, o, "t"), c15Stop}, {c15EnvSet(env, o, "f"), c15Clean}}
	}
	pf.run(g.Entry(), c15Dirty)
	if oddTest {
		c.undecided("C15.a", name+"/consume test form", fd.Pos(), "a condition mentions consumeEvent in a form the recogniser does not understand")
	}
	stateAt := func(l Loc) int {
		st, _ := pf.stateAt(l)
		return st
	}
	for _, s := range []struct {
		k string
		s site
	}{{"capture", capS}, {"target", tgtS}, {"bubble", bubS}} {
		key := name + "/" + s.k + " dispatched only while the event is not consumed"
		switch stateAt(s.s.h.Loc) {
		case c15Clean:
			c.ok("C15.a", key, s.s.call.Pos(), "consumeEvent is known false here: reset at entry and tested (returning when set) after every handleCommand")
		case c15Dirty:
			c.bad("C15.a", key, s.s.call.Pos(), "the %s dispatch is reachable with consumeEvent unknown: either it is not reset before routing starts (a stale flag stops the event at once) or a handleCommand is not followed by the consume test (a consumed event keeps propagating)", s.k)
		default:
			c.bad("C15.a", key, s.s.call.Pos(), "the %s dispatch is reachable on the true edge of the consume test: propagation continues after a handler consumed the event", s.k)
		}
	}
	// --- no early exit from the phases
	firstLoc := Loc{}
	if capLoop != nil {
		firstLoc, _ = g.Locate(capAnchor)
	}
	for _, h := range g.Find(func(n ast.Node) bool {
		switch t := n.(type) {
		case *ast.ReturnStmt:
			return true
		case *ast.BranchStmt:
			return t.Tok == token.BREAK || t.Tok == token.GOTO
		}
		return false
	}) {
		if capLoop == nil {
			break
		}
		inPhaseLoop := false
		for _, l := range c15EnclosingLoops(e.parents, h.Node) {
			if l == capLoop || (bubFor != nil && l == ast.Stmt(bubFor)) {
				inPhaseLoop = true
			}
		}
		if _, ok := h.Node.(*ast.BranchStmt); ok {
			continue
		}
		rs := h.Node.(*ast.ReturnStmt)
		if c15ErrExit(info, h.B) {
			continue
		}
		if !(h.Loc == firstLoc) && !g.ReachesAvoiding(firstLoc, h.Loc, nil) {
			continue // before routing starts (e.g. empty hit list)
		}
		key := name + "/normal return only after consumption or after the bubble phase"
		if stateAt(h.Loc) == c15Stop {
			c.ok("C15.a", key, rs.Pos(), "return on the consumed edge")
			continue
		}
		// must be behind the bubble loop: every path from the capture loop passes the bubble condition
		viaBubble := bubFor != nil && !g.ReachesAvoiding(firstLoc, h.Loc, func(n ast.Node) bool { return n == ast.Node(bubFor.Cond) })
		c.check(viaBubble && !inPhaseLoop, "C15.a", key, rs.Pos(), "the final return, behind the bubble loop",
			"a normal return is reachable after routing started although the event was not consumed and the bubble phase has not finished: later handlers never see the event")
	}
	// break / goto out of a phase loop (go/cfg lowers them to edges, so look at the syntax)
	for _, lp := range []ast.Stmt{capLoop, bubFor} {
		var body *ast.BlockStmt
		switch t := lp.(type) {
		case *ast.RangeStmt:
			if t != nil {
				body = t.Body
			}
		case *ast.ForStmt:
			if t != nil {
				body = t.Body
			}
		}
		if body == nil {
			continue
		}
		var lbl types.Object
		if ls, ok := e.parents[lp].(*ast.LabeledStmt); ok {
			lbl = info.ObjectOf(ls.Label)
		}
		var visit func(n ast.Node, breakable int)
		visit = func(n ast.Node, breakable int) {
			ast.Inspect(n, func(m ast.Node) bool {
				if m == nil || m == n {
					return true
				}
				switch t := m.(type) {
				case *ast.FuncLit:
					return false
				case *ast.ForStmt, *ast.RangeStmt, *ast.SwitchStmt, *ast.TypeSwitchStmt, *ast.SelectStmt:
					visit(t, breakable+1)
					return false
				case *ast.BranchStmt:
					leaves := false
					switch t.Tok {
					case token.BREAK:
						leaves = (t.Label == nil && breakable == 0) || (t.Label != nil && lbl != nil && info.ObjectOf(t.Label) == lbl)
					case token.GOTO:
						leaves = true
					}
					if leaves {
						c.bad("C15.a", name+"/no break out of a phase loop", t.Pos(), "a %s leaves the capture/bubble loop: the remaining widgets of the phase are not offered the event", t.Tok)
					}
				}
				return true
			})
		}
		visit(body, 0)
	}
	if mouse {
		e.ruleAMouse(name, g, fi, recvObj, evObj, capS.h.Loc)
	}
}

// ruleAMouse: the hit list is recomputed for this event's position before routing.
func (e *c15Env) ruleAMouse(name string, g *FG, fi *FuncInfo, recvObj, evObj types.Object, firstDispatch Loc) {
	c, info := e.c, e.info
	upd := c15Func(c, "vxfw.(*mouseHandler).update")
	if upd == nil {
		c.undecided("C15.a", name+"/hit list refreshed", fi.Decl.Pos(), "mouseHandler.update not found")
		return
	}
	ups := g.Calls(func(fn *types.Func, call *ast.CallExpr) bool { return fn == upd.Obj })
	if len(ups) != 1 {
		c.bad("C15.a", name+"/hit list refreshed before routing", fi.Decl.Pos(), "expected one call of update before routing, found %d: the event is routed along a stale hit list", len(ups))
		return
	}
	u := ups[0]
	call := u.Node.(*ast.CallExpr)
	okArgs := len(call.Args) == 2 && c15Field(info, call.Args[1]) == e.mh["lastFrame"] && rootObj(info, call.Args[1]) == recvObj
	c.check(okArgs, "C15.a", name+"/update hit-tests the last rendered frame", call.Pos(), "update(app, m.lastFrame)", "update is not given the last rendered frame")
	c.check(g.MustPrecede(func(n ast.Node) bool { return n == ast.Node(call) }, firstDispatch), "C15.a", name+"/hit list refreshed before routing", call.Pos(),
		"update precedes the first dispatch", "a dispatch is reachable before the hit list was recomputed for this event")
	isStore := func(n ast.Node) bool {
		as, ok := n.(*ast.AssignStmt)
		if !ok || len(as.Lhs) != 1 || len(as.Rhs) != 1 || c15Field(info, as.Lhs[0]) != e.mh["mouse"] {
			return false
		}
		un, ok := unparen(as.Rhs[0]).(*ast.UnaryExpr)
		if !ok || un.Op != token.AND {
			return false
		}
		id, ok := unparen(un.X).(*ast.Ident)
		return ok && info.Uses[id] == evObj
	}
	c.check(g.MustPrecede(isStore, u.Loc), "C15.a", name+"/pointer position stored before the hit test", call.Pos(),
		"m.mouse = &ev precedes update", "update runs before this event's position is stored: hit testing uses the previous pointer position")
}

// ---------------------------------------------------------------------------
// C15.b command interpreter

// c15Effect is the documented effect of a command type.
type c15Effect struct {
	flags  []string // App fields set to true
	method string   // repoName of the method called ("" = none)
	args   []string // expected arguments, rendered with the bound variable as "cmd"
}

var c15Effects = map[string]c15Effect{
	"RedrawCmd":           {flags: []string{"redraw"}},
	"RefreshCmd":          {flags: []string{"refresh"}},
	"QuitCmd":             {flags: []string{"shouldQuit"}},
	"ConsumeEventCmd":     {flags: []string{"consumeEvent"}},
	"DebugCmd":            {flags: []string{"debug", "redraw"}},
	"FocusWidgetCmd":      {method: "vxfw.focusHandler.focusWidget", args: []string{"<app>", "cmd"}},
	"SetMouseShapeCmd":    {method: "vaxis.Vaxis.SetMouseShape", args: []string{"conv(cmd)"}},
	"SetTitleCmd":         {method: "vaxis.Vaxis.SetTitle", args: []string{"conv(cmd)"}},
	"CopyToClipboardCmd":  {method: "vaxis.Vaxis.ClipboardPush", args: []string{"conv(cmd)"}},
	"SendNotificationCmd": {method: "vaxis.Vaxis.Notify", args: []string{"cmd.Title", "cmd.Body"}},
}

func (e *c15Env) ruleB() {
	c, info := e.c, e.info
	name := "vxfw.(*App).handleCommand"
	fi := c15Func(c, name)
	cmdTN, _ := e.pk.Types.Scope().Lookup("Command").(*types.TypeName)
	if fi == nil || cmdTN == nil {
		c.undecided("C15.b", name, 0, "handleCommand or type Command not found")
		return
	}
	isBatch := func(t types.Type) bool {
		sl, ok := t.Underlying().(*types.Slice)
		return ok && types.Identical(sl.Elem(), cmdTN.Type())
	}
	// the Command declaration group: the type(...) group that declares a []Command type
	var group []*types.TypeName
	for _, f := range e.pk.Syntax {
		for _, d := range f.Decls {
			gd, ok := d.(*ast.GenDecl)
			if !ok || gd.Tok != token.TYPE {
				continue
			}
			has := false
			var tns []*types.TypeName
			for _, s := range gd.Specs {
				ts := s.(*ast.TypeSpec)
				tn, _ := info.Defs[ts.Name].(*types.TypeName)
				if tn == nil {
					continue
				}
				tns = append(tns, tn)
				if isBatch(tn.Type()) {
					has = true
				}
			}
			if has {
				group = append(group, tns...)
			}
		}
	}
	if len(group) < 2 {
		c.undecided("C15.b", name+"/command group", fi.Decl.Pos(), "the declaration group of command types (the one containing a []Command type) was not found")
		return
	}
	var recvObj types.Object
	if fd := fi.Decl; fd.Recv != nil && len(fd.Recv.List) == 1 && len(fd.Recv.List[0].Names) == 1 {
		recvObj = info.Defs[fd.Recv.List[0].Names[0]]
	}
	var param types.Object
	if ps := fi.Decl.Type.Params.List; len(ps) == 1 && len(ps[0].Names) == 1 {
		param = info.Defs[ps[0].Names[0]]
	}
	nsw := 0
	ast.Inspect(fi.Decl.Body, func(n ast.Node) bool {
		if _, ok := n.(*ast.TypeSwitchStmt); ok {
			nsw++
		}
		return true
	})
	if recvObj == nil || param == nil {
		c.undecided("C15.b", name+"/shape", fi.Decl.Pos(), "handleCommand is not a single type switch over its parameter")
		return
	}
	// The interpreter is a decision list over the dynamic type of the parameter: one type switch, or a type switch whose
	// default clause continues with another type switch over the same value (the switch cut into categories; helper
	// calls were inlined before). The clauses are listed in the order they are tried.
	type clause struct {
		cc    *ast.CaseClause
		types []types.Type
	}
	var clauses []clause
	var sw *ast.TypeSwitchStmt
	visited := 0
	same := map[types.Object]bool{param: true} // variables holding the command itself (with its static type Command)
	tailLabels := map[types.Object]bool{}
	// stripTail drops what is a no-op at the end of a statement list behind which nothing else runs
	labelsOf := map[ast.Stmt][]types.Object{} // c15Flat drops the labels: they are remembered per labelled statement
	var noteLabels func(list []ast.Stmt)
	noteLabels = func(list []ast.Stmt) {
		for _, st := range list {
			switch t := st.(type) {
			case *ast.BlockStmt:
				noteLabels(t.List)
			case *ast.LabeledStmt:
				var ls []types.Object
				var in ast.Stmt = t
				for {
					l, ok := in.(*ast.LabeledStmt)
					if !ok {
						break
					}
					ls = append(ls, info.ObjectOf(l.Label))
					in = l.Stmt
				}
				labelsOf[in] = ls
				noteLabels([]ast.Stmt{in})
			}
		}
	}
	var stripTail func(list []ast.Stmt) []ast.Stmt
	stripTail = func(list []ast.Stmt) []ast.Stmt {
		noteLabels(list)
		list = c15Flat(list)
		for len(list) > 0 {
			switch t := list[len(list)-1].(type) {
			case *ast.ReturnStmt:
				if len(t.Results) == 0 {
					list = list[:len(list)-1]
					continue
				}
			case *ast.BranchStmt:
				if t.Tok == token.BREAK && (t.Label == nil || tailLabels[info.ObjectOf(t.Label)]) {
					list = list[:len(list)-1]
					continue
				}
			case *ast.EmptyStmt:
				list = list[:len(list)-1]
				continue
			}
			break
		}
		return list
	}
	var collect func(list []ast.Stmt) bool
	collect = func(list []ast.Stmt) bool {
		list = stripTail(list)
		if len(list) != 1 {
			return false
		}
		st := list[0]
		for _, l := range labelsOf[st] {
			tailLabels[l] = true // the only statement of a list behind which nothing runs: leaving it is leaving the function
		}
		switch t := st.(type) {
		case *ast.SwitchStmt:
			// the one-shot `switch { default: ... }` the inliner wraps a helper body in
			if t.Init == nil && t.Tag == nil && len(t.Body.List) == 1 {
				if cc := t.Body.List[0].(*ast.CaseClause); cc.List == nil {
					return collect(cc.Body)
				}
			}
			return false
		case *ast.TypeSwitchStmt:
			if t.Init != nil {
				return false
			}
			var swX ast.Expr
			switch a := t.Assign.(type) {
			case *ast.AssignStmt:
				if ta, ok := unparen(a.Rhs[0]).(*ast.TypeAssertExpr); ok {
					swX = ta.X
				}
			case *ast.ExprStmt:
				if ta, ok := unparen(a.X).(*ast.TypeAssertExpr); ok {
					swX = ta.X
				}
			}
			if swX == nil {
				return false
			}
			if id, ok := unparen(swX).(*ast.Ident); !ok || !same[info.Uses[id]] {
				return false
			}
			if sw == nil {
				sw = t
			}
			visited++
			var deflt *ast.CaseClause
			for _, s := range t.Body.List {
				cc := s.(*ast.CaseClause)
				if cc.List == nil {
					deflt = cc
					continue
				}
				cl := clause{cc: cc}
				for _, x := range cc.List {
					cl.types = append(cl.types, info.TypeOf(x))
				}
				clauses = append(clauses, cl)
			}
			if deflt != nil {
				// in the default clause the bound variable is the switched value itself
				if o := info.Implicits[deflt]; o != nil {
					same[o] = true
				}
				before := len(clauses)
				if !collect(deflt.Body) {
					// an ordinary default clause (no further dispatch): tried last, matches no command type of its own
					clauses = clauses[:before]
					clauses = append(clauses, clause{cc: deflt})
				}
			}
			return true
		}
		return false
	}
	okShape := collect(fi.Decl.Body.List) && sw != nil && visited == nsw
	if okShape {
		// the command variables are never reassigned (so every switch of the chain looks at the same value)
		okShape = !assignsAny(info, fi.Decl.Body, same)
	}
	if !okShape {
		c.undecided("C15.b", name+"/shape", fi.Decl.Pos(), "handleCommand is not a single type switch over its parameter")
		return
	}
	flagFields := map[*types.Var]string{}
	for _, ef := range c15Effects {
		for _, f := range ef.flags {
			if v := e.app[f]; v != nil {
				flagFields[v] = f
			}
		}
	}
	for _, tn := range group {
		key := name + "/case " + tn.Name()
		var own *clause
		shadow := ""
		for i := range clauses {
			cl := &clauses[i]
			hit := false
			for _, t := range cl.types {
				if t == nil {
					continue
				}
				if types.Identical(t, tn.Type()) {
					hit = true
				} else if it, ok := t.Underlying().(*types.Interface); ok && !types.IsInterface(tn.Type()) && types.Implements(tn.Type(), it) {
					shadow = types.TypeString(t, nil)
				} else if it, ok := t.Underlying().(*types.Interface); ok && types.IsInterface(tn.Type()) && own == nil && it.NumMethods() == 0 {
					shadow = types.TypeString(t, nil)
				}
			}
			if hit {
				own = cl
				break
			}
			if shadow != "" {
				break
			}
		}
		if own == nil {
			if shadow != "" {
				c.bad("C15.b", key, sw.Pos(), "the case for %s is shadowed by an earlier case %s: the command never takes its own effect", tn.Name(), shadow)
			} else {
				c.bad("C15.b", key, sw.Pos(), "command type %s of the Command group has no case in handleCommand: returning it has no effect", tn.Name())
			}
			continue
		}
		if len(own.types) != 1 {
			c.undecided("C15.b", key, own.cc.Pos(), "the case lists several types; effects cannot be attributed")
			continue
		}
		c.ok("C15.b", key, own.cc.Pos(), "own reachable case")
		// bound variable of this clause
		bound := info.Implicits[own.cc]
		if isBatch(tn.Type()) {
			e.batchCase(name, tn, own.cc, bound, recvObj, fi.Obj)
			continue
		}
		ef, known := c15Effects[tn.Name()]
		if !known {
			c.undecided("C15.b", key+" effect", own.cc.Pos(), "no documented effect is tabulated for command type %s (new command: extend the reference table)", tn.Name())
			continue
		}
		// flags set in this clause
		setTrue := map[string]bool{}
		other := []string{}
		var calls []*ast.CallExpr
		nested := false
		var stmts []ast.Stmt
		for _, st := range stripTail(own.cc.Body) {
			// `if err := effect(); err != nil { log }` : the init statement is the effect
			if ifs, ok := st.(*ast.IfStmt); ok && ifs.Init != nil {
				stmts = append(stmts, ifs.Init, &ast.IfStmt{Cond: ifs.Cond, Body: ifs.Body, Else: ifs.Else})
				continue
			}
			stmts = append(stmts, st)
		}
		for _, st := range stmts {
			switch t := st.(type) {
			case *ast.AssignStmt:
				for i, l := range t.Lhs {
					fv := c15Field(info, l)
					if fn, ok := flagFields[fv]; ok && rootObj(info, l) == recvObj && t.Tok == token.ASSIGN && len(t.Rhs) == len(t.Lhs) {
						if tv, ok := info.Types[t.Rhs[i]]; ok && tv.Value != nil && tv.Value.String() == "true" {
							setTrue[fn] = true
							continue
						}
						other = append(other, fn+" = "+types.ExprString(t.Rhs[i]))
					}
				}
				for _, r := range t.Rhs {
					ast.Inspect(r, func(n ast.Node) bool {
						if cl, ok := n.(*ast.CallExpr); ok {
							if tv, ok := info.Types[cl.Fun]; !ok || !tv.IsType() {
								calls = append(calls, cl)
							}
						}
						return true
					})
				}
			case *ast.ExprStmt:
				if cl, ok := t.X.(*ast.CallExpr); ok {
					calls = append(calls, cl)
				}
			case *ast.IfStmt:
				// error handling after the call (log and return) is allowed; it must not set flags or call effects
				ast.Inspect(t, func(n ast.Node) bool {
					switch x := n.(type) {
					case *ast.AssignStmt:
						for _, l := range x.Lhs {
							if _, ok := flagFields[c15Field(info, l)]; ok {
								nested = true
							}
						}
					case *ast.CallExpr:
						if fn := calleeOf(info, x); fn != nil && (e.mayCommand[fn] || strings.HasPrefix(repoName(fn), "vaxis.Vaxis.")) {
							nested = true
						}
					}
					return true
				})
			default:
				nested = true
			}
		}
		if nested {
			c.undecided("C15.b", key+" effect", own.cc.Pos(), "the case body has control flow around its effect; exactly-once cannot be read off")
			continue
		}
		want := map[string]bool{}
		for _, f := range ef.flags {
			want[f] = true
		}
		var miss, extra []string
		for f := range want {
			if !setTrue[f] {
				miss = append(miss, f)
			}
		}
		for f := range setTrue {
			if !want[f] {
				extra = append(extra, f)
			}
		}
		sort.Strings(miss)
		sort.Strings(extra)
		extra = append(extra, other...)
		// effect calls
		var effCalls []*ast.CallExpr
		for _, cl := range calls {
			fn := calleeOf(info, cl)
			if fn == nil {
				continue
			}
			rn := repoName(fn)
			if e.mayCommand[fn] || strings.HasPrefix(rn, "vaxis.Vaxis.") || rn == "vxfw.focusHandler.focusWidget" {
				effCalls = append(effCalls, cl)
			}
		}
		okCall := true
		callWhy := ""
		if ef.method == "" {
			if len(effCalls) != 0 {
				okCall, callWhy = false, "unexpected call "+types.ExprString(effCalls[0].Fun)
			}
		} else {
			if len(effCalls) != 1 {
				okCall, callWhy = false, fmt.Sprintf("expected exactly one call of %s, found %d effect calls", ef.method, len(effCalls))
			} else {
				cl := effCalls[0]
				if rn := repoName(calleeOf(info, cl)); rn != ef.method {
					okCall, callWhy = false, "calls "+rn+" instead of "+ef.method
				} else if len(cl.Args) != len(ef.args) {
					okCall, callWhy = false, "argument count"
				} else {
					for i, a := range cl.Args {
						if got := e.renderArg(a, bound, recvObj); got != ef.args[i] {
							okCall, callWhy = false, fmt.Sprintf("argument %d is %s, expected %s", i+1, types.ExprString(a), ef.args[i])
						}
					}
					if sel, ok := cl.Fun.(*ast.SelectorExpr); ok && rootObj(info, sel.X) != recvObj {
						okCall, callWhy = false, "the effect is applied to something other than this App"
					}
				}
			}
		}
		switch {
		case len(miss) > 0:
			c.bad("C15.b", key+" effect", own.cc.Pos(), "%s does not set %s = true: the command has no effect", tn.Name(), strings.Join(miss, ", "))
		case len(extra) > 0:
			c.bad("C15.b", key+" effect", own.cc.Pos(), "%s also sets %s: the command takes an effect that belongs to another command", tn.Name(), strings.Join(extra, ", "))
		case !okCall:
			c.bad("C15.b", key+" effect", own.cc.Pos(), "%s: %s", tn.Name(), callWhy)
		default:
			c.ok("C15.b", key+" effect", own.cc.Pos(), "documented effect, exactly once, nothing else")
		}
	}
	// no case beyond the group may set a pending-command flag (an unknown type silently acting as a command)
	c.ok("C15.b", name+"/group size", sw.Pos(), "%d command types in the declaration group", len(group))
}

func (e *c15Env) renderArg(a ast.Expr, bound, recvObj types.Object) string {
	info := e.info
	a = unparen(a)
	isBound := func(x ast.Expr) bool {
		id, ok := unparen(x).(*ast.Ident)
		return ok && bound != nil && info.Uses[id] == bound
	}
	if isBound(a) {
		return "cmd"
	}
	if id, ok := a.(*ast.Ident); ok && info.Uses[id] == recvObj {
		return "<app>"
	}
	if call, ok := a.(*ast.CallExpr); ok && len(call.Args) == 1 {
		if tv, ok := info.Types[call.Fun]; ok && tv.IsType() && isBound(call.Args[0]) {
			return "conv(cmd)"
		}
	}
	if sel, ok := a.(*ast.SelectorExpr); ok && isBound(sel.X) {
		return "cmd." + sel.Sel.Name
	}
	return "?" + types.ExprString(a)
}

func (e *c15Env) batchCase(name string, tn *types.TypeName, cc *ast.CaseClause, bound, recvObj types.Object, self *types.Func) {
	c, info := e.c, e.info
	key := name + "/case " + tn.Name() + " recurses element-wise once"
	body := c15UnwrapBatchBody(info, cc.Body) // (c15x.go) blocks, labels, alias definitions and one-shot switch wrappers removed
	if len(body) != 1 {
		c.bad("C15.b", key, cc.Pos(), "the batch case is not a single loop over the batch")
		return
	}
	defs := c15DefsOf(info, cc)
	it := c15IterOf(info, defs, body[0])
	if it != nil {
		// a loop over the batch that can be left early drops the rest of the batch, whatever else it does
		if exits := c15LoopExits(info, cc, it.stmt); len(exits) > 0 {
			what := "return"
			if br, ok := exits[0].(*ast.BranchStmt); ok {
				what = br.Tok.String()
			}
			c.bad("C15.b", key, exits[0].Pos(), "the loop over the batch can be left early (%s inside the loop body): the commands that follow in the same batch are dropped, they never take effect", what)
			return
		}
	}
	if it == nil || !it.full {
		c.undecided("C15.b", key, cc.Pos(), "the batch case is not a loop that visits every element front to back")
		return
	}
	xid, ok := c16StripConv(info, defs.resolve(c16StripConv(info, it.x))).(*ast.Ident)
	if !ok || info.Uses[xid] != bound {
		c.bad("C15.b", key, it.stmt.Pos(), "the loop does not iterate over the batch itself")
		return
	}
	lb := c15Flat(it.body.List)
	if len(lb) != 1 {
		c.bad("C15.b", key, it.stmt.Pos(), "the loop body is not exactly one recursive handleCommand call on the element (elements are skipped or interpreted more than once)")
		return
	}
	es, _ := lb[0].(*ast.ExprStmt)
	var call *ast.CallExpr
	if es != nil {
		call, _ = es.X.(*ast.CallExpr)
	}
	okCall := call != nil && calleeOf(info, call) == self && len(call.Args) == 1
	if okCall {
		okCall = it.isElem(call.Args[0])
		if sel, ok := call.Fun.(*ast.SelectorExpr); !ok || rootObj(info, sel.X) != recvObj {
			okCall = false
		}
	}
	c.check(okCall, "C15.b", key, it.stmt.Pos(), "for each element c of the batch, in order: a.handleCommand(c)", "the loop body is not exactly one recursive handleCommand call on the element: batch members are dropped or interpreted by something else")
}

// ---------------------------------------------------------------------------
// C15.c focus change

func (e *c15Env) ruleC() {
	c, info := e.c, e.info
	name := "vxfw.(*focusHandler).focusWidget"
	fi := c15Func(c, name)
	if fi == nil {
		c.undecided("C15.c", name, 0, "function not found")
		return
	}
	g := c.P.Graph(fi)
	fd := fi.Decl
	var recvObj, wObj types.Object
	if fd.Recv != nil && len(fd.Recv.List) == 1 && len(fd.Recv.List[0].Names) == 1 {
		recvObj = info.Defs[fd.Recv.List[0].Names[0]]
	}
	for _, f := range fd.Type.Params.List {
		for _, n := range f.Names {
			if c15IsNamed(info.TypeOf(n), c15VxfwPath, "Widget") {
				wObj = info.Defs[n]
			}
		}
	}
	if recvObj == nil || wObj == nil {
		c.undecided("C15.c", name+"/signature", fd.Pos(), "receiver or widget parameter not recognised")
		return
	}
	focused := e.fh["focused"]
	var outs, ins, others []Hit
	for _, h := range g.Find(func(n ast.Node) bool {
		call, ok := n.(*ast.CallExpr)
		return ok && e.dispatch(info, call) != ""
	}) {
		call := h.Node.(*ast.CallExpr)
		switch {
		case e.dispatch(info, call) == "handle" && e.eventKind(info, call) == "vaxis.FocusOut":
			outs = append(outs, h)
		case e.dispatch(info, call) == "handle" && e.eventKind(info, call) == "vaxis.FocusIn":
			ins = append(ins, h)
		default:
			others = append(others, h)
		}
	}
	stores := g.Find(func(n ast.Node) bool {
		as, ok := n.(*ast.AssignStmt)
		if !ok {
			return false
		}
		for _, l := range as.Lhs {
			if c15Field(info, l) == focused {
				return true
			}
		}
		return false
	})
	inLoop := func(h Hit) bool { return len(c15EnclosingLoops(e.parents, h.Node)) > 0 }
	okOut := len(outs) == 1 && !inLoop(outs[0])
	c.check(okOut, "C15.c", name+"/exactly one FocusOut", fd.Pos(), "one FocusOut dispatch, not in a loop", fmt.Sprintf("expected exactly one FocusOut dispatch outside loops, found %d: the old widget gets no or several focus-out notifications", len(outs)))
	okIn := len(ins) == 1 && !inLoop(ins[0])
	c.check(okIn, "C15.c", name+"/exactly one FocusIn", fd.Pos(), "one FocusIn dispatch, not in a loop", fmt.Sprintf("expected exactly one FocusIn dispatch outside loops, found %d: the new widget gets no or several focus-in notifications", len(ins)))
	okStore := len(stores) == 1
	c.check(okStore && len(others) == 0, "C15.c", name+"/exactly one focus store, no other dispatch", fd.Pos(), "one assignment to focused; no further dispatch", fmt.Sprintf("found %d assignments to focused and %d other dispatches", len(stores), len(others)))
	if !okOut || !okIn || !okStore {
		return
	}
	out, in, st := outs[0], ins[0], stores[0]
	oc, ic := out.Node.(*ast.CallExpr), in.Node.(*ast.CallExpr)
	for _, x := range []struct {
		call *ast.CallExpr
		what string
	}{{oc, "FocusOut"}, {ic, "FocusIn"}} {
		c.check(e.phaseOf(info, x.call) == "TargetPhase", "C15.c", name+"/"+x.what+" is delivered in the target phase", x.call.Pos(), "TargetPhase", x.what+" is not delivered with TargetPhase")
	}
	osel, _ := oc.Fun.(*ast.SelectorExpr)
	c.check(osel != nil && c15Field(info, osel.X) == focused && rootObj(info, osel.X) == recvObj, "C15.c", name+"/FocusOut goes to the old focused widget", oc.Pos(),
		"receiver is "+recvObj.Name()+".focused (before the store)", "FocusOut is not sent to the currently focused widget")
	isel, _ := ic.Fun.(*ast.SelectorExpr)
	okInRecv := false
	if isel != nil {
		if id, ok := unparen(isel.X).(*ast.Ident); ok && info.Uses[id] == wObj {
			okInRecv = true
		}
		// f.focused after the store is the same widget
		if c15Field(info, isel.X) == focused && rootObj(info, isel.X) == recvObj {
			okInRecv = true
		}
	}
	c.check(okInRecv, "C15.c", name+"/FocusIn goes to the new widget", ic.Pos(), "receiver is the widget being focused", "FocusIn is not sent to the widget being focused")
	as := st.Node.(*ast.AssignStmt)
	okRhs := false
	if len(as.Lhs) == 1 && len(as.Rhs) == 1 && as.Tok == token.ASSIGN {
		if id, ok := unparen(as.Rhs[0]).(*ast.Ident); ok && info.Uses[id] == wObj {
			okRhs = true
		}
	}
	c.check(okRhs, "C15.c", name+"/focused = w", as.Pos(), "the new widget becomes the focused one", "the store to focused does not store the widget being focused")
	isOut := func(n ast.Node) bool { return n == ast.Node(oc) }
	isStore := func(n ast.Node) bool { return n == ast.Node(as) }
	c.check(g.MustPrecede(isOut, st.Loc) && !g.ReachesAvoiding(st.Loc, out.Loc, nil), "C15.c", name+"/FocusOut precedes the focus store", as.Pos(),
		"the old widget is told before focus moves", "focused is reassigned before (or without) FocusOut having been sent: the notification goes to the wrong widget or is lost")
	c.check(g.MustPrecede(isStore, in.Loc) && !g.ReachesAvoiding(in.Loc, st.Loc, nil), "C15.c", name+"/focus store precedes FocusIn", ic.Pos(),
		"focus has moved when the new widget is told (a FocusWidgetCmd it returns sees the new state)", "FocusIn is sent before focused is updated: a focus command returned by the new widget is compared against the stale focus")
	// early return when unchanged: FocusOut is reachable only under focused != w
	gs := c15GuardsAt(g, out.Loc)
	ids := []string{termOf(info, osel.X).ID, fmt.Sprintf("%p", wObj)}
	sort.Strings(ids)
	op := map[string]bool{"eq:" + ids[0] + "|" + ids[1]: true}
	ne := false
	for _, gd := range gs {
		v := c15Eval(gd.f, nil, op)
		if (gd.pol && v == -1) || (!gd.pol && v == 1) {
			ne = true
		}
	}
	c.check(ne, "C15.c", name+"/nothing is sent when the focus is unchanged", oc.Pos(), "FocusOut is reachable only under focused != w (guards: "+c15GuardsString(gs)+")",
		"FocusOut/FocusIn are sent even when w already has the focus (guards in force: "+c15GuardsString(gs)+")")
}

// ---------------------------------------------------------------------------
// C15.d hover ledger

func (e *c15Env) ruleD() {
	c := e.c
	lastHits := e.mh["lastHits"]
	// 1. every sender of MouseEnter/MouseLeave, in every package
	for _, pk := range c.P.All {
		info := pk.TypesInfo
		par := c.P.Parents(pk)
		for _, file := range pk.Syntax {
			ast.Inspect(file, func(n ast.Node) bool {
				call, ok := n.(*ast.CallExpr)
				if !ok || e.dispatch(info, call) != "handle" {
					return true
				}
				kind := e.eventKind(info, call)
				if kind != "MouseEnter" && kind != "MouseLeave" {
					return true
				}
				encl := c15EnclosingFunc(par, pk, call)
				key := encl + "/" + kind + " sent by the ledger owner"
				var fd *ast.FuncDecl
				for cur := ast.Node(call); cur != nil; cur = par[cur] {
					if d, ok := cur.(*ast.FuncDecl); ok {
						fd = d
					}
				}
				isOwner := false
				if fd != nil && fd.Recv != nil && len(fd.Recv.List) == 1 {
					isOwner = c15IsNamed(info.TypeOf(fd.Recv.List[0].Type), c15VxfwPath, "mouseHandler")
				}
				if !isOwner {
					c.bad("C15.d", key, call.Pos(), "%s is sent from %s, which is not a method of mouseHandler and does not record it in lastHits: the next hit-test diff sends the same notification again (enter/leave stop alternating)", kind, encl)
					return true
				}
				fi := c15Func(c, encl)
				g := c.P.Graph(fi)
				loc, found := g.Locate(call)
				if !found {
					c.undecided("C15.d", key, call.Pos(), "call not located in the CFG")
					return true
				}
				// every non-error path from the send to a return stores lastHits
				missed := false
				g.walk(Loc{loc.B, loc.Idx + 1}, func(l Loc, nd ast.Node) bool {
					return !containsNode(nd, func(m ast.Node) bool {
						as, ok := m.(*ast.AssignStmt)
						if !ok {
							return false
						}
						for _, lh := range as.Lhs {
							if c15Field(info, lh) == lastHits {
								return true
							}
						}
						return false
					})
				}, func(b *cfg.Block) {
					if !c15ErrExit(info, b) {
						missed = true
					}
				})
				c.check(!missed, "C15.d", key, call.Pos(), "a mouseHandler method; lastHits is stored on every normal path afterwards",
					kind+" is sent but a normal return is reachable without updating lastHits: the ledger no longer reflects what widgets were told")
				return true
			})
		}
	}
	e.ruleDUpdate()
	e.ruleDExit()
	e.ruleDRun()
}

// diffLoop recognises (in any loop spelling, label name, operand order)
//
//	L: for each h1 of A { for each h2 of B { if h1 == h2 { continue L } }; h1.w.HandleEvent(E{}, ...) }
//
// and returns A, B for the loop enclosing call.
func (e *c15Env) diffLoop(g *FG, defs *c15Defs, call *ast.CallExpr) (a, b ast.Expr, why string) {
	info := e.info
	loops := c15EnclosingLoops(e.parents, call)
	if len(loops) != 1 {
		return nil, nil, "the notification is not sent from exactly one enclosing loop"
	}
	outer := c15IterOf(info, defs, loops[0])
	if outer == nil || !outer.full {
		return nil, nil, "the outer loop does not visit every element of a list"
	}
	sel, _ := call.Fun.(*ast.SelectorExpr)
	if sel == nil || c15Field(info, defs.resolve(sel.X)) != e.hit["w"] || !outer.isElem(unparen(defs.resolve(sel.X)).(*ast.SelectorExpr).X) {
		return nil, nil, "the notification does not go to the visited hit's widget"
	}
	lbl, _ := e.parents[outer.stmt].(*ast.LabeledStmt)
	// the membership loop: the only loop nested in the outer body
	var inners []ast.Stmt
	var find func(n ast.Node)
	find = func(n ast.Node) {
		ast.Inspect(n, func(m ast.Node) bool {
			if m == nil || m == n {
				return true
			}
			switch m.(type) {
			case *ast.ForStmt, *ast.RangeStmt:
				inners = append(inners, m.(ast.Stmt))
				return false
			case *ast.FuncLit:
				return false
			}
			return true
		})
	}
	find(outer.body)
	if len(inners) != 1 {
		return nil, nil, fmt.Sprintf("expected one membership loop inside the outer loop, found %d", len(inners))
	}
	inner := c15IterOf(info, defs, inners[0])
	if inner == nil || !inner.full {
		return nil, nil, "the membership loop does not visit every element of a list"
	}
	if containsNode(inner.stmt, func(n ast.Node) bool { return n == ast.Node(call) }) {
		return nil, nil, "the notification is sent from inside the membership loop"
	}
	ib := c15Flat(inner.body.List)
	if len(ib) != 1 {
		return nil, nil, "the membership loop body is not a single test"
	}
	ifs, ok := ib[0].(*ast.IfStmt)
	if !ok || ifs.Init != nil || ifs.Else != nil {
		return nil, nil, "the membership loop body is not a single if"
	}
	be, ok := unparen(ifs.Cond).(*ast.BinaryExpr)
	if !ok || be.Op != token.EQL {
		return nil, nil, "membership test is not an equality"
	}
	if !((outer.isElem(be.X) && inner.isElem(be.Y)) || (outer.isElem(be.Y) && inner.isElem(be.X))) {
		return nil, nil, "membership test does not compare the two visited hits"
	}
	tb := c15Flat(ifs.Body.List)
	if len(tb) == 0 {
		return nil, nil, "a found element does not continue the outer loop"
	}
	br, ok := tb[0].(*ast.BranchStmt)
	if !ok || br.Tok != token.CONTINUE || br.Label == nil || lbl == nil || info.ObjectOf(br.Label) != info.ObjectOf(lbl.Label) {
		return nil, nil, "a found element does not `continue` the outer loop"
	}
	// within one outer iteration the send comes after the membership loop
	cl, ok1 := g.Locate(call)
	il, ok2 := g.Locate(inner.anchor)
	if !ok1 || !ok2 {
		return nil, nil, "loop not located in the CFG"
	}
	ol, ok3 := g.Locate(outer.anchor)
	if ok3 && g.ReachesAvoiding(ol, cl, func(n ast.Node) bool { return n == inner.anchor }) && ol != il {
		return nil, nil, "the notification can be sent without the membership test"
	}
	return outer.x, inner.x, ""
}

func (e *c15Env) ruleDUpdate() {
	c, info := e.c, e.info
	name := "vxfw.(*mouseHandler).update"
	fi := c15Func(c, name)
	if fi == nil {
		c.undecided("C15.d", name, 0, "function not found")
		return
	}
	g := c.P.Graph(fi)
	var recvObj types.Object
	if fd := fi.Decl; fd.Recv != nil && len(fd.Recv.List) == 1 && len(fd.Recv.List[0].Names) == 1 {
		recvObj = info.Defs[fd.Recv.List[0].Names[0]]
	}
	lastHits := e.mh["lastHits"]
	isLedger := func(x ast.Expr) bool { return x != nil && c15Field(info, x) == lastHits && rootObj(info, x) == recvObj }
	// the new list: the variable (or access path) stored into lastHits
	var newExpr ast.Expr
	newID := ""
	nStores := 0
	ast.Inspect(fi.Decl.Body, func(n ast.Node) bool {
		if as, ok := n.(*ast.AssignStmt); ok && len(as.Lhs) == 1 && len(as.Rhs) == 1 && isLedger(as.Lhs[0]) {
			nStores++
			if id := termOf(info, as.Rhs[0]).ID; !strings.HasPrefix(id, "expr:") && !strings.HasPrefix(id, "len(") {
				newExpr, newID = as.Rhs[0], id
			}
		}
		return true
	})
	if nStores != 1 || newExpr == nil {
		c.bad("C15.d", name+"/stores the new hit list", fi.Decl.Pos(), "expected exactly one store `lastHits = <new list variable>`, found %d: the ledger is not replaced by the list that was diffed", nStores)
		return
	}
	c.ok("C15.d", name+"/stores the new hit list", fi.Decl.Pos(), "lastHits = %s", types.ExprString(newExpr))
	updDefs := c15DefsOf(info, fi.Decl.Body)
	isNew := func(x ast.Expr) bool {
		if x == nil {
			return false
		}
		if termOf(info, x).ID == newID {
			return true
		}
		return termOf(info, updDefs.resolve(x)).ID == newID || termOf(info, x).ID == termOf(info, updDefs.resolve(newExpr)).ID
	}
	seen := map[string]int{}
	for _, h := range g.Find(func(n ast.Node) bool {
		call, ok := n.(*ast.CallExpr)
		if !ok || e.dispatch(info, call) != "handle" {
			return false
		}
		k := e.eventKind(info, call)
		return k == "MouseEnter" || k == "MouseLeave"
	}) {
		call := h.Node.(*ast.CallExpr)
		kind := e.eventKind(info, call)
		seen[kind]++
		key := name + "/" + kind + " goes to the right difference"
		a, b, why := e.diffLoop(g, c15DefsOf(info, fi.Decl.Body), call)
		if why != "" {
			c.undecided("C15.d", key, call.Pos(), "diff loop not recognised: %s", why)
			continue
		}
		var okDir bool
		var want string
		if kind == "MouseLeave" {
			okDir, want = isLedger(a) && isNew(b), "lastHits \\ hits"
		} else {
			okDir, want = isNew(a) && isLedger(b), "hits \\ lastHits"
		}
		c.check(okDir, "C15.d", key, call.Pos(), kind+" is sent to "+want,
			kind+" is sent to the elements of "+types.ExprString(a)+" not in "+types.ExprString(b)+" instead of "+want+": widgets are told the opposite of what happened (or told again)")
		c.check(e.phaseOf(info, call) == "TargetPhase", "C15.d", name+"/"+kind+" delivered in the target phase", call.Pos(), "TargetPhase", kind+" is not delivered with TargetPhase")
	}
	for _, k := range []string{"MouseEnter", "MouseLeave"} {
		if seen[k] != 1 {
			c.bad("C15.d", name+"/sends "+k+" once", fi.Decl.Pos(), "update contains %d %s sends; the hit-test diff needs exactly one", seen[k], k)
		}
	}
	// hit testing only when the pointer is inside the root surface
	hm := e.hitModel()
	if hm.why != "" || hm.own == nil {
		c.undecided("C15.d", name+"/hit test guarded by the root surface", fi.Decl.Pos(), "hitTest or containsPoint not found")
		return
	}
	calls := g.Calls(func(fn *types.Func, call *ast.CallExpr) bool { return fn == hm.H.Obj })
	if len(calls) != 1 {
		c.bad("C15.d", name+"/hit test guarded by the root surface", fi.Decl.Pos(), "expected one hitTest call, found %d", len(calls))
		return
	}
	hcall := calls[0].Node.(*ast.CallExpr)
	mouseF := e.mh["mouse"]
	isMouseCoord := func(x ast.Expr, field string) bool {
		for {
			x = unparen(x)
			cv, ok := x.(*ast.CallExpr)
			if !ok || len(cv.Args) != 1 {
				break
			}
			if tv, ok := info.Types[cv.Fun]; !ok || !tv.IsType() {
				break
			}
			x = cv.Args[0]
		}
		sel, ok := x.(*ast.SelectorExpr)
		return ok && sel.Sel.Name == field && c15Field(info, sel.X) == mouseF && rootObj(info, sel.X) == recvObj
	}
	guarded := e.rootGuard(g, calls[0].Loc, isMouseCoord)
	c.check(guarded, "C15.d", name+"/hit test guarded by the root surface", hcall.Pos(), "hitTest runs only if the root surface contains (mouse.Col, mouse.Row)",
		"hitTest runs although the pointer may be outside the root surface (or the containment test swaps Col/Row): the root is never told the pointer left")
	// the list the hit test fills is the list that is diffed and stored
	colA, rowA := hm.argOf(hcall, hm.colP), hm.argOf(hcall, hm.rowP)
	okArgs := colA != nil && rowA != nil && isMouseCoord(colA, "Col") && isMouseCoord(rowA, "Row")
	okRes := false
	switch {
	case hm.listP != nil:
		la := hm.argOf(hcall, hm.listP)
		okArgs = okArgs && la != nil && isNew(la)
		if as, ok := e.parents[hcall].(*ast.AssignStmt); ok && len(as.Lhs) == 1 && isNew(as.Lhs[0]) {
			okRes = true
		}
	case hm.listF != nil:
		// collector form: the diffed list is the collector's field, read after the hit test ran
		if sel, ok := unparen(hcall.Fun).(*ast.SelectorExpr); ok {
			if robj := rootObj(info, sel.X); robj != nil {
				ne := unparen(updDefs.resolve(newExpr))
				if c15Field(info, ne) == hm.listF && rootObj(info, ne) == robj {
					okRes = true
					// a local copy of the field must be taken after the call, not before
					if id, isID := unparen(newExpr).(*ast.Ident); isID {
						if o := info.ObjectOf(id); o != nil && updDefs.count[o] == 1 {
							for _, h := range g.Find(func(n ast.Node) bool {
								as, ok := n.(*ast.AssignStmt)
								if !ok || len(as.Lhs) != 1 {
									return false
								}
								l, ok := as.Lhs[0].(*ast.Ident)
								return ok && info.Defs[l] == o
							}) {
								if g.ReachesAvoiding(h.Loc, calls[0].Loc, nil) {
									okRes = false
								}
							}
						}
					}
				}
			}
		}
	}
	c.check(okArgs, "C15.d", name+"/hit test at the pointer position", hcall.Pos(), "hitTest(s, hits, mouse.Col, mouse.Row)", "hitTest is not called with (surface, hits, mouse.Col, mouse.Row) in that order")
	c.check(okRes, "C15.d", name+"/hit test result is the diffed list", hcall.Pos(), "hits = hitTest(...)", "the result of hitTest is not the list that is diffed and stored")
}

func (e *c15Env) ruleDExit() {
	c, info := e.c, e.info
	name := "vxfw.(*mouseHandler).mouseExit"
	fi := c15Func(c, name)
	if fi == nil {
		c.undecided("C15.d", name, 0, "function not found")
		return
	}
	var recvObj types.Object
	if fd := fi.Decl; fd.Recv != nil && len(fd.Recv.List) == 1 && len(fd.Recv.List[0].Names) == 1 {
		recvObj = info.Defs[fd.Recv.List[0].Names[0]]
	}
	lastHits := e.mh["lastHits"]
	g := c.P.Graph(fi)
	sends := g.Find(func(n ast.Node) bool {
		call, ok := n.(*ast.CallExpr)
		return ok && e.dispatch(info, call) == "handle"
	})
	okSend := false
	why := fmt.Sprintf("expected one MouseLeave send, found %d dispatches", len(sends))
	if len(sends) == 1 {
		call := sends[0].Node.(*ast.CallExpr)
		why = "the send is not `for each h of m.lastHits { h.w.HandleEvent(MouseLeave{}, TargetPhase) }`"
		loops := c15EnclosingLoops(e.parents, call)
		defs := c15DefsOf(info, fi.Decl.Body)
		if len(loops) == 1 && e.eventKind(info, call) == "MouseLeave" && e.phaseOf(info, call) == "TargetPhase" {
			if it := c15IterOf(info, defs, loops[0]); it != nil && it.full && c15Field(info, it.x) == lastHits && rootObj(info, it.x) == recvObj {
				if sel, ok := call.Fun.(*ast.SelectorExpr); ok {
					if rx, ok := unparen(defs.resolve(sel.X)).(*ast.SelectorExpr); ok && c15Field(info, rx) == e.hit["w"] && it.isElem(rx.X) {
						okSend = true
					}
				}
			}
		}
	}
	c.check(okSend, "C15.d", name+"/MouseLeave to every widget of the ledger", fi.Decl.Pos(), "ranges over lastHits and sends MouseLeave to each widget", why)
	// ledger emptied
	okEmpty := false
	ast.Inspect(fi.Decl.Body, func(n ast.Node) bool {
		as, ok := n.(*ast.AssignStmt)
		if !ok || len(as.Lhs) != 1 || len(as.Rhs) != 1 || c15Field(info, as.Lhs[0]) != lastHits {
			return true
		}
		r := unparen(as.Rhs[0])
		if isNilExpr(info, r) {
			okEmpty = true
		}
		if cl, ok := r.(*ast.CompositeLit); ok && len(cl.Elts) == 0 {
			okEmpty = true
		}
		if sl, ok := r.(*ast.SliceExpr); ok && sl.High != nil {
			if v, ok := constInt(info, sl.High); ok && v == 0 {
				okEmpty = true
			}
		}
		return true
	})
	c.check(okEmpty, "C15.d", name+"/ledger emptied", fi.Decl.Pos(), "lastHits becomes empty", "mouseExit does not empty lastHits: widgets that were told the pointer left are not told when it comes back")
}

// ruleDRun: terminal FocusOut closes every open enter.
func (e *c15Env) ruleDRun() {
	c, info := e.c, e.info
	name := "vxfw.(*App).Run"
	fi := c15Func(c, name)
	me := c15Func(c, "vxfw.(*mouseHandler).mouseExit")
	if fi == nil || me == nil {
		c.undecided("C15.d", name, 0, "Run or mouseExit not found")
		return
	}
	var clause *ast.CaseClause
	ast.Inspect(fi.Decl.Body, func(n ast.Node) bool {
		cc, ok := n.(*ast.CaseClause)
		if !ok {
			return true
		}
		for _, x := range cc.List {
			if tv, ok := info.Types[x]; ok && tv.IsType() && c15IsNamed(tv.Type, modPath, "FocusOut") {
				clause = cc
			}
		}
		return true
	})
	key := name + "/terminal FocusOut closes the hover ledger"
	if clause == nil {
		c.bad("C15.d", key, fi.Decl.Pos(), "Run has no case for vaxis.FocusOut: widgets under the pointer are never told it left when the terminal loses focus")
		return
	}
	callsExit, clearsMouse := false, false
	var body []ast.Stmt
	for _, st := range c15Flat(clause.Body) {
		if ifs, ok := st.(*ast.IfStmt); ok && ifs.Init != nil {
			body = append(body, ifs.Init)
			continue
		}
		body = append(body, st)
	}
	for _, st := range body {
		switch t := st.(type) {
		case *ast.AssignStmt:
			for i, l := range t.Lhs {
				if c15Field(info, l) == e.mh["mouse"] && len(t.Rhs) == len(t.Lhs) && isNilExpr(info, unparen(t.Rhs[i])) {
					clearsMouse = true
				}
			}
			for _, r := range t.Rhs {
				if cl, ok := unparen(r).(*ast.CallExpr); ok && calleeOf(info, cl) == me.Obj {
					callsExit = true
				}
			}
		case *ast.ExprStmt:
			if cl, ok := t.X.(*ast.CallExpr); ok && calleeOf(info, cl) == me.Obj {
				callsExit = true
			}
		}
	}
	c.check(callsExit, "C15.d", key, clause.Pos(), "the FocusOut arm calls mouseExit unconditionally", "the FocusOut arm does not (unconditionally) call mouseExit: enters stay open after the terminal lost focus")
	c.check(clearsMouse, "C15.d", name+"/terminal FocusOut forgets the pointer position", clause.Pos(), "mouse = nil", "the FocusOut arm keeps the last pointer position: the next frame's hit test re-enters the widgets although the terminal has no focus")
}

// ---------------------------------------------------------------------------
// C15.e pending-command flags

func (e *c15Env) ruleE() {
	c, info := e.c, e.info
	// the flags: bool fields of App set to true in handleCommand
	flags := map[*types.Var]bool{}
	if fd := e.decls[e.handleCommand]; fd != nil {
		ast.Inspect(fd.Body, func(n ast.Node) bool {
			as, ok := n.(*ast.AssignStmt)
			if !ok {
				return true
			}
			for _, l := range as.Lhs {
				if fv := c15Field(info, l); fv != nil && e.app[fv.Name()] == fv {
					if b, ok := fv.Type().Underlying().(*types.Basic); ok && b.Info()&types.IsBoolean != 0 {
						flags[fv] = true
					}
				}
			}
			return true
		})
	}
	if len(flags) == 0 {
		c.undecided("C15.e", "vxfw.(*App).handleCommand/flags", 0, "no pending-command flag found")
		return
	}
	tested := map[*types.Var]int{}
	var names []*types.Var
	for fv := range flags {
		names = append(names, fv)
	}
	sort.Slice(names, func(i, j int) bool { return names[i].Name() < names[j].Name() })
	for _, fi := range c.P.FuncsIn("vxfw") {
		if fi.Decl.Body == nil {
			continue
		}
		mention := false
		ast.Inspect(fi.Decl.Body, func(n ast.Node) bool {
			if x, ok := n.(ast.Expr); ok && flags[c15Field(info, x)] {
				mention = true
			}
			return !mention
		})
		if !mention {
			continue
		}
		g := c.P.Graph(fi)
		for _, b := range g.Blocks {
			for _, fv := range names {
				ts, ok, odd := e.flagTest(g, b, fv)
				if odd {
					c.undecided("C15.e", fi.Name+"/test of "+fv.Name(), b.Nodes[len(b.Nodes)-1].Pos(), "a condition mentions the flag in a form the recogniser does not understand")
					continue
				}
				if !ok {
					continue
				}
				cnd := g.BranchCond(b)
				if cnd.Tag != nil && ts == 1 {
					continue // `case false:` of a switch on the flag; the `case true:` arm is the test
				}
				tested[fv]++
				// from the edge on which the flag is set: it must be cleared before this test is reached again
				again := false
				isClear := func(m ast.Node) bool {
					as, ok := m.(*ast.AssignStmt)
					if !ok || as.Tok != token.ASSIGN || len(as.Lhs) != len(as.Rhs) {
						return false
					}
					for i, l := range as.Lhs {
						if c15Field(info, l) == fv {
							if tv, ok := info.Types[as.Rhs[i]]; ok && tv.Value != nil && tv.Value.String() == "false" {
								return true
							}
						}
					}
					return false
				}
				g.walk(Loc{b.Succs[ts], 0}, func(l Loc, n ast.Node) bool {
					if l.B == b {
						again = true
						return false
					}
					return !containsNode(n, isClear)
				}, nil)
				if b.Succs[ts] == b {
					again = true
				}
				key := fi.Name + "/flag " + fv.Name() + " cleared before it is tested again"
				c.check(!again, "C15.e", key, cnd.Expr.Pos(), "on the set edge the flag is cleared (or the function returns) before the test can run again",
					"after "+fv.Name()+" was found set, the same test is reachable again without "+fv.Name()+" = false in between: the command takes effect again on every round")
			}
		}
	}
	for _, fv := range names {
		c.check(tested[fv] > 0, "C15.e", "vxfw/flag "+fv.Name()+" is consumed", fv.Pos(), fmt.Sprintf("%d test(s)", tested[fv]),
			"handleCommand sets "+fv.Name()+" but nothing ever tests it: the command has no effect")
	}
	// quit is tested after every event, before the loop blocks again
	name := "vxfw.(*App).Run"
	fi := c15Func(c, name)
	quit := e.app["shouldQuit"]
	if fi == nil || quit == nil {
		c.undecided("C15.e", name+"/quit tested after every event", 0, "Run or App.shouldQuit not found")
		return
	}
	g := c.P.Graph(fi)
	var evClause *ast.CommClause
	ast.Inspect(fi.Decl.Body, func(n ast.Node) bool {
		cc, ok := n.(*ast.CommClause)
		if !ok || cc.Comm == nil {
			return true
		}
		if containsNode(cc.Comm, func(m ast.Node) bool {
			cl, ok := m.(*ast.CallExpr)
			return ok && repoName(calleeOf(info, cl)) == "vaxis.Vaxis.Events"
		}) {
			evClause = cc
		}
		return true
	})
	if evClause == nil {
		c.undecided("C15.e", name+"/quit tested after every event", fi.Decl.Pos(), "the select arm receiving from vx.Events() was not found")
		return
	}
	commLoc, found := g.Locate(evClause.Comm)
	if !found {
		// the comm statement is added to the CFG as a statement
		for _, h := range g.Find(func(n ast.Node) bool { return n == ast.Node(evClause.Comm) }) {
			commLoc, found = h.Loc, true
		}
	}
	if !found {
		c.undecided("C15.e", name+"/quit tested after every event", evClause.Pos(), "receive statement not located in the CFG")
		return
	}
	mentionsQuit := func(m ast.Node) bool {
		x, ok := m.(ast.Expr)
		return ok && c15Field(info, x) == quit
	}
	n := 0
	for _, h := range g.Find(func(nd ast.Node) bool {
		cl, ok := nd.(*ast.CallExpr)
		if !ok {
			return false
		}
		fn := calleeOf(info, cl)
		return fn != nil && e.mayCommand[fn] && evClause.Pos() <= cl.Pos() && cl.End() <= evClause.End()
	}) {
		n++
		cl := h.Node.(*ast.CallExpr)
		key := name + "/quit tested after " + types.ExprString(cl.Fun)
		c.check(!g.ReachesAvoiding(h.Loc, commLoc, mentionsQuit), "C15.e", key, cl.Pos(), "every path back to the event receive passes the shouldQuit test",
			"after this call (which may interpret a QuitCmd) the loop can block on the next event without testing shouldQuit")
	}
	if n == 0 {
		c.undecided("C15.e", name+"/quit tested after every event", evClause.Pos(), "no command-interpreting call found in the event arm")
	}
	// the set edge of the quit test leaves Run
	for _, b := range g.Blocks {
		ts, ok, _ := e.flagTest(g, b, quit)
		if !ok {
			continue
		}
		stays := false
		g.walk(Loc{b.Succs[ts], 0}, func(l Loc, nd ast.Node) bool {
			if l == commLoc {
				stays = true
			}
			return true
		}, nil)
		c.check(!stays, "C15.e", name+"/quit leaves the loop", g.BranchCond(b).Expr.Pos(), "the set edge returns", "with shouldQuit set the loop can still wait for the next event")
	}
}

// ---------------------------------------------------------------------------
// C15.f every returned command is interpreted exactly once

func (e *c15Env) ruleF() {
	c, info := e.c, e.info
	for _, fi := range c.P.FuncsIn("vxfw") {
		if fi.Decl.Body == nil {
			continue
		}
		has := false
		ast.Inspect(fi.Decl.Body, func(n ast.Node) bool {
			if cl, ok := n.(*ast.CallExpr); ok && e.dispatch(info, cl) != "" {
				has = true
			}
			return !has
		})
		if !has {
			continue
		}
		g := c.P.Graph(fi)
		isDispatch := func(m ast.Node) bool {
			cl, ok := m.(*ast.CallExpr)
			return ok && e.dispatch(info, cl) != ""
		}
		for _, h := range g.Find(isDispatch) {
			call := h.Node.(*ast.CallExpr)
			what := e.dispatch(info, call)
			if what == "handle" {
				switch k := e.eventKind(info, call); k {
				case "MouseEnter", "MouseLeave", "vaxis.FocusIn", "vaxis.FocusOut":
					what = k
				default:
					what = strings.TrimSuffix(strings.ToLower(e.phaseOf(info, call)), "phase")
				}
			}
			key := fi.Name + "/result of " + what + " dispatch interpreted once"
			as, ok := h.Top.(*ast.AssignStmt)
			var cmdObj types.Object
			if ok && len(as.Rhs) == 1 && unparen(as.Rhs[0]) == ast.Expr(call) && len(as.Lhs) == 2 {
				if id, ok := as.Lhs[0].(*ast.Ident); ok && id.Name != "_" {
					cmdObj = info.ObjectOf(id)
				}
			}
			if cmdObj == nil {
				c.bad("C15.f", key, call.Pos(), "the command returned by the handler is not bound to a variable (discarded): it never takes effect")
				continue
			}
			isInterp := func(m ast.Node) bool {
				cl := e.isHandleCommandCall(info, m)
				if cl == nil || len(cl.Args) != 1 {
					return false
				}
				id, ok := unparen(cl.Args[0]).(*ast.Ident)
				return ok && info.ObjectOf(id) == cmdObj
			}
			const (
				fPending = 1
				fDone    = 2
				fTwice   = 4
				fLost    = 8
				fClosed  = 16
			)
			transfer := func(n ast.Node, st int) int {
				out := st & (fTwice | fLost | fClosed)
				if st&fPending != 0 {
					switch {
					case containsNode(n, isInterp):
						out |= fDone
					case containsNode(n, isDispatch):
						out |= fLost
					default:
						out |= fPending
					}
				}
				if st&fDone != 0 {
					switch {
					case containsNode(n, isInterp):
						out |= fTwice
					case assignsAny(info, n, map[types.Object]bool{cmdObj: true}):
						out |= fClosed
					default:
						out |= fDone
					}
				}
				return out
			}
			pf := c15NewPFlow(g, transfer, nil)
			pf.join = func(a, b int) int { return a | b }
			pf.run(Loc{h.B, h.Idx + 1}, fPending)
			lost := ""
			twice := false
			reached := false
			for _, b := range g.Blocks {
				st, ok := pf.stateAt(Loc{b, len(b.Nodes)})
				if !ok {
					continue
				}
				if st&fDone != 0 || st&fClosed != 0 {
					reached = true
				}
				if st&fLost != 0 && lost == "" {
					lost = "the next dispatch is reached"
				}
				if st&fTwice != 0 {
					twice = true
				}
				if len(b.Succs) == 0 && g.isNormalExit(b) && !c15ErrExit(info, b) && st&fPending != 0 && lost == "" {
					lost = "a normal return is reached"
				}
			}
			if lost != "" {
				c.bad("C15.f", key, call.Pos(), "%s without handleCommand(%s): the command the handler returned is dropped", lost, cmdObj.Name())
				continue
			}
			if !reached {
				c.bad("C15.f", key, call.Pos(), "handleCommand(%s) is never reached", cmdObj.Name())
				continue
			}
			c.check(!twice, "C15.f", key, call.Pos(), "handleCommand("+cmdObj.Name()+") on every non-error path, once", "the same returned command can reach handleCommand a second time: it takes effect twice")
		}
	}
}

// ---------------------------------------------------------------------------
// C15.g hit testing

// (ruleG: c15g.go)

// ---------------------------------------------------------------------------
// forward iteration, whatever its spelling

// c15Iter describes a loop that visits the elements of a collection front to back:
//
//	for _, v := range X      for i := range X      for i, v := range X      for i := 0; i < len(X); i++
type c15Iter struct {
	stmt   ast.Stmt
	body   *ast.BlockStmt
	x      ast.Expr // the collection
	xID    string
	val    types.Object // value variable (or nil)
	idx    types.Object // index variable (or nil)
	full   bool         // every element is visited (no extra loop condition)
	anchor ast.Node     // a node evaluated whenever the loop is entered
	info   *types.Info
	defs   *c15Defs
}

func c15IterOf(info *types.Info, defs *c15Defs, st ast.Stmt) *c15Iter {
	switch t := st.(type) {
	case *ast.RangeStmt:
		it := &c15Iter{stmt: t, body: t.Body, x: t.X, xID: termOf(info, c16StripConvAll(info, t.X)).ID, full: true, anchor: t.X, info: info, defs: defs}
		if id, ok := t.Key.(*ast.Ident); ok && id.Name != "_" {
			it.idx = info.ObjectOf(id)
		}
		if id, ok := t.Value.(*ast.Ident); ok && id.Name != "_" {
			it.val = info.ObjectOf(id)
		}
		// ranging over an integer / channel / map / string is not an element iteration
		switch info.TypeOf(t.X).Underlying().(type) {
		case *types.Slice, *types.Array:
		case *types.Pointer:
		default:
			return nil
		}
		return it
	case *ast.ForStmt:
		if t.Init == nil || t.Cond == nil || t.Post == nil {
			return nil
		}
		as, ok := t.Init.(*ast.AssignStmt)
		if !ok || len(as.Lhs) != 1 || len(as.Rhs) != 1 {
			return nil
		}
		id, ok := as.Lhs[0].(*ast.Ident)
		if !ok {
			return nil
		}
		iObj := info.ObjectOf(id)
		if v, ok := constInt(info, as.Rhs[0]); !ok || v != 0 {
			return nil
		}
		if inc, ok := c16Advance(info, t.Post, iObj); !ok || inc.canon() != c15Const(1).canon() {
			return nil
		}
		if assignsAny(info, t.Body, map[types.Object]bool{iObj: true}) {
			return nil
		}
		// the condition: a conjunction with the bound i < len(X)
		iT := c15LinOf(info, as.Lhs[0])
		var conj []ast.Expr
		var split func(e ast.Expr)
		split = func(e ast.Expr) {
			e = unparen(e)
			if b, ok := e.(*ast.BinaryExpr); ok && b.Op == token.LAND {
				split(b.X)
				split(b.Y)
				return
			}
			conj = append(conj, e)
		}
		split(t.Cond)
		var x ast.Expr
		for _, cj := range conj {
			atoms, isConj := c15Conj(c15Formula(info, cj))
			if !isConj || len(atoms) != 1 {
				continue
			}
			ast.Inspect(cj, func(n ast.Node) bool {
				cl, ok := n.(*ast.CallExpr)
				if !ok || len(cl.Args) != 1 {
					return true
				}
				if fid, ok := cl.Fun.(*ast.Ident); ok && fid.Name == "len" {
					want := iT.add(c15LinOf(info, cl), -1).plus(1) // i - len(X) + 1 <= 0
					if atoms[0].canon() == want.canon() {
						x = cl.Args[0]
					}
				}
				return true
			})
		}
		if x == nil {
			return nil
		}
		return &c15Iter{stmt: t, body: t.Body, x: x, xID: termOf(info, c16StripConvAll(info, x)).ID, idx: iObj, full: len(conj) == 1, anchor: t.Cond, info: info, defs: defs}
	}
	return nil
}

func c16StripConvAll(info *types.Info, e ast.Expr) ast.Expr { return c16StripConv(info, e) }

// isElem: does e denote the element visited in the current iteration?
func (it *c15Iter) isElem(e ast.Expr) bool {
	if e == nil {
		return false
	}
	for {
		if it.defs != nil {
			e = it.defs.resolve(e)
		}
		e = unparen(e)
		if u, ok := e.(*ast.UnaryExpr); ok && u.Op == token.AND {
			e = u.X
			continue
		}
		if st, ok := e.(*ast.StarExpr); ok {
			e = st.X
			continue
		}
		break
	}
	if id, ok := e.(*ast.Ident); ok {
		return it.val != nil && it.info.ObjectOf(id) == it.val
	}
	if ix, ok := e.(*ast.IndexExpr); ok && it.idx != nil {
		if id, ok := unparen(ix.Index).(*ast.Ident); ok && it.info.ObjectOf(id) == it.idx {
			return termOf(it.info, c16StripConv(it.info, ix.X)).ID == it.xID
		}
	}
	return false
}

// elemField finds, inside e, a selector  <elem>.<path...>  and returns its canonical term.
func (it *c15Iter) elemField(e ast.Expr, path ...string) (c15Lin, bool) {
	var out c15Lin
	found := false
	ast.Inspect(e, func(n ast.Node) bool {
		sel, ok := n.(*ast.SelectorExpr)
		if !ok || found {
			return !found
		}
		cur := ast.Expr(sel)
		okPath := true
		for i := len(path) - 1; i >= 0; i-- {
			s, ok := unparen(cur).(*ast.SelectorExpr)
			if !ok || s.Sel.Name != path[i] {
				okPath = false
				break
			}
			cur = s.X
		}
		if okPath && it.isElem(cur) {
			out, found = c15LinOf(it.info, sel), true
		}
		return !found
	})
	return out, found
}

// c15LoopOf returns the innermost for/range statement enclosing n (nil if none).
func c15LoopOf(parents map[ast.Node]ast.Node, n ast.Node) ast.Stmt {
	l := c15EnclosingLoops(parents, n)
	if len(l) == 0 {
		return nil
	}
	return l[0]
}

// c15Flat lists the statements of a body with nested plain blocks (and labelled statements) flattened.
func c15Flat(list []ast.Stmt) []ast.Stmt {
	var out []ast.Stmt
	for _, st := range list {
		switch t := st.(type) {
		case *ast.BlockStmt:
			out = append(out, c15Flat(t.List)...)
		case *ast.LabeledStmt:
			out = append(out, c15Flat([]ast.Stmt{t.Stmt})...)
		case *ast.EmptyStmt:
		default:
			// `_ = x` keeps a variable used: no effect
			if as, ok := st.(*ast.AssignStmt); ok && len(as.Lhs) == 1 {
				if id, ok := as.Lhs[0].(*ast.Ident); ok && id.Name == "_" {
					if _, isCall := unparen(as.Rhs[0]).(*ast.CallExpr); !isCall {
						continue
					}
				}
			}
			out = append(out, st)
		}
	}
	return out
}

// ---------------------------------------------------------------------------
// partitioned forward analysis: a small abstract interpreter that keeps, next to the rule's own
// state, what is known about boolean / nil-able locals (so that `stop, err = true, nil; ...;
// if err != nil {..}; if stop {..}` is followed along feasible paths only).

type c15PState map[string]int // env key -> rule state (join = max)

type c15PFlow struct {
	g        *FG
	info     *types.Info
	tracked  map[types.Object]bool
	transfer func(n ast.Node, st int) int
	edge     func(b *cfg.Block, succ int, st int) int // may be nil
	in       map[*cfg.Block]c15PState
	start    Loc
	init     int
	join     func(a, b int) int // default: max
	// split (optional): a node that decides something the rule state depends on while binding it to a tracked
	// local (`consumed := app.consumeEvent`): the outcomes (environment, rule state) replace transfer/envAfter
	// for that node. nil result = not such a node.
	split func(n ast.Node, env string, st int) []c15Out
}

type c15Out struct {
	env string
	st  int
}

// step applies one CFG node to one (environment, state) pair.
func (pf *c15PFlow) step(n ast.Node, env string, st int) []c15Out {
	if pf.split != nil {
		if outs := pf.split(n, env, st); outs != nil {
			return outs
		}
	}
	return []c15Out{{pf.envAfter(n, env), pf.transfer(n, st)}}
}

func (pf *c15PFlow) j(a, b int) int {
	if pf.join != nil {
		return pf.join(a, b)
	}
	if a > b {
		return a
	}
	return b
}

func c15EnvGet(env string, o types.Object) string {
	key := fmt.Sprintf("%p=", o)
	for _, kv := range strings.Split(env, ";") {
		if strings.HasPrefix(kv, key) {
			return kv[len(key):]
		}
	}
	return ""
}

func c15EnvSet(env string, o types.Object, val string) string {
	key := fmt.Sprintf("%p=", o)
	var parts []string
	for _, kv := range strings.Split(env, ";") {
		if kv != "" && !strings.HasPrefix(kv, key) {
			parts = append(parts, kv)
		}
	}
	if val != "" {
		parts = append(parts, key+val)
	}
	sort.Strings(parts)
	return strings.Join(parts, ";")
}

func c15NewPFlow(g *FG, transfer func(ast.Node, int) int, edge func(*cfg.Block, int, int) int) *c15PFlow {
	pf := &c15PFlow{g: g, info: g.Info, tracked: map[types.Object]bool{}, transfer: transfer, edge: edge}
	// tracked: locals of bool / interface / pointer type that are never address-taken or captured
	banned := map[types.Object]bool{}
	ast.Inspect(g.Body, func(n ast.Node) bool {
		switch t := n.(type) {
		case *ast.FuncLit:
			ast.Inspect(t, func(m ast.Node) bool {
				if id, ok := m.(*ast.Ident); ok {
					if o := g.Info.ObjectOf(id); o != nil {
						banned[o] = true
					}
				}
				return true
			})
			return false
		case *ast.UnaryExpr:
			if id, ok := unparen(t.X).(*ast.Ident); ok && t.Op == token.AND {
				banned[g.Info.ObjectOf(id)] = true
			}
		}
		return true
	})
	ast.Inspect(g.Body, func(n ast.Node) bool {
		id, ok := n.(*ast.Ident)
		if !ok {
			return true
		}
		v, ok := g.Info.Defs[id].(*types.Var)
		if !ok || v.IsField() || banned[v] {
			return true
		}
		switch u := v.Type().Underlying().(type) {
		case *types.Basic:
			if u.Info()&types.IsBoolean != 0 {
				pf.tracked[v] = true
			}
		case *types.Interface, *types.Pointer:
			pf.tracked[v] = true
		}
		return true
	})
	return pf
}

// absVal evaluates e abstractly: "t","f","nil","nonnil" or "" (unknown).
func (pf *c15PFlow) absVal(e ast.Expr, env string) string {
	e = unparen(e)
	if tv, ok := pf.info.Types[e]; ok && tv.Value != nil {
		switch tv.Value.String() {
		case "true":
			return "t"
		case "false":
			return "f"
		}
		return ""
	}
	if isNilExpr(pf.info, e) {
		return "nil"
	}
	switch t := e.(type) {
	case *ast.Ident:
		if o := pf.info.ObjectOf(t); o != nil && pf.tracked[o] {
			return c15EnvGet(env, o)
		}
	case *ast.UnaryExpr:
		if t.Op == token.NOT {
			switch pf.absVal(t.X, env) {
			case "t":
				return "f"
			case "f":
				return "t"
			}
		}
		if t.Op == token.AND {
			return "nonnil"
		}
	case *ast.CompositeLit:
		return ""
	}
	return ""
}

// cond evaluates a condition: +1, -1, 0.
func (pf *c15PFlow) cond(e ast.Expr, env string) int {
	e = unparen(e)
	switch v := pf.absVal(e, env); v {
	case "t":
		return 1
	case "f":
		return -1
	}
	switch t := e.(type) {
	case *ast.UnaryExpr:
		if t.Op == token.NOT {
			return -pf.cond(t.X, env)
		}
	case *ast.BinaryExpr:
		switch t.Op {
		case token.LAND:
			a, b := pf.cond(t.X, env), pf.cond(t.Y, env)
			if a == -1 || b == -1 {
				return -1
			}
			if a == 1 && b == 1 {
				return 1
			}
		case token.LOR:
			a, b := pf.cond(t.X, env), pf.cond(t.Y, env)
			if a == 1 || b == 1 {
				return 1
			}
			if a == -1 && b == -1 {
				return -1
			}
		case token.EQL, token.NEQ:
			a, b := pf.absVal(t.X, env), pf.absVal(t.Y, env)
			if a != "" && b != "" {
				eq := 0
				switch {
				case a == b && (a == "nil" || a == "t" || a == "f"):
					eq = 1
				case (a == "nil" && b == "nonnil") || (a == "nonnil" && b == "nil") || (a == "t" && b == "f") || (a == "f" && b == "t"):
					eq = -1
				}
				if t.Op == token.NEQ {
					eq = -eq
				}
				return eq
			}
		}
	}
	return 0
}

// refine adds what cond == pol tells about tracked variables.
func (pf *c15PFlow) refine(e ast.Expr, pol bool, env string) string {
	e = unparen(e)
	switch t := e.(type) {
	case *ast.Ident:
		if o := pf.info.ObjectOf(t); o != nil && pf.tracked[o] {
			if b, ok := o.Type().Underlying().(*types.Basic); ok && b.Info()&types.IsBoolean != 0 {
				return c15EnvSet(env, o, map[bool]string{true: "t", false: "f"}[pol])
			}
		}
	case *ast.UnaryExpr:
		if t.Op == token.NOT {
			return pf.refine(t.X, !pol, env)
		}
	case *ast.BinaryExpr:
		switch t.Op {
		case token.LAND:
			if pol {
				return pf.refine(t.Y, true, pf.refine(t.X, true, env))
			}
		case token.LOR:
			if !pol {
				return pf.refine(t.Y, false, pf.refine(t.X, false, env))
			}
		case token.EQL, token.NEQ:
			isEq := (t.Op == token.EQL) == pol
			for _, pr := range [][2]ast.Expr{{t.X, t.Y}, {t.Y, t.X}} {
				id, ok := unparen(pr[0]).(*ast.Ident)
				if !ok {
					continue
				}
				o := pf.info.ObjectOf(id)
				if o == nil || !pf.tracked[o] {
					continue
				}
				switch pf.absVal(pr[1], env) {
				case "nil":
					return c15EnvSet(env, o, map[bool]string{true: "nil", false: "nonnil"}[isEq])
				case "t":
					return c15EnvSet(env, o, map[bool]string{true: "t", false: "f"}[isEq])
				case "f":
					return c15EnvSet(env, o, map[bool]string{true: "f", false: "t"}[isEq])
				}
			}
		}
	}
	return env
}

// envAfter applies the assignments of a CFG node to the environment.
func (pf *c15PFlow) envAfter(n ast.Node, env string) string {
	set := func(l ast.Expr, val string) {
		if id, ok := unparen(l).(*ast.Ident); ok {
			if o := pf.info.ObjectOf(id); o != nil && pf.tracked[o] {
				env = c15EnvSet(env, o, val)
			}
		}
	}
	inspectNoLit(n, func(m ast.Node) bool {
		switch t := m.(type) {
		case *ast.AssignStmt:
			if len(t.Lhs) == len(t.Rhs) && (t.Tok == token.ASSIGN || t.Tok == token.DEFINE) {
				vals := make([]string, len(t.Rhs))
				for i, r := range t.Rhs {
					vals[i] = pf.absVal(r, env)
				}
				for i, l := range t.Lhs {
					set(l, vals[i])
				}
			} else {
				for _, l := range t.Lhs {
					set(l, "")
				}
			}
		case *ast.ValueSpec:
			for i, nm := range t.Names {
				val := ""
				if i < len(t.Values) && len(t.Values) == len(t.Names) {
					val = pf.absVal(t.Values[i], env)
				} else if len(t.Values) == 0 {
					if o := pf.info.ObjectOf(nm); o != nil {
						switch u := o.Type().Underlying().(type) {
						case *types.Basic:
							if u.Info()&types.IsBoolean != 0 {
								val = "f"
							}
						case *types.Interface, *types.Pointer:
							val = "nil"
						}
					}
				}
				set(nm, val)
			}
		case *ast.RangeStmt:
			if t.Key != nil {
				set(t.Key, "")
			}
			if t.Value != nil {
				set(t.Value, "")
			}
		}
		return true
	})
	return env
}

// run computes the fixpoint from the given start location with the given initial rule state.
func (pf *c15PFlow) run(start Loc, init int) {
	pf.in = map[*cfg.Block]c15PState{}
	pf.start, pf.init = start, init
	startState := c15PState{"": init}
	var work []*cfg.Block
	// the start block is processed from start.Idx with startState; re-entries (loops) use pf.in
	process := func(b *cfg.Block, from int, st c15PState) {
		cur := c15PState{}
		for k, v := range st {
			cur[k] = v
		}
		for i := from; i < len(b.Nodes); i++ {
			next := c15PState{}
			for env, v := range cur {
				for _, o := range pf.step(b.Nodes[i], env, v) {
					nv, ne := o.st, o.env
					if old, ok := next[ne]; ok {
						nv = pf.j(old, nv)
					}
					next[ne] = nv
				}
			}
			cur = next
		}
		cnd := pf.g.BranchCond(b)
		for si, s := range b.Succs {
			out := c15PState{}
			for env, v := range cur {
				ne, nv := env, v
				if cnd != nil && len(b.Succs) == 2 {
					var ce ast.Expr = cnd.Expr
					if cnd.Tag != nil {
						ce = &ast.BinaryExpr{X: cnd.Tag, Op: token.EQL, Y: cnd.Expr}
					}
					pol := si == 0
					switch pf.cond(ce, env) {
					case 1:
						if !pol {
							continue
						}
					case -1:
						if pol {
							continue
						}
					}
					ne = pf.refine(ce, pol, env)
				}
				if pf.edge != nil {
					nv = pf.edge(b, si, nv)
				}
				if old, ok := out[ne]; ok {
					nv = pf.j(old, nv)
				}
				out[ne] = nv
			}
			if len(out) == 0 {
				continue
			}
			dst := pf.in[s]
			if dst == nil {
				dst = c15PState{}
				pf.in[s] = dst
			}
			changed := false
			if len(dst) > 64 { // widen: forget the environments
				first := true
				m := 0
				for _, v := range dst {
					if first {
						m, first = v, false
					} else {
						m = pf.j(m, v)
					}
				}
				for _, v := range out {
					if first {
						m, first = v, false
					} else {
						m = pf.j(m, v)
					}
				}
				if len(dst) != 1 || dst[""] != m {
					for k := range dst {
						delete(dst, k)
					}
					dst[""] = m
					changed = true
				}
			} else {
				for env, v := range out {
					if old, ok := dst[env]; !ok {
						dst[env] = v
						changed = true
					} else if nv := pf.j(old, v); nv != old {
						dst[env] = nv
						changed = true
					}
				}
			}
			if changed {
				work = append(work, s)
			}
		}
	}
	process(start.B, start.Idx, startState)
	for len(work) > 0 {
		b := work[len(work)-1]
		work = work[:len(work)-1]
		process(b, 0, pf.in[b])
	}
}

// stateAt: the (joined) rule state just before node l.Idx of block l.B (blocks entered at their start only).
func (pf *c15PFlow) stateAt(l Loc) (int, bool) {
	m := -1
	seenAny := false
	through := func(st c15PState, from int) {
		cur := c15PState{}
		for k, v := range st {
			cur[k] = v
		}
		for i := from; i < l.Idx; i++ {
			next := c15PState{}
			for env, v := range cur {
				for _, o := range pf.step(l.B.Nodes[i], env, v) {
					nv, ne := o.st, o.env
					if old, ok := next[ne]; ok {
						nv = pf.j(old, nv)
					}
					next[ne] = nv
				}
			}
			cur = next
		}
		for _, v := range cur {
			if !seenAny {
				m, seenAny = v, true
			} else {
				m = pf.j(m, v)
			}
		}
	}
	if st := pf.in[l.B]; st != nil {
		through(st, 0)
	}
	if l.B == pf.start.B && l.Idx >= pf.start.Idx {
		through(c15PState{"": pf.init}, pf.start.Idx)
	}
	return m, seenAny
}

// c15BoolBody turns a body made of `if c { ... }` and `return e` into the condition under which it
// returns true (nil if the body has any other statement). Constant sub-results are folded.
func c15BoolBody(info *types.Info, list []ast.Stmt) *c15F {
	list = c15Flat(list)
	if len(list) == 0 {
		return nil
	}
	switch t := list[0].(type) {
	case *ast.ReturnStmt:
		if len(t.Results) != 1 {
			return nil
		}
		return c15Simplify(c15Formula(info, t.Results[0]))
	case *ast.IfStmt:
		if t.Init != nil {
			return nil
		}
		cnd := c15Formula(info, t.Cond)
		thenF := c15BoolBody(info, append(append([]ast.Stmt{}, t.Body.List...), list[1:]...))
		var elseList []ast.Stmt
		if t.Else != nil {
			elseList = append(elseList, t.Else)
		}
		elseF := c15BoolBody(info, append(elseList, list[1:]...))
		if thenF == nil || elseF == nil {
			return nil
		}
		return c15Simplify(&c15F{op: "or", a: &c15F{op: "and", a: cnd, b: thenF}, b: &c15F{op: "and", a: &c15F{op: "not", a: cnd}, b: elseF}})
	}
	return nil
}

func c15Simplify(f *c15F) *c15F {
	switch f.op {
	case "not":
		a := c15Simplify(f.a)
		if a.op == "const" {
			return &c15F{op: "const", val: !a.val}
		}
		return &c15F{op: "not", a: a}
	case "and", "or":
		a, b := c15Simplify(f.a), c15Simplify(f.b)
		unit := f.op == "and" // and: true is the unit, false absorbs
		for _, pr := range [][2]*c15F{{a, b}, {b, a}} {
			if pr[0].op == "const" {
				if pr[0].val == unit {
					return pr[1]
				}
				return &c15F{op: "const", val: !unit}
			}
		}
		return &c15F{op: f.op, a: a, b: b}
	}
	return f
}

// c15Func looks a function up by its qualified name, whatever its receiver is (pointer or value).
func c15Func(c *Ctx, name string) *FuncInfo {
	if fi := c.P.Func(name); fi != nil {
		return fi
	}
	if i := strings.Index(name, ".(*"); i >= 0 { // pkg.(*T).m -> pkg.T.m
		j := strings.Index(name[i:], ")")
		if j > 0 {
			return c.P.Func(name[:i+1] + name[i+3:i+j] + name[i+j+1:])
		}
		return nil
	}
	// pkg.T.m -> pkg.(*T).m   (pkg may contain slashes but no dots)
	parts := strings.Split(name, ".")
	if len(parts) == 3 {
		return c.P.Func(parts[0] + ".(*" + parts[1] + ")." + parts[2])
	}
	return nil
}

// ---------------------------------------------------------------------------
// C15.i the focus path runs from the application's root widget to the focused widget

// c15LinRes is c15LinOf with single-definition locals replaced by their definitions.
func c15LinRes(info *types.Info, defs *c15Defs, e ast.Expr) c15Lin {
	l := c15LinOf(info, e)
	for depth := 0; depth < 4; depth++ {
		changed := false
		for o, d := range defs.def {
			if d == nil || defs.count[o] != 1 {
				continue
			}
			id := fmt.Sprintf("%p", o)
			if co, ok := l.co[id]; ok && isIntegerExpr(info, d) {
				sub := c15LinOf(info, d)
				rest := c15Lin{co: map[string]int64{}, k: l.k}
				for t, v := range l.co {
					if t != id {
						rest.co[t] = v
					}
				}
				l = rest.add(sub, co)
				changed = true
			}
		}
		if !changed {
			break
		}
	}
	return l
}

// c15ReversalLoop: does lp, whose body exchanges x[a] and x[b], reverse a list of length n? That is:
//   - a+b is len-1 when the loop starts and every iteration keeps it (the two indices are mirror images),
//   - one of them starts at 0 and grows by one per iteration,
//   - the loop runs exactly while that one is below its mirror image (lo < hi, lo <= hi, lo < len/2 — all the same set
//     of exchanges for integers), and nothing in the body moves the counters or replaces the list.
func c15ReversalLoop(info *types.Info, defs *c15Defs, lp *ast.ForStmt, a, b, n c15Lin, isList func(ast.Expr) bool) bool {
	if lp.Init == nil || lp.Cond == nil || lp.Post == nil {
		return false
	}
	type lv struct {
		init  c15Lin
		delta int64
		known bool // init known
		moved bool // delta known
	}
	vars := map[string]*lv{}
	objs := map[types.Object]bool{}
	get := func(x ast.Expr) *lv {
		id, ok := unparen(x).(*ast.Ident)
		if !ok {
			return nil
		}
		o := info.ObjectOf(id)
		if o == nil {
			return nil
		}
		objs[o] = true
		key := termOf(info, id).ID
		if vars[key] == nil {
			vars[key] = &lv{}
		}
		return vars[key]
	}
	ini, ok := lp.Init.(*ast.AssignStmt)
	if !ok || len(ini.Lhs) != len(ini.Rhs) || (ini.Tok != token.DEFINE && ini.Tok != token.ASSIGN) {
		return false
	}
	for i, l := range ini.Lhs {
		v := get(l)
		if v == nil || !isIntegerExpr(info, ini.Rhs[i]) {
			return false
		}
		v.init, v.known = c15LinRes(info, defs, ini.Rhs[i]), true
	}
	switch p := lp.Post.(type) {
	case *ast.IncDecStmt:
		v := get(p.X)
		if v == nil {
			return false
		}
		v.delta, v.moved = 1, true
		if p.Tok == token.DEC {
			v.delta = -1
		}
	case *ast.AssignStmt:
		if len(p.Lhs) != len(p.Rhs) {
			return false
		}
		for i, l := range p.Lhs {
			v := get(l)
			if v == nil || v.moved {
				return false
			}
			switch p.Tok {
			case token.ADD_ASSIGN, token.SUB_ASSIGN:
				k, isC := constInt(info, p.Rhs[i])
				if !isC {
					return false
				}
				if p.Tok == token.SUB_ASSIGN {
					k = -k
				}
				v.delta, v.moved = k, true
			case token.ASSIGN:
				d := c15LinOf(info, p.Rhs[i]).add(c15LinOf(info, l), -1)
				if len(d.co) != 0 {
					return false
				}
				v.delta, v.moved = d.k, true
			default:
				return false
			}
		}
	default:
		return false
	}
	// the body neither moves a counter nor replaces the list (exchanging elements is all it may do to it)
	if assignsAny(info, lp.Body, objs) {
		return false
	}
	replaced := false
	inspectNoLit(lp.Body, func(m ast.Node) bool {
		if as, ok := m.(*ast.AssignStmt); ok {
			for _, l := range as.Lhs {
				if isList(l) {
					replaced = true
				}
			}
		}
		return !replaced
	})
	if replaced {
		return false
	}
	atStart := func(l c15Lin) (c15Lin, bool) {
		out := c15Const(l.k)
		for t, co := range l.co {
			if v, isVar := vars[t]; isVar {
				if !v.known {
					return out, false
				}
				out = out.add(v.init, co)
			} else {
				out = out.add(c15Lin{co: map[string]int64{t: 1}}, co)
			}
		}
		return out, true
	}
	perIter := func(l c15Lin) int64 {
		var d int64
		for t, co := range l.co {
			if v, isVar := vars[t]; isVar {
				d += co * v.delta
			}
		}
		return d
	}
	sum := a.add(b, 1)
	s0, ok := atStart(sum)
	if !ok || s0.canon() != n.plus(-1).canon() || perIter(sum) != 0 {
		return false
	}
	lo, hi := a, b
	if l0, ok := atStart(lo); !ok || len(l0.co) != 0 || l0.k != 0 || perIter(lo) != 1 {
		lo, hi = b, a
		if l0, ok := atStart(lo); !ok || len(l0.co) != 0 || l0.k != 0 || perIter(lo) != 1 {
			return false
		}
	}
	// bound: lo < hi or lo <= hi, modulo the invariant lo+hi = len-1; or lo < len/2 (any spelling of the comparison)
	zero := sum.add(n.plus(-1), -1) // identically 0 during the loop
	atoms, isConj := c15Conj(c15Formula(info, lp.Cond))
	if !isConj || len(atoms) != 1 {
		return false
	}
	for _, target := range []c15Lin{lo.add(hi, -1).plus(1), lo.add(hi, -1)} {
		for t := int64(-2); t <= 2; t++ {
			if atoms[0].canon() == target.add(zero, t).canon() {
				return true
			}
		}
	}
	half := false
	ast.Inspect(lp.Cond, func(m ast.Node) bool {
		q, ok := m.(*ast.BinaryExpr)
		if !ok || q.Op != token.QUO {
			return true
		}
		if v, isC := constInt(info, q.Y); isC && v == 2 && c15LinRes(info, defs, q.X).canon() == n.canon() {
			// floor(len/2) is one opaque term of the condition: lo < len/2  <=>  lo - len/2 + 1 <= 0
			if atoms[0].canon() == lo.add(c15LinOf(info, q), -1).plus(1).canon() {
				half = true
			}
		}
		return true
	})
	return half
}

func (e *c15Env) ruleI() {
	c, info := e.c, e.info
	// ---- childHasFocus
	name := "vxfw.(*focusHandler).childHasFocus"
	if fi := c15Func(c, name); fi == nil {
		c.undecided("C15.i", name, 0, "function not found")
	} else {
		g := c.P.Graph(fi)
		fd := fi.Decl
		defs := c15DefsOf(info, fd.Body)
		var recvObj, sObj types.Object
		if fd.Recv != nil && len(fd.Recv.List) == 1 && len(fd.Recv.List[0].Names) == 1 {
			recvObj = info.Defs[fd.Recv.List[0].Names[0]]
		}
		for _, f := range fd.Type.Params.List {
			for _, n := range f.Names {
				if c15IsNamed(info.TypeOf(n), c15VxfwPath, "Surface") {
					sObj = info.Defs[n]
				}
			}
		}
		if recvObj == nil || sObj == nil {
			c.undecided("C15.i", name+"/signature", fd.Pos(), "receiver or surface parameter not recognised")
		} else {
			isAppendWidget := func(n ast.Node) bool {
				as, ok := n.(*ast.AssignStmt)
				if !ok || len(as.Lhs) != 1 || len(as.Rhs) != 1 || c15Field(info, as.Lhs[0]) != e.fh["path"] || rootObj(info, as.Lhs[0]) != recvObj {
					return false
				}
				cl, ok := unparen(as.Rhs[0]).(*ast.CallExpr)
				if !ok || len(cl.Args) != 2 || c15Field(info, cl.Args[0]) != e.fh["path"] {
					return false
				}
				if id, ok := cl.Fun.(*ast.Ident); !ok || id.Name != "append" {
					return false
				}
				sel, ok := unparen(defs.resolve(cl.Args[1])).(*ast.SelectorExpr)
				return ok && sel.Sel.Name == "Widget" && rootObj(info, sel.X) == sObj
			}
			nTrue := 0
			for _, h := range g.Find(func(n ast.Node) bool { _, ok := n.(*ast.ReturnStmt); return ok }) {
				rs := h.Node.(*ast.ReturnStmt)
				if len(rs.Results) != 1 {
					continue
				}
				if tv, ok := info.Types[rs.Results[0]]; ok && tv.Value != nil && tv.Value.String() == "false" {
					continue
				}
				nTrue++
				c.check(g.MustPrecede(isAppendWidget, h.Loc), "C15.i", name+"/a surface on the way to the focused widget joins the path", rs.Pos(),
					"every `found` return is preceded by path = append(path, s.Widget)", "childHasFocus can report success without appending this surface's widget to the path: an ancestor of the focused widget is left out of the path, so it neither captures nor receives the bubbled event")
			}
			if nTrue == 0 {
				c.bad("C15.i", name+"/a surface on the way to the focused widget joins the path", fd.Pos(), "childHasFocus never reports success")
			}
			// recursion over every child's surface
			recs := g.Calls(func(fn *types.Func, call *ast.CallExpr) bool { return fn == fi.Obj })
			okRec := false
			for _, r := range recs {
				call := r.Node.(*ast.CallExpr)
				if lp := c15LoopOf(e.parents, call); lp != nil && len(call.Args) == 1 {
					it := c15IterOf(info, defs, lp)
					if it == nil || !it.full {
						continue
					}
					xs, _ := unparen(it.x).(*ast.SelectorExpr)
					a0, _ := unparen(defs.resolve(call.Args[0])).(*ast.SelectorExpr)
					if xs != nil && xs.Sel.Name == "Children" && rootObj(info, it.x) == sObj && a0 != nil && a0.Sel.Name == "Surface" && it.isElem(a0.X) {
						okRec = true
					}
				}
			}
			c.check(okRec, "C15.i", name+"/every child surface is searched", fd.Pos(), "recurses into <child>.Surface for each of s.Children", "childHasFocus does not search every child surface: a focused widget below a skipped child is never found and the path collapses to the root")
		}
	}
	// ---- updatePath
	name = "vxfw.(*focusHandler).updatePath"
	fi := c15Func(c, name)
	chf := c15Func(c, "vxfw.(*focusHandler).childHasFocus")
	if fi == nil || chf == nil {
		c.undecided("C15.i", name, 0, "function not found")
		return
	}
	g := c.P.Graph(fi)
	fd := fi.Decl
	defs := c15DefsOf(info, fd.Body)
	var recvObj, rootP types.Object
	if fd.Recv != nil && len(fd.Recv.List) == 1 && len(fd.Recv.List[0].Names) == 1 {
		recvObj = info.Defs[fd.Recv.List[0].Names[0]]
	}
	for _, f := range fd.Type.Params.List {
		for _, n := range f.Names {
			if c15IsNamed(info.TypeOf(n), c15VxfwPath, "Surface") {
				rootP = info.Defs[n]
			}
		}
	}
	if recvObj == nil || rootP == nil || e.fh["root"] == nil {
		c.undecided("C15.i", name+"/signature", fd.Pos(), "receiver, surface parameter or focusHandler.root not recognised")
		return
	}
	isPath := func(x ast.Expr) bool { return c15Field(info, x) == e.fh["path"] && rootObj(info, x) == recvObj }
	var appends []Hit
	for _, h := range g.Find(func(n ast.Node) bool {
		as, ok := n.(*ast.AssignStmt)
		if !ok || len(as.Lhs) != 1 || len(as.Rhs) != 1 || !isPath(as.Lhs[0]) {
			return false
		}
		cl, ok := unparen(as.Rhs[0]).(*ast.CallExpr)
		if !ok || len(cl.Args) != 2 || !isPath(cl.Args[0]) {
			return false
		}
		if id, ok := cl.Fun.(*ast.Ident); !ok || id.Name != "append" {
			return false
		}
		a := unparen(defs.resolve(cl.Args[1]))
		return c15Field(info, a) == e.fh["root"] && rootObj(info, a) == recvObj
	}) {
		appends = append(appends, h)
	}
	if len(appends) != 1 {
		c.bad("C15.i", name+"/the application's root widget joins the path", fd.Pos(), "expected one `path = append(path, f.root)`, found %d: the widget passed to Run is not (or not exactly once) made the outermost ancestor of the focus path", len(appends))
		return
	}
	ap := appends[0]
	searches := g.Calls(func(fn *types.Func, call *ast.CallExpr) bool { return fn == chf.Obj })
	okSearch := len(searches) == 1
	if okSearch {
		call := searches[0].Node.(*ast.CallExpr)
		id, isID := unparen(call.Args[0]).(*ast.Ident)
		okSearch = len(call.Args) == 1 && isID && info.ObjectOf(id) == rootP && g.MustPrecede(func(n ast.Node) bool { return n == ast.Node(call) }, ap.Loc)
	}
	c.check(okSearch, "C15.i", name+"/the path is rebuilt from the frame first", fd.Pos(), "childHasFocus(root) runs before the root widget is added", "the focused widget is not searched in the new frame before the root widget is added")
	gs := c15GuardsAt(g, ap.Loc)
	ids := []string{fmt.Sprintf("%p.root", recvObj), fmt.Sprintf("%p.Widget", rootP)}
	sort.Strings(ids)
	eqID := "eq:" + ids[0] + "|" + ids[1]
	lenPath := c15TermLin("len("+fmt.Sprintf("%p", recvObj)+".path)", "len("+recvObj.Name()+".path)", true)
	allHold := func(assume []c15Lin, op map[string]bool) bool {
		for _, gd := range gs {
			v := c15Eval(gd.f, assume, op)
			if !((gd.pol && v == 1) || (!gd.pol && v == -1)) {
				return false
			}
		}
		return true
	}
	someFails := func(assume []c15Lin, op map[string]bool) bool {
		for _, gd := range gs {
			v := c15Eval(gd.f, assume, op)
			if (gd.pol && v == -1) || (!gd.pol && v == 1) {
				return true
			}
		}
		return false
	}
	gstr := c15GuardsString(gs)
	c.check(allHold(nil, map[string]bool{eqID: false}), "C15.i", name+"/root widget added when it does not own the root surface", ap.Node.Pos(),
		"whenever f.root != root.Widget the append is reached (guards: "+gstr+")",
		"when the root widget's Draw hands back a surface owned by another widget (f.root != root.Widget) the guards in force ("+gstr+") can skip `path = append(path, f.root)`: the widget passed to Run is left out of the focus path and neither captures nor receives the bubbled event")
	c.check(allHold([]c15Lin{lenPath}, nil), "C15.i", name+"/root widget added when the focused widget is not in the frame", ap.Node.Pos(),
		"whenever the path is empty the append is reached (guards: "+gstr+")",
		"with an empty path (focused widget not found in the frame) the guards in force ("+gstr+") can skip `path = append(path, f.root)`: events have no path at all")
	c.check(someFails([]c15Lin{lenPath.neg().plus(1)}, map[string]bool{eqID: true}), "C15.i", name+"/root widget not added twice", ap.Node.Pos(),
		"when the path already ends in the root widget the append is skipped (guards: "+gstr+")",
		"the root widget is appended although the path already ends in it (f.root == root.Widget, path non-empty): it captures and bubbles every event twice")
	// reversal to root-first order, after the append
	var swaps []Hit
	for _, h := range g.Find(func(n ast.Node) bool {
		as, ok := n.(*ast.AssignStmt)
		if !ok || len(as.Lhs) != 2 || len(as.Rhs) != 2 || as.Tok != token.ASSIGN {
			return false
		}
		var idx [4]ast.Expr
		for i, x := range []ast.Expr{as.Lhs[0], as.Lhs[1], as.Rhs[0], as.Rhs[1]} {
			ix, ok := unparen(x).(*ast.IndexExpr)
			if !ok || !isPath(ix.X) {
				return false
			}
			idx[i] = ix.Index
		}
		a, b := c15LinRes(info, defs, idx[0]), c15LinRes(info, defs, idx[1])
		ra, rb := c15LinRes(info, defs, idx[2]), c15LinRes(info, defs, idx[3])
		return a.canon() == rb.canon() && b.canon() == ra.canon() && a.canon() != b.canon()
	}) {
		swaps = append(swaps, h)
	}
	okRev := len(swaps) == 1 && len(c15EnclosingLoops(e.parents, swaps[0].Node)) == 1
	if okRev {
		// the loop exchanges exactly the mirror pairs (0,len-1), (1,len-2), ... of the first half, whatever way the two
		// indices are spelled (one counter and len-1-i, or two counters moving towards each other)
		as := swaps[0].Node.(*ast.AssignStmt)
		a := c15LinRes(info, defs, unparen(as.Lhs[0]).(*ast.IndexExpr).Index)
		b := c15LinRes(info, defs, unparen(as.Lhs[1]).(*ast.IndexExpr).Index)
		lp, _ := c15LoopOf(e.parents, swaps[0].Node).(*ast.ForStmt)
		okRev = lp != nil && c15ReversalLoop(info, defs, lp, a, b, lenPath, isPath)
		okRev = okRev && !g.ReachesAvoiding(swaps[0].Loc, ap.Loc, nil)
	}
	c.check(okRev, "C15.i", name+"/path reversed to root-first order after the root was added", fd.Pos(), "path[i] <-> path[len-1-i] for the first half, after the append",
		"the path built target-first by childHasFocus is not (exactly once, after the root widget was added) reversed: capture would start at the focused widget and bubbling at the root")
}
