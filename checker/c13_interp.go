package main

// c13_interp.go — a small concrete evaluator over the type-checked AST, used by
// C13 to compute, for concrete inputs, what the embedded terminal writes to the
// child (Model.Update) and what the root package's input pipeline makes of those
// bytes (Vaxis.handleSequence). It is static analysis: nothing of /repo is
// compiled or run; the functions are interpreted from their syntax trees with
// constants resolved by go/types. Anything the evaluator does not understand
// aborts the run ("undecided"); a branch on an unknown value is never guessed.

import (
	"fmt"
	"go/ast"
	"go/constant"
	"go/token"
	"go/types"
	"strings"

	"golang.org/x/tools/go/packages"
)

type c13K int

const (
	c13Unk c13K = iota
	c13Int
	c13Bool
	c13Str
	c13Struct // value semantics (copied on assignment)
	c13Slice
	c13Map
	c13Nil
	c13Ptr  // pointer to a struct object (st) or to a scalar slot (loc)
	c13Sink // stand-in for the PTY
	c13Buf  // bytes.Buffer / strings.Builder
	c13Chan // stand-in for the event queue
)

type c13V struct {
	k   c13K
	i   int64
	b   bool
	s   string
	typ types.Type // dynamic type where known
	st  *c13Obj
	loc *c13V
	el  []c13V
	m   *c13Tab
	buf *strings.Builder
	why string
}

type c13Obj struct {
	typ    types.Type
	f      map[string]*c13V
	opaque bool // fields never stored are unknown (not zero)
}

type c13Tab struct {
	keys []c13V
	vals []c13V
	elem types.Type
}

type c13Abort struct{ msg string } // evaluator does not understand -> undecided
type c13Panic struct{ msg string } // the interpreted code would panic

type c13Frame struct {
	pkg    *packages.Package
	info   *types.Info
	env    map[types.Object]*c13V
	ret    []c13V
	defers []func()
	fn     string
	result *ast.FieldList
}

const (
	c13None = iota
	c13Break
	c13Continue
	c13Return
)

type c13M struct {
	c        *Ctx
	follow   map[string]bool // import paths whose functions are interpreted
	decls    map[*types.Func]*FuncInfo
	globals  map[types.Object]*c13V
	tables   map[types.Object]bool // package-level variables read
	tracked  map[*types.Var]bool   // fields whose stores / uses make a method "matter"
	mattersM map[*types.Func]int
	writes   []string
	events   []c13V
	steps    int
	depth    int
	// forking on conditions the evaluator cannot compute (see c13Env.run)
	forced       []bool   // decisions replayed on this path
	taken        []bool   // decisions made so far on this path
	pending      [][]bool // sibling paths discovered on this path
	firstUnknown string
	// parameter-alphabet discovery: when a tagged switch is evaluated on the sentinel value,
	// the integer case labels it is compared with are recorded
	probeOn    bool
	probeTag   int64
	probeCases map[int64]bool
	// labelled statements: nextLabel is the label of the statement about to be executed (set by
	// the LabeledStmt case, taken at the top of stmt); brLabel is the target of a labelled
	// break/continue in flight ("" = the innermost enclosing statement)
	nextLabel string
	brLabel   string
	// demand-driven state tracking (c13x.go): while unkRead is non-nil, the names of the fields of
	// the opaque object of type unkOf that were READ while unknown are recorded in it
	unkRead map[string]bool
	unkOf   types.Type
	// allMatter (c13k.go): interpret every statement-level method call of a followed package instead of
	// skipping those that touch no tracked field — for evaluations that carry the whole Model concretely
	allMatter bool
}

func (m *c13M) noteUnknownRead(o *c13Obj, name string) {
	if m.unkRead != nil && o != nil && o.opaque && m.unkOf != nil && o.typ != nil && types.Identical(o.typ, m.unkOf) {
		m.unkRead[name] = true
	}
}

// loopCtl classifies the control outcome of one loop-body execution for the loop labelled own
// ("" = unlabelled): it consumes a break/continue aimed at this loop and reports whether the loop
// stops and what it passes on to the enclosing statement.
func (m *c13M) loopCtl(ctl int, own string) (stop bool, out int) {
	switch ctl {
	case c13Break:
		if m.brLabel == "" || m.brLabel == own {
			m.brLabel = ""
			return true, c13None
		}
		return true, c13Break
	case c13Continue:
		if m.brLabel == "" || m.brLabel == own {
			m.brLabel = ""
			return false, c13None
		}
		return true, c13Continue
	case c13Return:
		return true, c13Return
	}
	return false, c13None
}

// switchCtl is loopCtl for switch / type switch / select-like statements (only break binds).
func (m *c13M) switchCtl(ctl int, own string) int {
	if ctl == c13Break && (m.brLabel == "" || m.brLabel == own) {
		m.brLabel = ""
		return c13None
	}
	return ctl
}

func newC13M(c *Ctx, follow ...string) *c13M {
	m := &c13M{c: c, follow: map[string]bool{}, decls: map[*types.Func]*FuncInfo{}, globals: map[types.Object]*c13V{},
		tables: map[types.Object]bool{}, tracked: map[*types.Var]bool{}, mattersM: map[*types.Func]int{}}
	for _, f := range follow {
		m.follow[f] = true
	}
	for _, fi := range c.P.AllFuncs() {
		m.decls[fi.Obj] = fi
	}
	return m
}

func (m *c13M) abort(format string, a ...any) { panic(c13Abort{fmt.Sprintf(format, a...)}) }
func (m *c13M) gopanic(format string, a ...any) {
	panic(c13Panic{fmt.Sprintf(format, a...)})
}

func c13unk(why string, a ...any) c13V  { return c13V{k: c13Unk, why: fmt.Sprintf(why, a...)} }
func c13int(i int64, t types.Type) c13V { return c13V{k: c13Int, i: i, typ: t} }
func c13bool(b bool) c13V               { return c13V{k: c13Bool, b: b} }
func c13str(s string) c13V              { return c13V{k: c13Str, s: s} }

// ---------------------------------------------------------------- values

func c13wrap(i int64, t types.Type) (int64, bool) {
	if t == nil {
		return i, true
	}
	b, ok := t.Underlying().(*types.Basic)
	if !ok {
		return i, true
	}
	switch b.Kind() {
	case types.Int8:
		return int64(int8(i)), true
	case types.Int16:
		return int64(int16(i)), true
	case types.Int32:
		return int64(int32(i)), true
	case types.Uint8:
		return int64(uint8(i)), true
	case types.Uint16:
		return int64(uint16(i)), true
	case types.Uint32:
		return int64(uint32(i)), true
	case types.Uint, types.Uint64, types.Uintptr:
		if i < 0 {
			return 0, false
		}
	}
	return i, true
}

func c13IsBufType(t types.Type) bool {
	nt, ok := t.(*types.Named)
	if !ok || nt.Obj().Pkg() == nil {
		return false
	}
	n := nt.Obj().Pkg().Path() + "." + nt.Obj().Name()
	return n == "strings.Builder" || n == "bytes.Buffer"
}

func (m *c13M) zero(t types.Type) c13V {
	if c13IsBufType(t) {
		return c13V{k: c13Buf, buf: &strings.Builder{}, typ: t}
	}
	switch u := t.Underlying().(type) {
	case *types.Basic:
		switch {
		case u.Info()&types.IsBoolean != 0:
			return c13V{k: c13Bool, typ: t}
		case u.Info()&types.IsInteger != 0:
			return c13V{k: c13Int, typ: t}
		case u.Info()&types.IsString != 0:
			return c13V{k: c13Str, typ: t}
		}
		return c13unk("zero of %s", t)
	case *types.Struct:
		return c13V{k: c13Struct, typ: t, st: &c13Obj{typ: t, f: map[string]*c13V{}}}
	case *types.Slice:
		return c13V{k: c13Slice, typ: t}
	case *types.Map:
		return c13V{k: c13Map, typ: t, m: &c13Tab{elem: u.Elem()}}
	case *types.Array:
		v := c13V{k: c13Slice, typ: t}
		for i := int64(0); i < u.Len(); i++ {
			v.el = append(v.el, m.zero(u.Elem()))
		}
		return v
	case *types.Pointer, *types.Chan, *types.Signature, *types.Interface:
		return c13V{k: c13Nil, typ: t}
	}
	return c13unk("zero of %s", t)
}

// copyV implements Go's value semantics for structs (and arrays).
func (m *c13M) copyV(v c13V) c13V {
	if v.k == c13Struct && v.st != nil {
		n := &c13Obj{typ: v.st.typ, opaque: v.st.opaque, f: map[string]*c13V{}}
		for k, fv := range v.st.f {
			c := m.copyV(*fv)
			n.f[k] = &c
		}
		v.st = n
	}
	if v.k == c13Slice && v.typ != nil {
		if _, isArr := v.typ.Underlying().(*types.Array); isArr {
			el := make([]c13V, len(v.el))
			for i := range v.el {
				el[i] = m.copyV(v.el[i])
			}
			v.el = el
		}
	}
	return v
}

func c13isNil(v c13V) bool {
	switch v.k {
	case c13Nil:
		return true
	case c13Slice:
		return v.el == nil
	case c13Map:
		return v.m == nil || (len(v.m.keys) == 0 && v.m.keys == nil && v.s == "nilmap")
	}
	return false
}

// eq returns (equal, known).
func (m *c13M) eq(a, b c13V) (bool, bool) {
	if a.k == c13Unk || b.k == c13Unk {
		return false, false
	}
	if a.k == c13Nil || b.k == c13Nil {
		if a.k == c13Nil && b.k == c13Nil {
			return true, true
		}
		o := a
		if a.k == c13Nil {
			o = b
		}
		switch o.k {
		case c13Slice:
			return o.el == nil, true
		case c13Ptr, c13Sink, c13Buf, c13Chan:
			return false, true
		}
		return false, false
	}
	if a.k != b.k {
		return false, false
	}
	switch a.k {
	case c13Int:
		return a.i == b.i, true
	case c13Bool:
		return a.b == b.b, true
	case c13Str:
		return a.s == b.s, true
	case c13Struct:
		st, ok := a.st.typ.Underlying().(*types.Struct)
		if !ok || a.st.opaque || b.st.opaque {
			return false, false
		}
		for i := 0; i < st.NumFields(); i++ {
			f := st.Field(i)
			e, k := m.eq(m.fieldOf(a.st, f.Name(), f.Type()), m.fieldOf(b.st, f.Name(), f.Type()))
			if !k {
				return false, false
			}
			if !e {
				return false, true
			}
		}
		return true, true
	case c13Ptr:
		return a.st == b.st && a.loc == b.loc, true
	}
	return false, false
}

func (m *c13M) fieldOf(o *c13Obj, name string, ft types.Type) c13V {
	if o == nil {
		return c13unk("field %s of nothing", name)
	}
	if s := o.f[name]; s != nil {
		if s.k == c13Unk {
			m.noteUnknownRead(o, name)
		}
		return *s
	}
	if o.opaque {
		m.noteUnknownRead(o, name)
		return c13unk("field %s of the opaque object is not modelled", name)
	}
	return m.zero(ft)
}

func (m *c13M) fieldSlot(o *c13Obj, name string, ft types.Type) *c13V {
	if s := o.f[name]; s != nil {
		return s
	}
	var v c13V
	if o.opaque {
		v = c13unk("field %s of the opaque object is not modelled", name)
	} else {
		v = m.zero(ft)
	}
	o.f[name] = &v
	return &v
}

// ---------------------------------------------------------------- globals

func (m *c13M) pkgOf(path string) *packages.Package { return m.c.P.Pkgs[path] }

// global evaluates the initialiser of a package-level variable of a repository
// package. The variable must be provably never written (checked by
// c13GlobalReadOnly, reported by the rule as a table obligation).
func (m *c13M) global(obj types.Object) c13V {
	if v, ok := m.globals[obj]; ok {
		return *v
	}
	if obj.Pkg() == nil {
		return c13unk("universe object %s", obj.Name())
	}
	pk := m.pkgOf(obj.Pkg().Path())
	if pk == nil {
		return c13unk("variable %s.%s of a package outside the repository", obj.Pkg().Name(), obj.Name())
	}
	var init ast.Expr
	found := false
	for _, f := range pk.Syntax {
		for _, d := range f.Decls {
			gd, ok := d.(*ast.GenDecl)
			if !ok || gd.Tok != token.VAR {
				continue
			}
			for _, sp := range gd.Specs {
				vs := sp.(*ast.ValueSpec)
				for i, n := range vs.Names {
					if pk.TypesInfo.Defs[n] == obj {
						found = true
						if len(vs.Values) == len(vs.Names) {
							init = vs.Values[i]
						}
					}
				}
			}
		}
	}
	if !found {
		return c13unk("declaration of %s not found", obj.Name())
	}
	if why := c13GlobalReadOnly(m.c.P, pk, obj); why != "" {
		m.abort("package-level variable %s.%s is not provably constant: %s", shortPkg(pk.PkgPath), obj.Name(), why)
	}
	m.tables[obj] = true
	var v c13V
	if init == nil {
		v = m.zero(obj.Type())
	} else {
		fr := &c13Frame{pkg: pk, info: pk.TypesInfo, env: map[types.Object]*c13V{}, fn: "init of " + obj.Name()}
		v = m.eval(fr, init)
	}
	m.globals[obj] = &v
	return v
}

// c13GlobalReadOnly: every use of the variable in its package is a read
// (index/range/len/field read/plain value); "" if so, else the reason.
func c13GlobalReadOnly(p *Program, pk *packages.Package, obj types.Object) string {
	parents := p.Parents(pk)
	why := ""
	for id, o := range pk.TypesInfo.Uses {
		if o != obj || why != "" {
			continue
		}
		var cur ast.Node = id
		if se, ok := parents[id].(*ast.SelectorExpr); ok && se.Sel == id {
			cur = se // pkg.Name
		}
		for {
			par := parents[cur]
			switch pn := par.(type) {
			case *ast.IndexExpr:
				if pn.X == cur {
					cur = pn
					continue
				}
			case *ast.SelectorExpr:
				if pn.X == cur {
					cur = pn
					continue
				}
			case *ast.ParenExpr:
				cur = pn
				continue
			case *ast.AssignStmt:
				for _, l := range pn.Lhs {
					if l == cur {
						why = "assigned at " + p.Pos(pn.Pos())
					}
				}
			case *ast.IncDecStmt:
				why = "modified at " + p.Pos(pn.Pos())
			case *ast.UnaryExpr:
				if pn.Op == token.AND {
					why = "address taken at " + p.Pos(pn.Pos())
				}
			case *ast.CallExpr:
				if fid, ok := pn.Fun.(*ast.Ident); ok {
					if _, isB := pk.TypesInfo.Uses[fid].(*types.Builtin); isB {
						if fid.Name == "delete" || fid.Name == "clear" || fid.Name == "append" || fid.Name == "copy" {
							if len(pn.Args) > 0 && pn.Args[0] == cur {
								why = fid.Name + " at " + p.Pos(pn.Pos())
							}
						}
						break
					}
				}
				if cur == id || (func() bool { _, ok := cur.(*ast.SelectorExpr); return ok && cur.(*ast.SelectorExpr).Sel == id })() {
					switch obj.Type().Underlying().(type) {
					case *types.Map, *types.Slice, *types.Pointer:
						for _, a := range pn.Args {
							if a == cur {
								why = "passed to a function at " + p.Pos(pn.Pos())
							}
						}
					}
				}
			case *ast.RangeStmt:
				if pn.Key == cur || pn.Value == cur {
					why = "range target at " + p.Pos(pn.Pos())
				}
			}
			break
		}
	}
	return why
}

// ---------------------------------------------------------------- expressions

func (m *c13M) tick(n ast.Node) {
	m.steps++
	if m.steps > 400000 {
		m.abort("step budget exceeded (loop?) at %s", m.c.P.Pos(n.Pos()))
	}
}

func (m *c13M) eval(fr *c13Frame, e ast.Expr) c13V {
	m.tick(e)
	if tv, ok := fr.info.Types[e]; ok && tv.Value != nil {
		switch tv.Value.Kind() {
		case constant.Int:
			if i, ok := constant.Int64Val(tv.Value); ok {
				return c13int(i, tv.Type)
			}
		case constant.Bool:
			return c13V{k: c13Bool, b: constant.BoolVal(tv.Value), typ: tv.Type}
		case constant.String:
			return c13V{k: c13Str, s: constant.StringVal(tv.Value), typ: tv.Type}
		}
		return c13unk("constant %s", tv.Value)
	}
	switch e := e.(type) {
	case *ast.ParenExpr:
		return m.eval(fr, e.X)
	case *ast.Ident:
		if e.Name == "nil" {
			if _, ok := fr.info.Uses[e].(*types.Nil); ok {
				return c13V{k: c13Nil}
			}
		}
		o := fr.info.ObjectOf(e)
		if s, ok := fr.env[o]; ok {
			return *s
		}
		if v, ok := o.(*types.Var); ok && v.Parent() != nil && v.Parent() == v.Pkg().Scope() {
			return m.global(o)
		}
		return c13unk("identifier %s", e.Name)
	case *ast.SelectorExpr:
		if sel, ok := fr.info.Selections[e]; ok {
			if sel.Kind() != types.FieldVal {
				return c13unk("method value %s", e.Sel.Name)
			}
			base := m.eval(fr, e.X)
			return m.selectPath(base, sel)
		}
		o := fr.info.ObjectOf(e.Sel)
		if v, ok := o.(*types.Var); ok {
			return m.global(v)
		}
		return c13unk("qualified identifier %s", e.Sel.Name)
	case *ast.StarExpr:
		v := m.eval(fr, e.X)
		if v.k == c13Ptr {
			if v.loc != nil {
				return *v.loc
			}
			if v.st != nil {
				return c13V{k: c13Struct, st: v.st, typ: v.st.typ}
			}
		}
		if v.k == c13Nil {
			m.gopanic("nil pointer dereference at %s", m.c.P.Pos(e.Pos()))
		}
		return c13unk("deref of %v", v.k)
	case *ast.IndexExpr:
		base := m.eval(fr, e.X)
		switch base.k {
		case c13Slice, c13Str:
			idx := m.eval(fr, e.Index)
			if idx.k != c13Int {
				return c13unk("index unknown")
			}
			if base.k == c13Str {
				if idx.i < 0 || idx.i >= int64(len(base.s)) {
					m.gopanic("index %d out of range [0,%d) in %s at %s", idx.i, len(base.s), types.ExprString(e), m.c.P.Pos(e.Pos()))
				}
				return c13int(int64(base.s[idx.i]), types.Typ[types.Uint8])
			}
			if idx.i < 0 || idx.i >= int64(len(base.el)) {
				m.gopanic("index %d out of range [0,%d) in %s at %s", idx.i, len(base.el), types.ExprString(e), m.c.P.Pos(e.Pos()))
			}
			return base.el[idx.i]
		case c13Map:
			v, _ := m.mapGet(base, m.eval(fr, e.Index))
			return v
		}
		return c13unk("index of %s", types.ExprString(e.X))
	case *ast.SliceExpr:
		base := m.eval(fr, e.X)
		lo, hi := int64(0), int64(-1)
		if e.Low != nil {
			v := m.eval(fr, e.Low)
			if v.k != c13Int {
				return c13unk("slice bound")
			}
			lo = v.i
		}
		if e.High != nil {
			v := m.eval(fr, e.High)
			if v.k != c13Int {
				return c13unk("slice bound")
			}
			hi = v.i
		}
		if e.Max != nil {
			return c13unk("3-index slice")
		}
		switch base.k {
		case c13Str:
			if hi < 0 {
				hi = int64(len(base.s))
			}
			if lo < 0 || hi > int64(len(base.s)) || lo > hi {
				m.gopanic("slice bounds out of range at %s", m.c.P.Pos(e.Pos()))
			}
			r := base
			r.s = base.s[lo:hi]
			return r
		case c13Slice:
			if hi < 0 {
				hi = int64(len(base.el))
			}
			if lo < 0 || hi > int64(len(base.el)) || lo > hi {
				m.gopanic("slice bounds out of range at %s", m.c.P.Pos(e.Pos()))
			}
			r := base
			r.el = base.el[lo:hi]
			if r.el == nil {
				r.el = []c13V{}
			}
			return r
		}
		return c13unk("slice of %s", types.ExprString(e.X))
	case *ast.UnaryExpr:
		if e.Op == token.AND {
			if cl, ok := unparen(e.X).(*ast.CompositeLit); ok {
				v := m.eval(fr, cl)
				if v.k == c13Struct {
					return c13V{k: c13Ptr, st: v.st, typ: fr.info.TypeOf(e)}
				}
				return c13unk("&composite")
			}
			slot := m.lval(fr, e.X)
			if slot.k == c13Struct {
				return c13V{k: c13Ptr, st: slot.st, typ: fr.info.TypeOf(e)}
			}
			return c13V{k: c13Ptr, loc: slot, typ: fr.info.TypeOf(e)}
		}
		x := m.eval(fr, e.X)
		switch e.Op {
		case token.NOT:
			if x.k == c13Bool {
				return c13bool(!x.b)
			}
		case token.SUB:
			if x.k == c13Int {
				return m.mkInt(-x.i, fr.info.TypeOf(e), e)
			}
		case token.ADD:
			return x
		case token.XOR:
			if x.k == c13Int {
				return m.mkInt(^x.i, fr.info.TypeOf(e), e)
			}
		case token.ARROW:
			m.abort("channel receive at %s", m.c.P.Pos(e.Pos()))
		}
		return c13unk("unary %s on unknown", e.Op)
	case *ast.BinaryExpr:
		return m.binary(fr, e)
	case *ast.CallExpr:
		return m.call(fr, e, true)
	case *ast.CompositeLit:
		return m.composite(fr, e)
	case *ast.FuncLit:
		return c13unk("function literal")
	case *ast.TypeAssertExpr:
		v := m.eval(fr, e.X)
		if e.Type == nil {
			return v
		}
		want := fr.info.TypeOf(e.Type)
		if v.typ != nil && want != nil {
			if types.Identical(v.typ, want) {
				return v
			}
			if _, isI := want.Underlying().(*types.Interface); isI && types.AssignableTo(v.typ, want) {
				return v
			}
			m.gopanic("type assertion %s fails (dynamic type %s) at %s", types.ExprString(e), v.typ, m.c.P.Pos(e.Pos()))
		}
		return c13unk("type assertion on unknown dynamic type")
	}
	return c13unk("expression %T", e)
}

func (m *c13M) mkInt(i int64, t types.Type, at ast.Node) c13V {
	w, ok := c13wrap(i, t)
	if !ok {
		return c13unk("unsigned wrap-around at %s", m.c.P.Pos(at.Pos()))
	}
	return c13int(w, t)
}

// selectPath follows a (possibly promoted) field selection.
func (m *c13M) selectPath(base c13V, sel *types.Selection) c13V {
	t := sel.Recv()
	cur := base
	for _, ix := range sel.Index() {
		if p, ok := t.Underlying().(*types.Pointer); ok {
			t = p.Elem()
		}
		st, ok := t.Underlying().(*types.Struct)
		if !ok {
			return c13unk("selection through %s", t)
		}
		f := st.Field(ix)
		switch cur.k {
		case c13Ptr, c13Struct:
			if cur.st == nil {
				return c13unk("field %s through a scalar pointer", f.Name())
			}
			cur = m.fieldOf(cur.st, f.Name(), f.Type())
		case c13Nil:
			m.gopanic("nil dereference selecting %s", f.Name())
		default:
			return c13unk("field %s of unknown value (%s)", f.Name(), cur.why)
		}
		t = f.Type()
	}
	return cur
}

func (m *c13M) mapGet(mv c13V, key c13V) (c13V, bool) {
	if key.k == c13Unk {
		return c13unk("map lookup with unknown key (%s)", key.why), false
	}
	if mv.m == nil {
		return c13unk("map without table"), false
	}
	for i, k := range mv.m.keys {
		e, known := m.eq(k, key)
		if !known {
			return c13unk("map key comparison undecided"), false
		}
		if e {
			return mv.m.vals[i], true
		}
	}
	return m.zero(mv.m.elem), false
}

func (m *c13M) binary(fr *c13Frame, e *ast.BinaryExpr) c13V {
	if e.Op == token.LAND || e.Op == token.LOR {
		x := m.eval(fr, e.X)
		if x.k == c13Bool {
			if e.Op == token.LAND && !x.b {
				return c13bool(false)
			}
			if e.Op == token.LOR && x.b {
				return c13bool(true)
			}
			y := m.eval(fr, e.Y)
			if y.k == c13Bool {
				return c13bool(y.b)
			}
			return c13unk("%s: right operand unknown (%s)", e.Op, y.why)
		}
		return c13unk("%s: left operand %s unknown (%s)", e.Op, types.ExprString(e.X), x.why)
	}
	x, y := m.eval(fr, e.X), m.eval(fr, e.Y)
	switch e.Op {
	case token.EQL, token.NEQ:
		eq, known := m.eq(x, y)
		if !known {
			return c13unk("comparison %s undecided (%s%s)", types.ExprString(e), x.why, y.why)
		}
		return c13bool(eq == (e.Op == token.EQL))
	}
	if x.k == c13Str && y.k == c13Str {
		switch e.Op {
		case token.ADD:
			return c13V{k: c13Str, s: x.s + y.s, typ: x.typ}
		case token.LSS:
			return c13bool(x.s < y.s)
		case token.LEQ:
			return c13bool(x.s <= y.s)
		case token.GTR:
			return c13bool(x.s > y.s)
		case token.GEQ:
			return c13bool(x.s >= y.s)
		}
	}
	if x.k == c13Int && y.k == c13Int {
		t := fr.info.TypeOf(e)
		switch e.Op {
		case token.LSS:
			return c13bool(x.i < y.i)
		case token.LEQ:
			return c13bool(x.i <= y.i)
		case token.GTR:
			return c13bool(x.i > y.i)
		case token.GEQ:
			return c13bool(x.i >= y.i)
		case token.ADD:
			return m.mkInt(x.i+y.i, t, e)
		case token.SUB:
			return m.mkInt(x.i-y.i, t, e)
		case token.MUL:
			return m.mkInt(x.i*y.i, t, e)
		case token.QUO:
			if y.i == 0 {
				m.gopanic("division by zero at %s", m.c.P.Pos(e.Pos()))
			}
			return m.mkInt(x.i/y.i, t, e)
		case token.REM:
			if y.i == 0 {
				m.gopanic("division by zero at %s", m.c.P.Pos(e.Pos()))
			}
			return m.mkInt(x.i%y.i, t, e)
		case token.AND:
			return m.mkInt(x.i&y.i, t, e)
		case token.OR:
			return m.mkInt(x.i|y.i, t, e)
		case token.XOR:
			return m.mkInt(x.i^y.i, t, e)
		case token.AND_NOT:
			return m.mkInt(x.i&^y.i, t, e)
		case token.SHL:
			if y.i < 0 || y.i > 63 {
				return c13unk("shift count")
			}
			return m.mkInt(x.i<<uint(y.i), t, e)
		case token.SHR:
			if y.i < 0 || y.i > 63 {
				return c13unk("shift count")
			}
			return m.mkInt(x.i>>uint(y.i), t, e)
		}
	}
	return c13unk("binary %s on unknown operand (%s%s)", e.Op, x.why, y.why)
}

func (m *c13M) composite(fr *c13Frame, e *ast.CompositeLit) c13V {
	t := fr.info.TypeOf(e)
	if t == nil {
		return c13unk("composite literal without type")
	}
	ptr := false
	if p, ok := t.Underlying().(*types.Pointer); ok {
		t = p.Elem()
		ptr = true
	}
	var out c13V
	if c13IsBufType(t) && len(e.Elts) == 0 {
		return c13V{k: c13Buf, buf: &strings.Builder{}, typ: t}
	}
	switch u := t.Underlying().(type) {
	case *types.Struct:
		o := &c13Obj{typ: t, f: map[string]*c13V{}}
		for i, el := range e.Elts {
			if kv, ok := el.(*ast.KeyValueExpr); ok {
				id, _ := kv.Key.(*ast.Ident)
				if id == nil {
					return c13unk("struct literal key")
				}
				v := m.copyV(m.eval(fr, kv.Value))
				o.f[id.Name] = &v
			} else {
				if i >= u.NumFields() {
					return c13unk("struct literal arity")
				}
				v := m.copyV(m.eval(fr, el))
				o.f[u.Field(i).Name()] = &v
			}
		}
		out = c13V{k: c13Struct, st: o, typ: t}
	case *types.Slice, *types.Array:
		out = c13V{k: c13Slice, typ: t, el: []c13V{}}
		for _, el := range e.Elts {
			if _, ok := el.(*ast.KeyValueExpr); ok {
				return c13unk("indexed slice literal")
			}
			out.el = append(out.el, m.copyV(m.eval(fr, el)))
		}
	case *types.Map:
		tab := &c13Tab{elem: u.Elem()}
		for _, el := range e.Elts {
			kv, ok := el.(*ast.KeyValueExpr)
			if !ok {
				return c13unk("map literal element")
			}
			k := m.eval(fr, kv.Key)
			if k.k == c13Unk {
				m.abort("map literal %s has a key the evaluator cannot compute: %s", t, types.ExprString(kv.Key))
			}
			tab.keys = append(tab.keys, k)
			tab.vals = append(tab.vals, m.copyV(m.eval(fr, kv.Value)))
		}
		out = c13V{k: c13Map, typ: t, m: tab}
	default:
		return c13unk("composite literal of %s", t)
	}
	if ptr {
		if out.k == c13Struct {
			return c13V{k: c13Ptr, st: out.st, typ: fr.info.TypeOf(e)}
		}
		return c13unk("pointer composite")
	}
	return out
}

// lval resolves an assignable expression to its storage slot.
func (m *c13M) lval(fr *c13Frame, e ast.Expr) *c13V {
	switch e := e.(type) {
	case *ast.ParenExpr:
		return m.lval(fr, e.X)
	case *ast.Ident:
		o := fr.info.ObjectOf(e)
		if s, ok := fr.env[o]; ok {
			return s
		}
		if v, ok := o.(*types.Var); ok && v.Pkg() != nil && v.Parent() == v.Pkg().Scope() {
			m.abort("store to package-level variable %s", e.Name)
		}
		var z c13V
		if o != nil {
			z = m.zero(o.Type())
		}
		fr.env[o] = &z
		return &z
	case *ast.SelectorExpr:
		sel, ok := fr.info.Selections[e]
		if !ok || sel.Kind() != types.FieldVal {
			m.abort("store to %s", types.ExprString(e))
		}
		var obj *c13Obj
		xt := fr.info.TypeOf(e.X)
		if _, isPtr := xt.Underlying().(*types.Pointer); isPtr {
			v := m.eval(fr, e.X)
			if v.k != c13Ptr || v.st == nil {
				m.abort("store through pointer %s of unknown target", types.ExprString(e.X))
			}
			obj = v.st
		} else {
			s := m.lval(fr, e.X)
			if s.k == c13Unk {
				*s = c13V{k: c13Struct, typ: xt, st: &c13Obj{typ: xt, f: map[string]*c13V{}, opaque: true}}
			}
			if s.k != c13Struct || s.st == nil {
				m.abort("store into field of non-struct %s", types.ExprString(e.X))
			}
			obj = s.st
		}
		t := sel.Recv()
		var slot *c13V
		for n, ix := range sel.Index() {
			if p, ok := t.Underlying().(*types.Pointer); ok {
				t = p.Elem()
			}
			st, ok := t.Underlying().(*types.Struct)
			if !ok {
				m.abort("store path through %s", t)
			}
			f := st.Field(ix)
			slot = m.fieldSlot(obj, f.Name(), f.Type())
			t = f.Type()
			if n < len(sel.Index())-1 {
				if slot.k == c13Unk {
					*slot = c13V{k: c13Struct, typ: t, st: &c13Obj{typ: t, f: map[string]*c13V{}, opaque: true}}
				}
				if slot.st == nil {
					m.abort("store path through non-struct field %s", f.Name())
				}
				obj = slot.st
			}
		}
		return slot
	case *ast.IndexExpr:
		base := m.eval(fr, e.X)
		if base.k == c13Slice {
			idx := m.eval(fr, e.Index)
			if idx.k != c13Int {
				m.abort("store at unknown index in %s", types.ExprString(e))
			}
			if idx.i < 0 || idx.i >= int64(len(base.el)) {
				m.gopanic("index %d out of range [0,%d) in %s at %s", idx.i, len(base.el), types.ExprString(e), m.c.P.Pos(e.Pos()))
			}
			return &base.el[idx.i]
		}
		if base.k == c13Unk {
			// store into an unmodelled container of the opaque object: no tracked effect
			var sink c13V
			return &sink
		}
		if base.k == c13Map && base.m != nil {
			// m[k] = v on a modelled map: the slot of the key (appended when new)
			key := m.eval(fr, e.Index)
			if key.k == c13Unk {
				m.abort("store at unknown key in %s", types.ExprString(e))
			}
			for i, k := range base.m.keys {
				eq, known := m.eq(k, key)
				if !known {
					m.abort("map key comparison undecided in %s", types.ExprString(e))
				}
				if eq {
					return &base.m.vals[i]
				}
			}
			base.m.keys = append(base.m.keys, key)
			base.m.vals = append(base.m.vals, m.zero(base.m.elem))
			return &base.m.vals[len(base.m.vals)-1]
		}
		m.abort("store into %s", types.ExprString(e))
	case *ast.StarExpr:
		v := m.eval(fr, e.X)
		if v.k == c13Ptr && v.loc != nil {
			return v.loc
		}
		m.abort("store through %s", types.ExprString(e))
	}
	m.abort("unsupported assignment target %T", e)
	return nil
}

// ---------------------------------------------------------------- statements

func (m *c13M) block(fr *c13Frame, list []ast.Stmt) int {
	for _, s := range list {
		if ctl := m.stmt(fr, s); ctl != c13None {
			return ctl
		}
	}
	return c13None
}

func (m *c13M) cond(fr *c13Frame, e ast.Expr) bool {
	v := m.eval(fr, e)
	if v.k == c13Bool {
		return v.b
	}
	return m.choose(fmt.Sprintf("%s at %s (%s)", types.ExprString(e), m.c.P.Pos(e.Pos()), v.why))
}

// choose is the fork primitive: a decision the evaluator cannot compute. Decisions are
// replayed in order on re-evaluation (the evaluator is deterministic); a new decision takes
// the true arm and queues the sibling path.
func (m *c13M) choose(desc string) bool {
	idx := len(m.taken)
	if idx < len(m.forced) {
		m.taken = append(m.taken, m.forced[idx])
		return m.forced[idx]
	}
	if m.firstUnknown == "" {
		m.firstUnknown = desc
	}
	if len(m.taken) >= 24 {
		m.abort("more than 24 nested conditions the evaluator cannot compute (first: %s)", m.firstUnknown)
	}
	sib := append(append([]bool{}, m.taken...), false)
	m.pending = append(m.pending, sib)
	m.taken = append(m.taken, true)
	return true
}

func (m *c13M) stmt(fr *c13Frame, s ast.Stmt) int {
	own := m.nextLabel
	m.nextLabel = ""
	m.tick(s)
	switch s := s.(type) {
	case *ast.LabeledStmt:
		name := s.Label.Name
		switch s.Stmt.(type) {
		case *ast.ForStmt, *ast.RangeStmt, *ast.SwitchStmt, *ast.TypeSwitchStmt:
			// these consume `break name` / `continue name` themselves
			m.nextLabel = name
			return m.stmt(fr, s.Stmt)
		}
		// any other labelled statement: `break name` leaves it
		ctl := m.stmt(fr, s.Stmt)
		if ctl == c13Break && m.brLabel == name {
			m.brLabel = ""
			return c13None
		}
		return ctl
	case *ast.BlockStmt:
		return m.block(fr, s.List)
	case *ast.EmptyStmt:
	case *ast.ExprStmt:
		if call, ok := unparen(s.X).(*ast.CallExpr); ok {
			m.call(fr, call, false)
		} else {
			m.eval(fr, s.X)
		}
	case *ast.ReturnStmt:
		if len(s.Results) == 0 && fr.result != nil {
			fr.ret = nil
			for _, f := range fr.result.List {
				for _, n := range f.Names {
					if sl := fr.env[fr.info.Defs[n]]; sl != nil {
						fr.ret = append(fr.ret, *sl)
					}
				}
			}
			return c13Return
		}
		var out []c13V
		for _, r := range s.Results {
			out = append(out, m.copyV(m.eval(fr, r)))
		}
		fr.ret = out
		return c13Return
	case *ast.IfStmt:
		if s.Init != nil {
			m.stmt(fr, s.Init)
		}
		if m.cond(fr, s.Cond) {
			return m.block(fr, s.Body.List)
		} else if s.Else != nil {
			return m.stmt(fr, s.Else)
		}
	case *ast.SwitchStmt:
		return m.switchCtl(m.switchStmt(fr, s), own)
	case *ast.TypeSwitchStmt:
		return m.switchCtl(m.typeSwitch(fr, s), own)
	case *ast.AssignStmt:
		m.assign(fr, s)
	case *ast.IncDecStmt:
		slot := m.lval(fr, s.X)
		if slot.k == c13Int {
			d := int64(1)
			if s.Tok == token.DEC {
				d = -1
			}
			*slot = m.mkInt(slot.i+d, slot.typ, s)
		} else {
			*slot = c13unk("inc/dec of unknown")
		}
	case *ast.DeclStmt:
		gd, ok := s.Decl.(*ast.GenDecl)
		if !ok {
			break
		}
		for _, sp := range gd.Specs {
			vs, ok := sp.(*ast.ValueSpec)
			if !ok {
				continue
			}
			for i, n := range vs.Names {
				o := fr.info.Defs[n]
				if o == nil {
					continue
				}
				v := m.zero(o.Type())
				if len(vs.Values) == len(vs.Names) {
					v = m.copyV(m.eval(fr, vs.Values[i]))
				} else if len(vs.Values) > 0 {
					v = c13unk("multi-value var decl")
				}
				vv := v
				fr.env[o] = &vv
			}
		}
	case *ast.DeferStmt:
		call := s.Call
		if lit, ok := call.Fun.(*ast.FuncLit); ok && len(call.Args) == 0 {
			fr.defers = append(fr.defers, func() { m.block(fr, lit.Body.List) })
		} else {
			fr.defers = append(fr.defers, func() { m.call(fr, call, false) })
		}
	case *ast.RangeStmt:
		return m.rangeStmt(fr, s, own)
	case *ast.ForStmt:
		if s.Init != nil {
			m.stmt(fr, s.Init)
		}
		for {
			if s.Cond != nil && !m.cond(fr, s.Cond) {
				break
			}
			stop, out := m.loopCtl(m.block(fr, s.Body.List), own)
			if stop {
				return out
			}
			if s.Post != nil {
				m.stmt(fr, s.Post)
			}
		}
	case *ast.BranchStmt:
		switch s.Tok {
		case token.BREAK, token.CONTINUE:
			m.brLabel = ""
			if s.Label != nil {
				m.brLabel = s.Label.Name
			}
			if s.Tok == token.BREAK {
				return c13Break
			}
			return c13Continue
		}
		m.abort("%s at %s", s.Tok, m.c.P.Pos(s.Pos()))
	case *ast.SendStmt:
		ch := m.eval(fr, s.Chan)
		if ch.k != c13Chan {
			m.abort("send on a channel that is not the modelled event queue: %s at %s", types.ExprString(s.Chan), m.c.P.Pos(s.Pos()))
		}
		m.events = append(m.events, m.copyV(m.eval(fr, s.Value)))
	default:
		m.abort("unsupported statement %T at %s", s, m.c.P.Pos(s.Pos()))
	}
	return c13None
}

func (m *c13M) switchStmt(fr *c13Frame, s *ast.SwitchStmt) int {
	if s.Init != nil {
		m.stmt(fr, s.Init)
	}
	var tag c13V
	tagUnknown := false
	if s.Tag != nil {
		tag = m.eval(fr, s.Tag)
		tagUnknown = tag.k == c13Unk
	}
	var chosen *ast.CaseClause
	var def *ast.CaseClause
outer:
	for _, cl := range s.Body.List {
		cc := cl.(*ast.CaseClause)
		if cc.List == nil {
			def = cc
			continue
		}
		if tagUnknown {
			// the tag is not computable: fork over the clauses (one decision per clause)
			if m.choose(fmt.Sprintf("switch %s at %s (%s)", types.ExprString(s.Tag), m.c.P.Pos(s.Pos()), tag.why)) {
				chosen = cc
				break outer
			}
			continue
		}
		for _, ce := range cc.List {
			if s.Tag == nil {
				if m.cond(fr, ce) {
					chosen = cc
					break outer
				}
				continue
			}
			v := m.eval(fr, ce)
			if m.probeOn && tag.k == c13Int && tag.i == m.probeTag && v.k == c13Int {
				m.probeCases[v.i] = true
			}
			eq, known := m.eq(tag, v)
			if !known {
				eq = m.choose(fmt.Sprintf("case %s at %s", types.ExprString(ce), m.c.P.Pos(ce.Pos())))
			}
			if eq {
				chosen = cc
				break outer
			}
		}
	}
	if chosen == nil {
		chosen = def
	}
	if chosen == nil {
		return c13None
	}
	for _, st := range chosen.Body {
		if br, ok := st.(*ast.BranchStmt); ok && br.Tok == token.FALLTHROUGH {
			m.abort("fallthrough at %s", m.c.P.Pos(br.Pos()))
		}
	}
	return m.block(fr, chosen.Body)
}

func (m *c13M) typeSwitch(fr *c13Frame, s *ast.TypeSwitchStmt) int {
	if s.Init != nil {
		m.stmt(fr, s.Init)
	}
	var x ast.Expr
	switch a := s.Assign.(type) {
	case *ast.ExprStmt:
		x = a.X.(*ast.TypeAssertExpr).X
	case *ast.AssignStmt:
		x = a.Rhs[0].(*ast.TypeAssertExpr).X
	}
	v := m.eval(fr, x)
	if v.typ == nil && v.k != c13Nil {
		m.abort("type switch on a value of unknown dynamic type: %s at %s", types.ExprString(x), m.c.P.Pos(s.Pos()))
	}
	var chosen, def *ast.CaseClause
outer:
	for _, cl := range s.Body.List {
		cc := cl.(*ast.CaseClause)
		if cc.List == nil {
			def = cc
			continue
		}
		for _, ce := range cc.List {
			if id, ok := ce.(*ast.Ident); ok && id.Name == "nil" {
				if v.k == c13Nil {
					chosen = cc
					break outer
				}
				continue
			}
			ct := fr.info.TypeOf(ce)
			if v.typ == nil || ct == nil {
				continue
			}
			if types.Identical(v.typ, ct) {
				chosen = cc
				break outer
			}
			if _, isI := ct.Underlying().(*types.Interface); isI && types.AssignableTo(v.typ, ct) {
				chosen = cc
				break outer
			}
		}
	}
	if chosen == nil {
		chosen = def
	}
	if chosen == nil {
		return c13None
	}
	if o := fr.info.Implicits[chosen]; o != nil {
		vv := m.copyV(v)
		fr.env[o] = &vv
	}
	return m.block(fr, chosen.Body)
}

func (m *c13M) rangeStmt(fr *c13Frame, s *ast.RangeStmt, own string) int {
	x := m.eval(fr, s.X)
	bind := func(e ast.Expr, v c13V) {
		if e == nil {
			return
		}
		if id, ok := e.(*ast.Ident); ok && id.Name == "_" {
			return
		}
		if s.Tok == token.DEFINE {
			if id, ok := e.(*ast.Ident); ok {
				vv := m.copyV(v)
				fr.env[fr.info.Defs[id]] = &vv
				return
			}
		}
		*m.lval(fr, e) = m.copyV(v)
	}
	body := func() (stop bool, ctl int) {
		return m.loopCtl(m.block(fr, s.Body.List), own)
	}
	intT := types.Typ[types.Int]
	switch x.k {
	case c13Slice:
		for i := range x.el {
			bind(s.Key, c13int(int64(i), intT))
			bind(s.Value, x.el[i])
			if stop, ctl := body(); stop {
				return ctl
			}
		}
	case c13Str:
		for i, r := range x.s {
			bind(s.Key, c13int(int64(i), intT))
			bind(s.Value, c13int(int64(r), types.Typ[types.Int32]))
			if stop, ctl := body(); stop {
				return ctl
			}
		}
	case c13Int:
		for i := int64(0); i < x.i; i++ {
			bind(s.Key, c13int(i, intT))
			if stop, ctl := body(); stop {
				return ctl
			}
		}
	default:
		m.abort("range over a value the evaluator cannot enumerate: %s at %s (%s)", types.ExprString(s.X), m.c.P.Pos(s.Pos()), x.why)
	}
	return c13None
}

func (m *c13M) assign(fr *c13Frame, s *ast.AssignStmt) {
	if s.Tok != token.ASSIGN && s.Tok != token.DEFINE {
		// compound assignment
		slot := m.lval(fr, s.Lhs[0])
		op := map[token.Token]token.Token{token.ADD_ASSIGN: token.ADD, token.SUB_ASSIGN: token.SUB, token.MUL_ASSIGN: token.MUL,
			token.QUO_ASSIGN: token.QUO, token.REM_ASSIGN: token.REM, token.AND_ASSIGN: token.AND, token.OR_ASSIGN: token.OR,
			token.XOR_ASSIGN: token.XOR, token.SHL_ASSIGN: token.SHL, token.SHR_ASSIGN: token.SHR, token.AND_NOT_ASSIGN: token.AND_NOT}[s.Tok]
		be := &ast.BinaryExpr{X: s.Lhs[0], Op: op, Y: s.Rhs[0], OpPos: s.TokPos}
		// evaluate without type info for the synthetic node: do it by hand
		x, y := *slot, m.eval(fr, s.Rhs[0])
		t := fr.info.TypeOf(s.Lhs[0])
		var r c13V
		switch {
		case x.k == c13Str && y.k == c13Str && op == token.ADD:
			r = c13V{k: c13Str, s: x.s + y.s, typ: x.typ}
		case x.k == c13Int && y.k == c13Int:
			var i int64
			switch op {
			case token.ADD:
				i = x.i + y.i
			case token.SUB:
				i = x.i - y.i
			case token.MUL:
				i = x.i * y.i
			case token.AND:
				i = x.i & y.i
			case token.OR:
				i = x.i | y.i
			case token.XOR:
				i = x.i ^ y.i
			case token.AND_NOT:
				i = x.i &^ y.i
			case token.QUO, token.REM:
				if y.i == 0 {
					m.gopanic("division by zero at %s", m.c.P.Pos(s.Pos()))
				}
				if op == token.QUO {
					i = x.i / y.i
				} else {
					i = x.i % y.i
				}
			case token.SHL:
				i = x.i << uint(y.i&63)
			case token.SHR:
				i = x.i >> uint(y.i&63)
			}
			r = m.mkInt(i, t, s)
		default:
			r = c13unk("compound assignment %s on unknown", types.ExprString(be.X))
		}
		*slot = r
		return
	}
	var vals []c13V
	if len(s.Lhs) == len(s.Rhs) {
		for _, r := range s.Rhs {
			vals = append(vals, m.copyV(m.eval(fr, r)))
		}
	} else if len(s.Rhs) == 1 && len(s.Lhs) == 2 {
		switch r := unparen(s.Rhs[0]).(type) {
		case *ast.IndexExpr:
			base := m.eval(fr, r.X)
			if base.k == c13Map {
				v, ok := m.mapGet(base, m.eval(fr, r.Index))
				if v.k == c13Unk {
					vals = []c13V{v, c13unk("%s", v.why)}
				} else {
					vals = []c13V{m.copyV(v), c13bool(ok)}
				}
			} else {
				vals = []c13V{c13unk("comma-ok on %s", types.ExprString(r.X)), c13unk("comma-ok")}
			}
		case *ast.TypeAssertExpr:
			v := m.eval(fr, r.X)
			want := fr.info.TypeOf(r.Type)
			if v.typ != nil && want != nil {
				ok := types.Identical(v.typ, want)
				if _, isI := want.Underlying().(*types.Interface); isI && types.AssignableTo(v.typ, want) {
					ok = true
				}
				if ok {
					vals = []c13V{m.copyV(v), c13bool(true)}
				} else {
					vals = []c13V{m.zero(want), c13bool(false)}
				}
			} else {
				vals = []c13V{c13unk("type assertion"), c13unk("type assertion")}
			}
		case *ast.CallExpr:
			rets := m.callMulti(fr, r)
			if len(rets) == 2 {
				vals = rets
			} else {
				vals = []c13V{c13unk("result of %s", types.ExprString(r.Fun)), c13unk("result of %s", types.ExprString(r.Fun))}
			}
		default:
			vals = []c13V{c13unk("multi-value"), c13unk("multi-value")}
		}
	} else if len(s.Rhs) == 1 {
		if call, ok := unparen(s.Rhs[0]).(*ast.CallExpr); ok {
			rets := m.callMulti(fr, call)
			for i := range s.Lhs {
				if i < len(rets) && len(rets) == len(s.Lhs) {
					vals = append(vals, rets[i])
				} else {
					vals = append(vals, c13unk("result of %s", types.ExprString(call.Fun)))
				}
			}
		} else {
			m.abort("unsupported multi-assignment at %s", m.c.P.Pos(s.Pos()))
		}
	} else {
		m.abort("unsupported assignment shape at %s", m.c.P.Pos(s.Pos()))
	}
	for i, l := range s.Lhs {
		if id, ok := l.(*ast.Ident); ok {
			if id.Name == "_" {
				continue
			}
			if s.Tok == token.DEFINE {
				if o := fr.info.Defs[id]; o != nil {
					v := vals[i]
					fr.env[o] = &v
					continue
				}
			}
		}
		if se, ok := unparen(l).(*ast.StarExpr); ok {
			// *p = v where p points to a struct object: the object is overwritten in place (every
			// alias of it, the field it lives in included, sees the new value)
			if p := m.eval(fr, se.X); p.k == c13Ptr && p.loc == nil && p.st != nil {
				v := vals[i]
				if v.k != c13Struct || v.st == nil {
					m.abort("store of a value the evaluator does not hold through %s at %s", types.ExprString(l), m.c.P.Pos(l.Pos()))
				}
				nv := m.copyV(v)
				p.st.f, p.st.opaque = nv.st.f, nv.st.opaque
				continue
			}
		}
		*m.lval(fr, l) = vals[i]
	}
}

// ---------------------------------------------------------------- helpers shared with natives

func c13IsIntegerType(t types.Type) bool {
	b, ok := t.Underlying().(*types.Basic)
	return ok && b.Info()&types.IsInteger != 0
}

func c13IsStringType(t types.Type) bool {
	b, ok := t.Underlying().(*types.Basic)
	return ok && b.Info()&types.IsString != 0
}
