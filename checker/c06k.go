package main

// Additional C06 rules written after the fifth round of seeded regressions.
//
//  C06.k  scroll-region setting: a DECSTBM request whose region, AFTER the bottom parameter was limited to the
//         screen, has fewer than two lines is ignored — margins and cursor stay as they are (xterm: the bottom
//         is set to the last line when it is 0 or beyond it, and only `bot > top` sets the margins and homes the
//         cursor). Proved as symbolic contracts on the handler (the C06.d machinery): CSI ROWS;ROWS+5 r,
//         CSI ROWS+3;ROWS+5 r, CSI 3;3 r and CSI 4;2 r leave margin.top, margin.bottom, cursor.row and cursor.col
//         unchanged. Breaks when the validity test is made on a value other than the one that is stored (the clamp
//         moved behind the test: a one-line or inverted region is accepted, the cursor jumps home and every later
//         line feed at the bottom of the screen no longer scrolls).
//
//  C06.l  alternate screen with save/restore cursor: CSI ? 1049 h saves the cursor as DECSC does and
//         CSI ? 1049 l restores it as DECRC does, on EVERY path through their case of the DECSET/DECRST
//         dispatch (xterm restores the cursor unconditionally; leaving the alternate screen is a no-op on the
//         normal screen, the restore is not). "Saves"/"restores" = a call of decsc/decrc, a call of a function of
//         the package that does so on every path of its own, or the stores themselves (a cursorState field
//         written / the cursor assigned from a saved state). Decided by a structured walk over the statements of
//         the case: every way of leaving it (end of the case, break, continue, return) must have passed one.

import (
	"go/ast"
	"go/token"
	"go/types"
)

func init() {
	registerExtra("C06", c06RuleStbmIgnored)
	registerExtra("C06", c06RuleAltScreenCursor)
}

func c06RuleStbmIgnored(c *Ctx) {
	c.Clauses = append(c.Clauses, "C06.k a scroll-region request that has fewer than two lines once the bottom is limited to the screen is ignored (margins and cursor unchanged)")
	c.expect("C06.k", 4)
	e := c05Engine(c)
	if e.pk == nil || e.model == nil || e.cellT == nil {
		c.undecided("C06.k", "widgets/term", 0, "package widgets/term, type Model or type cell not found")
		return
	}
	tabs := map[string]*c06Table{"csi": c06Dispatch(c, e, "widgets/term.(*Model).csi")}
	if t := tabs["csi"]; t == nil || t.entries["r"] == nil || t.entries["r"].callee == nil {
		c.undecided("C06.k", "widgets/term.(*Model).csi/case r", 0, "no handler for CSI r found in the csi dispatch")
		return
	}
	inRegion := []c05Lin{c05L(c05Top_, 1, c05Row, -1), c05L(c05Row, 1, c05Bot, -1), c05L(c05Col, 1, "COLS", -1, 1)}
	same := []c06Post{
		c06Eq("top margin unchanged", c05Top_, 1, g0Top, -1),
		c06Eq("bottom margin unchanged", c05Bot, 1, g0Bot, -1),
		c06Eq("row unchanged", c05Row, 1, g0Row, -1),
		c06Eq("column unchanged", c05Col, 1, g0Col, -1),
	}
	geoPlus := func(sym string, k int) c05Lin { return c05L(sym, 1, k) }
	c06RunContracts(c, e, tabs, []c06Case{
		{rule: "C06.k", table: "csi", key: "r", name: "DECSTBM with the top on the last line and the bottom beyond the screen is ignored", list: []any{geoPlus("ROWS", 0), geoPlus("ROWS", 5)}, minRows: 2, margins: true, pre: inRegion, post: same},
		{rule: "C06.k", table: "csi", key: "r", name: "DECSTBM with both parameters beyond the screen is ignored", list: []any{geoPlus("ROWS", 3), geoPlus("ROWS", 5)}, minRows: 2, margins: true, pre: inRegion, post: same},
		{rule: "C06.k", table: "csi", key: "r", name: "DECSTBM 3;3 is ignored", list: []any{3, 3}, minRows: 4, margins: true, pre: inRegion, post: same},
		{rule: "C06.k", table: "csi", key: "r", name: "DECSTBM 4;2 is ignored", list: []any{4, 2}, minRows: 4, margins: true, pre: inRegion, post: same},
	})
}

// ---------------------------------------------------------------- C06.l

func c06RuleAltScreenCursor(c *Ctx) {
	c.Clauses = append(c.Clauses, "C06.l CSI ?1049h saves and CSI ?1049l restores the cursor (as DECSC/DECRC) on every path through their case")
	c.expect("C06.l", 2)
	e := c05Engine(c)
	if e.pk == nil || e.model == nil {
		c.undecided("C06.l", "widgets/term", 0, "package widgets/term or type Model not found")
		return
	}
	for _, sp := range []struct {
		table, verb, fn, fails string
	}{
		{"decset", "saves", "widgets/term.Model.decsc", "CSI ?1049h can switch to the alternate screen without saving the cursor: the position and rendition restored by the matching ?1049l are stale"},
		{"decrst", "restores", "widgets/term.Model.decrc", "CSI ?1049l can end without restoring the cursor (a VT restores it as DECRC does, also when the normal screen is already active): cursor position and pen differ from the reference after the sequence"},
	} {
		t := c06Dispatch(c, e, "widgets/term.(*Model)."+sp.table)
		if t == nil || t.entries["1049"] == nil {
			continue // C06.b reports the missing table / case
		}
		en := t.entries["1049"]
		key := t.fi.Name + "/case 1049 " + sp.verb + " the cursor on every path"
		m := &c06Must{c: c, target: sp.fn, save: sp.verb == "saves", memo: map[*types.Func]int{}}
		o := m.list(t.fi.Pkg.TypesInfo, en.clause.Body, false)
		switch {
		case len(m.und) > 0:
			c.undecided("C06.l", key, en.clause.Pos(), "the case is not understood: %s", m.und[0])
		case o.any():
			c.bad("C06.l", key, en.clause.Pos(), "%s (%s)", sp.fails, o.how())
		default:
			c.ok("C06.l", key, en.clause.Pos(), "every way of leaving the case has passed %s or its stores", sp.fn)
		}
	}
}

// c06MustOut: the ways a statement (list) can be left WITHOUT the event having happened.
type c06MustOut struct {
	fall, brk, cont, esc bool
}

func (o c06MustOut) any() bool { return o.fall || o.brk || o.cont || o.esc }
func (o c06MustOut) how() string {
	switch {
	case o.cont:
		return "a continue leaves the case first"
	case o.brk:
		return "a break leaves the case first"
	case o.esc:
		return "a return leaves the case first"
	}
	return "the end of the case is reached without it"
}
func (o *c06MustOut) add(p c06MustOut) {
	o.fall = o.fall || p.fall
	o.brk = o.brk || p.brk
	o.cont = o.cont || p.cont
	o.esc = o.esc || p.esc
}

type c06Must struct {
	c      *Ctx
	target string              // repoName of the function that is the event
	save   bool                // the event is "save the cursor" (else "restore the cursor")
	memo   map[*types.Func]int // 1 always does it, 2 does not, 3 being computed
	und    []string
}

// list walks the statements with done == "the event has happened"; the result says how the list can be left
// without it. Once done, nothing after it matters.
func (m *c06Must) list(info *types.Info, stmts []ast.Stmt, done bool) c06MustOut {
	var out c06MustOut
	for _, s := range stmts {
		if done {
			return out
		}
		o, d, ends := m.stmt(info, s)
		out.brk, out.cont, out.esc = out.brk || o.brk, out.cont || o.cont, out.esc || o.esc
		if ends {
			return out // control never continues behind s
		}
		if d && !o.fall {
			done = true
		}
	}
	if !done {
		out.fall = true
	}
	return out
}

// stmt: o = ways of leaving s without the event (o.fall: control continues behind s without it);
// d = the event happens on every path that continues behind s; ends = control never continues behind s.
func (m *c06Must) stmt(info *types.Info, s ast.Stmt) (o c06MustOut, d bool, ends bool) {
	switch t := s.(type) {
	case nil, *ast.EmptyStmt:
		return c06MustOut{fall: true}, false, false
	case *ast.BlockStmt:
		o = m.list(info, t.List, false)
		return o, !o.fall, m.terminates(t.List)
	case *ast.LabeledStmt:
		return m.stmt(info, t.Stmt)
	case *ast.ExprStmt, *ast.AssignStmt, *ast.IncDecStmt, *ast.DeclStmt, *ast.SendStmt, *ast.GoStmt, *ast.DeferStmt:
		if es, ok := t.(*ast.ExprStmt); ok && c06IsPanic(info, es.X) {
			return c06MustOut{}, false, true
		}
		if m.has(info, t) {
			return c06MustOut{}, true, false
		}
		return c06MustOut{fall: true}, false, false
	case *ast.ReturnStmt:
		if m.has(info, t) {
			return c06MustOut{}, true, true
		}
		return c06MustOut{esc: true}, false, true
	case *ast.BranchStmt:
		switch {
		case t.Label != nil || t.Tok == token.GOTO:
			return c06MustOut{esc: true}, false, true
		case t.Tok == token.BREAK:
			return c06MustOut{brk: true}, false, true
		case t.Tok == token.CONTINUE:
			return c06MustOut{cont: true}, false, true
		}
		m.und = append(m.und, "fallthrough")
		return c06MustOut{}, false, true
	case *ast.IfStmt:
		if t.Init != nil && m.has(info, t.Init) || m.has(info, t.Cond) {
			return c06MustOut{}, true, false
		}
		o = m.list(info, t.Body.List, false)
		endsAll := m.terminates(t.Body.List)
		if t.Else != nil {
			o2, _, e2 := m.stmt(info, t.Else)
			o.add(o2)
			endsAll = endsAll && e2
		} else {
			o.fall = true
			endsAll = false
		}
		return o, !o.fall, endsAll
	case *ast.SwitchStmt, *ast.TypeSwitchStmt, *ast.SelectStmt:
		var body *ast.BlockStmt
		switch u := t.(type) {
		case *ast.SwitchStmt:
			if u.Init != nil && m.has(info, u.Init) || u.Tag != nil && m.has(info, u.Tag) {
				return c06MustOut{}, true, false
			}
			body = u.Body
		case *ast.TypeSwitchStmt:
			body = u.Body
		case *ast.SelectStmt:
			body = u.Body
		}
		hasDefault := false
		for _, cl := range body.List {
			var stmts []ast.Stmt
			switch cc := cl.(type) {
			case *ast.CaseClause:
				stmts = cc.Body
				if cc.List == nil {
					hasDefault = true
				}
			case *ast.CommClause:
				stmts = cc.Body
				if cc.Comm == nil {
					hasDefault = true
				}
			}
			p := m.list(info, stmts, false)
			// an unlabelled break leaves this switch, not the enclosing construct
			if p.brk {
				p.brk, p.fall = false, true
			}
			o.add(p)
		}
		if _, isSel := t.(*ast.SelectStmt); !hasDefault && !isSel {
			o.fall = true
		}
		return o, !o.fall, false
	case *ast.ForStmt, *ast.RangeStmt:
		var body *ast.BlockStmt
		switch u := t.(type) {
		case *ast.ForStmt:
			if u.Init != nil && m.has(info, u.Init) || u.Cond != nil && m.has(info, u.Cond) {
				return c06MustOut{}, true, false
			}
			body = u.Body
		case *ast.RangeStmt:
			if m.has(info, u.X) {
				return c06MustOut{}, true, false
			}
			body = u.Body
		}
		p := m.list(info, body.List, false)
		// the body may not run at all; break and continue stay inside the loop
		o = c06MustOut{fall: true, esc: p.esc}
		return o, false, false
	}
	m.und = append(m.und, "statement "+m.c.P.Pos(s.Pos()))
	return c06MustOut{fall: true}, false, false
}

// terminates: control never continues behind the list (its last statement is a jump or a terminating if/block).
func (m *c06Must) terminates(list []ast.Stmt) bool {
	if len(list) == 0 {
		return false
	}
	switch t := list[len(list)-1].(type) {
	case *ast.ReturnStmt, *ast.BranchStmt:
		return true
	case *ast.BlockStmt:
		return m.terminates(t.List)
	case *ast.IfStmt:
		if t.Else == nil || !m.terminates(t.Body.List) {
			return false
		}
		switch e := t.Else.(type) {
		case *ast.BlockStmt:
			return m.terminates(e.List)
		case *ast.IfStmt:
			return m.terminates([]ast.Stmt{e})
		}
	case *ast.LabeledStmt:
		return m.terminates([]ast.Stmt{t.Stmt})
	}
	return false
}

func c06IsPanic(info *types.Info, x ast.Expr) bool {
	call, ok := unparen(x).(*ast.CallExpr)
	if !ok {
		return false
	}
	if id, ok := call.Fun.(*ast.Ident); ok {
		if b, ok := info.Uses[id].(*types.Builtin); ok && b.Name() == "panic" {
			return true
		}
	}
	return false
}

// has: evaluating n certainly performs the event (operands behind && / || and function literals do not count).
func (m *c06Must) has(info *types.Info, n ast.Node) bool {
	if n == nil {
		return false
	}
	found := false
	var walk func(x ast.Node)
	walk = func(x ast.Node) {
		ast.Inspect(x, func(k ast.Node) bool {
			if found {
				return false
			}
			switch t := k.(type) {
			case *ast.FuncLit, *ast.GoStmt, *ast.DeferStmt:
				return false
			case *ast.BinaryExpr:
				if t.Op == token.LAND || t.Op == token.LOR {
					walk(t.X)
					return false
				}
			case *ast.CallExpr:
				if fn := calleeOf(info, t); fn != nil {
					if repoName(fn) == m.target || m.always(fn) {
						found = true
						return false
					}
				}
			case *ast.AssignStmt:
				if t.Tok == token.ASSIGN && len(t.Lhs) == len(t.Rhs) {
					for i := range t.Lhs {
						if m.isStore(info, t.Lhs[i], t.Rhs[i]) {
							found = true
							return false
						}
					}
				}
			}
			return true
		})
	}
	walk(n)
	return found
}

// isStore: the assignment is the save / the restore itself.
//
//	save:    a cursorState that is not a plain local is written (vt.primaryState = …, *p = …, vt.altState.cursor = vt.cursor)
//	restore: Model.cursor (whole) is assigned from the cursor of a cursorState
func (m *c06Must) isStore(info *types.Info, lhs, rhs ast.Expr) bool {
	named := func(t types.Type, name string) bool {
		if t == nil {
			return false
		}
		if p, ok := t.(*types.Pointer); ok {
			t = p.Elem()
		}
		n, ok := t.(*types.Named)
		return ok && n.Obj().Name() == name && n.Obj().Pkg() != nil && shortPkg(n.Obj().Pkg().Path()) == "widgets/term"
	}
	if m.save {
		if _, isId := unparen(lhs).(*ast.Ident); isId {
			return false
		}
		if named(info.TypeOf(lhs), "cursorState") {
			return true
		}
		// the saved cursor of a state, taken from the live cursor
		if sel, ok := unparen(lhs).(*ast.SelectorExpr); ok && sel.Sel.Name == "cursor" && named(info.TypeOf(sel.X), "cursorState") {
			return canonPath(info, rhs) == "Model.cursor"
		}
		return false
	}
	if lhsPath(info, lhs) != "Model.cursor" {
		return false
	}
	if sel, ok := unparen(rhs).(*ast.SelectorExpr); ok && sel.Sel.Name == "cursor" && named(info.TypeOf(sel.X), "cursorState") {
		return true
	}
	return false
}

// always: a function of the package with a body that performs the event on every path of its own.
func (m *c06Must) always(fn *types.Func) bool {
	switch m.memo[fn] {
	case 1:
		return true
	case 2, 3:
		return false
	}
	fi := m.c.P.FuncOfObj(fn)
	if fi == nil || fi.Decl.Body == nil || shortPkg(fi.Pkg.PkgPath) != "widgets/term" {
		m.memo[fn] = 2
		return false
	}
	m.memo[fn] = 3
	saveUnd := m.und
	o := m.list(fi.Pkg.TypesInfo, fi.Decl.Body.List, false)
	bad := o.any() || len(m.und) > len(saveUnd)
	m.und = saveUnd
	if bad {
		m.memo[fn] = 2
		return false
	}
	m.memo[fn] = 1
	return true
}
