package main

// C19.b / C19.m — the pager's layout function as a typestate machine over its line objects.
//
// The layout function fills "the pending line" and stores it in Model.lines when it is complete. The line may
// be held by more than one variable: a helper that takes the pending line and returns the line that is pending
// afterwards (func (m *Model) layoutSegment(l *line, seg Segment) *line) gives the caller's variable, the
// helper's parameter and - when the helper was spliced in textually - a renamed local. So the typestate is kept
// per line OBJECT and the analysis tracks which variable refers to which object:
//
//	ref[v]  in {object 0..2, none}     for at most three line variables v
//	ts[o]   in {fresh, dirty, flushed}  fresh: no cell yet; dirty: cells not stored in lines; flushed: stored
//	Z       the column counter was set to a constant since the last append
//	A       a cell was appended and the column counter has not been advanced since
//
// Events: v = &line{} (fresh), v = u (copy), v = nil, v.append(cell) / v.chars = append(v.chars, cell) (append),
// lines = append(lines, v) (flush); parameter binding and result transfer of an inlined helper are copies.
// Conditions (necessary for "every line of the text is presented, wrapped at the window width without losing
// characters"):
//   - a variable is overwritten only if the object it held is stored, empty, or still held by another variable;
//     at return no variable holds a dirty object (text would be lost)                                  [C19.b]
//   - cells are appended only to objects that are not stored yet, an object is stored once             [C19.b]
//   - a cell is appended to a dirty object only while col < width; to a fresh object with col == 0;
//     col advances after the append before it is used again                                            [C19.b]
//   - the column counter is not restarted between two appends to the same line object: the counter that is
//     compared with the window width is the width of the pending line, also when the line is continued by
//     the next segment / the next call of a helper                                                    [C19.m]

import (
	"fmt"
	"go/ast"
	"go/token"
	"go/types"
	"sort"
	"strings"
)

func init() {
	registerExtra("C19", func(c *Ctx) {
		// the obligations are produced by c19PagerLayout (same typestate run as C19.b)
		c.Clauses = append(c.Clauses, "C19.m widgets/pager: the column counter that decides wrapping is not set to a constant between two appends to the same (still unstored) line: it persists across the segments and helper calls that fill one line")
		c.expect("C19.m", 1)
	})
}

// events of one supergraph node of a layout function (called in the node's alias context)
type c19LineEvent struct {
	kind string // fresh | append | flush | copy | nilvar | reset | commit | otherLines | otherVar
	v    types.Object
	src  types.Object // copy: the variable whose value is copied
	cont types.Object // flush, reset, commit: the container of lines (nil: Model.lines, else a builder variable)
}

func (pi *c19PagerInfo) lineVarOf(e ast.Expr) types.Object {
	if e == nil {
		return nil
	}
	if o := c19CanonVar(pi.info, e); o != nil && pi.isLinePtr(o.Type()) {
		return o
	}
	return nil
}

// assignEvent: dst = rhs for a line-pointer variable dst; rhs is read in the current alias context.
func (pi *c19PagerInfo) assignEvent(dst types.Object, rhs ast.Expr) (c19LineEvent, bool) {
	switch {
	case dst == nil:
		return c19LineEvent{kind: "otherVar"}, true
	case rhs == nil:
		return c19LineEvent{kind: "otherVar", v: dst}, true
	case pi.isFreshLine(unparen(rhs)):
		return c19LineEvent{kind: "fresh", v: dst}, true
	case isNilExpr(pi.info, unparen(rhs)):
		return c19LineEvent{kind: "nilvar", v: dst}, true
	}
	if src := pi.lineVarOf(rhs); src != nil {
		if src == dst {
			return c19LineEvent{}, false
		}
		return c19LineEvent{kind: "copy", v: dst, src: src}, true
	}
	return c19LineEvent{kind: "otherVar", v: dst}, true
}

func (pi *c19PagerInfo) events(sn *c19SNode) []c19LineEvent {
	info := pi.info
	var out []c19LineEvent
	add := func(ev c19LineEvent, ok bool) {
		if ok {
			out = append(out, ev)
		}
	}
	if sn.pseudo == "ret" {
		// the results of an inlined helper assigned to line variables of the caller: a fresh line, the very
		// line that was passed in, or the line a variable of the helper holds
		for i, l := range sn.retLhs {
			id, ok := unparen(l).(*ast.Ident)
			if !ok || id.Name == "_" {
				continue
			}
			o := info.ObjectOf(id)
			if o == nil || !pi.isLinePtr(o.Type()) {
				continue
			}
			var lv types.Object
			c19With(sn.retFr, func() { lv = c19CanonVar(info, l) })
			if sn.retStmt == nil || i >= len(sn.retStmt.Results) || len(sn.retStmt.Results) != len(sn.retLhs) {
				out = append(out, c19LineEvent{kind: "otherVar", v: lv})
				continue
			}
			add(pi.assignEvent(lv, sn.retStmt.Results[i]))
		}
		return out
	}
	if sn.n == nil {
		return nil
	}
	varEv := func(kind string, x ast.Expr) {
		if o := c19CanonVar(info, x); o != nil {
			out = append(out, c19LineEvent{kind: kind, v: o})
		} else {
			out = append(out, c19LineEvent{kind: "otherVar"})
		}
	}
	inspectNoLit(sn.n, func(m ast.Node) bool {
		switch s := m.(type) {
		case *ast.CallExpr:
			if s == sn.skip {
				return sn.pseudo != "post" // inlined: its body speaks for itself
			}
			if fn := calleeOf(info, s); fn != nil && pi.appenders[fn] {
				if sel, ok := unparen(s.Fun).(*ast.SelectorExpr); ok {
					varEv("append", sel.X)
				}
			}
		case *ast.AssignStmt:
			if x := pi.isCharsAppend(s); x != nil {
				varEv("append", x)
				return true
			}
			for i, l := range s.Lhs {
				var rhs ast.Expr
				if len(s.Lhs) == len(s.Rhs) {
					rhs = unparen(s.Rhs[i])
				}
				if _, isCont := pi.linesContainer(l); isCont {
					if sn.pseudo == "post" {
						out = append(out, c19LineEvent{kind: "otherLines"}) // a container assigned the result of a helper
						continue
					}
					out = append(out, pi.linesStore(l, rhs))
					continue
				}
				if id, ok := unparen(l).(*ast.Ident); ok && id.Name != "_" {
					if o := info.ObjectOf(id); o != nil && pi.isLinePtr(o.Type()) {
						if sn.pseudo == "post" {
							continue // decided per return of the inlined helper
						}
						add(pi.assignEvent(c19CanonVar(info, l), rhs))
					}
				}
			}
		case *ast.ValueSpec:
			// go/cfg lowers `var x T = v` to one ValueSpec node per specification
			vs := s
			for i, name := range vs.Names {
				o := info.ObjectOf(name)
				if o == nil || name.Name == "_" {
					continue
				}
				if pi.builders[o] {
					switch {
					case len(vs.Values) == 0:
						out = append(out, c19LineEvent{kind: "reset", cont: o})
					case len(vs.Values) == len(vs.Names):
						out = append(out, pi.linesStore(name, unparen(vs.Values[i])))
					default:
						out = append(out, c19LineEvent{kind: "otherLines"})
					}
					continue
				}
				if !pi.isLinePtr(o.Type()) {
					continue
				}
				switch {
				case len(vs.Values) == 0:
					out = append(out, c19LineEvent{kind: "nilvar", v: o})
				case len(vs.Values) == len(vs.Names):
					add(pi.assignEvent(o, vs.Values[i]))
				default:
					out = append(out, c19LineEvent{kind: "otherVar", v: o})
				}
			}
		}
		return true
	})
	if sn.pseudo == "bind" {
		// pointer parameters of the inlined helper bound by value: the parameter holds the line of the argument
		for _, pb := range sn.ptrBinds {
			if pi.isLinePtr(pb.param.Type()) {
				add(pi.assignEvent(pb.param, pb.arg))
			}
		}
	}
	return out
}

// ---- the ghost state

const (
	c19LineFresh   = 0
	c19LineDirty   = 1
	c19LineFlushed = 2
	c19LineNone    = 3 // ref: the variable holds no known line; ts: the object slot is free

	c19MaxLineVars = 3
)

type c19LineState struct {
	ref  [c19MaxLineVars]uint8
	ts   [c19MaxLineVars]uint8
	z, a bool
}

func c19LineStateOf(st uint32) c19LineState {
	g := st >> c19GhostShift
	var s c19LineState
	for i := 0; i < c19MaxLineVars; i++ {
		s.ref[i] = uint8(g >> uint(2*i) & 3)
		s.ts[i] = uint8(g >> uint(2*c19MaxLineVars+2*i) & 3)
	}
	s.z = g>>uint(4*c19MaxLineVars)&1 == 1
	s.a = g>>uint(4*c19MaxLineVars+1)&1 == 1
	return s
}

// ghostBits: canonical encoding (objects numbered in the order of the variables that refer to them, objects
// that no variable refers to are dropped).
func (s c19LineState) ghostBits() uint32 {
	ren := [4]uint8{c19LineNone, c19LineNone, c19LineNone, c19LineNone}
	var g uint32
	n := uint8(0)
	ts := [c19MaxLineVars]uint8{c19LineNone, c19LineNone, c19LineNone}
	for i := 0; i < c19MaxLineVars; i++ {
		r := s.ref[i]
		if r != c19LineNone {
			if ren[r] == c19LineNone {
				ren[r] = n
				ts[n] = s.ts[r]
				n++
			}
			r = ren[r]
		}
		g |= uint32(r) << uint(2*i)
	}
	for i := 0; i < c19MaxLineVars; i++ {
		g |= uint32(ts[i]) << uint(2*c19MaxLineVars+2*i)
	}
	if s.z {
		g |= 1 << uint(4*c19MaxLineVars)
	}
	if s.a {
		g |= 1 << uint(4*c19MaxLineVars+1)
	}
	return g
}

func (s c19LineState) into(st uint32) uint32 {
	return st&(1<<c19GhostShift-1) | s.ghostBits()<<c19GhostShift
}

// tsOf: the typestate of the object variable i refers to (c19LineNone when it refers to none).
func (s c19LineState) tsOf(i int) uint8 {
	if s.ref[i] == c19LineNone {
		return c19LineNone
	}
	return s.ts[s.ref[i]]
}

// soleHolder: variable i is the only variable that refers to its object.
func (s c19LineState) soleHolder(i int) bool {
	for j := 0; j < c19MaxLineVars; j++ {
		if j != i && s.ref[j] == s.ref[i] {
			return false
		}
	}
	return true
}

func (s c19LineState) freeSlot() uint8 {
	for o := uint8(0); o < c19MaxLineVars; o++ {
		used := false
		for j := 0; j < c19MaxLineVars; j++ {
			if s.ref[j] == o {
				used = true
			}
		}
		if !used {
			return o
		}
	}
	return c19LineNone // cannot happen: there are as many slots as variables
}

func (s c19LineState) String(names []string) string {
	tsn := []string{"empty", "holds unstored cells", "stored", "unknown"}
	var out []string
	for i, n := range names {
		out = append(out, n+": "+tsn[s.tsOf(i)])
	}
	return strings.Join(out, ", ")
}

// column events of a node
const (
	c19ColNone  = iota
	c19ColReset // col = constant
	c19ColAdd   // col = col + x
	c19ColOther // col = something else that is not a copy of a column variable
)

func c19PagerLayout(c *Ctx, pi *c19PagerInfo, fi *FuncInfo, fl *c19Flow) {
	info := pi.info
	type site struct {
		c19Pos
		sn *c19SNode
		ev c19LineEvent
		k  int // index of the event in its node
	}
	var sites []site
	var lvars []types.Object
	vidx := map[types.Object]int{}
	addVar := func(o types.Object) {
		if o == nil {
			return
		}
		if _, ok := vidx[o]; !ok {
			vidx[o] = len(lvars)
			lvars = append(lvars, o)
		}
	}
	undec := ""
	pi.builders = pi.findBuilders(fl)
	evCache := map[*c19SNode][]c19LineEvent{}
	eventsOf := func(sn *c19SNode) []c19LineEvent {
		if evs, ok := evCache[sn]; ok {
			return evs
		}
		var evs []c19LineEvent
		c19With(sn.fr, func() { evs = pi.events(sn) })
		evCache[sn] = evs
		return evs
	}
	nAppend, nFlush := 0, 0
	for _, b := range fl.blks {
		for i, sn := range b.nodes {
			for k, ev := range eventsOf(sn) {
				sites = append(sites, site{c19Pos{b, i}, sn, ev, k})
				switch ev.kind {
				case "otherLines":
					undec = "a store to Model.lines that is neither a reset nor lines = append(lines, l): " + sn.short()
				case "otherVar":
					undec = "a line variable is assigned something other than a fresh &line{}, nil or another line variable: " + sn.short()
				case "flush", "append", "fresh", "copy", "nilvar":
					if ev.kind == "flush" {
						nFlush++
					}
					addVar(ev.v)
					addVar(ev.src)
					if ev.kind == "append" {
						nAppend++
					}
				}
			}
		}
	}
	if undec == "" && nAppend == 0 {
		undec = "no append of a cell to the pending line was recognised (x.chars = append(x.chars, v), inline or in a method of the line type)"
	}
	if undec == "" && nFlush == 0 {
		undec = "no store of a line in Model.lines was recognised (lines = append(lines, l), directly or through a local slice that is stored in Model.lines)"
	}
	if undec == "" && len(lvars) == 0 {
		undec = "no pending-line variable found"
	}
	if undec == "" && len(lvars) > c19MaxLineVars {
		undec = fmt.Sprintf("the pending line passes through %d variables (the typestate follows at most %d)", len(lvars), c19MaxLineVars)
	}
	if undec != "" {
		c.undecided("C19.b", fi.Name+"/pending line typestate", fi.Decl.Pos(), "%s", undec)
		return
	}
	var vnames []string
	for _, v := range lvars {
		fl.seedRoot[v] = true
		n := v.Name()
		for _, u := range lvars {
			if u != v && u.Name() == n && v.Pos().IsValid() {
				n = fmt.Sprintf("%s (declared in line %d)", v.Name(), c.P.Fset.Position(v.Pos()).Line)
			}
		}
		vnames = append(vnames, n)
	}
	// entry: parameters of the analysed function hold a line of their own about which nothing is known but
	// that it is not stored yet (assumed empty, as a local's first &line{} is); locals hold none
	{
		var s c19LineState
		for i := range s.ref {
			s.ref[i], s.ts[i] = c19LineNone, c19LineNone
		}
		sig, _ := fi.Obj.Type().(*types.Signature)
		for i, v := range lvars {
			for k := 0; sig != nil && k < sig.Params().Len(); k++ {
				if types.Object(sig.Params().At(k)) == v {
					o := s.freeSlot()
					s.ref[i], s.ts[o] = o, c19LineFresh
				}
			}
		}
		fl.ghostInit = s.ghostBits()
	}

	// ---- the column counter: a local variable compared with Model.width
	var colObj types.Object
	var colLtWidth *c19Form
	// scanCmp: the comparisons of a condition (read in the frame fr, at the location use)
	scanCmp := func(fr *c19Frame, cond ast.Expr, use *Loc) {
		c19With(fr, func() {
			inspectNoLit(cond, func(n ast.Node) bool {
				be, ok := n.(*ast.BinaryExpr)
				if !ok || !isIntegerExpr(info, be.X) || !isIntegerExpr(info, be.Y) {
					return true
				}
				switch be.Op {
				case token.LSS, token.LEQ, token.GTR, token.GEQ, token.EQL, token.NEQ:
				default:
					return true
				}
				l := c19LinOf(info, be.X).plus(c19LinOf(info, be.Y), -1)
				if use != nil {
					l = c19Resolve(c, fr.fi, l, use)
				}
				var widthT, colT *c19Term
				for _, id := range l.ids() {
					t := l.tm[id]
					if c19SelField(info, t.ex) == pi.fWide {
						widthT = t
					} else if len(t.paths) == 1 && len(t.paths[0].path) == 0 && len(l.ids()) == 2 {
						if v, ok := t.paths[0].root.(*types.Var); ok && !v.IsField() && v.Parent() != pi.pk.Types.Scope() {
							colT = t
						}
					}
				}
				if widthT != nil && colT != nil && colObj == nil {
					colObj = colT.paths[0].root
					cl, wl := c19NewLin(), c19NewLin()
					cl.coef[colT.id], cl.tm[colT.id] = 1, colT
					wl.coef[widthT.id], wl.tm[widthT.id] = 1, widthT
					colLtWidth = fl.goal(fl.le(cl.plus(wl, -1).addK(1)))
				}
				return true
			})
		})
	}
	for _, b := range fl.blks {
		if b.cnd == nil || b.cnd.Tag != nil {
			continue
		}
		var use *Loc
		if len(b.nodes) > 0 {
			u := b.nodes[len(b.nodes)-1].loc
			use = &u
		}
		scanCmp(b.fr, b.cnd.Expr, use)
	}
	if colObj == nil {
		// the wrap test named first (full := col >= m.width; if full { ... }): the comparison is the value of a flag
		for _, b := range fl.blks {
			for _, sn := range b.nodes {
				if sn.n == nil || sn.pseudo != "" {
					continue
				}
				var lhs, rhs []ast.Expr
				switch t := sn.n.(type) {
				case *ast.AssignStmt:
					if t.Tok == token.ASSIGN || t.Tok == token.DEFINE {
						lhs, rhs = t.Lhs, t.Rhs
					}
				case *ast.ValueSpec:
					rhs = t.Values
					for _, name := range t.Names {
						lhs = append(lhs, name)
					}
				}
				for k, r := range rhs {
					if c19IsBoolType(info.TypeOf(r)) && len(lhs) == len(rhs) {
						u := sn.loc
						had := colObj != nil
						scanCmp(sn.fr, r, &u)
						if !had && colObj != nil {
							// the flag carries the comparison to the branch: it is tracked with it
							c19With(sn.fr, func() { fl.goal(fl.boolAtom(lhs[k])) })
						}
					}
				}
			}
		}
	}
	if colObj != nil {
		fl.goal(fl.eq(c19PathLin(colObj, nil, false)))
	}
	// the column counter and the variables it is copied to and from (parameters, results, named locals)
	colClass := map[types.Object]bool{}
	if colObj != nil {
		colClass[colObj] = true
		for changed := true; changed; {
			changed = false
			for _, b := range fl.blks {
				for _, sn := range b.nodes {
					for _, ef := range fl.effectsOf(sn) {
						if ef.kind != 'a' || ef.rhs == nil || len(ef.lhs.path) != 0 || len(ef.rhs.ids()) != 1 || ef.rhs.k != 0 {
							continue
						}
						t := ef.rhs.tm[ef.rhs.ids()[0]]
						if ef.rhs.coef[t.id] != 1 || len(t.paths) != 1 || len(t.paths[0].path) != 0 || t.isLen {
							continue
						}
						x, y := ef.lhs.root, t.paths[0].root
						if colClass[x] != colClass[y] {
							colClass[x], colClass[y] = true, true
							changed = true
						}
					}
				}
			}
		}
	}
	inClassTerm := func(t *c19Term) bool {
		return t != nil && len(t.paths) == 1 && len(t.paths[0].path) == 0 && colClass[t.paths[0].root] && !t.isLen
	}
	// colEvent: what the node does to a column variable
	colCache := map[*c19SNode]int{}
	colEvent := func(sn *c19SNode) int {
		if v, ok := colCache[sn]; ok {
			return v
		}
		r := c19ColNone
		for _, ef := range fl.effectsOf(sn) {
			if ef.kind != 'a' || !colClass[ef.lhs.root] || len(ef.lhs.path) != 0 {
				continue
			}
			switch {
			case ef.rhs == nil:
				r = c19ColOther
			case len(ef.rhs.ids()) == 0:
				r = c19ColReset
			default:
				add, cp := false, false
				for _, id := range ef.rhs.ids() {
					if inClassTerm(ef.rhs.tm[id]) && ef.rhs.coef[id] == 1 {
						if len(ef.rhs.ids()) > 1 || ef.rhs.k > 0 {
							add = true
						} else if ef.rhs.k == 0 {
							cp = true
						}
					}
				}
				switch {
				case add:
					r = c19ColAdd
				case cp:
				default:
					r = c19ColOther
				}
			}
		}
		colCache[sn] = r
		return r
	}
	colAdds := func(sn *c19SNode) bool { return colEvent(sn) == c19ColAdd }

	// ---- transfer function of the ghost state
	// apply: the state after one event; lost: the event drops the last reference to a line with unstored cells
	apply := func(s c19LineState, ev c19LineEvent) (c19LineState, bool) {
		lost := false
		release := func(i int, keep uint8) {
			if s.ref[i] != c19LineNone && s.ref[i] != keep && s.tsOf(i) == c19LineDirty && s.soleHolder(i) {
				lost = true
			}
		}
		switch ev.kind {
		case "fresh":
			i := vidx[ev.v]
			release(i, c19LineNone)
			s.ref[i] = c19LineNone
			o := s.freeSlot()
			s.ref[i], s.ts[o] = o, c19LineFresh
		case "nilvar":
			i := vidx[ev.v]
			release(i, c19LineNone)
			s.ref[i] = c19LineNone
		case "copy":
			i, j := vidx[ev.v], vidx[ev.src]
			release(i, s.ref[j])
			s.ref[i] = s.ref[j]
		case "append":
			i := vidx[ev.v]
			if s.ref[i] != c19LineNone && s.ts[s.ref[i]] == c19LineFresh {
				s.ts[s.ref[i]] = c19LineDirty
			}
			s.z, s.a = false, true
		case "flush":
			i := vidx[ev.v]
			if s.ref[i] != c19LineNone {
				s.ts[s.ref[i]] = c19LineFlushed
			}
		}
		return s, lost
	}
	applyCol := func(s c19LineState, ce int) c19LineState {
		switch ce {
		case c19ColReset:
			s.z, s.a = true, false
		case c19ColAdd:
			if s.a {
				s.a = false // the advance that belongs to the cell just appended
			} else {
				s.z = false // the counter is being recomputed: not judged
			}
		case c19ColOther:
			s.z, s.a = false, false
		}
		return s
	}
	// the predicates len(v.chars) of the line variables
	var lenBase [c19MaxLineVars]*c19Lin
	lenSearched := false
	findLen := func() {
		if lenSearched {
			return
		}
		lenSearched = true
		for _, p := range fl.tracked {
			if p.kind == "bool" || len(p.terms) != 1 || !p.terms[0].isLen || p.base.coef[p.terms[0].id] != 1 {
				continue
			}
			for _, rp := range p.terms[0].paths {
				if i, ok := vidx[rp.root]; ok && len(rp.path) == 1 {
					lenBase[i] = p.base
				}
			}
		}
	}
	fl.ghost = func(sn *c19SNode, st uint32) []uint32 {
		evs := eventsOf(sn)
		ce := c19ColNone
		if colObj != nil {
			ce = colEvent(sn)
		}
		if len(evs) == 0 && ce == c19ColNone {
			return nil
		}
		findLen()
		s := c19LineStateOf(st)
		var havoc []int // predicate bits that an append through another variable invalidates
		for _, ev := range evs {
			if ev.kind == "append" {
				i := vidx[ev.v]
				for j := range lvars {
					if j != i && s.ref[j] != c19LineNone && s.ref[j] == s.ref[i] && lenBase[j] != nil {
						for _, p := range fl.groups[c19BaseKey(lenBase[j])] {
							havoc = append(havoc, p.bit)
						}
					}
				}
			}
			s, _ = apply(s, ev)
		}
		s = applyCol(s, ce)
		ns := s.into(st)
		if len(havoc) == 0 {
			return []uint32{ns}
		}
		set := map[uint32]bool{}
		fl.expand(set, ns, havoc)
		var out []uint32
		for x := range set {
			out = append(out, x)
		}
		sort.Slice(out, func(i, j int) bool { return out[i] < out[j] })
		return out
	}
	// an object with unstored cells has len(chars) >= 1, a fresh one len(chars) == 0
	fl.feasibleX = func(fl *c19Flow, st uint32) bool {
		findLen()
		s := c19LineStateOf(st)
		for i := range lvars {
			if lenBase[i] == nil {
				continue
			}
			lo, hi := fl.interval(st, lenBase[i], c19BaseKey(lenBase[i]))
			switch s.tsOf(i) {
			case c19LineDirty:
				if hi < 1 {
					return false
				}
			case c19LineFresh:
				if lo > 0 {
					return false
				}
			}
		}
		return true
	}
	fl.solve()
	if fl.err != "" {
		c.undecided("C19.b", fi.Name+"/pending line typestate", fi.Decl.Pos(), "%s", fl.err)
		return
	}
	if len(fl.exitStates()) == 0 {
		c.undecided("C19.b", fi.Name+"/pending line flushed at return", fi.Decl.Body.Rbrace, "no abstract state reaches a return of %s", fi.Name)
		return
	}
	sorted := func(sts map[uint32]bool) []uint32 {
		var out []uint32
		for st := range sts {
			out = append(out, st)
		}
		sort.Slice(out, func(i, j int) bool { return out[i] < out[j] })
		return out
	}
	{
		dirtyVar := ""
		for _, st := range sorted(fl.exitStates()) {
			s := c19LineStateOf(st)
			for i, v := range lvars {
				if s.tsOf(i) == c19LineDirty && dirtyVar == "" {
					dirtyVar = v.Name()
				}
			}
		}
		lname := vnames[0]
		if dirtyVar != "" {
			lname = dirtyVar
		}
		c.check(dirtyVar == "", "C19.b", fi.Name+"/pending line flushed at return", fi.Decl.Body.Rbrace,
			"no path reaches a return with cells appended to "+lname+" that were not stored in lines",
			"a path from the append to "+lname+" to return skips lines = append(lines, "+lname+"): a last line without terminator (or shorter than the width) is never presented")
	}
	hasEvent := func(kind string) func(*c19SNode) bool {
		return func(sn *c19SNode) bool {
			for _, ev := range eventsOf(sn) {
				if ev.kind == kind {
					return true
				}
			}
			return false
		}
	}
	// contEvent: an event of one of the kinds on the given container of lines (nil: Model.lines)
	contEvent := func(cont types.Object, kinds ...string) func(*c19SNode) bool {
		return func(sn *c19SNode) bool {
			for _, ev := range eventsOf(sn) {
				for _, k := range kinds {
					if ev.kind == k && ev.cont == cont {
						return true
					}
				}
			}
			return false
		}
	}
	// usesCol: the node reads a column variable other than to copy it
	usesCol := func(sn *c19SNode) bool {
		if sn.n == nil || colObj == nil || sn.pseudo != "" {
			return false
		}
		pureCopy := true
		for _, ef := range fl.effectsOf(sn) {
			if ef.kind == 'a' && colClass[ef.lhs.root] && len(ef.lhs.path) == 0 && ef.rhs != nil && len(ef.rhs.ids()) == 1 && ef.rhs.k == 0 && inClassTerm(ef.rhs.tm[ef.rhs.ids()[0]]) {
				continue
			}
			pureCopy = false
		}
		if pureCopy && len(fl.effectsOf(sn)) > 0 {
			return false
		}
		uses := false
		c19With(sn.fr, func() {
			inspectNoLit(sn.n, func(m ast.Node) bool {
				if id, ok := m.(*ast.Ident); ok && info.Uses[id] != nil {
					if o := c19CanonVar(info, id); o != nil && colClass[o] {
						uses = true
					}
				}
				return true
			})
		})
		return uses
	}
	var colZero *c19Form
	if colObj != nil {
		colZero = fl.all["eq|"+c19BaseKey(c19PathLin(colObj, nil, false))+"|0"].atom()
	}
	// preOf: the states in which event k of the node happens (the node's earlier events applied)
	type pre struct {
		st uint32
		s  c19LineState
	}
	preOf := func(s site) []pre {
		var out []pre
		evs := eventsOf(s.sn)
		for _, st := range sorted(fl.statesAt(s.c19Pos)) {
			ls := c19LineStateOf(st)
			for k := 0; k < s.k; k++ {
				ls, _ = apply(ls, evs[k])
			}
			out = append(out, pre{st, ls})
		}
		return out
	}
	for _, s := range sites {
		pres := preOf(s)
		if len(pres) == 0 && s.ev.kind != "reset" {
			c.undecided("C19.b", fi.Name+"/"+s.ev.kind+" site reachable", s.sn.pos(), "no abstract state reaches %s", s.sn.short())
			continue
		}
		switch s.ev.kind {
		case "fresh", "copy", "nilvar":
			okAll, wit := true, ""
			for _, p := range pres {
				if _, lost := apply(p.s, s.ev); lost && okAll {
					okAll, wit = false, p.s.String(vnames)
				}
			}
			key := "/fresh line replaces only a stored or empty line"
			if s.ev.kind != "fresh" {
				key = "/line variable overwritten only when its line is stored, empty or held elsewhere"
			}
			c.check(okAll, "C19.b", fi.Name+key, s.sn.pos(),
				"the line variable is never overwritten while it alone holds unstored cells",
				"a line holding cells that were not stored in lines is overwritten ("+wit+"): text is lost")
		case "append":
			i := vidx[s.ev.v]
			okAll := true
			for _, p := range pres {
				if p.s.tsOf(i) == c19LineFlushed {
					okAll = false
				}
			}
			c.check(okAll, "C19.b", fi.Name+"/append goes to an unstored line", s.sn.pos(),
				"cells are appended only to a line that is not yet in lines", "cells are appended to a line that is already stored in lines: the line break is lost and a later flush stores the line twice")
			if colLtWidth == nil {
				c.undecided("C19.b", fi.Name+"/line closed when col >= width", s.sn.pos(), "no comparison of a local column counter with Model.width found")
				continue
			}
			okAll, wit := true, ""
			for _, p := range pres {
				if okAll && p.s.tsOf(i) == c19LineDirty && fl.eval3(colLtWidth, p.st) != 1 {
					okAll, wit = false, fl.describe(p.st)
				}
			}
			c.check(okAll, "C19.b", fi.Name+"/line closed when col >= width", s.sn.pos(),
				"a cell is appended to a non-empty line only while "+colObj.Name()+" < width",
				"a cell can be appended to a non-empty line although "+colObj.Name()+" >= width ("+wit+"): the line is longer than the window and its tail is clipped")
			// the column counter restarts with every fresh line
			okZero := true
			for _, p := range pres {
				if okZero && p.s.tsOf(i) == c19LineFresh && colZero != nil && fl.eval3(colZero, p.st) != 1 {
					okZero, wit = false, fl.describe(p.st)
				}
			}
			c.check(okZero, "C19.b", fi.Name+"/column restarts after flush", s.sn.pos(),
				"the first cell of a fresh line is appended with "+colObj.Name()+" == 0",
				"a cell can be appended to a fresh line with "+colObj.Name()+" != 0 ("+wit+"): the column counter was not reset after the line was stored, every following cell closes its own line")
			// the column counter advances with the cell before it is tested or the next cell appended
			bad := ""
			fl.walk(c19Pos{s.b, s.i + 1}, func(p c19Pos, sn *c19SNode) bool {
				if colAdds(sn) {
					return false
				}
				if (usesCol(sn) || hasEvent("append")(sn)) && bad == "" {
					bad = sn.short()
					return false
				}
				return true
			}, nil)
			c.check(bad == "", "C19.b", fi.Name+"/column advances with each cell", s.sn.pos(),
				colObj.Name()+" is increased after the append before it is tested again",
				colObj.Name()+" is tested or the next cell appended ("+bad+") without having been advanced by the cell's width: lines never fill up and are not wrapped at the window width")
			// C19.m: the counter is not restarted in the middle of a line
			okKeep := true
			for _, p := range pres {
				if okKeep && p.s.tsOf(i) == c19LineDirty && p.s.z {
					okKeep, wit = false, p.s.String(vnames)
				}
			}
			c.check(okKeep, "C19.m", fi.Name+"/column counter persists while a line is filled", s.sn.pos(),
				colObj.Name()+" is not set to a constant between two appends to the same unstored line",
				"a cell can be appended to a line that already holds cells ("+wit+") after "+colObj.Name()+" was set to a constant: the counter no longer measures the pending line (it restarts with each segment / helper call although the line continues), the wrap test fires too late, the line grows past the window width and its tail is never presented")
		case "flush":
			i := vidx[s.ev.v]
			okAll := true
			for _, p := range pres {
				if p.s.tsOf(i) == c19LineFlushed {
					okAll = false
				}
			}
			c.check(okAll, "C19.b", fi.Name+"/line stored once", s.sn.pos(),
				"a line is stored in lines at most once", "the same line can be stored in lines twice")
			// the container the line goes to was emptied first (Model.lines: emptied, or replaced by a builder's lines)
			emptied := contEvent(s.ev.cont, "reset")
			if s.ev.cont == nil {
				emptied = func(sn *c19SNode) bool { return contEvent(nil, "reset")(sn) || hasEvent("commit")(sn) }
			}
			c.check(fl.mustPrecede(emptied, s.c19Pos), "C19.b", fi.Name+"/lines reset before flush", s.sn.pos(),
				"every path to the flush has emptied lines first", "lines is not emptied before lines are appended: a second Layout (every width change) duplicates the text")
			if s.ev.cont != nil {
				// lines collected in a local slice reach the model only through Model.lines = <slice>
				c.check(fl.mustFollow(s.c19Pos, contEvent(s.ev.cont, "commit")), "C19.b", fi.Name+"/collected lines stored in Model.lines", s.sn.pos(),
					"every path from the flush to return stores "+s.ev.cont.Name()+" in Model.lines",
					"a line is appended to the local slice "+s.ev.cont.Name()+" and a return is reached without Model.lines = "+s.ev.cont.Name()+" after it: the line is never presented")
			} else if len(pi.builders) > 0 {
				lost := false
				for _, o := range sites {
					if o.ev.kind == "commit" && fl.reaches(s.c19Pos, o.c19Pos, nil) {
						lost = true
					}
				}
				c.check(!lost, "C19.b", fi.Name+"/collected lines stored in Model.lines", s.sn.pos(),
					"no store Model.lines = <local slice> follows the append to Model.lines",
					"a line appended to Model.lines is dropped again when Model.lines is overwritten by the local slice afterwards")
			}
		case "reset":
			c.check(!fl.inLoop(s.b), "C19.b", fi.Name+"/lines reset outside the loops", s.sn.pos(),
				"lines is emptied once, not per character", "lines is emptied inside a loop: earlier lines are dropped")
		}
	}
}
