package main

// C16.l — the fit tests mean in unsigned arithmetic what they mean over the integers.
//
// C16.e proves "every addition is guarded by w + width(X) <= s.width" over the ideal integers: a guard written as
// `x > s.width - w` is read as w + x > s.width. In the scanner the operands are unsigned, so the two are the same only
// while the subtraction does not wrap, i.e. while w <= s.width — and the long-word split is the one place where w may
// legitimately exceed s.width (a single grapheme wider than the line is emitted on an empty line). There
// `s.width - w` wraps to a huge number, every later grapheme "fits", and the line grows past the width.
//
// Rule: every non-constant subtraction A - B of an unsigned type in a Scan function that involves the line-width
// accumulator w must not wrap where it is evaluated. It is accepted when
//
//	(a) a guard in force there — a dominating branch condition whose operands are unchanged, or the left operand of the
//	    && / || the subtraction sits under — implies B <= A; or
//	(b) it is exactly s.width - w and w <= s.width is an invariant at that point: w starts at 0 and every assignment to
//	    w from which the subtraction can be reached is an advance w += m under guards implying w + m <= s.width
//	    (strictly: the empty-line exception of the long-word split does not qualify), or a reset to 0.
//
// Anything else is violated: the guard built from the difference no longer implies the fit, whatever C16.e concluded.

import (
	"go/ast"
	"go/token"
	"go/types"
)

func init() { registerExtra("C16", c16NoWrappingFitTest) }

func c16NoWrappingFitTest(c *Ctx) {
	c.Clauses = append(c.Clauses, "C16.l no fit test depends on an unsigned subtraction that can wrap: every unsigned A - B involving the line width w in Scan is evaluated under a guard implying B <= A, or is s.width - w at a point where w <= s.width is invariant (w starts at 0; every assignment to w that reaches it is w += m guarded by w + m <= s.width without the empty-line exception)")
	c.expect("C16.l", 2)
	for _, short := range []string{"vxfw/text", "vxfw/richtext"} {
		tmp := &Ctx{P: c.P, counts: map[string]int{}, minima: map[string]int{}}
		s := c16Load(tmp, short)
		if s == nil {
			// the scanner's shape is not understood: C16.a/e report that
			c.undecided("C16.l", short+".(*SoftwrapScanner).Scan/fit tests free of wrapping subtraction", 0, "scanner not recognised (see C16.a)")
			continue
		}
		s.c = c
		s.wrapRule()
	}
}

func (s *c16Scanner) wrapRule() {
	c, info, g := s.c, s.info, s.g
	key := s.name + "/fit tests free of wrapping subtraction"
	wKey := ""
	widthKey := ""
	// term ids as c15LinOf produces them
	ast.Inspect(s.fi.Decl.Body, func(n ast.Node) bool {
		switch t := n.(type) {
		case *ast.Ident:
			if wKey == "" && info.ObjectOf(t) == s.w {
				wKey = termOf(info, t).ID
			}
		case *ast.SelectorExpr:
			if widthKey == "" && s.isField(t, "width") {
				widthKey = termOf(info, t).ID
				return false
			}
		}
		return true
	})
	if wKey == "" {
		c.undecided("C16.l", key, s.fi.Decl.Pos(), "line-width accumulator not found")
		return
	}
	w := c15TermLin(wKey, s.w.Name(), true)
	var width c15Lin
	if widthKey != "" {
		width = c15TermLin(widthKey, "s.width", true)
	}

	var subs []*ast.BinaryExpr
	ast.Inspect(s.fi.Decl.Body, func(n ast.Node) bool {
		be, ok := n.(*ast.BinaryExpr)
		if !ok || be.Op != token.SUB {
			return true
		}
		tv, ok := info.Types[be]
		if !ok || tv.Value != nil || !c15IsUnsigned(tv.Type) {
			return true
		}
		lin := c15LinOf(info, be)
		if _, has := lin.co[wKey]; !has {
			// also a difference in which w cancels textually does not involve w
			mentions := false
			ast.Inspect(be, func(m ast.Node) bool {
				if id, ok := m.(*ast.Ident); ok && info.ObjectOf(id) == s.w {
					mentions = true
				}
				return !mentions
			})
			if !mentions {
				return true
			}
		}
		subs = append(subs, be)
		return true
	})
	if len(subs) == 0 {
		c.ok("C16.l", key, s.fi.Decl.Pos(), "no unsigned subtraction involves the line width %s: the fit tests are sums compared with s.width", s.w.Name())
		return
	}

	never := func(ast.Node) bool { return false }
	// (b) is w <= s.width invariant at l?
	invariantAt := func(l Loc) (bool, string) {
		if widthKey == "" {
			return false, "s.width is not read"
		}
		why := ""
		ok := true
		addrTaken := false
		ast.Inspect(s.fi.Decl.Body, func(n ast.Node) bool {
			if !ok {
				return false
			}
			switch t := n.(type) {
			case *ast.UnaryExpr:
				if t.Op == token.AND && s.isObj(t.X, s.w) {
					addrTaken = true
				}
			case *ast.ValueSpec:
				for i, nm := range t.Names {
					if info.Defs[nm] != s.w {
						continue
					}
					if i < len(t.Values) {
						if k, isC := constInt(info, t.Values[i]); !isC || k != 0 {
							ok, why = false, s.w.Name()+" does not start at 0"
						}
					}
				}
			case *ast.IncDecStmt, *ast.AssignStmt:
				writes := false
				isDef := false
				var rhs ast.Expr
				switch a := t.(type) {
				case *ast.IncDecStmt:
					writes = s.isObj(a.X, s.w)
				case *ast.AssignStmt:
					for i, lh := range a.Lhs {
						if s.isObj(lh, s.w) {
							writes = true
							if len(a.Lhs) == len(a.Rhs) {
								rhs = a.Rhs[i]
							}
							if id, isId := unparen(lh).(*ast.Ident); isId && a.Tok == token.DEFINE && info.Defs[id] == s.w {
								isDef = true
							}
						}
					}
				}
				if !writes {
					return true
				}
				if as, isAs := t.(*ast.AssignStmt); isAs && (as.Tok == token.ASSIGN || as.Tok == token.DEFINE) && rhs != nil {
					if k, isC := constInt(info, rhs); isC && k == 0 {
						return true // reset / start at 0
					}
				}
				if isDef {
					ok, why = false, s.w.Name()+" does not start at 0"
					return false
				}
				al, located := g.Locate(t)
				if !located {
					ok, why = false, "an assignment to "+s.w.Name()+" is not a statement of the control-flow graph"
					return false
				}
				if !g.ReachesAvoiding(al, l, never) {
					return true
				}
				inc, isAdv := c16Advance(info, t, s.w)
				if !isAdv {
					ok, why = false, s.w.Name()+" is assigned something other than an advance"
					return false
				}
				gs := c15GuardsAt(g, al)
				neg := []c15Lin{width.add(w, -1).add(inc, -1).plus(1)} // w + inc > width
				if !c15Refuted(gs, neg) {
					ok = false
					why = "the advance " + s.w.Name() + " += " + inc.String() + " at " + c.P.Pos(t.Pos()) + " reaches it and is not guarded by " + s.w.Name() + " + " + inc.String() + " <= s.width (guards: " + c15GuardsString(gs) + "), so " + s.w.Name() + " may exceed s.width there"
				}
			}
			return true
		})
		if addrTaken {
			return false, "the address of " + s.w.Name() + " is taken"
		}
		return ok, why
	}

	safe := 0
	for _, be := range subs {
		hits := g.Find(func(n ast.Node) bool { return n == ast.Node(be) })
		if len(hits) == 0 {
			c.undecided("C16.l", key, be.Pos(), "the subtraction %s is not in the control-flow graph (function literal?)", types.ExprString(be))
			return
		}
		l := hits[0].Loc
		a, b := c15LinOf(info, be.X), c15LinOf(info, be.Y)
		neg := []c15Lin{a.add(b, -1).plus(1)} // A - B < 0
		gs := c15GuardsAt(g, l)
		// short-circuit context: operands to the left of the && / || chain the subtraction sits under
		var cur ast.Node = be
		for {
			p := s.par[cur]
			pe, isExpr := p.(ast.Expr)
			if !isExpr {
				break
			}
			if pb, isBin := pe.(*ast.BinaryExpr); isBin && pb.Y == cur {
				switch pb.Op {
				case token.LAND:
					gs = append(gs, c15Guard{f: c15Formula(info, pb.X), pol: true, expr: pb.X})
				case token.LOR:
					gs = append(gs, c15Guard{f: c15Formula(info, pb.X), pol: false, expr: pb.X})
				}
			}
			if _, isLit := pe.(*ast.FuncLit); isLit {
				break
			}
			cur = p
		}
		if c15Refuted(gs, neg) {
			safe++
			continue
		}
		lin := a.add(b, -1)
		why := "it is not the plain difference s.width - " + s.w.Name()
		if widthKey != "" && lin.canon() == width.add(w, -1).canon() {
			okInv, w2 := invariantAt(l)
			if okInv {
				safe++
				continue
			}
			why = w2
		}
		c.bad("C16.l", key, be.Pos(), "the unsigned difference %s can wrap: no guard in force (%s) implies %s <= %s, and %s. A fit test built on it (x > %s instead of %s + x > s.width) lets everything through once the line is over-full: the emitted line exceeds the width by more than the one permitted over-wide grapheme",
			types.ExprString(be), c15GuardsString(gs), types.ExprString(be.Y), types.ExprString(be.X), why, types.ExprString(be), s.w.Name())
		return
	}
	c.ok("C16.l", key, s.fi.Decl.Pos(), "%d unsigned subtraction(s) involving %s, none can wrap where it is evaluated", safe, s.w.Name())
}
