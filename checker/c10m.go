package main

// C10.m — a once-guard is tested and set without a wait in between.
//
// The property: "Close and Suspend return under every interleaving". Close has more than one entry point (the
// application's call, the input goroutine's call on a kill signal or a recovered panic, the spinner's call on a
// panic); what makes the second, overlapping call a no-op is the guard `if vx.closed { return }` TOGETHER with the
// store `vx.closed = true`. The guard only protects from the moment the flag is stored: every operation that
// can wait (a channel operation that is not made non-blocking by a default arm, a blocking external call, a call
// of a repository function that waits, through static callees) between the test and the store is a window
// in which a second caller passes the test too. For Close the window would contain the whole parser shutdown
// handshake of Suspend: the second caller then waits in Parser.WaitClose for a token that is sent exactly once.
//
// Structural necessary condition, decided per function on its control-flow graph (typestate over go/cfg):
//
//   * a LATCH of a function F is a boolean (or atomic flag) struct field P such that
//       - F branches on P and the edge on which P already has its latched value leaves F without doing any work
//         (nothing but return statements and log calls up to the exit): an "already done" guard, in either form
//         (`if P { return }; ...` or `if !P { ... }`), also merged with other conditions by && / ||, read through
//         a single-definition local, a one-line boolean accessor or an atomic load wrapper;
//       - F stores the latched value into P: in its own control flow, in a literal / deferred call nested in it, or
//         through a callee that stores it on every path and does not test it itself;
//   * on no path from the passing edge of a test of P is a waiting operation reached before P has been stored,
//     unless a mutex is held from the test to the wait (then a second caller waits on the mutex instead of
//     passing the test; blocking under a mutex is C10.b's business).
//
// A test-and-set in one atomic operation (Swap / CompareAndSwap in the guard's condition) satisfies the rule by
// construction and is recorded as such.

import (
	"go/ast"
	"go/constant"
	"go/token"
	"go/types"
	"sort"
	"strings"

	"golang.org/x/tools/go/cfg"
)

func init() { registerExtra("C10", c10LatchBeforeWait) }

// c10EngCache: the engine built by runC10 for the same program (the extra rules run after it).
var c10EngCache *c10Eng

type c10LatchFact struct {
	path string
	val  bool
}

type c10LatchWrite struct {
	path  string
	known bool // constant value
	val   bool
	tas   bool // the same operation also returns the old value (Swap / CompareAndSwap)
	pos   token.Pos
}

type c10Latch struct {
	e        *c10Eng
	c        *Ctx
	mustSets map[*c10Fn][]c10LatchWrite
	guarded  map[*c10Fn]bool // functions with a once-guard instance (judged above)
}

func c10LatchBeforeWait(c *Ctx) {
	c.Clauses = append(c.Clauses, "C10.m once-guards: in every function with an \"already done\" guard on a flag field that the function itself latches (Close: closed), no waiting operation (blocking channel operation, blocking external call, callee that waits) lies between the test and the store of the flag, unless a mutex is held across both; atomic test-and-set satisfies it by construction")
	c.expect("C10.m", 1)
	e := c10EngCache
	if e == nil || e.p != c.P {
		e = c10Build(c)
	}
	m := &c10Latch{e: e, c: c, mustSets: map[*c10Fn][]c10LatchWrite{}, guarded: map[*c10Fn]bool{}}
	for _, f := range e.fns {
		if f.g == nil || f.body == nil || len(f.g.Blocks) == 0 {
			continue
		}
		m.function(f)
	}
	// A shutdown entry point that the library itself calls (kill signal, recovered panic) besides the
	// application has overlapping callers by construction: it needs a once-guard at all (its own, one of a
	// function it calls directly, or a sync.Once).
	var names []string
	for n := range c10ShutdownEntries {
		names = append(names, n)
	}
	sort.Strings(names)
	for _, n := range names {
		f := e.byName[n]
		if f == nil || f.fi == nil || len(e.callsTo[f.fi.Obj]) == 0 {
			continue
		}
		has := m.guarded[f]
		for _, s := range f.sites {
			if s.kind != "call" {
				continue
			}
			if s.ext == "sync.Once.Do" {
				has = true
			}
			// the once-guard of a callee protects the callee's body only: it stands for the entry when the entry does
			// nothing else that matters (a thin wrapper), i.e. has no other call, channel operation or close of its own
			if len(s.targets) == 1 && s.ext == "" && m.guarded[s.targets[0]] {
				others := 0
				for _, o := range f.sites {
					if o == s {
						continue
					}
					switch o.kind {
					case "call", "send", "recv", "close":
						if o.kind == "call" && strings.HasPrefix(o.ext, "git.sr.ht/~rockorager/vaxis/log.") {
							continue
						}
						others++
					}
				}
				if others == 0 {
					has = true
				}
			}
		}
		c.check(has, "C10.m", f.name+"/shutdown entry with several callers has a once-guard", f.pos(),
			"the shutdown sequence is guarded by a flag the function latches",
			f.name+" is called by the application and by the library's own goroutines (kill signal, recovered panic), but no flag that it tests as an \"already done\" guard is latched by it: every further call runs the whole shutdown again (a second parser handshake that never completes, a second close of the quit channel)")
	}
}

// ---- recognisers

func c10mFieldPath(info *types.Info, x ast.Expr) string {
	sel, ok := unparen(x).(*ast.SelectorExpr)
	if !ok {
		return ""
	}
	root, names, _, ok := c10SelPath(info, sel)
	if !ok || !c10IsRepoNamed(root) {
		return ""
	}
	return c10PathString(root, names)
}

func c10mAddrField(info *types.Info, x ast.Expr) string {
	u, ok := unparen(x).(*ast.UnaryExpr)
	if !ok || u.Op != token.AND {
		return ""
	}
	return c10mFieldPath(info, u.X)
}

func c10mIsBool(t types.Type) bool {
	if t == nil {
		return false
	}
	b, ok := t.Underlying().(*types.Basic)
	return ok && b.Info()&types.IsBoolean != 0
}

// constant truth value of an expression (true / false, or an integer: non-zero is true)
func c10mConstTruth(info *types.Info, x ast.Expr) (val, ok bool) {
	tv, has := info.Types[x]
	if !has || tv.Value == nil {
		return false, false
	}
	switch tv.Value.Kind() {
	case constant.Bool:
		return constant.BoolVal(tv.Value), true
	case constant.Int:
		n, exact := constant.Int64Val(tv.Value)
		return n != 0, exact
	}
	return false, false
}

// flagRead: the flag field a boolean expression reads, "" if it is not a plain read of one.
func (m *c10Latch) flagRead(info *types.Info, x ast.Expr, depth int) string {
	if depth > 3 {
		return ""
	}
	x = unparen(x)
	switch t := x.(type) {
	case *ast.SelectorExpr:
		if !c10mIsBool(info.TypeOf(t)) {
			return ""
		}
		return c10mFieldPath(info, t)
	case *ast.Ident:
		if src := localAliasOf(info, t); src != nil {
			return m.flagRead(info, src, depth+1)
		}
	case *ast.CallExpr:
		fn := calleeOf(info, t)
		if fn == nil {
			return ""
		}
		if m.e.atomW[fn] == "load" && len(t.Args) >= 1 {
			return c10mAddrField(info, t.Args[0])
		}
		full := fullName(fn)
		if fn.Pkg() != nil && fn.Pkg().Path() == "sync/atomic" && strings.HasPrefix(fn.Name(), "Load") {
			if sel, ok := unparen(t.Fun).(*ast.SelectorExpr); ok && len(t.Args) == 0 {
				return c10mFieldPath(info, sel.X) // x.f.Load()
			}
			if len(t.Args) == 1 {
				return c10mAddrField(info, t.Args[0]) // atomic.LoadInt32(&x.f)
			}
		}
		_ = full
		// one-line boolean accessor of the repository
		if fi := m.e.p.FuncOfObj(fn); fi != nil && fi.Decl.Body != nil && len(fi.Decl.Body.List) == 1 {
			if rs, ok := fi.Decl.Body.List[0].(*ast.ReturnStmt); ok && len(rs.Results) == 1 {
				return m.flagRead(fi.Pkg.TypesInfo, rs.Results[0], depth+1)
			}
		}
	}
	return ""
}

// facts: what the condition x having the truth value pol says about flag fields.
func (m *c10Latch) facts(info *types.Info, x ast.Expr, pol bool) []c10LatchFact {
	x = unparen(x)
	switch t := x.(type) {
	case *ast.UnaryExpr:
		if t.Op == token.NOT {
			return m.facts(info, t.X, !pol)
		}
	case *ast.BinaryExpr:
		switch t.Op {
		case token.LAND:
			if pol {
				return append(m.facts(info, t.X, true), m.facts(info, t.Y, true)...)
			}
			return nil
		case token.LOR:
			if !pol {
				return append(m.facts(info, t.X, false), m.facts(info, t.Y, false)...)
			}
			return nil
		case token.EQL, token.NEQ:
			for _, pair := range [][2]ast.Expr{{t.X, t.Y}, {t.Y, t.X}} {
				if cv, ok := c10mConstTruth(info, pair[1]); ok {
					if _, isConst := c10mConstTruth(info, pair[0]); isConst {
						continue
					}
					want := pol
					if t.Op == token.NEQ {
						want = !want
					}
					// pair[0] == cv has the truth value want
					if c10mIsBool(info.TypeOf(pair[0])) {
						return m.facts(info, pair[0], want == cv)
					}
					// integer flag compared with a constant: only `== 0` / `!= 0` say something definite
					if p := m.intFlagRead(info, pair[0]); p != "" {
						if !cv {
							return []c10LatchFact{{p, !want}}
						}
						if want {
							return []c10LatchFact{{p, true}}
						}
					}
					return nil
				}
			}
		}
		return nil
	}
	if p := m.flagRead(info, x, 0); p != "" {
		return []c10LatchFact{{p, pol}}
	}
	return nil
}

// intFlagRead: atomic.LoadInt32(&x.f) / x.f.Load() of an integer flag.
func (m *c10Latch) intFlagRead(info *types.Info, x ast.Expr) string {
	call, ok := unparen(x).(*ast.CallExpr)
	if !ok {
		return ""
	}
	fn := calleeOf(info, call)
	if fn == nil || fn.Pkg() == nil || fn.Pkg().Path() != "sync/atomic" || !strings.HasPrefix(fn.Name(), "Load") {
		return ""
	}
	if sel, ok := unparen(call.Fun).(*ast.SelectorExpr); ok && len(call.Args) == 0 {
		return c10mFieldPath(info, sel.X)
	}
	if len(call.Args) == 1 {
		return c10mAddrField(info, call.Args[0])
	}
	return ""
}

// writesIn: the stores into flag fields performed by node n itself (literals are not entered; deferred calls
// are entered only when withDeferred is set: they run at the exit, not where they are registered).
func (m *c10Latch) writesIn(info *types.Info, n ast.Node, withDeferred, withLits bool) []c10LatchWrite {
	var out []c10LatchWrite
	var visit func(k ast.Node) bool
	visit = func(k ast.Node) bool {
		switch t := k.(type) {
		case *ast.FuncLit:
			return withLits || k == n
		case *ast.DeferStmt:
			return withDeferred
		case *ast.AssignStmt:
			for i, l := range t.Lhs {
				sel, ok := unparen(l).(*ast.SelectorExpr)
				if !ok || !c10mIsBool(info.TypeOf(sel)) {
					continue
				}
				p := c10mFieldPath(info, sel)
				if p == "" {
					continue
				}
				w := c10LatchWrite{path: p, pos: t.Pos()}
				if len(t.Rhs) == len(t.Lhs) && t.Tok == token.ASSIGN {
					w.val, w.known = c10mConstTruth(info, t.Rhs[i])
				}
				out = append(out, w)
			}
		case *ast.CallExpr:
			fn := calleeOf(info, t)
			if fn == nil {
				return true
			}
			if m.e.atomW[fn] == "store" && len(t.Args) >= 2 {
				if p := c10mAddrField(info, t.Args[0]); p != "" {
					w := c10LatchWrite{path: p, pos: t.Pos()}
					w.val, w.known = c10mConstTruth(info, t.Args[len(t.Args)-1])
					out = append(out, w)
				}
				return true
			}
			if fn.Pkg() == nil || fn.Pkg().Path() != "sync/atomic" {
				return true
			}
			name := fn.Name()
			var p string
			args := t.Args
			if sel, ok := unparen(t.Fun).(*ast.SelectorExpr); ok && fn.Type().(*types.Signature).Recv() != nil {
				p = c10mFieldPath(info, sel.X)
			} else if len(args) >= 1 {
				p = c10mAddrField(info, args[0])
				args = args[1:]
			}
			if p == "" || len(args) == 0 {
				return true
			}
			switch {
			case strings.HasPrefix(name, "Store"):
				w := c10LatchWrite{path: p, pos: t.Pos()}
				w.val, w.known = c10mConstTruth(info, args[len(args)-1])
				out = append(out, w)
			case strings.HasPrefix(name, "Swap"), strings.HasPrefix(name, "CompareAndSwap"):
				w := c10LatchWrite{path: p, pos: t.Pos(), tas: true}
				w.val, w.known = c10mConstTruth(info, args[len(args)-1])
				out = append(out, w)
			}
		}
		return true
	}
	ast.Inspect(n, visit)
	return out
}

// mustSetsOf: the flag stores a declared function performs on every path, with one constant value, without
// testing the flag itself (a setter such as markClosed()).
func (m *c10Latch) mustSetsOf(t *c10Fn) []c10LatchWrite {
	if t == nil || t.lit != nil || t.g == nil || t.body == nil || len(t.g.Blocks) == 0 {
		return nil
	}
	if r, ok := m.mustSets[t]; ok {
		return r
	}
	m.mustSets[t] = nil
	byPath := map[string][]c10LatchWrite{}
	for _, w := range m.writesIn(t.info, t.body, false, false) {
		byPath[w.path] = append(byPath[w.path], w)
	}
	tested := map[string]bool{}
	for _, b := range t.g.Blocks {
		if cond := t.g.BranchCond(b); cond != nil && cond.Tag == nil && cond.Alts == nil {
			for _, pol := range []bool{true, false} {
				for _, f := range m.facts(t.info, cond.Expr, pol) {
					tested[f.path] = true
				}
			}
		}
	}
	var out []c10LatchWrite
	for p, ws := range byPath {
		if tested[p] {
			continue
		}
		same := true
		for _, w := range ws {
			if !w.known || w.val != ws[0].val {
				same = false
			}
		}
		if !same {
			continue
		}
		isW := func(n ast.Node) bool {
			for _, w := range m.writesIn(t.info, n, false, false) {
				if w.path == p {
					return true
				}
			}
			return false
		}
		if ok, _ := t.g.MustFollow(Loc{t.g.Blocks[0], -1}, isW); ok {
			out = append(out, ws[0])
		}
	}
	m.mustSets[t] = out
	return out
}

// nodeWrites: the stores performed when control passes node n of f: its own, plus those of setters it calls.
func (m *c10Latch) nodeWrites(f *c10Fn, l Loc, n ast.Node) []c10LatchWrite {
	out := m.writesIn(f.info, n, false, false)
	for _, s := range f.byLoc[l] {
		if s.kind == "call" && !s.deferred && len(s.targets) == 1 && s.ext == "" {
			out = append(out, m.mustSetsOf(s.targets[0])...)
		}
	}
	return out
}

// ---- the rule for one function

// inertExit: every path from block b to the exit does nothing but return / log.
func (m *c10Latch) inertExit(f *c10Fn, start *cfg.Block) bool {
	seen := map[*cfg.Block]bool{}
	var rec func(b *cfg.Block) bool
	rec = func(b *cfg.Block) bool {
		if seen[b] {
			return true
		}
		seen[b] = true
		for _, n := range b.Nodes {
			if !m.inertNode(f, n) {
				return false
			}
		}
		if len(b.Succs) > 1 {
			return false // a further decision is work
		}
		for _, s := range b.Succs {
			if !rec(s) {
				return false
			}
		}
		return true
	}
	return rec(start)
}

func (m *c10Latch) inertNode(f *c10Fn, n ast.Node) bool {
	isLog := func(x ast.Expr) bool {
		call, ok := unparen(x).(*ast.CallExpr)
		if !ok {
			return false
		}
		fn := calleeOf(f.info, call)
		if fn == nil || fn.Pkg() == nil {
			return false
		}
		pp := fn.Pkg().Path()
		if pp != "log" && !strings.HasSuffix(pp, "/log") && pp != "log/slog" {
			return false
		}
		for _, a := range call.Args {
			if containsNode(a, func(k ast.Node) bool { _, isCall := k.(*ast.CallExpr); return isCall }) {
				return false
			}
		}
		return true
	}
	switch t := n.(type) {
	case *ast.ReturnStmt:
		for _, r := range t.Results {
			if containsNode(r, func(k ast.Node) bool {
				switch k.(type) {
				case *ast.CallExpr, *ast.FuncLit:
					return true
				}
				if u, ok := k.(*ast.UnaryExpr); ok && u.Op == token.ARROW {
					return true
				}
				return false
			}) {
				return false
			}
		}
		return true
	case *ast.ExprStmt:
		if call, ok := unparen(t.X).(*ast.CallExpr); ok {
			if fn := calleeOf(f.info, call); fn != nil {
				switch fullName(fn) {
				case "sync.Mutex.Unlock", "sync.RWMutex.Unlock", "sync.RWMutex.RUnlock":
					return true // releasing the guard's own mutex is not work
				}
			}
		}
		return isLog(t.X)
	case *ast.EmptyStmt:
		return true
	}
	return false
}

// waitAt: the description of a waiting operation at the site, "" if it cannot wait.
func (m *c10Latch) waitAt(s *c10Site) string {
	e := m.e
	switch s.kind {
	case "send", "recv":
		if s.block != "nonblocking" && !s.deferred {
			return s.desc
		}
	case "call":
		if s.deferred {
			return ""
		}
		if why, ok := c10ExternalBlocking[s.ext]; ok {
			return s.ext + " (" + why + ")"
		}
		if s.ext == "time.Sleep" {
			return "time.Sleep"
		}
		for _, t := range s.targets {
			if w := e.mayBlockDeep(t, map[*c10Fn]bool{}); w != "" {
				return "call of " + t.name + ", which can block (" + w + ")"
			}
			if e.waitsDeep(t, map[*c10Fn]bool{}) {
				return "call of " + t.name + ", which waits for a channel"
			}
		}
	}
	return ""
}

func (m *c10Latch) function(f *c10Fn) {
	g := f.g
	type test struct {
		b        *cfg.Block
		passIdx  int // successor on which the flag still has its unlatched value
		unlatch  bool
		path     string
		isGuard  bool
		mustHeld c10Bits
	}
	tests := map[string][]test{} // key: path + polarity
	tasGuards := map[string]token.Pos{}
	for _, b := range g.Blocks {
		cond := g.BranchCond(b)
		if cond == nil || cond.Tag != nil || cond.Alts != nil || len(b.Succs) != 2 {
			continue
		}
		// atomic test-and-set in the condition of a guard
		for _, w := range m.writesIn(f.info, cond.Expr, false, false) {
			if w.tas && (m.inertExit(f, b.Succs[0]) || m.inertExit(f, b.Succs[1])) {
				tasGuards[w.path] = cond.Expr.Pos()
			}
		}
		for i, pol := range []bool{true, false} {
			for _, fa := range m.facts(f.info, cond.Expr, pol) {
				t := test{b: b, passIdx: i, unlatch: fa.val, path: fa.path}
				t.isGuard = m.inertExit(f, b.Succs[1-i])
				for _, s := range f.byLoc[Loc{b, len(b.Nodes) - 1}] {
					t.mustHeld |= s.st.must
				}
				if len(f.byLoc[Loc{b, len(b.Nodes) - 1}]) == 0 {
					t.mustHeld = 0
				}
				k := fa.path + "\x00" + map[bool]string{true: "T", false: "F"}[fa.val]
				tests[k] = append(tests[k], t)
			}
		}
	}
	var tasPaths []string
	for p := range tasGuards {
		tasPaths = append(tasPaths, p)
	}
	sort.Strings(tasPaths)
	for _, p := range tasPaths {
		m.guarded[f] = true
		m.c.ok("C10.m", f.name+"/once-guard "+p+": stored before the first wait", tasGuards[p], "the guard tests and stores the flag in one atomic operation")
	}
	if len(tests) == 0 {
		return
	}
	// every store of the function, wherever it runs (own flow, deferred, nested literals)
	all := m.writesIn(f.info, f.body, true, true)
	for _, s := range f.sites {
		if s.kind == "call" && len(s.targets) == 1 && s.ext == "" {
			all = append(all, m.mustSetsOf(s.targets[0])...)
		}
	}
	var keys []string
	for k := range tests {
		keys = append(keys, k)
	}
	sort.Strings(keys)
	for _, k := range keys {
		ts := tests[k]
		path, unl := ts[0].path, ts[0].unlatch
		if _, isTas := tasGuards[path]; isTas {
			continue
		}
		guard := false
		for _, t := range ts {
			if t.isGuard {
				guard = true
			}
		}
		if !guard {
			continue
		}
		latches := false
		for _, w := range all {
			if w.path == path && w.known && w.val == !unl {
				latches = true
			}
		}
		if !latches {
			continue
		}
		m.guarded[f] = true
		m.judge(f, path, unl, func(b *cfg.Block) (int, c10Bits, bool) {
			for _, t := range ts {
				if t.b == b {
					return t.passIdx, t.mustHeld, true
				}
			}
			return 0, 0, false
		}, ts[0].b)
	}
}

// judge reports every wait reached while the latch of f is tested but not yet stored.
func (m *c10Latch) judge(f *c10Fn, path string, unlatched bool, testAt func(*cfg.Block) (int, c10Bits, bool), first *cfg.Block) {
	viols := m.flow(f, path, unlatched, false, testAt, 0)
	key := f.name + "/once-guard " + path + ": stored before the first wait"
	pos := f.pos()
	if first != nil && len(first.Nodes) > 0 {
		pos = first.Nodes[len(first.Nodes)-1].Pos()
	}
	if len(viols) == 0 {
		m.c.ok("C10.m", key, pos, "no waiting operation is reachable between the test of %s and the store that latches it", path)
		return
	}
	v := viols[0]
	m.c.bad("C10.m", key, v.pos, "%s tests %s as its \"already done\" guard and latches it itself, but a waiting operation (%s) is reached after the test while the flag is still unlatched: a second caller that arrives during the wait passes the guard too and runs the guarded section a second time (for Close: a second shutdown handshake, whose wait for the parser's single completion token never ends, and a second close of the quit channel)", f.name, path, v.what)
}

type c10LatchViol struct {
	pos  token.Pos
	what string
}

// flow runs the typestate {?, clear[:mutexes held since the test], set, done} for one latch over the body of f and
// returns the waits reached in state clear. entered: f is a setter called while the flag is tested and unlatched
// (the state at its entry is clear). A call of a function that stores the latch on every path is judged inside that
// function: what matters is whether IT waits before its store.
func (m *c10Latch) flow(f *c10Fn, path string, unlatched bool, entered bool, testAt func(*cfg.Block) (int, c10Bits, bool), depth int) []c10LatchViol {
	const clear = "clear:"
	const hex = "0123456789abcdef"
	enc := func(b c10Bits) string {
		s := ""
		for i := 0; i < 16; i++ {
			s = string(hex[b&15]) + s
			b >>= 4
		}
		return clear + s
	}
	dec := func(s string) c10Bits {
		var b c10Bits
		for _, ch := range strings.TrimPrefix(s, clear) {
			b <<= 4
			b |= c10Bits(strings.IndexRune(hex, ch))
		}
		return b
	}
	heldAt := func(l Loc) (c10Bits, bool) {
		ss := f.byLoc[l]
		if len(ss) == 0 {
			return 0, false
		}
		h := ^c10Bits(0)
		for _, s := range ss {
			h &= s.st.must
		}
		return h, true
	}
	ts := &tsFlow{g: f.g}
	ts.transfer = func(l Loc, n ast.Node, s string) []string {
		if _, isDefer := n.(*ast.DeferStmt); isDefer {
			return []string{s}
		}
		for _, w := range m.nodeWrites(f, l, n) {
			if w.path != path {
				continue
			}
			if w.known && w.val == !unlatched {
				s = "set"
			} else {
				s = "?"
			}
		}
		if strings.HasPrefix(s, clear) {
			// a mutex counts only while it stays held
			if h, ok := heldAt(l); ok {
				s = enc(dec(s) & h)
			}
		}
		return []string{s}
	}
	ts.refine = func(b *cfg.Block, c *Cond, truth bool, s string) []string {
		if testAt == nil {
			return []string{s}
		}
		idx, held, ok := testAt(b)
		if !ok || s == "set" {
			return []string{s}
		}
		if (idx == 0) == truth {
			return []string{enc(m.e.realMutexes(held))}
		}
		return []string{"done"}
	}
	if entered {
		ts.run(enc(0))
	} else {
		ts.run("?")
	}
	var viols []c10LatchViol
	seen := map[token.Pos]bool{}
	for _, s := range f.sites {
		w := m.waitAt(s)
		if w == "" || s.node == nil || seen[s.node.Pos()] {
			continue
		}
		for _, st := range ts.before(s.loc) {
			if !strings.HasPrefix(st, clear) {
				continue
			}
			// locks held continuously since the test and still held at the wait
			if dec(st)&m.e.realMutexes(s.st.must) != 0 {
				continue
			}
			seen[s.node.Pos()] = true
			// the callee stores the latch itself on every path: the question is whether it waits first
			if s.kind == "call" && len(s.targets) == 1 && s.ext == "" && depth < 3 {
				isSetter := false
				for _, ms := range m.mustSetsOf(s.targets[0]) {
					if ms.path == path && ms.val == !unlatched {
						isSetter = true
					}
				}
				if isSetter {
					for _, v := range m.flow(s.targets[0], path, unlatched, true, nil, depth+1) {
						viols = append(viols, c10LatchViol{s.node.Pos(), v.what + ", inside " + s.targets[0].name})
					}
					break
				}
			}
			viols = append(viols, c10LatchViol{s.node.Pos(), w})
			break
		}
	}
	sort.Slice(viols, func(i, j int) bool { return viols[i].pos < viols[j].pos })
	return viols
}
