package main

// c01unroll — the table-driven forms of duplicated blocks are expanded back (part of c01norm.go's pass):
//
//   for i, v := range T { B }       T a literal table of N <= 16 rows: a composite literal written in place, a NEW
//                                   package-level variable that is only ever read (Program.ReadOnlyTable), or a local
//                                   variable defined once by a composite literal and only ever read
//     =>  { B[i:=0, v:=row 0] } ... { B[i:=N-1, v:=row N-1] }
//
//   if v, ok := M[k]; ok { A } else { B }     M a NEW read-only package-level map literal with constant keys
//     =>  switch k { case key0: v := value0; A ... default: var v T; B }
//
// `range` evaluates T once and copies element k into v at the start of iteration k; B may not assign v or i, nor
// capture them in a function literal, so every use of v in iteration k is row k. A use v.f (or v) is replaced by
// the row's field expression when that expression is STABLE (means the same whenever it is evaluated: constants,
// composite literals of stable parts, functions and method expressions, package-level variables that are never
// written, locals that are never written again, calls of repository string functions the template evaluator folds
// to a constant); anything else is replaced by the indexed form T[k].f, which is what the loop reads. An
// unlabelled continue becomes a break out of a one-shot `switch { default: }` around its copy, a break one out of
// a one-shot switch around all copies.

import (
	"fmt"
	"go/ast"
	"go/token"
	"go/types"
	"strconv"
	"strings"

	"golang.org/x/tools/go/ast/astutil"
	"golang.org/x/tools/go/packages"
)

const c01MaxRows = 16

type c01Table struct {
	rows  []ast.Expr
	ident *ast.Ident // the table variable (nil: literal written in place)
	obj   *types.Var
	elem  types.Type
	local bool
	file  *ast.File // file of the literal
}

// c01PkgVarWritten: is the package-level variable assigned, inc/decremented or address-taken anywhere in its package
// (field and element stores of value aggregates included)?
func c01PkgVarWritten(pk *packages.Package, v *types.Var) bool {
	info := pk.TypesInfo
	written := false
	for _, f := range pk.Syntax {
		ast.Inspect(f, func(n ast.Node) bool {
			if written {
				return false
			}
			mark := func(e ast.Expr) {
				if o := rootObj(info, e); o == types.Object(v) {
					written = true
				}
			}
			switch t := n.(type) {
			case *ast.AssignStmt:
				for _, l := range t.Lhs {
					mark(l)
				}
			case *ast.IncDecStmt:
				mark(t.X)
			case *ast.RangeStmt:
				if t.Tok == token.ASSIGN {
					if t.Key != nil {
						mark(t.Key)
					}
					if t.Value != nil {
						mark(t.Value)
					}
				}
			case *ast.UnaryExpr:
				if t.Op == token.AND {
					mark(t.X)
				}
			}
			return true
		})
	}
	return written
}

// c01LocalReadOnly: the local variable v of fd is defined once and afterwards only indexed, ranged over or measured.
func c01LocalReadOnly(pk *packages.Package, fd *ast.FuncDecl, v *types.Var) bool {
	info := pk.TypesInfo
	defs := 0
	ok := true
	var stack []ast.Node
	ast.Inspect(fd.Body, func(n ast.Node) bool {
		if n == nil {
			stack = stack[:len(stack)-1]
			return true
		}
		stack = append(stack, n)
		id, isID := n.(*ast.Ident)
		if !isID || !ok {
			return true
		}
		if info.Defs[id] == types.Object(v) {
			defs++
			return true
		}
		if info.Uses[id] != types.Object(v) {
			return true
		}
		// the chain of parents above the identifier
		k := len(stack) - 2
		for k >= 0 {
			if _, isParen := stack[k].(*ast.ParenExpr); !isParen {
				break
			}
			k--
		}
		if k < 0 {
			ok = false
			return true
		}
		child := stack[k+1]
		switch pt := stack[k].(type) {
		case *ast.IndexExpr:
			if pt.X != child {
				return true // used as an index value
			}
			// T[k] / T[k].f... : walk up through selectors and index expressions to the consumer
			j := k
			var top ast.Node = pt
			for j-1 >= 0 {
				switch up := stack[j-1].(type) {
				case *ast.SelectorExpr:
					if up.X == top {
						top = up
						j--
						continue
					}
				case *ast.IndexExpr:
					if up.X == top {
						top = up
						j--
						continue
					}
				case *ast.ParenExpr:
					top = up
					j--
					continue
				}
				break
			}
			if j-1 >= 0 {
				switch gp := stack[j-1].(type) {
				case *ast.AssignStmt:
					for _, l := range gp.Lhs {
						if l == top {
							ok = false
						}
					}
				case *ast.IncDecStmt:
					ok = false
				case *ast.UnaryExpr:
					if gp.Op == token.AND {
						ok = false
					}
				case *ast.CallExpr:
					// a pointer-receiver method on an element takes its address
					if gp.Fun == top {
						if sel, isSel := top.(*ast.SelectorExpr); isSel {
							if s := info.Selections[sel]; s != nil && s.Kind() == types.MethodVal {
								if sig, _ := s.Obj().Type().(*types.Signature); sig != nil && sig.Recv() != nil {
									if _, ptr := sig.Recv().Type().(*types.Pointer); ptr {
										if _, isPtr := info.TypeOf(sel.X).Underlying().(*types.Pointer); !isPtr {
											ok = false
										}
									}
								}
							}
						}
					}
				}
			}
		case *ast.RangeStmt:
			if pt.X != child {
				ok = false
			}
		case *ast.CallExpr:
			if fid, isF := pt.Fun.(*ast.Ident); !isF || (fid.Name != "len" && fid.Name != "cap") || pt.Fun == child {
				ok = false
			}
		case *ast.AssignStmt:
			// `_ = T` (left behind by helper inlining) reads nothing and aliases nothing
			blank := pt.Tok == token.ASSIGN
			for _, l := range pt.Lhs {
				if lid, isID := l.(*ast.Ident); !isID || lid.Name != "_" {
					blank = false
				}
			}
			if !blank {
				ok = false
			}
		default:
			ok = false
		}
		return true
	})
	return ok && defs == 1
}

type c01TableKey struct {
	v       *types.Var
	newOnly bool
}

var c01TableCache = map[c01TableKey]*c01Table{}

// c01ResolveTable: the rows of the table expression x as seen from function fd.
func c01ResolveTable(prog *Program, pk *packages.Package, fd *ast.FuncDecl, x ast.Expr, newOnly bool) *c01Table {
	info := pk.TypesInfo
	var lit *ast.CompositeLit
	t := &c01Table{}
	complete := false
	switch e := unparen(x).(type) {
	case *ast.CompositeLit:
		lit = e
		t.file = c01FileOf(pk, e)
	case *ast.Ident:
		v, ok := info.ObjectOf(e).(*types.Var)
		if !ok || v.IsField() || v.Pkg() == nil {
			return nil
		}
		ck := c01TableKey{v, newOnly}
		if cached, ok := c01TableCache[ck]; ok {
			if cached == nil {
				return nil
			}
			cp := *cached
			cp.ident = e
			return &cp
		}
		c01TableCache[ck] = nil
		defer func() {
			if complete {
				c01TableCache[ck] = t
			}
		}()
		t.ident, t.obj = e, v
		if v.Parent() == v.Pkg().Scope() {
			if (newOnly && c01RefVars[v.Name()]) || v.Pkg() != pk.Types {
				return nil
			}
			lit = prog.ReadOnlyTable(v)
			if lit == nil || c01PkgVarWritten(pk, v) {
				return nil
			}
		} else {
			if fd == nil || !c01LocalReadOnly(pk, fd, v) {
				return nil
			}
			src := singleDefOf(info, v)
			if src == nil {
				return nil
			}
			lit, _ = unparen(src).(*ast.CompositeLit)
			t.local = true
		}
		if lit != nil {
			t.file = c01FileOf(pk, lit)
		}
	}
	if lit == nil {
		return nil
	}
	switch u := info.TypeOf(lit).Underlying().(type) {
	case *types.Slice:
		t.elem = u.Elem()
	case *types.Array:
		t.elem = u.Elem()
		if u.Len() != int64(len(lit.Elts)) {
			return nil
		}
	default:
		return nil
	}
	if len(lit.Elts) == 0 || len(lit.Elts) > c01MaxRows {
		return nil
	}
	for _, el := range lit.Elts {
		if _, keyed := el.(*ast.KeyValueExpr); keyed {
			return nil
		}
		t.rows = append(t.rows, el)
	}
	complete = true
	return t
}

// c01RowField: the expression of field name in the struct literal row (nil, true: left at its zero value).
func c01RowField(info *types.Info, row ast.Expr, elem types.Type, name string) (ast.Expr, bool) {
	if u, ok := unparen(row).(*ast.UnaryExpr); ok && u.Op == token.AND {
		row = u.X
	}
	cl, ok := unparen(row).(*ast.CompositeLit)
	if !ok {
		return nil, false
	}
	if p, ok := elem.Underlying().(*types.Pointer); ok {
		elem = p.Elem()
	}
	st, ok := elem.Underlying().(*types.Struct)
	if !ok {
		return nil, false
	}
	fidx := -1
	for i := 0; i < st.NumFields(); i++ {
		if st.Field(i).Name() == name {
			fidx = i
		}
	}
	if fidx < 0 {
		return nil, false
	}
	for i, el := range cl.Elts {
		if kv, ok := el.(*ast.KeyValueExpr); ok {
			if k, ok := kv.Key.(*ast.Ident); ok && k.Name == name {
				return kv.Value, true
			}
		} else if i == fidx {
			return el, true
		}
	}
	return nil, true
}

// c01Stable: e means the same value whenever it is evaluated inside fd after position `after` (see file comment).
func c01Stable(c *Ctx, pk *packages.Package, fd *ast.FuncDecl, e ast.Expr, depth int) bool {
	info := pk.TypesInfo
	e = unparen(e)
	if depth > 6 {
		return false
	}
	if tv, ok := info.Types[e]; ok && tv.Value != nil {
		return true
	}
	switch t := e.(type) {
	case *ast.CompositeLit:
		for _, el := range t.Elts {
			if kv, ok := el.(*ast.KeyValueExpr); ok {
				el = kv.Value
			}
			if !c01Stable(c, pk, fd, el, depth+1) {
				return false
			}
		}
		switch info.TypeOf(t).Underlying().(type) {
		case *types.Struct, *types.Array:
			return true
		}
		return false // a slice or map literal is a new object every time
	case *ast.FuncLit:
		// no free local variables
		free := false
		ast.Inspect(t.Body, func(n ast.Node) bool {
			if id, ok := n.(*ast.Ident); ok {
				if v, ok := info.Uses[id].(*types.Var); ok && !v.IsField() && v.Pkg() != nil && v.Parent() != v.Pkg().Scope() {
					if !(v.Pos() >= t.Pos() && v.Pos() < t.End()) {
						free = true
					}
				}
			}
			return !free
		})
		return !free
	case *ast.Ident:
		switch o := info.ObjectOf(t).(type) {
		case *types.Func, *types.Nil, *types.Const:
			return true
		case *types.Var:
			if o.IsField() || o.Pkg() == nil {
				return false
			}
			if o.Parent() == o.Pkg().Scope() {
				if o.Pkg() != pk.Types {
					return false
				}
				if !c01PkgVarWritten(pk, o) {
					return true
				}
				// evaluated inside fd: enough that it cannot be written while fd runs
				return fd != nil && !c01WrittenDuring(c, pk, fd, o)
			}
			if fd == nil {
				return false
			}
			u := c01VarUses(info, fd.Body)[o]
			isParam := false
			for _, fl := range []*ast.FieldList{fd.Recv, fd.Type.Params} {
				if fl != nil {
					for _, fld := range fl.List {
						for _, nm := range fld.Names {
							if info.Defs[nm] == types.Object(o) {
								isParam = true
							}
						}
					}
				}
			}
			if isParam {
				return u == nil || (u.writes == 0 && !u.escaped)
			}
			return u != nil && u.writes == 1 && !u.escaped
		}
	case *ast.SelectorExpr:
		// method expression (*T).M / T.M, qualified function or constant
		if s := info.Selections[t]; s != nil {
			return s.Kind() == types.MethodExpr
		}
		switch info.ObjectOf(t.Sel).(type) {
		case *types.Func, *types.Const:
			return true
		}
	case *ast.CallExpr:
		if tv, ok := info.Types[t.Fun]; ok && tv.IsType() && len(t.Args) == 1 {
			return c01Stable(c, pk, fd, t.Args[0], depth+1)
		}
		if stringResolver != nil {
			if _, ok := stringResolver(info, t); ok {
				return true
			}
		}
	case *ast.UnaryExpr:
		if t.Op != token.AND && t.Op != token.ARROW {
			return c01Stable(c, pk, fd, t.X, depth+1)
		}
	case *ast.BinaryExpr:
		return c01Stable(c, pk, fd, t.X, depth+1) && c01Stable(c, pk, fd, t.Y, depth+1)
	}
	return false
}

// c01StableCopy: a copy of the stable expression e that has type want where it is put (untyped constants and
// literals with elided types are made explicit; foldable string calls become their value).
func c01StableCopy(c *Ctx, pk *packages.Package, file *ast.File, e ast.Expr, want types.Type) ast.Expr {
	info := pk.TypesInfo
	e = unparen(e)
	tv := info.Types[e]
	if call, ok := e.(*ast.CallExpr); ok && tv.Value == nil && stringResolver != nil {
		if s, ok := stringResolver(info, call); ok {
			var out ast.Expr = &ast.BasicLit{Kind: token.STRING, Value: strconv.Quote(s)}
			if want != nil && !types.Identical(want, types.Typ[types.String]) {
				te := c01TypeExpr(pk, file, want)
				if te == nil {
					return nil
				}
				out = &ast.CallExpr{Fun: &ast.ParenExpr{X: te}, Args: []ast.Expr{out}}
			}
			return out
		}
	}
	cp := c15Copy(e, nil).(ast.Expr)
	if cl, ok := cp.(*ast.CompositeLit); ok && cl.Type == nil {
		if want == nil {
			return nil
		}
		te := c01TypeExpr(pk, file, want)
		if te == nil {
			return nil
		}
		cl.Type = te
		return cl
	}
	if tv.Value != nil && want != nil {
		if b, ok := tv.Type.(*types.Basic); ok && b.Info()&types.IsUntyped != 0 && !types.Identical(types.Default(tv.Type), want) {
			if _, isIface := want.Underlying().(*types.Interface); !isIface {
				te := c01TypeExpr(pk, file, want)
				if te == nil {
					return nil
				}
				return &ast.CallExpr{Fun: &ast.ParenExpr{X: te}, Args: []ast.Expr{cp}}
			}
		}
	}
	switch cp.(type) {
	case *ast.Ident, *ast.BasicLit, *ast.CompositeLit, *ast.CallExpr, *ast.SelectorExpr, *ast.FuncLit, *ast.ParenExpr:
		return cp
	}
	return &ast.ParenExpr{X: cp}
}

// c01ZeroExpr: an expression for the zero value of a basic-typed field.
func c01ZeroExpr(pk *packages.Package, file *ast.File, t types.Type) ast.Expr {
	b, ok := t.Underlying().(*types.Basic)
	if !ok {
		return nil
	}
	var lit ast.Expr
	switch {
	case b.Info()&types.IsBoolean != 0:
		lit = ast.NewIdent("false")
	case b.Info()&types.IsString != 0:
		lit = &ast.BasicLit{Kind: token.STRING, Value: `""`}
	case b.Info()&types.IsNumeric != 0:
		lit = &ast.BasicLit{Kind: token.INT, Value: "0"}
	default:
		return nil
	}
	if types.Identical(t, types.Default(b)) && (b.Kind() == types.Bool || b.Kind() == types.String || b.Kind() == types.Int) {
		return lit
	}
	te := c01TypeExpr(pk, file, t)
	if te == nil {
		return nil
	}
	return &ast.CallExpr{Fun: &ast.ParenExpr{X: te}, Args: []ast.Expr{lit}}
}

// c01NamesMeanSame: every identifier of e that names a package-level or local object resolves to that object at pos
// in fd's file and is not declared again below scopeNode.
func c01NamesMeanSame(pk *packages.Package, e ast.Node, pos token.Pos, below ast.Node) bool {
	info := pk.TypesInfo
	ok := true
	redecl := map[string]bool{}
	if below != nil {
		ast.Inspect(below, func(n ast.Node) bool {
			if id, isID := n.(*ast.Ident); isID && info.Defs[id] != nil {
				redecl[id.Name] = true
			}
			return true
		})
	}
	inner := pk.Types.Scope().Innermost(pos)
	ast.Inspect(e, func(n ast.Node) bool {
		id, isID := n.(*ast.Ident)
		if !isID || !ok {
			return ok
		}
		o := info.Uses[id]
		if o == nil || o.Parent() == nil || o.Parent() == types.Universe {
			return true
		}
		if _, isPkg := o.(*types.PkgName); isPkg {
			return true
		}
		if v, isVar := o.(*types.Var); isVar && v.IsField() {
			return true
		}
		if o.Pos() >= e.Pos() && o.Pos() < e.End() {
			return true // declared inside e (function literal parameters)
		}
		if redecl[id.Name] || inner == nil {
			ok = false
			return false
		}
		if _, found := inner.LookupParent(id.Name, pos); found != o {
			ok = false
		}
		return ok
	})
	return ok
}

func c01UnrollTables(c *Ctx, pk *packages.Package, counter *int, note func(*ast.File, string, ...any)) {
	for _, f := range pk.Syntax {
		for _, d := range f.Decls {
			fd, ok := d.(*ast.FuncDecl)
			if !ok || fd.Body == nil {
				continue
			}
			done := false
			c01Lists(fd.Body, false, func(list *[]ast.Stmt) {
				if done {
					return
				}
				for i, st := range *list {
					label := ""
					inner := st
					if ls, ok := st.(*ast.LabeledStmt); ok {
						label, inner = ls.Label.Name, ls.Stmt
					}
					var rep []ast.Stmt
					var what string
					switch lp := inner.(type) {
					case *ast.RangeStmt:
						rep, what = c01UnrollOne(c, pk, f, fd, lp, label, counter)
					case *ast.ForStmt:
						rep, what = c01UnrollCounted(c, pk, f, fd, lp, label, counter)
					}
					if rep == nil {
						continue
					}
					out := append([]ast.Stmt{}, (*list)[:i]...)
					out = append(out, rep...)
					out = append(out, (*list)[i+1:]...)
					*list = out
					note(f, "loop over %s in %s unrolled", what, c01QualName(fd))
					done = true
					return
				}
			})
			if done {
				return
			}
		}
	}
}

func c01UnrollOne(c *Ctx, pk *packages.Package, file *ast.File, fd *ast.FuncDecl, rs *ast.RangeStmt, label string, counter *int) ([]ast.Stmt, string) {
	info := pk.TypesInfo
	if rs.Tok != token.DEFINE {
		return nil, ""
	}
	var keyObj, valObj types.Object
	if id, ok := rs.Key.(*ast.Ident); ok && id.Name != "_" {
		keyObj = info.Defs[id]
	} else if rs.Key != nil && !ok {
		return nil, ""
	}
	if rs.Value != nil {
		id, ok := rs.Value.(*ast.Ident)
		if !ok {
			return nil, ""
		}
		if id.Name != "_" {
			valObj = info.Defs[id]
		}
	}
	if valObj == nil {
		return nil, "" // nothing a rule could want row by row
	}
	tbl := c01ResolveTable(c.P, pk, fd, rs.X, true)
	if tbl == nil {
		return nil, ""
	}
	if len(tbl.rows)*c15CountNodes(rs.Body) > 4000 {
		return nil, ""
	}
	// the body: loop variables only read, not captured; no labels of its own, no goto
	okBody := true
	uses := c01VarUses(info, rs.Body)
	for _, o := range []types.Object{keyObj, valObj} {
		if o != nil && uses[o] != nil && (uses[o].writes > 0 || uses[o].escaped) {
			okBody = false
		}
	}
	ast.Inspect(rs.Body, func(n ast.Node) bool {
		switch t := n.(type) {
		case *ast.LabeledStmt:
			okBody = false
		case *ast.BranchStmt:
			if t.Tok == token.GOTO {
				okBody = false
			}
			if t.Label != nil && t.Label.Name != label && (t.Tok == token.BREAK || t.Tok == token.CONTINUE) {
				// a jump to an outer loop's label leaves the loop as before: fine
			}
		case *ast.FuncLit:
			ast.Inspect(t, func(m ast.Node) bool {
				if id, ok := m.(*ast.Ident); ok && info.Uses[id] != nil && (info.Uses[id] == keyObj || info.Uses[id] == valObj) {
					okBody = false
				}
				return okBody
			})
			return false
		}
		return okBody
	})
	if !okBody {
		return nil, ""
	}
	// the table's name must not be hidden inside the body (the indexed form uses it)
	if tbl.ident != nil {
		ast.Inspect(rs.Body, func(n ast.Node) bool {
			if id, ok := n.(*ast.Ident); ok && info.Defs[id] != nil && id.Name == tbl.ident.Name {
				okBody = false
			}
			return okBody
		})
		if !okBody {
			return nil, ""
		}
	}
	// per row: which parts are stable (substituted) and which are read through the index
	stable := func(e ast.Expr) bool {
		var owner *ast.FuncDecl
		if tbl.ident == nil || tbl.local {
			owner = fd
		}
		if !c01Stable(c, pk, owner, e, 0) {
			return false
		}
		if tbl.file != file && !c01ImportsAvailable(info, e, file) {
			return false
		}
		return c01NamesMeanSame(pk, e, rs.Body.Pos(), rs.Body)
	}
	if tbl.ident == nil {
		for _, r := range tbl.rows {
			if !stable(r) {
				return nil, "" // a literal written in place has no indexed form
			}
		}
	}
	*counter++
	base := *counter
	brkLabel := fmt.Sprintf("L_brk%d", base)
	usedBrk := false
	var out []ast.Stmt
	for k, row := range tbl.rows {
		track := map[ast.Expr]ast.Expr{}
		body := c15Copy(rs.Body, nil, track).(*ast.BlockStmt)
		failed := false
		indexed := func() ast.Expr {
			return &ast.IndexExpr{X: ast.NewIdent(tbl.ident.Name), Index: &ast.BasicLit{Kind: token.INT, Value: strconv.Itoa(k)}}
		}
		astutil.Apply(body, func(cur *astutil.Cursor) bool {
			if failed {
				return false
			}
			switch t := cur.Node().(type) {
			case *ast.FuncLit:
				return false
			case *ast.SelectorExpr:
				orig, _ := track[t].(*ast.SelectorExpr)
				if orig == nil {
					return true
				}
				id, ok := unparen(orig.X).(*ast.Ident)
				if !ok || info.Uses[id] != valObj {
					return true
				}
				if s := info.Selections[orig]; s == nil || s.Kind() != types.FieldVal || len(s.Index()) != 1 {
					// a method of the row, or a promoted field: read through the index
					if tbl.ident == nil {
						failed = true
						return false
					}
					t.X = indexed()
					return false
				}
				fe, known := c01RowField(info, row, tbl.elem, orig.Sel.Name)
				ft := info.TypeOf(orig)
				var rep ast.Expr
				switch {
				case known && fe != nil && stable(fe):
					rep = c01StableCopy(c, pk, file, fe, ft)
				case known && fe == nil:
					rep = c01ZeroExpr(pk, file, ft)
				}
				if rep == nil {
					if tbl.ident == nil {
						failed = true
						return false
					}
					t.X = indexed()
					return false
				}
				cur.Replace(rep)
				return false
			case *ast.Ident:
				orig, _ := track[t].(*ast.Ident)
				if orig == nil {
					return true
				}
				switch {
				case keyObj != nil && info.Uses[orig] == keyObj:
					cur.Replace(&ast.BasicLit{Kind: token.INT, Value: strconv.Itoa(k)})
				case info.Uses[orig] == valObj:
					var rep ast.Expr
					if stable(row) {
						rep = c01StableCopy(c, pk, file, row, tbl.elem)
					}
					if rep == nil {
						if tbl.ident == nil {
							failed = true
							return false
						}
						rep = indexed()
					}
					cur.Replace(rep)
				}
			}
			return true
		}, nil)
		if failed {
			return nil, ""
		}
		contLabel := fmt.Sprintf("L_row%d_%d", base, k)
		usedCont, ub := c01RetargetBranches(body, label, contLabel, brkLabel)
		if ub {
			usedBrk = true
		}
		if usedCont {
			out = append(out, &ast.LabeledStmt{Label: ast.NewIdent(contLabel), Stmt: &ast.SwitchStmt{Body: &ast.BlockStmt{List: []ast.Stmt{&ast.CaseClause{Body: body.List}}}}})
		} else {
			out = append(out, body)
		}
	}
	if usedBrk {
		out = []ast.Stmt{&ast.LabeledStmt{Label: ast.NewIdent(brkLabel), Stmt: &ast.SwitchStmt{Body: &ast.BlockStmt{List: []ast.Stmt{&ast.CaseClause{Body: out}}}}}}
	}
	what := "a literal table"
	if tbl.ident != nil {
		what = "table " + tbl.ident.Name
	}
	return out, fmt.Sprintf("%s (%d rows)", what, len(tbl.rows))
}

// c01UnrollCounted: `for i := 0; i < len(T); i++ { B }` over a literal table T (see c01UnrollOne): one copy of B per
// row with i replaced by its value; T[i] then is a constant-index access (folded by c01FoldConstIndex where stable).
func c01UnrollCounted(c *Ctx, pk *packages.Package, file *ast.File, fd *ast.FuncDecl, fs *ast.ForStmt, label string, counter *int) ([]ast.Stmt, string) {
	info := pk.TypesInfo
	as, ok := fs.Init.(*ast.AssignStmt)
	if !ok || as.Tok != token.DEFINE || len(as.Lhs) != 1 || len(as.Rhs) != 1 {
		return nil, ""
	}
	iid, ok := as.Lhs[0].(*ast.Ident)
	if !ok {
		return nil, ""
	}
	iobj := info.Defs[iid]
	if v, isC := constInt(info, as.Rhs[0]); !isC || v != 0 || iobj == nil {
		return nil, ""
	}
	isI := func(e ast.Expr) bool { id, ok := unparen(e).(*ast.Ident); return ok && info.ObjectOf(id) == iobj }
	be, ok := unparen(fs.Cond).(*ast.BinaryExpr)
	if !ok {
		return nil, ""
	}
	var bound ast.Expr
	switch {
	case (be.Op == token.LSS || be.Op == token.NEQ) && isI(be.X):
		bound = be.Y
	case (be.Op == token.GTR || be.Op == token.NEQ) && isI(be.Y):
		bound = be.X
	default:
		return nil, ""
	}
	call, ok := unparen(bound).(*ast.CallExpr)
	if !ok || len(call.Args) != 1 {
		return nil, ""
	}
	if id, isID := call.Fun.(*ast.Ident); !isID || id.Name != "len" {
		return nil, ""
	} else if _, isB := info.Uses[id].(*types.Builtin); !isB {
		return nil, ""
	}
	tbl := c01ResolveTable(c.P, pk, fd, call.Args[0], true)
	if tbl == nil || tbl.ident == nil {
		return nil, ""
	}
	okPost := false
	switch p := fs.Post.(type) {
	case *ast.IncDecStmt:
		okPost = p.Tok == token.INC && isI(p.X)
	case *ast.AssignStmt:
		if len(p.Lhs) == 1 && len(p.Rhs) == 1 && isI(p.Lhs[0]) {
			if v, isC := constInt(info, p.Rhs[0]); isC && v == 1 && p.Tok == token.ADD_ASSIGN {
				okPost = true
			}
			if b2, ok := unparen(p.Rhs[0]).(*ast.BinaryExpr); ok && p.Tok == token.ASSIGN && b2.Op == token.ADD {
				if v, isC := constInt(info, b2.Y); isC && v == 1 && isI(b2.X) {
					okPost = true
				}
				if v, isC := constInt(info, b2.X); isC && v == 1 && isI(b2.Y) {
					okPost = true
				}
			}
		}
	}
	if !okPost || len(tbl.rows)*c15CountNodes(fs.Body) > 4000 {
		return nil, ""
	}
	okBody := true
	if u := c01VarUses(info, fs.Body)[iobj]; u != nil && (u.writes > 0 || u.escaped) {
		okBody = false
	}
	ast.Inspect(fs.Body, func(n ast.Node) bool {
		switch t := n.(type) {
		case *ast.LabeledStmt:
			okBody = false
		case *ast.BranchStmt:
			if t.Tok == token.GOTO {
				okBody = false
			}
		case *ast.FuncLit:
			ast.Inspect(t, func(m ast.Node) bool {
				if id, ok := m.(*ast.Ident); ok && info.Uses[id] == iobj {
					okBody = false
				}
				return okBody
			})
			return false
		}
		return okBody
	})
	if !okBody {
		return nil, ""
	}
	*counter++
	base := *counter
	brkLabel := fmt.Sprintf("L_brk%d", base)
	usedBrk := false
	var out []ast.Stmt
	for k := range tbl.rows {
		track := map[ast.Expr]ast.Expr{}
		body := c15Copy(fs.Body, nil, track).(*ast.BlockStmt)
		astutil.Apply(body, func(cur *astutil.Cursor) bool {
			if _, isLit := cur.Node().(*ast.FuncLit); isLit {
				return false
			}
			if id, ok := cur.Node().(*ast.Ident); ok {
				if orig, _ := track[id].(*ast.Ident); orig != nil && info.Uses[orig] == iobj {
					cur.Replace(&ast.BasicLit{Kind: token.INT, Value: strconv.Itoa(k)})
				}
			}
			return true
		}, nil)
		contLabel := fmt.Sprintf("L_row%d_%d", base, k)
		usedCont, ub := c01RetargetBranches(body, label, contLabel, brkLabel)
		if ub {
			usedBrk = true
		}
		if usedCont {
			out = append(out, &ast.LabeledStmt{Label: ast.NewIdent(contLabel), Stmt: &ast.SwitchStmt{Body: &ast.BlockStmt{List: []ast.Stmt{&ast.CaseClause{Body: body.List}}}}})
		} else {
			out = append(out, body)
		}
	}
	if usedBrk {
		out = []ast.Stmt{&ast.LabeledStmt{Label: ast.NewIdent(brkLabel), Stmt: &ast.SwitchStmt{Body: &ast.BlockStmt{List: []ast.Stmt{&ast.CaseClause{Body: out}}}}}}
	}
	return out, fmt.Sprintf("table %s by index (%d rows)", tbl.ident.Name, len(tbl.rows))
}

// c01FoldConstIndex replaces T[k] / T[k].f — T a NEW literal table (package level) or a local literal table, k a
// constant — by the row's (field) expression where that expression is stable.
func c01FoldConstIndex(c *Ctx, pk *packages.Package, counter *int, note func(*ast.File, string, ...any)) {
	info := pk.TypesInfo
	for _, f := range pk.Syntax {
		for _, d := range f.Decls {
			fd, ok := d.(*ast.FuncDecl)
			if !ok || fd.Body == nil {
				continue
			}
			n := 0
			rowOf := func(ix *ast.IndexExpr) (*c01Table, ast.Expr) {
				k, ok := constInt(info, ix.Index)
				if !ok || k < 0 {
					return nil, nil
				}
				if _, isID := unparen(ix.X).(*ast.Ident); !isID {
					return nil, nil
				}
				tbl := c01ResolveTable(c.P, pk, fd, ix.X, true)
				if tbl == nil || int(k) >= len(tbl.rows) {
					return nil, nil
				}
				return tbl, tbl.rows[k]
			}
			stable := func(tbl *c01Table, e ast.Expr, at token.Pos) bool {
				var owner *ast.FuncDecl
				if tbl.local {
					owner = fd
				}
				return c01Stable(c, pk, owner, e, 0) && (tbl.file == f || c01ImportsAvailable(info, e, f)) && c01NamesMeanSame(pk, e, at, nil)
			}
			// not the target of a store or of &: such tables are not read-only and c01ResolveTable refuses them
			astutil.Apply(fd.Body, func(cur *astutil.Cursor) bool {
				switch t := cur.Node().(type) {
				case *ast.SelectorExpr:
					ix, ok := unparen(t.X).(*ast.IndexExpr)
					if !ok {
						return true
					}
					s := info.Selections[t]
					if s == nil || s.Kind() != types.FieldVal || len(s.Index()) != 1 {
						return true
					}
					tbl, row := rowOf(ix)
					if tbl == nil {
						return true
					}
					fe, known := c01RowField(info, row, tbl.elem, t.Sel.Name)
					if !known {
						return true
					}
					var rep ast.Expr
					if fe == nil {
						rep = c01ZeroExpr(pk, f, info.TypeOf(t))
					} else if stable(tbl, fe, t.Pos()) {
						rep = c01StableCopy(c, pk, f, fe, info.TypeOf(t))
					}
					if rep != nil {
						cur.Replace(rep)
						n++
						return false
					}
				case *ast.IndexExpr:
					tbl, row := rowOf(t)
					if tbl == nil {
						return true
					}
					if _, isSel := cur.Parent().(*ast.SelectorExpr); isSel {
						return true // handled (or deliberately left) at the selector
					}
					if stable(tbl, row, t.Pos()) {
						if rep := c01StableCopy(c, pk, f, row, tbl.elem); rep != nil {
							cur.Replace(rep)
							n++
							return false
						}
					}
				}
				return true
			}, nil)
			if n > 0 {
				note(f, "%d constant-index reads of literal tables in %s replaced by the rows' expressions", n, c01QualName(fd))
				return
			}
		}
	}
}

// c01RetargetBranches rewrites, in the copied loop body, the continue / break statements that refer to the
// unrolled loop (unlabelled at the right nesting, or carrying the loop's own label) into labelled breaks.
func c01RetargetBranches(body *ast.BlockStmt, loopLabel, contLabel, brkLabel string) (usedCont, usedBrk bool) {
	var visit func(n ast.Node, inLoop, inBreakable bool)
	visit = func(n ast.Node, inLoop, inBreakable bool) {
		ast.Inspect(n, func(x ast.Node) bool {
			if x == nil || x == n {
				return true
			}
			switch t := x.(type) {
			case *ast.FuncLit:
				return false
			case *ast.ForStmt, *ast.RangeStmt:
				visit(x, true, true)
				return false
			case *ast.SwitchStmt, *ast.TypeSwitchStmt, *ast.SelectStmt:
				visit(x, inLoop, true)
				return false
			case *ast.BranchStmt:
				switch t.Tok {
				case token.CONTINUE:
					if (t.Label == nil && !inLoop) || (t.Label != nil && loopLabel != "" && t.Label.Name == loopLabel) {
						t.Tok, t.Label = token.BREAK, ast.NewIdent(contLabel)
						usedCont = true
					}
				case token.BREAK:
					if (t.Label == nil && !inBreakable) || (t.Label != nil && loopLabel != "" && t.Label.Name == loopLabel) {
						t.Label = ast.NewIdent(brkLabel)
						usedBrk = true
					}
				}
			}
			return true
		})
	}
	visit(body, false, false)
	return
}

// ---------------------------------------------------------------------------
// map lookups

func c01ExpandMapLookups(c *Ctx, pk *packages.Package, counter *int, note func(*ast.File, string, ...any)) {
	info := pk.TypesInfo
	for _, f := range pk.Syntax {
		for _, d := range f.Decls {
			fd, ok := d.(*ast.FuncDecl)
			if !ok || fd.Body == nil {
				continue
			}
			done := false
			c01Lists(fd.Body, false, func(list *[]ast.Stmt) {
				if done {
					return
				}
				for i, st := range *list {
					ifs, ok := st.(*ast.IfStmt)
					if !ok || ifs.Init == nil {
						continue
					}
					as, ok := ifs.Init.(*ast.AssignStmt)
					if !ok || as.Tok != token.DEFINE || len(as.Lhs) != 2 || len(as.Rhs) != 1 {
						continue
					}
					ix, ok := unparen(as.Rhs[0]).(*ast.IndexExpr)
					if !ok {
						continue
					}
					vID, ok1 := as.Lhs[0].(*ast.Ident)
					okID, ok2 := as.Lhs[1].(*ast.Ident)
					if !ok1 || !ok2 || okID.Name == "_" {
						continue
					}
					okObj := info.Defs[okID]
					// the condition is `ok` or `!ok`
					cond := unparen(ifs.Cond)
					neg := false
					if u, isU := cond.(*ast.UnaryExpr); isU && u.Op == token.NOT {
						neg, cond = true, unparen(u.X)
					}
					cid, isID := cond.(*ast.Ident)
					if !isID || okObj == nil || info.Uses[cid] != okObj {
						continue
					}
					mid, isID := unparen(ix.X).(*ast.Ident)
					if !isID {
						continue
					}
					mv, isVar := info.ObjectOf(mid).(*types.Var)
					if !isVar || mv.Pkg() != pk.Types || mv.Parent() != pk.Types.Scope() || c01RefVars[mv.Name()] {
						continue
					}
					mt, isMap := mv.Type().Underlying().(*types.Map)
					if !isMap {
						continue
					}
					lit := c.P.ReadOnlyTable(mv)
					if lit == nil || c01PkgVarWritten(pk, mv) || len(lit.Elts) == 0 || len(lit.Elts) > c01MaxRows {
						continue
					}
					// branches
					found, missing := ast.Stmt(ifs.Body), ifs.Else
					if neg {
						found, missing = ifs.Else, ast.Stmt(ifs.Body)
					}
					okAll := true
					seenKeys := map[string]bool{}
					for _, el := range lit.Elts {
						kv, isKV := el.(*ast.KeyValueExpr)
						if !isKV {
							okAll = false
							break
						}
						tv := info.Types[kv.Key]
						if tv.Value == nil || seenKeys[tv.Value.ExactString()] {
							okAll = false
							break
						}
						seenKeys[tv.Value.ExactString()] = true
						if !c01Stable(c, pk, nil, kv.Value, 0) || !c01Stable(c, pk, nil, kv.Key, 0) {
							okAll = false
							break
						}
						lf := c01FileOf(pk, lit)
						if lf != f && (!c01ImportsAvailable(info, kv.Value, f) || !c01ImportsAvailable(info, kv.Key, f)) {
							okAll = false
							break
						}
						if !c01NamesMeanSame(pk, kv.Value, ifs.Body.Pos(), ifs) || !c01NamesMeanSame(pk, kv.Key, ifs.Body.Pos(), ifs) {
							okAll = false
							break
						}
					}
					// an unlabelled break in a branch would bind to the new switch; `ok` may only be the condition
					for _, br := range []ast.Stmt{found, missing} {
						if br == nil {
							continue
						}
						if c15HasFreeBreak(br) {
							okAll = false
						}
						ast.Inspect(br, func(n ast.Node) bool {
							if id, isID := n.(*ast.Ident); isID && info.Uses[id] == okObj {
								okAll = false
							}
							if _, isL := n.(*ast.LabeledStmt); isL {
								okAll = false
							}
							return okAll
						})
					}
					if !okAll {
						continue
					}
					vt := mt.Elem()
					vte := c01TypeExpr(pk, f, vt)
					if vte == nil {
						continue
					}
					sw := &ast.SwitchStmt{Tag: c15Copy(ix.Index, nil).(ast.Expr), Body: &ast.BlockStmt{}}
					bad := false
					for _, el := range lit.Elts {
						kv := el.(*ast.KeyValueExpr)
						key := c01StableCopy(c, pk, f, kv.Key, mt.Key())
						val := c01StableCopy(c, pk, f, kv.Value, vt)
						if key == nil || val == nil {
							bad = true
							break
						}
						var body []ast.Stmt
						if vID.Name != "_" {
							body = append(body,
								&ast.DeclStmt{Decl: &ast.GenDecl{Tok: token.VAR, Specs: []ast.Spec{&ast.ValueSpec{Names: []*ast.Ident{ast.NewIdent(vID.Name)}, Type: c15Copy(vte, nil).(ast.Expr), Values: []ast.Expr{val}}}}},
								&ast.AssignStmt{Lhs: []ast.Expr{ast.NewIdent("_")}, Tok: token.ASSIGN, Rhs: []ast.Expr{ast.NewIdent(vID.Name)}})
						}
						if found != nil {
							body = append(body, c15Copy(found, nil).(ast.Stmt))
						}
						sw.Body.List = append(sw.Body.List, &ast.CaseClause{List: []ast.Expr{key}, Body: body})
					}
					if bad {
						continue
					}
					if missing != nil {
						var body []ast.Stmt
						if vID.Name != "_" {
							body = append(body,
								&ast.DeclStmt{Decl: &ast.GenDecl{Tok: token.VAR, Specs: []ast.Spec{&ast.ValueSpec{Names: []*ast.Ident{ast.NewIdent(vID.Name)}, Type: c15Copy(vte, nil).(ast.Expr)}}}},
								&ast.AssignStmt{Lhs: []ast.Expr{ast.NewIdent("_")}, Tok: token.ASSIGN, Rhs: []ast.Expr{ast.NewIdent(vID.Name)}})
						}
						body = append(body, c15Copy(missing, nil).(ast.Stmt))
						sw.Body.List = append(sw.Body.List, &ast.CaseClause{Body: body})
					}
					(*list)[i] = sw
					note(f, "lookup in table %s in %s expanded into a switch", mv.Name(), c01QualName(fd))
					done = true
					return
				}
			})
			if done {
				return
			}
		}
	}
}

// ---------------------------------------------------------------------------
// stability of a package-level variable during one execution of a function

// c01WrittenDuring: can the package-level variable v be written while fd runs? Writers are the declared functions
// that assign it (a write inside a function literal, or taking its address, makes it writable from anywhere).
// What runs while fd runs: the functions fd reaches by static calls and — as soon as anything on the way makes a
// call that is not statically bound to a function of this package (function values, interface methods, other
// packages that may call back) — every function of the package that is ever used as a value and every method
// whose name some interface of the repository declares, with what those reach.
func c01WrittenDuring(c *Ctx, pk *packages.Package, fd *ast.FuncDecl, v *types.Var) bool {
	if v.Exported() {
		return true
	}
	info := pk.TypesInfo
	return c01TargetWrittenDuring(c, pk, fd, func(lhs ast.Expr) bool { return rootObj(info, lhs) == types.Object(v) })
}

// c01FieldWrittenDuring: the same question for a struct field of a type of this package: a store to the field
// itself, to a struct value that contains it, or through a pointer to such a struct (`*p = T{}`) counts.
func c01FieldWrittenDuring(c *Ctx, pk *packages.Package, fd *ast.FuncDecl, field *types.Var) bool {
	if field.Exported() || field.Pkg() != pk.Types {
		return true
	}
	info := pk.TypesInfo
	var contains func(t types.Type, depth int) bool
	contains = func(t types.Type, depth int) bool {
		if depth > 4 || t == nil {
			return false
		}
		st, ok := t.Underlying().(*types.Struct)
		if !ok {
			if arr, isArr := t.Underlying().(*types.Array); isArr {
				return contains(arr.Elem(), depth+1)
			}
			return false
		}
		for i := 0; i < st.NumFields(); i++ {
			if st.Field(i) == field || contains(st.Field(i).Type(), depth+1) {
				return true
			}
		}
		return false
	}
	return c01TargetWrittenDuring(c, pk, fd, func(lhs ast.Expr) bool {
		lhs = unparen(lhs)
		if sel, ok := lhs.(*ast.SelectorExpr); ok {
			if s := info.Selections[sel]; s != nil && s.Obj() == types.Object(field) {
				return true
			}
		}
		if id, ok := lhs.(*ast.Ident); ok && id.Name == "_" {
			return false
		}
		return contains(info.TypeOf(lhs), 0)
	})
}

// c01TargetWrittenDuring: can a store whose target satisfies isTarget happen while fd runs? (See c01WrittenDuring.)
func c01TargetWrittenDuring(c *Ctx, pk *packages.Package, fd *ast.FuncDecl, isTarget func(lhs ast.Expr) bool) bool {
	info := pk.TypesInfo
	decls := map[*types.Func]*ast.FuncDecl{}
	for _, f := range pk.Syntax {
		for _, d := range f.Decls {
			if x, ok := d.(*ast.FuncDecl); ok && x.Body != nil {
				if o, ok := info.Defs[x.Name].(*types.Func); ok {
					decls[o] = x
				}
			}
		}
	}
	// writers
	writers := map[*ast.FuncDecl]bool{}
	anywhere := false
	for _, x := range decls {
		var visit func(n ast.Node, inLit bool)
		visit = func(n ast.Node, inLit bool) {
			ast.Inspect(n, func(m ast.Node) bool {
				if m == nil || anywhere {
					return false
				}
				if lit, ok := m.(*ast.FuncLit); ok && m != n {
					visit(lit.Body, true)
					return false
				}
				hit := func(e ast.Expr) {
					if isTarget(e) {
						if inLit {
							anywhere = true
						} else {
							writers[x] = true
						}
					}
				}
				switch t := m.(type) {
				case *ast.AssignStmt:
					for _, l := range t.Lhs {
						hit(l)
					}
				case *ast.IncDecStmt:
					hit(t.X)
				case *ast.RangeStmt:
					if t.Tok == token.ASSIGN {
						if t.Key != nil {
							hit(t.Key)
						}
						if t.Value != nil {
							hit(t.Value)
						}
					}
				case *ast.UnaryExpr:
					if t.Op == token.AND {
						if _, isLit := unparen(t.X).(*ast.CompositeLit); !isLit && isTarget(t.X) {
							anywhere = true
						}
					}
				}
				return true
			})
		}
		visit(x.Body, false)
	}
	// package-level initialisers run before any function
	if anywhere {
		return true
	}
	if len(writers) == 0 {
		return false
	}
	// reachability
	seen := map[*ast.FuncDecl]bool{}
	dynamic := false
	var visit func(x *ast.FuncDecl)
	visit = func(x *ast.FuncDecl) {
		if x == nil || seen[x] {
			return
		}
		seen[x] = true
		ast.Inspect(x.Body, func(m ast.Node) bool {
			call, ok := m.(*ast.CallExpr)
			if !ok {
				return true
			}
			if tv, isT := info.Types[call.Fun]; isT && tv.IsType() {
				return true
			}
			if id, isID := unparen(call.Fun).(*ast.Ident); isID {
				if _, isB := info.Uses[id].(*types.Builtin); isB {
					return true
				}
			}
			fn := calleeOf(info, call)
			if d := decls[fn]; fn != nil && d != nil {
				visit(d)
				return true
			}
			if fn != nil && fn.Pkg() != nil && !strings.HasPrefix(fn.Pkg().Path(), modPath) {
				// a function of another module (standard library, uniseg ...): it can reach this package only
				// through a value it is handed; interface values are covered below when it takes one
				sig, _ := fn.Type().(*types.Signature)
				takesCallable := false
				if sig != nil {
					for i := 0; i < sig.Params().Len(); i++ {
						switch sig.Params().At(i).Type().Underlying().(type) {
						case *types.Signature, *types.Interface:
							takesCallable = true
						case *types.Slice:
							if sl := sig.Params().At(i).Type().Underlying().(*types.Slice); sl != nil {
								if _, isI := sl.Elem().Underlying().(*types.Interface); isI {
									takesCallable = true
								}
							}
						}
					}
				}
				if takesCallable {
					dynamic = true
				}
				return true
			}
			dynamic = true
			return true
		})
	}
	visit(fd)
	if dynamic {
		ifaceNames := map[string]bool{}
		for _, q := range c.P.All {
			if q.TypesInfo == nil {
				continue
			}
			for _, tv := range q.TypesInfo.Types {
				if it, ok := tv.Type.Underlying().(*types.Interface); ok && tv.IsType() {
					for i := 0; i < it.NumMethods(); i++ {
						ifaceNames[it.Method(i).Name()] = true
					}
				}
			}
		}
		// well-known interfaces of the standard library the package's types are used through
		for _, n := range []string{"Write", "Read", "String", "Error", "Close", "Len", "Less", "Swap"} {
			ifaceNames[n] = true
		}
		asValue := map[*types.Func]bool{}
		for _, f := range pk.Syntax {
			var stack []ast.Node
			ast.Inspect(f, func(n ast.Node) bool {
				if n == nil {
					stack = stack[:len(stack)-1]
					return true
				}
				stack = append(stack, n)
				id, ok := n.(*ast.Ident)
				if !ok {
					return true
				}
				fn, ok := info.Uses[id].(*types.Func)
				if !ok || decls[fn] == nil {
					return true
				}
				// the callee position of a call is not a use as a value
				k := len(stack) - 2
				var child ast.Node = id
				if k >= 0 {
					if sel, isSel := stack[k].(*ast.SelectorExpr); isSel && sel.Sel == id {
						child = sel
						k--
					}
				}
				for k >= 0 {
					if p, isP := stack[k].(*ast.ParenExpr); isP {
						child = p
						k--
						continue
					}
					break
				}
				if k >= 0 {
					if call, isCall := stack[k].(*ast.CallExpr); isCall && call.Fun == child {
						return true
					}
				}
				asValue[fn] = true
				return true
			})
		}
		for fn, d := range decls {
			if asValue[fn] || (d.Recv != nil && ifaceNames[d.Name.Name]) {
				visit(d)
			}
		}
	}
	for w := range writers {
		if seen[w] {
			return true
		}
	}
	return false
}

// ---------------------------------------------------------------------------
// fields of local struct literals

// c01PropagateStructFields replaces x.f — x a local struct defined once by a composite literal and never modified
// (or a pointer defined once as its address and only read through) — by the literal's expression for f when that
// expression is stable during the function, or by the zero value when the literal leaves f out.
func c01PropagateStructFields(c *Ctx, pk *packages.Package, counter *int, note func(*ast.File, string, ...any)) {
	info := pk.TypesInfo
	for _, f := range pk.Syntax {
		for _, d := range f.Decls {
			fd, ok := d.(*ast.FuncDecl)
			if !ok || fd.Body == nil {
				continue
			}
			lits := structLitsOf(info, fd)
			if len(lits) == 0 {
				continue
			}
			// only literals of NEW types or in new code matter; on the reference tree nothing qualifies because the
			// rewrite is restricted to struct types the reference tree does not declare
			n := 0
			astutil.Apply(fd.Body, func(cur *astutil.Cursor) bool {
				sel, ok := cur.Node().(*ast.SelectorExpr)
				if !ok {
					return true
				}
				s := info.Selections[sel]
				if s == nil || s.Kind() != types.FieldVal || len(s.Index()) != 1 {
					return true
				}
				var id *ast.Ident
				switch x := unparen(sel.X).(type) {
				case *ast.Ident:
					id = x
				case *ast.StarExpr:
					id, _ = unparen(x.X).(*ast.Ident)
				}
				if id == nil {
					return true
				}
				v, _ := info.Uses[id].(*types.Var)
				lit := lits[v]
				if v == nil || lit == nil || !c01IsNewType(pk, info.TypeOf(lit)) {
					return true
				}
				// not the target of a store (excluded by structLitsOf) — but a selector that is itself selected from
				// (x.f.g) is replaced as a whole at x.f
				fe, known := c01RowField(info, lit, info.TypeOf(lit), sel.Sel.Name)
				if !known {
					return true
				}
				var rep ast.Expr
				if fe == nil {
					rep = c01ZeroExpr(pk, f, info.TypeOf(sel))
				} else if c01Stable(c, pk, fd, fe, 0) && c01NamesMeanSame(pk, fe, sel.Pos(), nil) && (c01FileOf(pk, lit) == f || c01ImportsAvailable(info, fe, f)) {
					rep = c01StableCopy(c, pk, f, fe, info.TypeOf(sel))
				}
				if rep == nil {
					return true
				}
				cur.Replace(rep)
				n++
				return false
			}, nil)
			if n > 0 {
				note(f, "%d field reads of local struct literals in %s replaced by the literals' expressions", n, c01QualName(fd))
				return
			}
		}
	}
}

// c01IsNewType: a named struct type of package vaxis that the reference tree does not declare (or an unnamed one).
func c01IsNewType(pk *packages.Package, t types.Type) bool {
	if p, ok := t.(*types.Pointer); ok {
		t = p.Elem()
	}
	n, ok := t.(*types.Named)
	if !ok {
		return true
	}
	return n.Obj().Pkg() == pk.Types && !c01RefTypes[n.Obj().Name()]
}
