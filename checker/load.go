package main

import (
	"fmt"
	"go/ast"
	"go/token"
	"go/types"
	"os"
	"sort"
	"strings"

	"golang.org/x/tools/go/packages"
	"golang.org/x/tools/go/ssa"
	"golang.org/x/tools/go/ssa/ssautil"
)

const modPath = "git.sr.ht/~rockorager/vaxis"

// Program is the type-checked view of the repository under analysis.
type Program struct {
	Repo  string
	GOOS  string
	Fset  *token.FileSet
	Pkgs  map[string]*packages.Package // by import path (repository packages only)
	All   []*packages.Package
	SSA   *ssa.Program
	SSAPk map[string]*ssa.Package

	funcIndex map[string]*FuncInfo
	parents   map[*packages.Package]map[ast.Node]ast.Node
	graphs    map[*ast.BlockStmt]*FG
	tables    map[*types.Var]*ast.CompositeLit
}

// FuncInfo describes one source function (declared function or method).
type FuncInfo struct {
	Pkg  *packages.Package
	Decl *ast.FuncDecl
	Obj  *types.Func
	Name string // pkgpath-relative qualified name: "vaxis.(*Vaxis).render", "term.(*Model).cup"
}

func env(goos string) []string {
	e := []string{}
	for _, kv := range os.Environ() {
		if strings.HasPrefix(kv, "GOWORK=") || strings.HasPrefix(kv, "GOFLAGS=") ||
			strings.HasPrefix(kv, "GOPROXY=") || strings.HasPrefix(kv, "GOSUMDB=") ||
			strings.HasPrefix(kv, "GOTOOLCHAIN=") || strings.HasPrefix(kv, "GOOS=") ||
			strings.HasPrefix(kv, "GOARCH=") {
			continue
		}
		e = append(e, kv)
	}
	e = append(e, "GOFLAGS=-mod=mod -trimpath", "GOPROXY=off", "GOSUMDB=off", "GOTOOLCHAIN=local", "GOWORK=off", "CGO_ENABLED=0")
	if goos != "" {
		e = append(e, "GOOS="+goos, "GOARCH=amd64")
	}
	return e
}

// Load type-checks ./... of the repository. With needSSA the whole program
// (dependencies included) is loaded from source and SSA is built.
func Load(repo, goos string, needSSA bool) (*Program, error) {
	mode := packages.NeedName | packages.NeedFiles | packages.NeedCompiledGoFiles | packages.NeedImports |
		packages.NeedTypes | packages.NeedTypesSizes | packages.NeedSyntax | packages.NeedTypesInfo | packages.NeedModule
	if needSSA {
		mode |= packages.NeedDeps
	}
	fset := token.NewFileSet()
	cfg := &packages.Config{Mode: mode, Dir: repo, Env: env(goos), Fset: fset, Tests: false}
	pkgs, err := packages.Load(cfg, "./...")
	if err != nil {
		return nil, fmt.Errorf("LOAD: %v", err)
	}
	if len(pkgs) == 0 {
		return nil, fmt.Errorf("LOAD: zero packages matched ./... in %s", repo)
	}
	p := &Program{Repo: repo, GOOS: goos, Fset: fset, Pkgs: map[string]*packages.Package{}, funcIndex: map[string]*FuncInfo{},
		parents: map[*packages.Package]map[ast.Node]ast.Node{}}
	var errs []string
	skipped := []string{}
	for _, pk := range pkgs {
		if len(pk.Errors) > 0 {
			// Packages that do not build for a non-native GOOS upstream are skipped, not failed.
			if goos == "windows" && strings.HasSuffix(pk.PkgPath, "widgets/term") {
				skipped = append(skipped, pk.PkgPath)
				continue
			}
			for _, e := range pk.Errors {
				errs = append(errs, e.Error())
			}
			continue
		}
		p.Pkgs[pk.PkgPath] = pk
		p.All = append(p.All, pk)
	}
	if len(errs) > 0 {
		sort.Strings(errs)
		if len(errs) > 8 {
			errs = errs[:8]
		}
		return nil, fmt.Errorf("LOAD: type errors: %s", strings.Join(errs, " | "))
	}
	if _, ok := p.Pkgs[modPath]; !ok {
		return nil, fmt.Errorf("LOAD: root package %s not found among %d packages", modPath, len(pkgs))
	}
	sort.Slice(p.All, func(i, j int) bool { return p.All[i].PkgPath < p.All[j].PkgPath })
	for _, pk := range p.All {
		for _, f := range pk.Syntax {
			for _, d := range f.Decls {
				fd, ok := d.(*ast.FuncDecl)
				if !ok {
					continue
				}
				obj, _ := pk.TypesInfo.Defs[fd.Name].(*types.Func)
				if obj == nil {
					continue
				}
				name := shortPkg(pk.PkgPath) + "." + funcDeclName(fd)
				p.funcIndex[name] = &FuncInfo{Pkg: pk, Decl: fd, Obj: obj, Name: name}
			}
		}
	}
	if needSSA {
		prog, spkgs := ssautil.AllPackages(pkgs, ssa.InstantiateGenerics)
		prog.Build()
		p.SSA = prog
		p.SSAPk = map[string]*ssa.Package{}
		for i, sp := range spkgs {
			if sp != nil {
				p.SSAPk[pkgs[i].PkgPath] = sp
			}
		}
	}
	return p, nil
}

// shortPkg maps an import path of the repository to a short stable name.
func shortPkg(path string) string {
	if path == modPath {
		return "vaxis"
	}
	return strings.TrimPrefix(path, modPath+"/")
}

func funcDeclName(fd *ast.FuncDecl) string {
	if fd.Recv == nil || len(fd.Recv.List) == 0 {
		return fd.Name.Name
	}
	t := fd.Recv.List[0].Type
	star := ""
	if s, ok := t.(*ast.StarExpr); ok {
		t = s.X
		star = "*"
	}
	if ix, ok := t.(*ast.IndexExpr); ok {
		t = ix.X
	}
	id, _ := t.(*ast.Ident)
	n := "?"
	if id != nil {
		n = id.Name
	}
	if star != "" {
		return "(*" + n + ")." + fd.Name.Name
	}
	return n + "." + fd.Name.Name
}

// Func returns the named function ("vaxis.(*Vaxis).render") or nil.
func (p *Program) Func(name string) *FuncInfo { return p.funcIndex[name] }

// FuncsIn lists source functions of a package (short name), sorted.
func (p *Program) FuncsIn(short string) []*FuncInfo {
	var out []*FuncInfo
	for n, f := range p.funcIndex {
		if strings.HasPrefix(n, short+".") && shortPkg(f.Pkg.PkgPath) == short {
			out = append(out, f)
		}
	}
	sort.Slice(out, func(i, j int) bool { return out[i].Name < out[j].Name })
	return out
}

func (p *Program) AllFuncs() []*FuncInfo {
	var out []*FuncInfo
	for _, f := range p.funcIndex {
		out = append(out, f)
	}
	sort.Slice(out, func(i, j int) bool { return out[i].Name < out[j].Name })
	return out
}

func (p *Program) Pkg(short string) *packages.Package {
	if short == "vaxis" {
		return p.Pkgs[modPath]
	}
	return p.Pkgs[modPath+"/"+short]
}

// Pos renders a position relative to the repository root.
func (p *Program) Pos(pos token.Pos) string {
	if !pos.IsValid() {
		return "-"
	}
	ps := p.Fset.Position(pos)
	f := strings.TrimPrefix(ps.Filename, p.Repo+"/")
	return fmt.Sprintf("%s:%d:%d", f, ps.Line, ps.Column)
}

// FuncOfObj finds the FuncInfo for a types.Func declared in the repository.
func (p *Program) FuncOfObj(fn *types.Func) *FuncInfo {
	if fn == nil || fn.Pkg() == nil {
		return nil
	}
	for _, fi := range p.funcIndex {
		if fi.Obj == fn {
			return fi
		}
	}
	// generic origin
	if o := fn.Origin(); o != fn {
		return p.FuncOfObj(o)
	}
	return nil
}

// Parents returns (building lazily) the child->parent map of a package's syntax.
func (p *Program) Parents(pk *packages.Package) map[ast.Node]ast.Node {
	if m, ok := p.parents[pk]; ok {
		return m
	}
	m := map[ast.Node]ast.Node{}
	for _, f := range pk.Syntax {
		var stack []ast.Node
		ast.Inspect(f, func(n ast.Node) bool {
			if n == nil {
				stack = stack[:len(stack)-1]
				return true
			}
			if len(stack) > 0 {
				m[n] = stack[len(stack)-1]
			}
			stack = append(stack, n)
			return true
		})
	}
	p.parents[pk] = m
	return m
}

// ReadOnlyTable returns the composite literal a package-level variable is initialised with, provided the
// variable is never assigned, never has an element stored or deleted, and never has its address taken
// anywhere in its package (so the literal IS its value at every use). nil otherwise.
func (p *Program) ReadOnlyTable(obj *types.Var) *ast.CompositeLit {
	if p.tables == nil {
		p.tables = map[*types.Var]*ast.CompositeLit{}
	}
	if l, ok := p.tables[obj]; ok {
		return l
	}
	p.tables[obj] = nil
	var pk *packages.Package
	for _, q := range p.Pkgs {
		if q.Types == obj.Pkg() {
			pk = q
		}
	}
	if pk == nil {
		return nil
	}
	var lit *ast.CompositeLit
	written := false
	parents := p.Parents(pk)
	for _, f := range pk.Syntax {
		ast.Inspect(f, func(n ast.Node) bool {
			switch t := n.(type) {
			case *ast.ValueSpec:
				for i, nm := range t.Names {
					if pk.TypesInfo.Defs[nm] == obj && i < len(t.Values) && len(t.Values) == len(t.Names) {
						if cl, ok := t.Values[i].(*ast.CompositeLit); ok {
							lit = cl
						}
					}
				}
			case *ast.Ident:
				if pk.TypesInfo.Uses[t] != obj {
					return true
				}
				// the only uses allowed: T[k] read, len(T), range T
				var child ast.Node = t
				par := parents[child]
				for {
					if pe, ok := par.(*ast.ParenExpr); ok {
						child, par = pe, parents[pe]
						continue
					}
					break
				}
				switch pt := par.(type) {
				case *ast.IndexExpr:
					if pt.X != child {
						return true // used as an index value: a read
					}
					// T[k]: must not be an assignment target / inc-dec / address-of operand
					switch gp := parents[pt].(type) {
					case *ast.AssignStmt:
						for _, l := range gp.Lhs {
							if l == ast.Expr(pt) {
								written = true
							}
						}
					case *ast.IncDecStmt:
						written = true
					case *ast.UnaryExpr:
						if gp.Op == token.AND {
							written = true
						}
					}
				case *ast.RangeStmt:
					if pt.X != child {
						written = true
					}
				case *ast.CallExpr:
					if id, ok := pt.Fun.(*ast.Ident); !ok || id.Name != "len" {
						written = true // passed to a function (may be mutated there)
					}
				default:
					written = true
				}
			}
			return true
		})
	}
	if written || lit == nil {
		return nil
	}
	p.tables[obj] = lit
	return lit
}

// CallersOf returns the repository functions containing a static call of fi (function literals count for
// their enclosing declaration) and whether fi is also used as a value (method value, func argument).
func (p *Program) CallersOf(fi *FuncInfo) (callers []*FuncInfo, asValue bool) {
	seen := map[*FuncInfo]bool{}
	for _, f := range p.funcIndex {
		if f.Decl.Body == nil {
			continue
		}
		info := f.Pkg.TypesInfo
		calledIdents := map[*ast.Ident]bool{}
		ast.Inspect(f.Decl.Body, func(n ast.Node) bool {
			if call, ok := n.(*ast.CallExpr); ok {
				switch fun := unparen(call.Fun).(type) {
				case *ast.Ident:
					calledIdents[fun] = true
				case *ast.SelectorExpr:
					calledIdents[fun.Sel] = true
				}
			}
			return true
		})
		ast.Inspect(f.Decl.Body, func(n ast.Node) bool {
			id, ok := n.(*ast.Ident)
			if !ok || info.Uses[id] != types.Object(fi.Obj) {
				return true
			}
			if calledIdents[id] {
				if !seen[f] {
					seen[f] = true
					callers = append(callers, f)
				}
			} else {
				asValue = true
			}
			return true
		})
	}
	return
}
